(* Model of toasty/pyramid.py PyramidIO.update_image (422-441): a read-modify-write
   of one tile file under filelock.SoftFileLock(tile_path(pos) + ".lock").

     with SoftFileLock(p + ".lock"):            TryAcq  (atomic O_CREAT|O_EXCL; retried)
         img = self.read_image(pos, ...)        Read    (missing file -> default/masked)
         yield img                              (caller modifies img in memory)
         self.write_image(pos, img, ...)        WBegin .. WEnd  (the file is written in
                                                 place: in between it is Partial)
                                                Release (unlink the lock file)

   The lock key is the tile's default-format path, so all updaters of one
   position share one lock whatever `format=` they pass (pyramid.py:430).
   Tile contents are an abstract type T; every updater u has an arbitrary update
   function.  Definitions only. *)
From Coq Require Import List Arith Bool.
Import ListNotations.

Section Lock.
  Context {T : Type}.
  Variable dflt : T.                   (* what a missing tile reads as *)
  Variable masked : T -> bool.         (* is_completely_masked: such tiles are unlinked, not written *)
  Variable fs : list (T -> T).         (* updater u applies [nth u fs id] *)

  Inductive fstate := FAbsent | FWhole (t : T) | FPartial.

  Inductive upc :=
  | UIdle                              (* before / retrying acquire *)
  | UHolding                           (* lock acquired, about to read *)
  | URead (seen : option T)            (* read done; None = saw a partial file *)
  | UWriting (t : T)                   (* write in progress *)
  | UWritten                           (* write complete, about to release *)
  | UDone.

  Inductive lact := TryAcq (u : nat) | Read (u : nat) | WBegin (u : nat) | WEnd (u : nat) | Release (u : nat).

  Record lstate := mkL {
    lock : option nat;
    file : fstate;
    us : list upc;
    order : list nat                   (* acquisition order, newest first *)
  }.

  Definition linit (file0 : fstate) : lstate := mkL None file0 (repeat UIdle (length fs)) [].

  Definition setu (l : list upc) (u : nat) (x : upc) : list upc := firstn u l ++ x :: skipn (S u) l.

  Definition fn (u : nat) : T -> T := nth u fs (fun t => t).

  Definition content (f : fstate) : option T :=
    match f with FAbsent => Some dflt | FWhole t => Some t | FPartial => None end.

  Definition lenabled (s : lstate) (a : lact) : bool :=
    match a with
    | TryAcq u => match nth_error (us s) u with Some UIdle => true | _ => false end
    | Read u => match nth_error (us s) u with Some UHolding => true | _ => false end
    | WBegin u => match nth_error (us s) u with Some (URead _) => true | _ => false end
    | WEnd u => match nth_error (us s) u with Some (UWriting _) => true | _ => false end
    | Release u => match nth_error (us s) u with Some UWritten => true | _ => false end
    end.

  Definition lstep (s : lstate) (a : lact) : lstate :=
    if negb (lenabled s a) then s else
    match a with
    | TryAcq u =>
        match lock s with
        | None => mkL (Some u) (file s) (setu (us s) u UHolding) (u :: order s)
        | Some _ => s                                  (* lock file exists: retry later *)
        end
    | Read u => mkL (lock s) (file s) (setu (us s) u (URead (content (file s)))) (order s)
    | WBegin u =>
        match nth_error (us s) u with
        | Some (URead seen) =>
            let t := match seen with Some t => t | None => dflt end in
            mkL (lock s) FPartial (setu (us s) u (UWriting (fn u t))) (order s)
        | _ => s
        end
    | WEnd u =>
        match nth_error (us s) u with
        | Some (UWriting t) =>
            mkL (lock s) (if masked t then FAbsent else FWhole t) (setu (us s) u UWritten) (order s)
        | _ => s
        end
    | Release u => mkL None (file s) (setu (us s) u UDone) (order s)
    end.

  Definition lrun (s : lstate) (l : list lact) : lstate := fold_left lstep l s.

  (* a failed acquisition attempt changes nothing *)
  Definition lpolling (s : lstate) (a : lact) : bool :=
    match a, lock s with TryAcq _, Some _ => true | _, _ => false end.

  Definition all_done (s : lstate) : bool :=
    forallb (fun x => match x with UDone => true | _ => false end) (us s).

  (* the updates applied one after another, oldest acquisition first *)
  Definition apply_order (t0 : T) (ord : list nat) : T :=
    fold_right (fun u t => fn u t) t0 ord.

  (* the same protocol WITHOUT the lock (every TryAcq succeeds), for contrast *)
  Definition lstep_nolock (s : lstate) (a : lact) : lstate :=
    match a with
    | TryAcq u => if lenabled s a then mkL (lock s) (file s) (setu (us s) u UHolding) (u :: order s) else s
    | _ => lstep s a
    end.
End Lock.
