(* Model of toasty/collection.py: which HDU and which WCS key each input file
   contributes (property C20).  Definitions only.

   Source anchors (collection.py):
     SimpleFitsCollection.__init__      136-140
     SimpleFitsCollection._scan_hdus    142-174   -> select_hdu, select_key, scan_one
     SimpleFitsCollection.export_simple 176-179   -> export_simple
     SimpleFitsCollection._load         181-274   -> load_item, load_coll
     descriptions / images              276-280
     CollectionLoader.create_from_args  426-492   -> parse_hdu_arg, parse_wcs_arg, cli_view
     CollectionLoader.load_paths        494-516
     load                               519-562   -> api_load
   toasty/__init__.py tile_fits 23-96 forwards hdu_index/wcs_key to collection.load.
   toasty/cli.py: `view` (883-954) uses CollectionLoader.create_from_args;
   `tile-multi-tan` (464-511) declares --hdu-index type=int default=0 and
   --wcs-key default " " and calls SimpleFitsCollection directly -> cli_mtan.

   A FITS file is the list of its HDUs.  An HDU is abstracted to what the code
   looks at: its Python class (image-like / BinTableHDU / ASCII TableHDU), its
   numpy shape ([] = no data), the WCS solutions present (key character ->
   an integer tag standing for that solution, CRVAL in the correspondence), and
   a tag identifying its pixel data.  Out of scope (stated in the check's
   assumptions): data cubes (the celestial-subsetting path 228-247), the DASCH
   PV1_5 header hack (191-208), blankval. *)
From Coq Require Import List ZArith NArith Bool Ascii Decimal.
Import ListNotations.
Local Open Scope Z_scope.

(* exception classes the code can end in *)
Inductive err :=
| EIndex      (* IndexError: HDU index or per-file list position out of range *)
| EKey        (* KeyError: HDUList indexed by a non-integer / WCS key not in header *)
| ENoImage    (* "Did not find any HDU with image data" (selected HDU is a BinTableHDU) *)
| EValue      (* ValueError: WCS key is not ' ' or 'A'-'Z' *)
| ENot2D      (* "WCS cannot be reduced to 2D celestial" *)
| ENoShape    (* AttributeError: TableHDU has no attribute 'shape' *)
| ENoData     (* AttributeError: hdu.data is None (images() on a data-less HDU) *)
| EUnbound    (* UnboundLocalError: HDU list empty (not a FITS file) *)
| EParse      (* command-line option rejected *)
| EOther.     (* anything else; never produced by the model *)

Inductive res (A : Type) := Ok (a : A) | Err (e : err).
Arguments Ok {A} a.
Arguments Err {A} e.

Definition str := list ascii.

Inductive hkind := KImage | KBinTable | KAsciiTable.

Record hdu := mkHdu {
  h_kind : hkind;
  h_shape : list N;            (* numpy order; [] for an HDU without data *)
  h_wcs : list (ascii * Z);    (* WCS solutions present: key -> tag *)
  h_uid : Z }.                 (* identifies the pixel data *)

Definition fitsfile := list hdu.

(* SimpleFitsCollection(paths, hdu_index=..., wcs_key=...) *)
Inductive hdu_sel := HNone | HScalar (i : Z) | HList (l : list Z).
Inductive wcs_sel := WNone | WScalar (k : str) | WList (l : list str).

(* Python sequence indexing with an int: negative counts from the end,
   IndexError (None) when out of range.  astropy's HDUList.__getitem__ behaves
   the same way for ints. *)
Definition py_index {A} (l : list A) (i : Z) : option A :=
  let n := Z.of_nat (length l) in
  let j := if i <? 0 then n + i else i in
  if (j <? 0) || (n <=? j) then None else nth_error l (Z.to_nat j).

Definition is_bintable (h : hdu) : bool :=
  match h_kind h with KBinTable => true | _ => false end.

(* hasattr(hdu, "shape"): image-like HDU classes only *)
Definition has_shape (h : hdu) : bool :=
  match h_kind h with KImage => true | _ => false end.

(* collection.py:155-159 *)
Definition loop_cond (h : hdu) : bool :=
  has_shape h && Nat.ltb 1 (length (h_shape h)) && negb (is_bintable h).

(* collection.py:154-160: `for hdu_index, hdu in enumerate(hdul): if cond: break`;
   the value of (hdu_index, hdu) after the loop -- the first HDU meeting the
   condition, else whatever the last iteration left behind. *)
Fixpoint scan_loop (i : nat) (l : fitsfile) (last : option (nat * hdu)) : option (nat * hdu) :=
  match l with
  | [] => last
  | h :: l' => if loop_cond h then Some (i, h) else scan_loop (S i) l' (Some (i, h))
  end.

Definition hdul_getitem (f : fitsfile) (i : Z) : res hdu :=
  match py_index f i with Some h => Ok h | None => Err EIndex end.

(* collection.py:147-160.  [old = true] is the code as found at line 152,
   `hdu = hdul[self._hdu_index]` (the whole list as the key: astropy raises
   KeyError for any list); [old = false] is the one-token repair
   `hdu = hdul[hdu_index]`.  Returns the reported index and the HDU. *)
Definition select_hdu (old : bool) (hs : hdu_sel) (k : nat) (f : fitsfile) : res (Z * hdu) :=
  match hs with
  | HScalar i =>
      match hdul_getitem f i with Ok h => Ok (i, h) | Err e => Err e end
  | HList l =>
      match nth_error l k with
      | None => Err EIndex                          (* line 151 *)
      | Some i =>
          if old then Err EKey                      (* line 152 as found *)
          else match hdul_getitem f i with Ok h => Ok (i, h) | Err e => Err e end
      end
  | HNone =>
      match scan_loop 0 f None with
      | None => Err EUnbound
      | Some (i, h) => Ok (Z.of_nat i, h)
      end
  end.

(* collection.py:167-172 *)
Definition blank_key : str := [" "%char].

Definition select_key (ws : wcs_sel) (k : nat) : res str :=
  match ws with
  | WScalar c => Ok c
  | WList l => match nth_error l k with Some c => Ok c | None => Err EIndex end
  | WNone => Ok blank_key
  end.

(* one iteration of _scan_hdus for the file at position k: 146-174 *)
Definition scan_one (old : bool) (hs : hdu_sel) (ws : wcs_sel) (k : nat) (f : fitsfile)
  : res (Z * hdu * str) :=
  match select_hdu old hs k f with
  | Err e => Err e
  | Ok (i, h) =>
      if is_bintable h then Err ENoImage             (* 162-165 *)
      else match select_key ws k with
           | Err e => Err e
           | Ok c => Ok (i, h, c)
           end
  end.

(* astropy.wcs.WCS(header, key=...): the key must be one of " A..Z" (ValueError
   otherwise).  A key whose keywords are absent is a KeyError, except that a
   header without any WCS keywords gives the default WCS (CRVAL 0): for the
   primary key " " when the HDU has data axes (wcslib synthesises the primary
   description from NAXIS), and for every key when NAXIS = 0. *)
Definition allowed_key (c : ascii) : bool :=
  let n := N_of_ascii c in (N.eqb n 32 || (N.leb 65 n && N.leb n 90))%N.

Definition naxis_zero (h : hdu) : bool :=
  has_shape h && match h_shape h with [] => true | _ => false end.

Definition wcs_lookup (h : hdu) (key : str) : res Z :=
  match key with
  | [c] =>
      if allowed_key c then
        match find (fun p => Ascii.eqb (fst p) c) (h_wcs h) with
        | Some p => Ok (snd p)
        | None =>
            match h_wcs h with
            | [] => if naxis_zero h || Ascii.eqb c " "%char then Ok 0 else Err EKey
            | _ => Err EKey
            end
        end
      else Err EValue
  | _ => Err EValue
  end.

(* _load body for one scanned item (212-271), restricted to 0-, 1- and 2-D HDUs.
   WCS construction (212) precedes the use of hdu.shape (214); a data-less HDU
   has shape () which is padded to (1, 1) (216-220); images() then fails on
   hdu.data being None (253); a 1-D HDU gives a 1-axis WCS (228-232). *)
Definition load_item (with_data : bool) (h : hdu) (key : str) : res (list N * Z) :=
  match wcs_lookup h key with
  | Err e => Err e
  | Ok t =>
      if negb (has_shape h) then Err ENoShape
      else match h_shape h with
           | [] => if with_data then Err ENoData else Ok ([1; 1]%N, t)
           | [_; _] => Ok (h_shape h, t)
           | _ => Err ENot2D
           end
  end.

Record item := mkItem {
  it_file : nat;        (* position of the input path *)
  it_index : Z;         (* HDU index as reported by export_simple *)
  it_uid : Z;           (* which pixel data *)
  it_shape : list N;
  it_tag : Z }.         (* which WCS solution *)

(* a generator over the paths that stops at the first exception: the items
   yielded so far and the exception, if any *)
Fixpoint run_files {A} (step : nat -> fitsfile -> res A) (k : nat) (files : list fitsfile)
  : list A * option err :=
  match files with
  | [] => ([], None)
  | f :: fs =>
      match step k f with
      | Err e => ([], Some e)
      | Ok a => let r := run_files step (S k) fs in (a :: fst r, snd r)
      end
  end.

Definition export_step old hs ws (k : nat) (f : fitsfile) : res (nat * Z) :=
  match scan_one old hs ws k f with
  | Err e => Err e
  | Ok (i, _, _) => Ok (k, i)
  end.

Definition export_simple old hs ws (files : list fitsfile) : list (nat * Z) * option err :=
  run_files (export_step old hs ws) 0 files.

Definition load_step (with_data old : bool) hs ws (k : nat) (f : fitsfile) : res item :=
  match scan_one old hs ws k f with
  | Err e => Err e
  | Ok (i, h, c) =>
      match load_item with_data h c with
      | Err e => Err e
      | Ok (sh, t) => Ok (mkItem k i (h_uid h) sh t)
      end
  end.

Definition load_coll (with_data old : bool) hs ws (files : list fitsfile) : list item * option err :=
  run_files (load_step with_data old hs ws) 0 files.

Definition descriptions := load_coll false.
Definition images := load_coll true.

(* ---------------------------------------------------------------- option parsing *)

Definition is_space (c : ascii) : bool :=
  let n := N_of_ascii c in
  (N.eqb n 32 || (N.leb 9 n && N.leb n 13) || (N.leb 28 n && N.leb n 31))%N.

Fixpoint lstrip (l : str) : str :=
  match l with
  | c :: l' => if is_space c then lstrip l' else l
  | [] => []
  end.

Definition strip (l : str) : str := List.rev (lstrip (List.rev (lstrip l))).

Definition digit_char (c : ascii) : option (uint -> uint) :=
  match c with
  | "0" => Some D0 | "1" => Some D1 | "2" => Some D2 | "3" => Some D3 | "4" => Some D4
  | "5" => Some D5 | "6" => Some D6 | "7" => Some D7 | "8" => Some D8 | "9" => Some D9
  | _ => None
  end%char.

(* Python int() digits: decimal digits, single underscores between digits *)
Fixpoint parse_digits (l : str) (prev_digit : bool) : option uint :=
  match l with
  | [] => if prev_digit then Some Nil else None
  | c :: l' =>
      match digit_char c with
      | Some d => option_map d (parse_digits l' true)
      | None => if Ascii.eqb c "_"%char && prev_digit then parse_digits l' false else None
      end
  end.

Definition uint_Z (u : uint) : Z := Z.of_N (N.of_uint u).

(* int(s) for ASCII s: surrounding whitespace, optional sign, digits *)
Definition py_int (s : str) : option Z :=
  match strip s with
  | "-"%char :: r => option_map (fun u => - uint_Z u) (parse_digits r false)
  | "+"%char :: r => option_map uint_Z (parse_digits r false)
  | t => option_map uint_Z (parse_digits t false)
  end.

(* s.split(",") *)
Fixpoint split_comma (l : str) : list str :=
  match l with
  | [] => [[]]
  | c :: l' =>
      if Ascii.eqb c ","%char then [] :: split_comma l'
      else match split_comma l' with
           | t :: ts => (c :: t) :: ts
           | [] => [[c]]
           end
  end.

Fixpoint map_opt {A B} (f : A -> option B) (l : list A) : option (list B) :=
  match l with
  | [] => Some []
  | a :: l' => match f a, map_opt f l' with
               | Some b, Some r => Some (b :: r)
               | _, _ => None
               end
  end.

(* create_from_args 443-459 *)
Definition parse_hdu_arg (s : str) : res hdu_sel :=
  match py_int s with
  | Some i => Ok (HScalar i)
  | None => match map_opt py_int (split_comma s) with
            | Some l => Ok (HList l)
            | None => Err EParse
            end
  end.

(* create_from_args 461-475: every key one character out of ALLOWED_WCS_KEYS *)
Definition key_ok (k : str) : bool :=
  match k with [c] => allowed_key c | _ => false end.

Definition parse_wcs_arg (s : str) : res wcs_sel :=
  let keys := split_comma s in
  if forallb key_ok keys then
    match keys with
    | [k] => Ok (WScalar k)
    | _ => Ok (WList keys)
    end
  else Err EParse.

(* `toasty view --hdu-index H --wcs-key W`: absent options leave the loader's
   class defaults None/None (384-386) *)
Definition cli_view (h w : option str) : res (hdu_sel * wcs_sel) :=
  match (match h with None => Ok HNone | Some s => parse_hdu_arg s end) with
  | Err e => Err e
  | Ok hs => match (match w with None => Ok WNone | Some s => parse_wcs_arg s end) with
             | Err e => Err e
             | Ok ws => Ok (hs, ws)
             end
  end.

(* `toasty tile-multi-tan`: argparse type=int default=0; --wcs-key default " " *)
Definition cli_mtan (h w : option str) : res (hdu_sel * wcs_sel) :=
  match (match h with None => Some 0 | Some s => py_int s end) with
  | None => Err EParse
  | Some i => Ok (HScalar i, WScalar (match w with None => blank_key | Some s => s end))
  end.

(* collection.load / toasty.tile_fits: selectors passed through unchanged;
   wcs_key defaults to " " in both signatures *)
Definition api_load (hs : hdu_sel) (ws : option wcs_sel) : hdu_sel * wcs_sel :=
  (hs, match ws with Some w => w | None => WScalar blank_key end).

(* canonical command-line text of a selection (what the documentation tells
   the user to type): decimal integers / single letters, comma separated *)
Fixpoint uint_chars (u : uint) : str :=
  match u with
  | Nil => []
  | D0 u => "0" :: uint_chars u | D1 u => "1" :: uint_chars u | D2 u => "2" :: uint_chars u
  | D3 u => "3" :: uint_chars u | D4 u => "4" :: uint_chars u | D5 u => "5" :: uint_chars u
  | D6 u => "6" :: uint_chars u | D7 u => "7" :: uint_chars u | D8 u => "8" :: uint_chars u
  | D9 u => "9" :: uint_chars u
  end%char.

Definition dec_Z (z : Z) : str :=
  match z with
  | Z0 => ["0"%char]
  | Zpos p => uint_chars (Pos.to_uint p)
  | Zneg p => "-"%char :: uint_chars (Pos.to_uint p)
  end.

Fixpoint join_comma (toks : list str) : str :=
  match toks with
  | [] => []
  | [t] => t
  | t :: ts => t ++ ","%char :: join_comma ts
  end.

Definition render_hdu_sel (hs : hdu_sel) : option str :=
  match hs with
  | HNone => None
  | HScalar i => Some (dec_Z i)
  | HList l => Some (join_comma (map dec_Z l))
  end.

Definition render_wcs_sel (ws : wcs_sel) : option str :=
  match ws with
  | WNone => None
  | WScalar k => Some k
  | WList l => Some (join_comma l)
  end.
