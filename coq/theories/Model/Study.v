(* Model of toasty/study.py (StudyTiling), pyramid.py:next_highest_power_of_2,
   image.py:fill_into_maskable_buffer and PyramidIO.write_image/read_image as
   used by StudyTiling.tile_image.  Definitions only (no proofs).

   Source anchors:
     pyramid.py  39-50    next_highest_power_of_2
     study.py    61-88    StudyTiling.__init__
     study.py    90-130   compute_for_subimage
     study.py    160-195  image_to_tile
     study.py    197-210  count_populated_positions
     study.py    212-296  generate_populated_positions
     study.py    298-364  tile_image
     image.py    1058-1098 fill_into_maskable_buffer
     image.py    1156-1172 is_completely_masked
     pyramid.py  338-420  read_image / write_image
     image.py    55-85    get_format_vertical_parity_sign (fits: +1, else -1)

   All quantities are Python ints, modelled by Z (Python // and % with a
   positive divisor are Z.div and Z.modulo: both floor). *)
From Coq Require Import ZArith List Bool.
Import ListNotations.
Local Open Scope Z_scope.

(* ------------------------------------------------------------------ *)
(* pyramid.py:47-50   p = 256; while p < n: p *= 2; return p
   [fuel] bounds the number of doublings; None = fuel exhausted (excluded by
   next_pow2_total in Proofs/StudyP.v). *)
Fixpoint np2_loop (fuel : nat) (p n : Z) : option Z :=
  if p <? n then
    match fuel with
    | O => None
    | S f => np2_loop f (2 * p) n
    end
  else Some p.

Definition next_pow2 (n : Z) : option Z :=
  np2_loop (Z.to_nat (Z.log2_up n)) 256 n.

(* ------------------------------------------------------------------ *)
(* StudyTiling instance state, study.py:35-59 *)
Record tiling := mkTiling {
  t_width : Z; t_height : Z; t_p2n : Z; t_tile_size : Z; t_levels : Z;
  t_gx0 : Z; t_gy0 : Z }.

(* study.py:61-88.  None = ValueError (width/height <= 0).
   int(np.log2(tile_size)) is modelled by Z.log2 (tile_size is a power of two). *)
Definition study_tiling (w h : Z) : option tiling :=
  if w <=? 0 then None
  else if h <=? 0 then None
  else match next_pow2 w, next_pow2 h with
       | Some p2w, Some p2h =>
           let p2n := Z.max p2w p2h in
           let ts := p2n / 256 in
           Some (mkTiling w h p2n ts (Z.log2 ts) ((p2n - w) / 2) ((p2n - h) / 2))
       | _, _ => None
       end.

(* study.py:90-130.  None = ValueError from one of the four guards.  The new
   tiling is recomputed from self._width/_height, then its width, height and
   offsets are overwritten. *)
Definition compute_for_subimage (t : tiling) (ix iy sw sh : Z) : option tiling :=
  if (sw <? 0) || (t_width t <? sw) then None
  else if (sh <? 0) || (t_height t <? sh) then None
  else if (ix <? 0) || (t_width t <? ix + sw) then None
  else if (iy <? 0) || (t_height t <? iy + sh) then None
  else match study_tiling (t_width t) (t_height t) with
       | None => None
       | Some s => Some (mkTiling sw sh (t_p2n s) (t_tile_size s) (t_levels s)
                                  (t_gx0 s + ix) (t_gy0 s + iy))
       end.

(* study.py:132-134 *)
Definition n_deepest_layer_tiles (t : tiling) : Z := 4 ^ t_levels t.

(* study.py:191-195: (tile_ix, tile_iy, subtile_ix, subtile_iy) *)
Definition image_to_tile (t : tiling) (im_ix im_iy : Z) : Z * Z * Z * Z :=
  let gx := im_ix + t_gx0 t in
  let gy := im_iy + t_gy0 t in
  (gx / 256, gy / 256, gx mod 256, gy mod 256).

(* study.py:204-209 and 248-258 *)
Definition img_gx1 (t : tiling) : Z := t_gx0 t + t_width t - 1.
Definition img_gy1 (t : tiling) : Z := t_gy0 t + t_height t - 1.
Definition tile_start_tx (t : tiling) : Z := t_gx0 t / 256.
Definition tile_start_ty (t : tiling) : Z := t_gy0 t / 256.
Definition tile_end_tx (t : tiling) : Z := img_gx1 t / 256.
Definition tile_end_ty (t : tiling) : Z := img_gy1 t / 256.

(* study.py:210 *)
Definition count_populated_positions (t : tiling) : Z :=
  (tile_end_ty t + 1 - tile_start_ty t) * (tile_end_tx t + 1 - tile_start_tx t).

(* the tuple (pos, width, height, image_x, image_y, tile_x, tile_y); pos = (n, x, y) *)
Record tup := mkTup {
  u_n : Z; u_x : Z; u_y : Z; u_w : Z; u_h : Z;
  u_ix : Z; u_iy : Z; u_tx : Z; u_ty : Z }.

(* body of the double loop, study.py:262-296 *)
Definition tuple_at (t : tiling) (itx ity : Z) : tup :=
  let tile_gx0 := itx * 256 in
  let tile_gy0 := ity * 256 in
  let tile_gx1 := tile_gx0 + 255 in
  let tile_gy1 := tile_gy0 + 255 in
  let overlap_gx0 := Z.max tile_gx0 (t_gx0 t) in
  let overlap_gy0 := Z.max tile_gy0 (t_gy0 t) in
  let overlap_gx1 := Z.min tile_gx1 (img_gx1 t) in
  let overlap_gy1 := Z.min tile_gy1 (img_gy1 t) in
  let img_overlap_x0 := overlap_gx0 - t_gx0 t in
  let img_overlap_x1 := overlap_gx1 - t_gx0 t in
  let img_overlap_y0 := overlap_gy0 - t_gy0 t in
  let img_overlap_y1 := overlap_gy1 - t_gy0 t in
  mkTup (t_levels t) itx ity
        (img_overlap_x1 + 1 - img_overlap_x0) (img_overlap_y1 + 1 - img_overlap_y0)
        img_overlap_x0 img_overlap_y0
        (overlap_gx0 - tile_gx0) (overlap_gy0 - tile_gy0).

(* Python range(lo, lo + n) *)
Fixpoint zrange (lo : Z) (n : nat) : list Z :=
  match n with
  | O => []
  | S k => lo :: zrange (lo + 1) k
  end.

(* range(a, b): empty when b <= a *)
Definition py_range (a b : Z) : list Z := zrange a (Z.to_nat (b - a)).

(* study.py:260-261: for ity in range(..): for itx in range(..): yield ... *)
Definition generate_populated_positions (t : tiling) : list tup :=
  flat_map (fun ity =>
              map (fun itx => tuple_at t itx ity)
                  (py_range (tile_start_tx t) (tile_end_tx t + 1)))
           (py_range (tile_start_ty t) (tile_end_ty t + 1)).

(* closed form of the i-th generated tuple (row-major over the populated tile
   range; Proofs/StudyP.v:generate_nth_spec); lets the harness compare a prefix
   of the generator for tilings with astronomically many tiles *)
Definition generate_nth (t : tiling) (i : Z) : tup :=
  let ncols := tile_end_tx t + 1 - tile_start_tx t in
  tuple_at t (tile_start_tx t + i mod ncols) (tile_start_ty t + i / ncols).

(* ------------------------------------------------------------------ *)
(* Python slices with step +1 / -1 applied to an axis of length [len]
   (CPython PySlice_AdjustIndices), as numpy basic indexing uses them. *)
Record pyslice := mkSlice { s_start : option Z; s_stop : option Z; s_step : Z }.

(* an arithmetic run of indices: first, first+step, ... (count of them) *)
Record run := mkRun { r_first : Z; r_count : Z; r_step : Z }.

Definition adj_up (len v : Z) : Z :=
  if v <? 0 then (if v + len <? 0 then 0 else v + len)
  else if len <=? v then len else v.

Definition adj_down (len v : Z) : Z :=
  if v <? 0 then (if v + len <? 0 then -1 else v + len)
  else if len <=? v then len - 1 else v.

Definition slice_run (s : pyslice) (len : Z) : run :=
  if 0 <? s_step s then
    let a := match s_start s with None => 0 | Some v => adj_up len v end in
    let b := match s_stop s with None => len | Some v => adj_up len v end in
    mkRun a (Z.max 0 (b - a)) 1
  else
    let a := match s_start s with None => len - 1 | Some v => adj_down len v end in
    let b := match s_stop s with None => -1 | Some v => adj_down len v end in
    mkRun a (Z.max 0 (a - b)) (-1).

Definition run_nth (r : run) (k : Z) : Z := r_first r + k * r_step r.

(* the k with run_nth r k = i and 0 <= k < count (steps are +1/-1) *)
Definition run_find (r : run) (i : Z) : option Z :=
  let k := (i - r_first r) * r_step r in
  if (0 <=? k) && (k <? r_count r) then Some k else None.

(* One fill_into_maskable_buffer call: the whole buffer becomes undefined, then
   b[by, bx] = i[iy, ix] (image.py:1087-1096).  A placement records the four
   index runs; buffer pixel (run_nth by k, run_nth bx l) receives image pixel
   (run_nth iy k, run_nth ix l). *)
Record placement := mkPlacement {
  p_n : Z; p_x : Z; p_y : Z;
  p_iy : run; p_ix : run; p_by : run; p_bx : run }.

(* study.py:345-354: the row indexer into the tile buffer.  [inv] is
   pio.get_default_vertical_parity_sign() == 1 (bottom-up formats: FITS). *)
Definition by_slice (inv : bool) (u : tup) : pyslice :=
  if inv then
    let flip_tile_y1 := 255 - u_ty u in
    let flip_tile_y0 := flip_tile_y1 - u_h u in
    mkSlice (Some flip_tile_y1)
            (if flip_tile_y0 =? -1 then None else Some flip_tile_y0) (-1)
  else mkSlice (Some (u_ty u)) (Some (u_ty u + u_h u)) 1.

(* study.py:356-360 with numpy's shape rule for the assignment: the selected
   shapes must be equal (a mismatch raises; broadcasting of length-1 axes is
   not modelled and is excluded by the theorems).  The image array has shape
   (t_height, t_width) (guards at study.py:316-319), the buffer 256 x 256. *)
Definition place_tuple (t : tiling) (inv : bool) (u : tup) : option placement :=
  let iy := slice_run (mkSlice (Some (u_iy u)) (Some (u_iy u + u_h u)) 1) (t_height t) in
  let ix := slice_run (mkSlice (Some (u_ix u)) (Some (u_ix u + u_w u)) 1) (t_width t) in
  let byr := slice_run (by_slice inv u) 256 in
  let bxr := slice_run (mkSlice (Some (u_tx u)) (Some (u_tx u + u_w u)) 1) 256 in
  if (r_count iy =? r_count byr) && (r_count ix =? r_count bxr)
  then Some (mkPlacement (u_n u) (u_x u) (u_y u) iy ix byr bxr)
  else None.

Fixpoint map_opt {A B} (f : A -> option B) (l : list A) : option (list B) :=
  match l with
  | [] => Some []
  | a :: l' => match f a, map_opt f l' with
               | Some b, Some r => Some (b :: r)
               | _, _ => None
               end
  end.

(* tile_image as the sequence of (position, fill) pairs it writes *)
Definition tile_image_placements (t : tiling) (inv : bool) : option (list placement) :=
  map_opt (place_tuple t inv) (generate_populated_positions t).

(* which image pixel (row, col) a buffer pixel (row r, col c; storage order)
   receives; None = left undefined by the fill *)
Definition placement_src (p : placement) (r c : Z) : option (Z * Z) :=
  match run_find (p_by p) r, run_find (p_bx p) c with
  | Some k, Some l => Some (run_nth (p_iy p) k, run_nth (p_ix p) l)
  | _, _ => None
  end.

(* flat description shipped to the correspondence harness:
   [n; x; y; iy0; iyc; ix0; ixc; by0; bystep; byc; bx0; bxc] *)
Definition placement_flat (p : placement) : list Z :=
  [p_n p; p_x p; p_y p;
   r_first (p_iy p); r_count (p_iy p); r_first (p_ix p); r_count (p_ix p);
   r_first (p_by p); r_step (p_by p); r_count (p_by p);
   r_first (p_bx p); r_count (p_bx p)].

(* ------------------------------------------------------------------ *)
(* Pixels.  An image is a function (row, col) -> option V, None standing for an
   undefined pixel (NaN, alpha 0; for the integer modes the value 0, which the
   code cannot distinguish from data). *)
Section Pixels.
  Context {V : Type}.
  Definition pixels := Z -> Z -> option V.

  (* content of the 256x256 buffer after fill_into_maskable_buffer *)
  Definition fill_buffer (img : pixels) (p : placement) : pixels :=
    fun r c => match placement_src p r c with
               | Some (y, x) => img y x
               | None => None
               end.

  Definition is_none (o : option V) : bool := match o with None => true | Some _ => false end.

  (* image.py:1156-1172 for the modes that have a mask representation *)
  Definition completely_masked (b : pixels) : bool :=
    forallb (fun r => forallb (fun c => is_none (b r c)) (zrange 0 256)) (zrange 0 256).

  (* the tile store: position -> file content (None = no file) *)
  Definition store := Z -> Z -> Z -> option pixels.
  Definition empty_store : store := fun _ _ _ => None.

  Definition same_pos (n x y n' x' y' : Z) : bool := (n =? n') && (x =? x') && (y =? y').

  (* pyramid.py:403-420.  [maskable] = the buffer mode has a mask representation
     (RGBA, F32, F64, F16x3); for U8/I16/I32 is_completely_masked is False. *)
  Definition write_image (maskable : bool) (s : store) (n x y : Z) (b : pixels) : store :=
    fun n' x' y' =>
      if same_pos n x y n' x' y'
      then (if maskable && completely_masked b then None else Some b)
      else s n' x' y'.

  (* pyramid.py:355-376 with default="masked" *)
  Definition read_image_masked (s : store) (n x y : Z) : pixels :=
    match s n x y with Some b => b | None => fun _ _ => None end.

  (* study.py:336-362: one fill + write per tuple, in order *)
  Definition run_tile_image (maskable : bool) (img : pixels) (pls : list placement) (s : store) : store :=
    fold_left (fun s p => write_image maskable s (p_n p) (p_x p) (p_y p) (fill_buffer img p)) pls s.

  Definition tile_image (maskable : bool) (t : tiling) (inv : bool) (img : pixels) : option store :=
    match tile_image_placements t inv with
    | None => None
    | Some pls => Some (run_tile_image maskable img pls empty_store)
    end.

  (* display orientation: a bottom-up (FITS, parity +1) tile holds display row r
     in storage row 255 - r *)
  Definition display_row (inv : bool) (r : Z) : Z := if inv then 255 - r else r.

  (* the deepest-level mosaic in display orientation: global pixel (row R, col C)
     of the p2n x p2n square *)
  Definition mosaic_display (t : tiling) (inv : bool) (s : store) (R C : Z) : option V :=
    read_image_masked s (t_levels t) (C / 256) (R / 256) (display_row inv (R mod 256)) (C mod 256).
End Pixels.

(* what the property demands of the mosaic: the image at (gx0, gy0), undefined elsewhere *)
Definition in_image (t : tiling) (R C : Z) : bool :=
  (t_gy0 t <=? R) && (R <? t_gy0 t + t_height t) && (t_gx0 t <=? C) && (C <? t_gx0 t + t_width t).

Definition expected_mosaic {V} (t : tiling) (img : @pixels V) (R C : Z) : option V :=
  if in_image t R C then img (R - t_gy0 t) (C - t_gx0 t) else None.

(* a tuple's image rectangle contains image pixel (x, y) *)
Definition covers (u : tup) (x y : Z) : bool :=
  (u_ix u <=? x) && (x <? u_ix u + u_w u) && (u_iy u <=? y) && (y <? u_iy u + u_h u).

(* the (tile, in-tile) slot the tuple assigns to image pixel (x, y) *)
Definition slot_of (u : tup) (x y : Z) : Z * Z * Z * Z :=
  (u_x u, u_y u, u_tx u + (x - u_ix u), u_ty u + (y - u_iy u)).

(* the state invariant under which the tiling theorems are stated (established
   by study_tiling and compute_for_subimage) *)
Definition wf (t : tiling) : Prop :=
  0 <= t_levels t /\ t_p2n t = 256 * 2 ^ t_levels t /\ t_tile_size t = 2 ^ t_levels t /\
  0 <= t_gx0 t /\ 0 <= t_gy0 t /\ 0 <= t_width t /\ 0 <= t_height t /\
  t_gx0 t + t_width t <= t_p2n t /\ t_gy0 t + t_height t <= t_p2n t.
