(* Model of the orchestration of FitsTiler._tile_toast (toasty/fits_tiler.py:206-265): several
   FITS images tiled into one TOAST pyramid.  Definitions only.

     start: the caller's value, else the largest guessed base level over the images with a
            WCS, at least 1                                                   lines 207-214
     for every image, in order: builder.toast_base(sampler_i, start, tile_filter=filter_i,
            parallel=parallel)                                                lines 230-243
     then builder.cascade(tile_filter=tile_filters, parallel=parallel), where
            tile_filters(tile) = some filter_i accepts tile                   lines 254-262

   [tile] is abstract; a filter is a predicate on tiles.  An event records which image's
   sampler and filter a call got (by index), or that the cascade got the union. *)
From Coq Require Import ZArith List Bool.
Import ListNotations.
Local Open Scope Z_scope.

Section MultiToast.
  Variable tile : Type.

  (* def tile_filters(tile): for filter in filters: if filter(tile): return True ... return False *)
  Definition union_filter (fs : list (tile -> bool)) (t : tile) : bool :=
    existsb (fun f => f t) fs.

  (* levels: guess_base_layer_level of each image, None for an image without WCS *)
  Definition auto_start (levels : list (option Z)) : Z :=
    fold_left (fun s l => match l with Some v => if s <? v then v else s | None => s end) levels 1.

  Definition start_level (given : option Z) (levels : list (option Z)) : Z :=
    match given with Some s => s | None => auto_start levels end.

  Inductive event :=
  | ToastBase (image : nat) (depth : Z) (filter_of : nat) (parallel : option Z)
  | Cascade (parallel : option Z).          (* always with the union filter, at imgset.tile_levels *)

  Definition script (given : option Z) (levels : list (option Z)) (parallel : option Z) : list event :=
    let s := start_level given levels in
    map (fun i => ToastBase i s i parallel) (seq 0 (length levels)) ++ [Cascade parallel].

  (* tile_levels recorded by the last toast_base call = the depth every image was sampled at *)
  Definition recorded_levels (given : option Z) (levels : list (option Z)) : Z := start_level given levels.
End MultiToast.
