(* What the command-line entry points cascade_impl and transform_impl (toasty/cli.py:69-81, 831-872)
   do with their settings, written by hand: which library function is called on which path, and
   which setting goes into which argument.  Compared with the translation of the source
   (Generated/CliCascadeSrc.v, Generated/CliTransformSrc.v) in Proofs/CliScriptP.v.
   [is_none v]: the setting v is None; [eq_lit v s]: v == s.  Definitions only. *)
From Coq Require Import ZArith String List Bool.
From Toasty Require Import Model.SrcPrelude.
Import ListNotations.
Local Open Scope string_scope.
Local Open Scope list_scope.

Definition setting (a : string) : sval unit := SAttr a (SName "settings").
Definition pyramid_at (dir : sval unit) (kw : list (string * sval unit)) : sval unit := SNewP "PyramidIO" [dir] kw.

(* toasty cascade: die without --start; else ONE cascade_images call on the pyramid at pyramid_dir
   opened with the format given by --format, from --start, with --parallelism workers *)
Definition cascade_impl_model (is_none : sval unit -> bool) : bool * list (sevent unit) :=
  if is_none (setting "start") then (false, [])
  else (true, [SCall "cascade_images"
                     [pyramid_at (setting "pyramid_dir") [("default_format", setting "format")];
                      setting "start"; SName "averaging_merger"]
                     [("parallel", setting "parallelism"); ("cli_progress", SB true)]]).

(* toasty transform <cmd>: the pyramid at pyramid_dir, depth --start, output pyramid at --outdir when
   that is given (else None = in place), --parallelism workers *)
Definition transform_call (fn : string) (extra : list (string * sval unit)) (is_none : sval unit -> bool) : sevent unit :=
  let out := if is_none (setting "outdir") then SNoneV else pyramid_at (setting "outdir") [] in
  SCall fn [pyramid_at (setting "pyramid_dir") []; setting "start"]
        (extra ++ [("pio_out", out); ("parallel", setting "parallelism"); ("cli_progress", SB true)]).

Definition transform_impl_model (is_none : sval unit -> bool) (eq_lit : sval unit -> string -> bool)
  : bool * list (sevent unit) :=
  let cmd := setting "transform_command" in
  if is_none cmd then (true, [])
  else if eq_lit cmd "fx3-to-rgb" then (true, [transform_call "f16x3_to_rgb" [("clip", setting "clip")] is_none])
  else if eq_lit cmd "u8-to-rgb" then (true, [transform_call "u8_to_rgb" [] is_none])
  else (false, []).

(* the keyword argument k of a call *)
Fixpoint kw_lookup (k : string) (kw : list (string * sval unit)) : option (sval unit) :=
  match kw with
  | [] => None
  | (k', v) :: r => if String.eqb k k' then Some v else kw_lookup k r
  end.
Definition call_kw (k : string) (e : sevent unit) : option (sval unit) :=
  match e with SCall _ _ kw => kw_lookup k kw end.
Definition call_pos (e : sevent unit) : list (sval unit) := match e with SCall _ p _ => p end.
