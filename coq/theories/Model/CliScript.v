(* What the command-line entry points cascade_impl and transform_impl (toasty/cli.py:69-81, 831-872)
   do with their settings, written by hand: which library function is called on which path, and
   which setting goes into which argument.  Compared with the translation of the source
   (Generated/CliCascadeSrc.v, Generated/CliTransformSrc.v) in Proofs/CliScriptP.v.
   [is_none v]: the setting v is None; [eq_lit v s]: v == s.  Definitions only. *)
From Coq Require Import ZArith String List Bool.
From Toasty Require Import Model.SrcPrelude.
Import ListNotations.
Local Open Scope string_scope.
Local Open Scope list_scope.

Definition setting (a : string) : sval unit := SAttr a (SName "settings").
Definition pyramid_at (dir : sval unit) (kw : list (string * sval unit)) : sval unit := SNewP "PyramidIO" [dir] kw.

(* toasty cascade: die without --start; else ONE cascade_images call on the pyramid at pyramid_dir
   opened with the format given by --format, from --start, with --parallelism workers *)
Definition cascade_impl_model (is_none : sval unit -> bool) : bool * list (sevent unit) :=
  if is_none (setting "start") then (false, [])
  else (true, [SCall "cascade_images"
                     [pyramid_at (setting "pyramid_dir") [("default_format", setting "format")];
                      setting "start"; SName "averaging_merger"]
                     [("parallel", setting "parallelism"); ("cli_progress", SB true)]]).

(* toasty transform <cmd>: the pyramid at pyramid_dir, depth --start, output pyramid at --outdir when
   that is given (else None = in place), --parallelism workers *)
Definition transform_call (fn : string) (extra : list (string * sval unit)) (is_none : sval unit -> bool) : sevent unit :=
  let out := if is_none (setting "outdir") then SNoneV else pyramid_at (setting "outdir") [] in
  SCall fn [pyramid_at (setting "pyramid_dir") []; setting "start"]
        (extra ++ [("pio_out", out); ("parallel", setting "parallelism"); ("cli_progress", SB true)]).

Definition transform_impl_model (is_none : sval unit -> bool) (eq_lit : sval unit -> string -> bool)
  : bool * list (sevent unit) :=
  let cmd := setting "transform_command" in
  if is_none cmd then (true, [])
  else if eq_lit cmd "fx3-to-rgb" then (true, [transform_call "f16x3_to_rgb" [("clip", setting "clip")] is_none])
  else if eq_lit cmd "u8-to-rgb" then (true, [transform_call "u8_to_rgb" [] is_none])
  else (false, []).

(* the keyword argument k of a call *)
Fixpoint kw_lookup (k : string) (kw : list (string * sval unit)) : option (sval unit) :=
  match kw with
  | [] => None
  | (k', v) :: r => if String.eqb k k' then Some v else kw_lookup k r
  end.
Definition call_kw (k : string) (e : sevent unit) : option (sval unit) :=
  match e with SCall _ _ kw => kw_lookup k kw | SMethod _ _ _ kw => kw_lookup k kw end.
Definition call_pos (e : sevent unit) : list (sval unit) := match e with SCall _ p _ => p | SMethod _ _ p _ => p end.

(* ---- toasty tile-multi-tan (cli.py:500-523): no test at all; the collection is built from the
   paths and the HDU / WCS-key selections the user gave, the tiler gets --parallelism ---- *)
Definition mt_pio : sval unit := pyramid_at (setting "outdir") [("default_format", SStr "fits")].
Definition mt_builder : sval unit := SNewP "Builder" [mt_pio] [].
Definition mt_collection : sval unit :=
  SNewP "SimpleFitsCollection" [setting "paths"] [("hdu_index", setting "hdu_index"); ("wcs_key", setting "wcs_key")].
Definition mt_processor : sval unit := SNewP "MultiTanProcessor" [mt_collection] [].
Definition tile_multi_tan_impl_model : bool * list (sevent unit) :=
  (true, [SMethod mt_processor "compute_global_pixelization" [mt_builder] [];
          SMethod mt_processor "tile" [mt_pio] [("parallel", setting "parallelism"); ("cli_progress", SB true)];
          SMethod mt_builder "write_index_rel_wtml" [] []]).

(* ---- toasty tile-allsky (cli.py:324-397): the projection name selects the sampler factory and the
   planet / panorama flags; the thumbnail comes first; depth, worker count and name are passed on ---- *)
Definition as_image : sval unit :=
  SCallA "load_path" (SCallA "create_from_args" (SName "ImageLoader") [SName "settings"] []) [setting "imgpath"] [].
Definition as_builder : sval unit := SNewP "Builder" [pyramid_at (setting "outdir") []] [].
Definition allsky_calls (sampler_fn : string) (planet pano : bool) (is_true : sval unit -> bool) : list (sevent unit) :=
  [ (if is_true (setting "placeholder_thumbnail")
     then SMethod as_builder "make_placeholder_thumbnail" [] []
     else SMethod as_builder "make_thumbnail_from_other" [as_image] []);
    SMethod as_builder "toast_base" [SNewP sampler_fn [SCallA "asarray" as_image [] []] []; setting "depth"]
            [("is_planet", SB planet); ("is_pano", SB pano); ("parallel", setting "parallelism"); ("cli_progress", SB true)];
    SMethod as_builder "set_name" [setting "name"] [];
    SMethod as_builder "write_index_rel_wtml" [] [] ].

(* projection name -> (sampler factory, is_planet, is_pano), in the order the command tests them *)
Definition projection_table : list (string * (string * bool * bool)) :=
  [ ("plate-carree", ("plate_carree_sampler", false, false));
    ("plate-carree-galactic", ("plate_carree_galactic_sampler", false, false));
    ("plate-carree-ecliptic", ("plate_carree_ecliptic_sampler", false, false));
    ("plate-carree-planet", ("plate_carree_planet_sampler", true, false));
    ("plate-carree-planet-zeroleft", ("plate_carree_planet_zeroleft_sampler", true, false));
    ("plate-carree-planet-zeroright", ("plate_carree_zeroright_sampler", true, false));
    ("plate-carree-panorama", ("plate_carree_sampler", false, true)) ].

Fixpoint allsky_from (tbl : list (string * (string * bool * bool)))
         (eq_lit : sval unit -> string -> bool) (is_true : sval unit -> bool) : bool * list (sevent unit) :=
  match tbl with
  | [] => (false, [])                        (* unknown projection: die *)
  | (name, (fn, pl, pa)) :: r =>
      if eq_lit (setting "projection") name then (true, allsky_calls fn pl pa is_true)
      else allsky_from r eq_lit is_true
  end.
Definition tile_allsky_impl_model := allsky_from projection_table.

(* ---- toasty view, local branch (cli.py:936-973): the tiling-method name selects the TilingMethod;
   the collection is loaded from the paths AS GIVEN with the loader built from the settings
   (--hdu-index, --wcs-key, --blankval); the tiler gets --parallelism; with --tile-only nothing is
   previewed ---- *)
Definition view_collection : sval unit :=
  SCallA "load_paths" (SCallA "create_from_args" (SName "CollectionLoader") [SName "settings"] []) [setting "paths"] [].
Definition view_tiler (method : string) : sval unit :=
  SNewP "FitsTiler" [view_collection] [("tiling_method", SAttr method (SName "TilingMethod"))].
Definition view_calls (method : string) (is_true : sval unit -> bool) : list (sevent unit) :=
  [ SMethod (SName "warnings") "simplefilter" [SStr "ignore"] [];
    SMethod (view_tiler method) "tile" [] [("cli_progress", SB true); ("parallel", setting "parallelism")] ]
  ++ (if is_true (setting "tile_only") then []
      else [SCall "preview_wtml"
                  [SCallA "join" (SAttr "path" (SName "os")) [SAttr "out_dir" (view_tiler method); SStr "index_rel.wtml"] []]
                  [("browser", setting "browser"); ("app_type", SStr "research"); ("app_url", setting "appurl")]]).

Definition tiling_method_table : list (string * string) :=
  [("auto", "AUTO_DETECT"); ("tan", "TAN"); ("toast", "TOAST"); ("hips", "HIPS")].

Fixpoint view_from (tbl : list (string * string)) (eq_lit : sval unit -> string -> bool) (is_true : sval unit -> bool)
  : bool * list (sevent unit) :=
  match tbl with
  | [] => (false, [])
  | (name, m) :: r => if eq_lit (setting "tiling_method") name then (true, view_calls m is_true) else view_from r eq_lit is_true
  end.
Definition view_locally_model := view_from tiling_method_table.

(* ---- toasty tile-healpix (cli.py tile_healpix_impl): no test at all; a FITS pyramid at --outdir, the
   sampler read from the HEALPix file with --galactic, --depth and --parallelism passed to
   Builder.toast_base with no coordinate-system / planet / panorama / filter option, then the WTML ---- *)
Definition hp_pio : sval unit := pyramid_at (setting "outdir") [("default_format", SStr "fits")].
Definition hp_builder : sval unit := SNewP "Builder" [hp_pio] [].
Definition hp_sampler : sval unit :=
  SNewP "healpix_fits_file_sampler" [setting "fitspath"] [("force_galactic", setting "galactic")].
Definition tile_healpix_impl_model : bool * list (sevent unit) :=
  (true, [SMethod hp_builder "toast_base" [hp_sampler; setting "depth"]
                  [("parallel", setting "parallelism"); ("cli_progress", SB true)];
          SMethod hp_builder "write_index_rel_wtml" [] []]).

(* ---- toasty tile-wwtl (cli.py tile_wwtl_impl): the layer file is loaded (and tiled) by
   Builder.load_from_wwtl on EVERY path, before the thumbnail; the one test chooses the thumbnail;
   then the name, then the WTML, all on the one builder over the pyramid at --outdir ---- *)
Definition ww_builder : sval unit := SNewP "Builder" [pyramid_at (setting "outdir") []] [].
Definition ww_load_args : list (sval unit) := [SName "settings"; setting "wwtl_path"].
Definition ww_img : sval unit := SCallA "load_from_wwtl" ww_builder ww_load_args [("cli_progress", SB true)].
Definition tile_wwtl_impl_model (is_true : sval unit -> bool) : bool * list (sevent unit) :=
  (true, [SMethod ww_builder "load_from_wwtl" ww_load_args [("cli_progress", SB true)];
          (if is_true (setting "placeholder_thumbnail")
           then SMethod ww_builder "make_placeholder_thumbnail" [] []
           else SMethod ww_builder "make_thumbnail_from_other" [ww_img] []);
          SMethod ww_builder "set_name" [setting "name"] [];
          SMethod ww_builder "write_index_rel_wtml" [] []]).

(* receiver and method name of an event *)
Definition call_recv (e : sevent unit) : option (sval unit) := match e with SMethod r _ _ _ => Some r | SCall _ _ _ => None end.
Definition call_name (e : sevent unit) : string := match e with SMethod _ m _ _ => m | SCall f _ _ => f end.
