(* Model of Builder.toast_base (toasty/builder.py:204-234): how the caller's options reach the
   sampling core, and what is recorded in the image set.  Definitions only.

     coordsys = PLANETARY if is_planet else ASTRONOMICAL;  coordsys = kwargs.pop("coordsys", coordsys)
     "tile_filter" in kwargs -> sample_layer_filtered(pio=, sampler=, depth=, coordsys=, **kwargs)
     else                   -> sample_layer(pio, sampler, depth, coordsys=, **kwargs)
     data_set_type: PLANET if is_planet, else PANORAMA if is_pano, else SKY;  tile_levels = depth

   [planetary] = the coordinate system is ToastCoordinateSystem.PLANETARY. *)
From Coq Require Import ZArith Bool.

Inductive dataset_type := Sky | Planet | Panorama.

Record tb_options := mkTB {
  tb_is_planet : bool; tb_is_pano : bool;
  tb_coordsys : option bool;        (* the coordsys= keyword: None = not given, Some planetary? *)
  tb_filtered : bool;               (* a tile_filter= keyword is present *)
  tb_parallel : option Z;           (* parallel= keyword (None = not given) *)
  tb_depth : Z }.

Record tb_effect := mkTE {
  te_filtered_core : bool;          (* sample_layer_filtered (true) or sample_layer (false) was called *)
  te_planetary : bool;              (* the coordinate system the core was given *)
  te_depth : Z;                     (* the depth the core was given *)
  te_parallel : option Z;           (* the worker count the core was given (None = its default) *)
  te_type : dataset_type;
  te_tile_levels : Z }.

Definition toast_base (o : tb_options) : tb_effect :=
  let default_sys := tb_is_planet o in
  let sys := match tb_coordsys o with Some s => s | None => default_sys end in
  mkTE (tb_filtered o) sys (tb_depth o) (tb_parallel o)
       (if tb_is_planet o then Planet else if tb_is_pano o then Panorama else Sky)
       (tb_depth o).
