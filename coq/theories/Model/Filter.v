(* Model of the tile filters (property C07).  Definitions only, executable.

   Source anchors
     toasty/_libtoasty.pyx
       _order_pair_1d                      130-141
       TWOPI                               144
       _tile_intersects_latlon_bbox        147-269   (wrapper 271-272)
     toasty/samplers.py
       plate_carree_planet_sampler         306-347   (the whole-map sampler the chunks are compared with)
       WcsSampler._image_bounds            464-643   (index logic only: which pixel positions are sampled)
       WcsSampler.filter                   645-654
       _latlon_tile_filter                 695-731
       ChunkedPlateCarreeSampler           734-843   (_chunk_bounds 764-774, filter 776-791, sampler 793-843)
     toasty/toast.py
       _postfix_corner / generate_tiles_filtered   418-447, 543-572  (which tiles the filter is asked about)

   Numbers are rationals.  tau (= TWOPI), pi (= np.pi), halfpi (= HALFPI) and
   thr (= the literal 1.5707963) are arbitrary section variables; nothing is
   assumed about them here.  The correspondence instantiates them with the exact
   rational values of the doubles the code uses.  Float rounding is outside the
   model: every function that takes a decision also returns a margin, the
   smallest distance |a - b| over the comparisons a < b it executed, and the
   correspondence compares decisions only when that margin exceeds 1e-9. *)
From Coq Require Import List ZArith QArith Qround Qabs Qminmax Bool.
From Toasty Require Import Model.Quadtree.
Import ListNotations.
Local Open Scope Q_scope.

Definition Qltb (a b : Q) : bool := negb (Qle_bool b a).     (* a < b *)

Definition Q4 := (Q * Q * Q * Q)%type.

(* The 4x2 array corner_lonlats, column-wise. *)
Record corners := mkC { lons : Q4; lats : Q4 }.

(* bbox_lon_min, bbox_lon_max, bbox_lat_min, bbox_lat_max *)
Record box := mkBox { b_lon_min : Q; b_lon_max : Q; b_lat_min : Q; b_lat_max : Q }.

(* ---- _order_pair_1d(arr, i, j): swap when arr[i] > arr[j]  (pyx 132-141) ---- *)
Definition order02 (l : Q4) : Q4 := let '(a, b, c, d) := l in if Qltb c a then (c, b, a, d) else l.
Definition order13 (l : Q4) : Q4 := let '(a, b, c, d) := l in if Qltb d b then (a, d, c, b) else l.
Definition order01 (l : Q4) : Q4 := let '(a, b, c, d) := l in if Qltb b a then (b, a, c, d) else l.
Definition order23 (l : Q4) : Q4 := let '(a, b, c, d) := l in if Qltb d c then (a, b, d, c) else l.
Definition order12 (l : Q4) : Q4 := let '(a, b, c, d) := l in if Qltb c b then (a, c, b, d) else l.

(* pyx 208-212 *)
Definition sort4 (l : Q4) : Q4 := order12 (order23 (order01 (order13 (order02 l)))).

(* pyx 165-174: running minimum / maximum of the four latitudes *)
Definition min4 (l : Q4) : Q :=
  let '(a, b, c, d) := l in
  let m := a in
  let m := if Qltb b m then b else m in
  let m := if Qltb c m then c else m in
  if Qltb d m then d else m.
Definition max4 (l : Q4) : Q :=
  let '(a, b, c, d) := l in
  let m := a in
  let m := if Qltb m b then b else m in
  let m := if Qltb m c then c else m in
  if Qltb m d then d else m.

Section Consts.
  Variables tau pi halfpi thr : Q.

  (* pyx 220-235: updated_lon = lons[0] + TWOPI re-inserted into lons[1..3] *)
  Definition reinsert (l : Q4) : Q4 :=
    let '(a, b, c, d) := l in
    let u := a + tau in
    if Qltb u b then (u, b, c, d)
    else if Qltb u c then (b, u, c, d)
    else if Qltb u d then (b, c, u, d)
    else (b, c, d, u).

  (* pyx 219: while lons[3] - lons[0] > np.pi.  Not every input terminates:
     None = fuel exhausted.  [m] accumulates the decision margin. *)
  Fixpoint span_loop (fuel : nat) (l : Q4) (m : Q) : option (Q4 * Q) :=
    match fuel with
    | O => None
    | S f =>
        let '(a, _, _, d) := l in
        let m' := Qmin m (Qabs (d - a - pi)) in
        if Qltb pi (d - a) then span_loop f (reinsert l) m' else Some (l, m')
    end.

  (* pyx 245-247: while tile_lon_min < bbox_lon_min: both += TWOPI *)
  Fixpoint shift_up (fuel : nat) (bmin : Q) (r : Q * Q) (m : Q) : option (Q * Q * Q) :=
    match fuel with
    | O => None
    | S f =>
        let '(lo, hi) := r in
        let m' := Qmin m (Qabs (lo - bmin)) in
        if Qltb lo bmin then shift_up f bmin (lo + tau, hi + tau) m' else Some (lo, hi, m')
    end.

  (* pyx 249-251: while tile_lon_min - bbox_lon_min > TWOPI: both -= TWOPI *)
  Fixpoint shift_down (fuel : nat) (bmin : Q) (r : Q * Q) (m : Q) : option (Q * Q * Q) :=
    match fuel with
    | O => None
    | S f =>
        let '(lo, hi) := r in
        let m' := Qmin m (Qabs (lo - bmin - tau)) in
        if Qltb tau (lo - bmin) then shift_down f bmin (lo - tau, hi - tau) m' else Some (lo, hi, m')
    end.

  (* closed forms of the two shifting loops: the number of iterations *)
  Definition up_count (bmin lo : Q) : Z := Z.max 0 (Qceiling ((bmin - lo) / tau)).
  Definition down_count (bmin lo : Q) : Z := Z.max 0 (Qceiling ((lo - bmin) / tau) - 1).
  Definition shift_closed (bmin : Q) (r : Q * Q) : Q * Q :=
    let '(lo, hi) := r in
    let k := up_count bmin lo in
    let lo1 := lo + inject_Z k * tau in
    let j := down_count bmin lo1 in
    (lo1 - inject_Z j * tau, hi + inject_Z k * tau - inject_Z j * tau).

  (* result of the bbox function: decision, margin, and the contents of the
     longitude column of the array afterwards (the sort and the span loop work
     in place on a view of the caller's array, pyx 204) *)
  Record bres := mkBres { r_dec : bool; r_margin : Q; r_lons : Q4; r_sorted : bool }.
  (* r_sorted: the code reached line 204 (the in-place part) *)

  Definition polar (c : corners) : bool :=
    Qltb thr (max4 (lats c)) || Qltb (min4 (lats c)) (- thr).          (* pyx 190 *)
  Definition lat_reject (c : corners) (bx : box) : bool :=
    Qltb (max4 (lats c)) (b_lat_min bx) || Qltb (b_lat_max bx) (min4 (lats c)).  (* pyx 176-179 *)
  Definition reaches_sort (c : corners) (bx : box) : bool :=
    negb (lat_reject c bx) && negb (polar c).

  (* the tile's unwrapped longitude range: lons[0], lons[3] after the span loop *)
  Definition tile_lon_range (fuel : nat) (c : corners) : option (Q * Q) :=
    match span_loop fuel (sort4 (lons c)) 0 with
    | Some ((a, _, _, d), _) => Some (a, d)
    | None => None
    end.

  (* _tile_intersects_latlon_bbox, pyx 149-269 *)
  Definition bbox (fuel : nat) (c : corners) (bx : box) : option bres :=
    let tmin := min4 (lats c) in
    let tmax := max4 (lats c) in
    let m1 := Qabs (b_lat_min bx - tmax) in
    if Qltb tmax (b_lat_min bx) then Some (mkBres false m1 (lons c) false) else       (* 176 *)
    let m2 := Qmin m1 (Qabs (b_lat_max bx - tmin)) in
    if Qltb (b_lat_max bx) tmin then Some (mkBres false m2 (lons c) false) else       (* 178 *)
    let m3 := Qmin m2 (Qmin (Qabs (tmax - thr)) (Qabs (tmin + thr))) in
    if Qltb thr tmax || Qltb tmin (- thr) then Some (mkBres true m3 (lons c) false) else   (* 190 *)
    match span_loop fuel (sort4 (lons c)) m3 with                                     (* 204-235 *)
    | None => None
    | Some (l, m4) =>
        let '(l0, _, _, l3) := l in
        match shift_up fuel (b_lon_min bx) (l0, l3) m4 with                           (* 245 *)
        | None => None
        | Some (u0, u3, m5) =>
            match shift_down fuel (b_lon_min bx) (u0, u3) m5 with                     (* 249 *)
            | None => None
            | Some (v0, v3, m6) =>
                let m7 := Qmin m6 (Qabs (v0 - b_lon_max bx)) in
                if Qltb v0 (b_lon_max bx) then Some (mkBres true m7 l true) else      (* 257 *)
                let m8 := Qmin m7 (Qabs (v3 - (b_lon_min bx + tau))) in
                if Qltb (b_lon_min bx + tau) v3 then Some (mkBres true m8 l true)     (* 264 *)
                else Some (mkBres false m8 l true)
            end
        end
    end.

  (* ---- _latlon_tile_filter (samplers.py 695-731) ------------------------ *)

  (* What tile.corners is at run time decides what np.asarray does (726):
     a tuple of four items (every tile made by _div4, toast.py 466-471) is
     copied into a fresh array; an ndarray (the level-1 tiles are rows of
     _level1_astronomical_lonlats, read-only, or of its writable planetary
     copy, toast.py 103-126) is passed through unchanged, so the in-place sort
     would act on the Tile's own data.  Acquiring the writable buffer for
     `lons` (pyx 204) raises ValueError on a read-only array. *)
  Inductive crepr := CTuple | CArrayRW | CArrayRO.
  Record tilev := mkTile { t_repr : crepr; t_c : corners }.

  Inductive fout :=
  | FRet (b : bool) (m : Q)
  | FRaise                     (* ValueError: buffer source array is read-only *)
  | FFuel.                     (* span loop did not finish within the fuel *)

  (* the two asserts, 720-721 *)
  Definition box_ok (bx : box) : bool :=
    Qltb (b_lon_min bx) (b_lon_max bx) && Qltb (b_lat_min bx) (b_lat_max bx).

  (* filter(tile): the value returned and the tile as the caller sees it afterwards *)
  Definition latlon_tile_filter (fuel : nat) (bx : box) (t : tilev) : fout * tilev :=
    let c := t_c t in
    match t_repr t with
    | CTuple =>
        match bbox fuel c bx with
        | Some r => (FRet (r_dec r) (r_margin r), t)
        | None => (FFuel, t)
        end
    | CArrayRW =>
        match bbox fuel c bx with
        | Some r => (FRet (r_dec r) (r_margin r), mkTile CArrayRW (mkC (r_lons r) (lats c)))
        | None => (FFuel, t)
        end
    | CArrayRO =>
        if reaches_sort c bx then (FRaise, t)
        else match bbox fuel c bx with
             | Some r => (FRet (r_dec r) (r_margin r), t)
             | None => (FFuel, t)
             end
    end.

  (* how the real generators represent corners: level 1 -> ndarray, deeper -> tuple;
     (the correspondence checks this on generated tiles) *)
  Definition repr_at_level (planetary : bool) (n : nat) : crepr :=
    match n with
    | 1%nat => if planetary then CArrayRW else CArrayRO
    | _ => CTuple
    end.

  (* ---- ChunkedPlateCarreeSampler (samplers.py 734-843) ------------------- *)

  (* _chunk_bounds, 764-774: (lon_l, lon_r, lat_d, lat_u) of chunk (cx, cy, cw, ch)
     in a W x H image *)
  Definition chunk_bounds (W H cx cy cw ch : Z) : box :=
    let sx := tau / inject_Z W in
    let sy := pi / inject_Z H in
    mkBox (sx * inject_Z cx - pi) (sx * inject_Z (cx + cw) - pi)
          (halfpi - sy * inject_Z (cy + ch)) (halfpi - sy * inject_Z cy).

  (* np.round: round half to even *)
  Definition rhe (x : Q) : Z :=
    let f := Qfloor x in
    match Qcompare (x - inject_Z f) (1 # 2) with
    | Lt => f
    | Gt => (f + 1)%Z
    | Eq => if Z.even f then f else (f + 1)%Z
    end.
  Definition tie_margin (x : Q) : Q := Qabs (x - inject_Z (Qfloor x) - (1 # 2)).

  (* numpy's % with a positive modulus *)
  Definition Qmodp (x m : Q) : Q := x - m * inject_Z (Qfloor (x / m)).

  (* lon = (lon + np.pi) % TWOPI - np.pi   (samplers.py 336, 831) *)
  Definition norm_lon (lon : Q) : Q := Qmodp (lon + pi) tau - pi.

  (* the chunk's sampler, 810-841: real-valued source indices (ix, iy) before rounding *)
  Definition chunk_gx (bx : box) (nx : Z) (lon : Q) : Q :=
    let dx := inject_Z nx / (b_lon_max bx - b_lon_min bx) in
    let lon0 := b_lon_min bx + (1 # 2) / dx in
    (norm_lon lon - lon0) * dx.
  Definition chunk_gy (bx : box) (ny : Z) (lat : Q) : Q :=
    let dy := inject_Z ny / (b_lat_max bx - b_lat_min bx) in
    let lat0 := b_lat_max bx - (1 # 2) / dy in
    (lat0 - lat) * dy.

  (* Some (iy, ix): the chunk-local source pixel; None: the pixel is masked (834-840) *)
  Definition chunk_sample (bx : box) (nx ny : Z) (lon lat : Q) : option (Z * Z) :=
    let ix := rhe (chunk_gx bx nx lon) in
    let iy := rhe (chunk_gy bx ny lat) in
    if ((0 <=? ix) && (ix <? nx) && (0 <=? iy) && (iy <? ny))%Z then Some (iy, ix) else None.

  (* margin of that decision: distance of the two real indices to a rounding tie *)
  Definition chunk_sample_margin (bx : box) (nx ny : Z) (lon lat : Q) : Q :=
    Qmin (tie_margin (chunk_gx bx nx lon)) (tie_margin (chunk_gy bx ny lat)).

  (* plate_carree_planet_sampler on the whole W x H map, 327-345 *)
  Definition clip (v lo hi : Z) : Z := Z.min (Z.max v lo) hi.
  Definition whole_gx (W : Z) (lon : Q) : Q :=
    let dx := inject_Z W / tau in
    let lon0 := - pi + (1 # 2) / dx in
    (norm_lon lon - lon0) * dx.
  Definition whole_gy (H : Z) (lat : Q) : Q :=
    let dy := inject_Z H / pi in
    let lat0 := halfpi - (1 # 2) / dy in
    (lat0 - lat) * dy.
  Definition whole_sample (W H : Z) (lon lat : Q) : Z * Z :=
    (clip (rhe (whole_gy H lat)) 0 (H - 1), clip (rhe (whole_gx W lon)) 0 (W - 1)).

  (* A chunk grid: column spans and row spans, each a list of (start, length). *)
  Fixpoint spans_from (start : Z) (ws : list Z) : list (Z * Z) :=
    match ws with
    | [] => []
    | w :: ws' => (start, w) :: spans_from (start + w) ws'
    end.

  (* global source pixel the chunk grid assigns to (lon, lat): for every chunk
     (row-major) whose sampler does not mask the point, the global index *)
  Definition grid_samples (W H : Z) (cols rows : list Z) (lon lat : Q) : list (Z * Z) :=
    flat_map (fun ry =>
      flat_map (fun cx =>
        match chunk_sample (chunk_bounds W H (fst cx) (fst ry) (snd cx) (snd ry))
                           (snd cx) (snd ry) lon lat with
        | Some (iy, ix) => [((fst ry + iy)%Z, (fst cx + ix)%Z)]
        | None => []
        end) (spans_from 0 cols)) (spans_from 0 rows).

End Consts.

(* ---- WcsSampler._image_bounds: which pixel positions are sampled ---------- *)

(* N_COARSE = 32; nm = 31 *)
Definition NM : Z := 31.

(* np.linspace(0.5, naxis + 0.5, 32)[k]   (samplers.py 484-485) *)
Definition cidx (naxis k : Z) : Q := (1 # 2) + inject_Z k * inject_Z naxis / inject_Z NM.

Fixpoint zrange (start : Z) (n : nat) : list Z :=
  match n with O => [] | S n' => start :: zrange (start + 1) n' end.

(* np.linspace(a, b, n) for n >= 1: a single sample is the START point *)
Definition linspace (a b : Q) (n : Z) : list Q :=
  if (n =? 1)%Z then [a]
  else map (fun k => a + inject_Z k * (b - a) / inject_Z (n - 1)) (zrange 0 (Z.to_nat n)).

Definition clamp_lo (e : Z) : Z := Z.max (e - 1) 0.             (* 520, 522, 593 ... *)
Definition clamp_hi (e : Z) : Z := Z.min (e + 1) NM.            (* 521, 523, 594 ... *)

(* n = max(int(np.ceil(coarse_idx[hi] - coarse_idx[lo])), 1); [extra] = 0 is the
   code as it stands (528-529, 595, 603, 611, 620), [extra] = 1 the repair *)
Definition refine_n (extra : Z) (naxis lo hi : Z) : Z :=
  (Z.max (Qceiling (cidx naxis hi - cidx naxis lo)) 1 + extra)%Z.

(* one axis of a refined grid around coarse index e *)
Definition refine_axis (extra naxis e : Z) : list Q :=
  let lo := clamp_lo e in let hi := clamp_hi e in
  linspace (cidx naxis lo) (cidx naxis hi) (refine_n extra naxis lo hi).

(* refine_lat (507-548): the extreme coarse sample is at lattice (e1, e2); the
   refined grid is the product of the two axes *)
Definition refine_lat_axes (extra naxis1 naxis2 e1 e2 : Z) : list Q * list Q :=
  (refine_axis extra naxis1 e1, refine_axis extra naxis2 e2).

(* coarse_edge_lons[i] = coarse_lon[edge_walk i]  (563-568), 0 <= i <= 4*nm *)
Definition edge_walk (i : Z) : Z * Z :=
  if (i <? NM)%Z then (i, 0%Z)
  else if (i <? 2 * NM)%Z then (NM, (i - NM)%Z)
  else if (i <? 3 * NM)%Z then ((NM - (i - 2 * NM))%Z, NM)
  else (0%Z, (NM - (i - 3 * NM))%Z).

(* refine_lon (588-639): the pixel positions (idx1, idx2) sampled for edge index e *)
Definition refine_lon_pts (extra naxis1 naxis2 e : Z) : list (Q * Q) :=
  if (e <? NM)%Z then
    map (fun a => (a, cidx naxis2 0)) (refine_axis extra naxis1 e)
  else if (e <? 2 * NM)%Z then
    map (fun b => (cidx naxis1 NM, b)) (refine_axis extra naxis2 (e - NM))
  else if (e <? 3 * NM)%Z then
    map (fun a => (a, cidx naxis2 NM)) (refine_axis extra naxis1 (3 * NM - (1 + e)))
  else
    map (fun b => (cidx naxis1 0, b)) (refine_axis extra naxis2 (4 * NM - e)).

(* The repair (fixes/C07-1.patch): one more sample per axis, so that both ends
   of the window are sampled, and the coarse extreme itself takes part in the
   final argmin/argmax. *)
Definition refine_lat_fixed (naxis1 naxis2 e1 e2 : Z) : list (Q * Q) :=
  (cidx naxis1 e1, cidx naxis2 e2) ::
  list_prod (refine_axis 1 naxis1 e1) (refine_axis 1 naxis2 e2).
Definition refine_lon_fixed (naxis1 naxis2 e : Z) : list (Q * Q) :=
  (cidx naxis1 (fst (edge_walk e)), cidx naxis2 (snd (edge_walk e))) ::
  refine_lon_pts 1 naxis1 naxis2 e.

Definition Qeqb2 (p q : Q * Q) : bool := Qeq_bool (fst p) (fst q) && Qeq_bool (snd p) (snd q).
Definition mem_pt (p : Q * Q) (l : list (Q * Q)) : bool := existsb (Qeqb2 p) l.

(* 572-586: unwrapping of the edge longitudes (degrees): v1 is moved by whole
   turns until it is within half a turn of the previous (already unwrapped)
   value; returns the unwrapped values and the deltas *)
Fixpoint unwrap_dn (fuel : nat) (v0 v1 : Q) (d : Z) : option (Q * Z) :=
  match fuel with
  | O => None
  | S f => if Qltb 180 (v1 - v0) then unwrap_dn f v0 (v1 - 360) (d - 1) else Some (v1, d)
  end.
Fixpoint unwrap_up (fuel : nat) (v0 v1 : Q) (d : Z) : option (Q * Z) :=
  match fuel with
  | O => None
  | S f => if Qltb 180 (v0 - v1) then unwrap_up f v0 (v1 + 360) (d + 1) else Some (v1, d)
  end.
Fixpoint unwrap_edge (fuel : nat) (prev : Q) (l : list Q) : option (list (Q * Z)) :=
  match l with
  | [] => Some []
  | v :: l' =>
      match unwrap_dn fuel prev v 0 with
      | None => None
      | Some (v1, d1) =>
          match unwrap_up fuel prev v1 d1 with
          | None => None
          | Some (v2, d2) =>
              match unwrap_edge fuel v2 l' with
              | None => None
              | Some r => Some ((v2, d2) :: r)
              end
          end
      end
  end.

(* ---- the property's predicate over tile positions ------------------------ *)

(* toast.py 439, 569-570: a tile is reached (and, at the bottom level, sampled)
   iff the filter accepts it and every ancestor down to level 1 *)
Definition accepted_chain (flt : pos -> bool) (p : pos) : Prop :=
  forall k, (k < pn p)%nat -> flt (ancestor k p) = true.
