(* What the straight-line methods of class Builder (toasty/builder.py: __init__, set_name,
   prepare_study_tiling, execute_study_tiling, tile_base_as_study) do, written by hand: the attribute
   stores and calls each makes, in order.  An attribute store `t.a = v` is the event
   SMethod t "__setattr__" [SStr a; v] [] and `return v` the event SCall "return" [v] [] (the reading of
   harness/py2coq.py, MethodTranslator).  [final_store] reads the last value stored into an
   attribute.  Compared with the translation of the source (Generated/BuilderSrc.v) in
   Proofs/BuilderSrcP.v.  Definitions only. *)
From Coq Require Import ZArith String List Bool.
From Toasty Require Import Model.SrcPrelude.
Import ListNotations.
Local Open Scope string_scope.
Local Open Scope list_scope.

Definition self_ : sval unit := SName "self".
Definition self_imgset : sval unit := SAttr "imgset" self_.
Definition self_place : sval unit := SAttr "place" self_.
Definition self_pio : sval unit := SAttr "pio" self_.
Definition setattr (t : sval unit) (a : string) (v : sval unit) : sevent unit := SMethod t "__setattr__" [SStr a; v] [].
Definition ret (v : sval unit) : sevent unit := SCall "return" [v] [].
Definition add_ (a b : sval unit) : sval unit := SCallA "__add__" a [b] [].
Definition kwargs_ : list (string * sval unit) := [("**", SName "kwargs")].

(* Builder(pio): the image set is named "Toasty", its file type is "." + the pyramid's default format,
   its URL the pyramid's path scheme + that file type; the place shows THIS image set *)
Definition builder_init_model : list (sevent unit) :=
  [ setattr self_ "pio" (SName "pio");
    setattr self_ "imgset" (SNewP "ImageSet" [] []);
    setattr self_imgset "name" (SStr "Toasty");
    setattr self_imgset "file_type" (add_ (SStr ".") (SCallA "get_default_format" (SName "pio") [] []));
    setattr self_imgset "url" (add_ (SCallA "get_path_scheme" (SName "pio") [] []) (SAttr "file_type" self_imgset));
    setattr self_ "place" (SNewP "Place" [] []);
    setattr self_place "foreground_image_set" self_imgset;
    setattr self_place "name" (SStr "Toasty") ].

Definition builder_set_name_model : list (sevent unit) :=
  [ setattr self_imgset "name" (SName "name"); setattr self_place "name" (SName "name"); ret self_ ].

(* the tiling is made for (width, height) of the image in that order and applied to the builder's image set *)
Definition study_tiling_of_image : sval unit :=
  SNewP "StudyTiling" [SAttr "width" (SName "image"); SAttr "height" (SName "image")] [].
Definition builder_prepare_study_tiling_model : list (sevent unit) :=
  [ SMethod study_tiling_of_image "apply_to_imageset" [self_imgset] []; ret study_tiling_of_image ].

Definition builder_execute_study_tiling_model : list (sevent unit) :=
  [ SMethod (SName "tiling") "tile_image" [SName "image"; self_pio] kwargs_; ret self_ ].

Definition tile_study_image_call : sval unit := SNewP "tile_study_image" [SName "image"; self_pio] kwargs_.
Definition builder_tile_base_as_study_model : list (sevent unit) :=
  [ SMethod self_ "_check_no_wcs_yet" [] [];
    SCall "tile_study_image" [SName "image"; self_pio] kwargs_;
    SMethod tile_study_image_call "apply_to_imageset" [self_imgset] [];
    ret self_ ].

(* the last value stored into attribute a of a target recognised by [is_t] *)
Definition store_of (is_t : sval unit -> bool) (a : string) (e : sevent unit) : option (sval unit) :=
  match e with
  | SMethod t "__setattr__" [SStr a'; v] [] => if is_t t && String.eqb a a' then Some v else None
  | _ => None
  end.
Fixpoint final_store (is_t : sval unit -> bool) (a : string) (evs : list (sevent unit)) (acc : option (sval unit))
  : option (sval unit) :=
  match evs with
  | [] => acc
  | e :: r => final_store is_t a r (match store_of is_t a e with Some v => Some v | None => acc end)
  end.
Definition is_imgset (t : sval unit) : bool := match t with SAttr "imgset" (SName "self") => true | _ => false end.
Definition is_place (t : sval unit) : bool := match t with SAttr "place" (SName "self") => true | _ => false end.
