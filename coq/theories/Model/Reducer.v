(* Model of toasty/pyramid.py: Pyramid._generator, PyramidReductionIterator,
   the three counters, serial walk and serial leaf visit.  Definitions only.

   Source anchors (pyramid.py):
     Pyramid.subpyramid            606-651
     Pyramid._generator            653-722
     count_leaf/live/operations    739-839
     _walk_serial                  900-931
     _visit_leaves_serial          1148-1157
     PyramidReductionIterator      1200-1348
     _make_position_filter         1351-1380
   and toast.py: generate_tiles(_filtered) 515-572, _postfix_corner 418-447
   (positions only; the geometry of the tiles is the subject of ToastTerm.v). *)
From Coq Require Import List NArith Arith Bool.
From Toasty Require Import Model.Quadtree.
Import ListNotations.
Local Open Scope N_scope.

Inductive kind := Generic | Toast | ToastFiltered.

Record pyr := mkPyr {
  kd    : kind;
  depth : nat;
  ufilt : pos -> bool;   (* user tile filter (ToastFiltered only) *)
  apex  : pos;
  sub   : bool           (* subpyramid() was called *)
}.

(* ---- generators ------------------------------------------------------- *)

(* Generic sub-pyramid: Pos(n + na, x + ax * 2**n, y + ay * 2**n) *)
Definition shift (a p : pos) : pos :=
  mkPos (pn p + pn a)
        (px p + px a * 2 ^ N.of_nat (pn p))
        (py p + py a * 2 ^ N.of_nat (pn p)).

(* the parents of p up to level 0; [k] = pn p *)
Fixpoint ancestors_up (k : nat) (p : pos) : list pos :=
  match k with
  | O => []
  | S k' => let q := parent_pos p in q :: ancestors_up k' q
  end.

(* toast._postfix_corner with bottom_only=False; the filter test is hoisted to
   the entry of the call (generate_tiles_filtered tests level-1 tiles itself and
   _postfix_corner tests n > 1: the same predicate at the same tiles).
   [k] = depth + 1 - n. *)
Fixpoint pwalk (k : nat) (acc : pos -> bool) (p : pos) : list pos :=
  match k with
  | O => []
  | S k' => if acc p then flat_map (pwalk k' acc) (children p) ++ [p] else []
  end.

(* _make_position_filter *)
Definition posfilter (a : pos) (p : pos) : bool :=
  if Nat.ltb (pn a) (pn p) then true
  else existsb (pos_eqb p) (a :: ancestors_up (pn a) a).

(* the filter installed on the pyramid (None when has_filter = false) *)
Definition has_filter (P : pyr) : bool :=
  match kd P with
  | Generic => false
  | Toast => sub P
  | ToastFiltered => true
  end.

Definition eff_filter (P : pyr) : pos -> bool :=
  match kd P with
  | Generic => fun _ => true
  | Toast => if sub P then posfilter (apex P) else fun _ => true
  | ToastFiltered =>
      if sub P then fun p => posfilter (apex P) p && ufilt P p else ufilt P
  end.

Definition gen_seq (P : pyr) : list pos :=
  match kd P with
  | Generic =>
      match pn (apex P) with
      | O => generate_pos (depth P)
      | S _ =>
          map (shift (apex P)) (generate_pos (depth P - pn (apex P)))
          ++ ancestors_up (pn (apex P)) (apex P)
      end
  | _ => flat_map (pwalk (depth P) (eff_filter P)) (children root) ++ [root]
  end.

(* ---- PyramidReductionIterator ----------------------------------------- *)

Section Riter.
  Context {A : Type}.
  Variable f : pos -> bool -> (A * A * A * A) -> A.   (* loop body: value for a tile *)
  Variable d : A.                                      (* default_value *)

  Record slot := mkSlot { sx : N; sy : N; sd : A * A * A * A }.

  Definition dflt4 : A * A * A * A := (d, d, d, d).

  (* _ensure_levels; levels are kept deepest-first here *)
  Fixpoint new_levels (k : nat) (p : pos) : list slot :=
    match k with
    | O => []
    | S k' => mkSlot (px p) (py p) dflt4 :: new_levels k' (parent_pos p)
    end.

  Definition ensure_levels (lv : list slot) (p : pos) : option (list slot) :=
    let nb := length lv in
    if Nat.ltb (pn p) nb then Some lv
    else match nb with
         | O => None     (* pos_parent would raise at level 0 *)
         | _ => Some (new_levels (S (pn p) - nb) p ++ lv)
         end.

  Definition set4 (v : A) (ix iy : N) (t : A * A * A * A) : A * A * A * A :=
    let '(a0, a1, a2, a3) := t in
    match (2 * iy + ix)%N with
    | 0 => (v, a1, a2, a3)
    | 1 => (a0, v, a2, a3)
    | 2 => (a0, a1, v, a3)
    | _ => (a0, a1, a2, v)
    end.

  Inductive rres :=
  | RErr                                               (* assert / exception *)
  | ROk (log : list (pos * bool * (A * A * A * A))) (result : A).

  (* one iteration: __next__ followed by the body and set_data.
     Returns None on error, Some (levels', Some final) when iteration stops. *)
  Inductive step_out :=
  | SErr
  | SStopBefore                                         (* pos.n < apex.n *)
  | SCont (lv : list slot) (ev : pos * bool * (A * A * A * A))
  | SFinal (ev : pos * bool * (A * A * A * A)) (v : A).

  Definition riter_step (dep : nat) (ap : pos) (lv : list slot) (p : pos) : step_out :=
    if Nat.ltb (pn p) (pn ap) then SStopBefore else
    match ensure_levels lv p with
    | None => SErr
    | Some lv1 =>
        match lv1 with
        | [] => SErr
        | s :: lv2 =>
            if negb (Nat.eqb (length lv1) (S (pn p))) then SErr else
            if negb (N.eqb (sx s) (px p) && N.eqb (sy s) (py p)) then SErr else
            let leaf := Nat.eqb (pn p) dep in
            let v := f p leaf (sd s) in
            let ev := (p, leaf, sd s) in
            if pos_eqb p ap then SFinal ev v else
            match parent p with
            | None => SErr
            | Some (q, ix, iy) =>
                match lv2 with
                | [] => SErr
                | s2 :: lv3 =>
                    if negb (N.eqb (sx s2) (px q) && N.eqb (sy s2) (py q)) then SErr
                    else SCont (mkSlot (sx s2) (sy s2) (set4 v ix iy (sd s2)) :: lv3) ev
                end
            end
        end
    end.

  Fixpoint riter_loop (dep : nat) (ap : pos) (lv : list slot) (l : list pos)
           (log : list (pos * bool * (A * A * A * A))) : rres :=
    match l with
    | [] => ROk (rev log) d
    | p :: l' =>
        match riter_step dep ap lv p with
        | SErr => RErr
        | SStopBefore => ROk (rev log) d
        | SCont lv' ev => riter_loop dep ap lv' l' (ev :: log)
        | SFinal ev v => ROk (rev (ev :: log)) v
        end
    end.

  Definition riter_run (P : pyr) : rres :=
    riter_loop (depth P) (apex P) [mkSlot 0 0 dflt4] (gen_seq P) [].

  (* ---- specification: plain structural recursion over the accepted tree --- *)

  Definition c0 (p : pos) := mkPos (S (pn p)) (2 * px p) (2 * py p).
  Definition c1 (p : pos) := mkPos (S (pn p)) (2 * px p + 1) (2 * py p).
  Definition c2 (p : pos) := mkPos (S (pn p)) (2 * px p) (2 * py p + 1).
  Definition c3 (p : pos) := mkPos (S (pn p)) (2 * px p + 1) (2 * py p + 1).

  (* [k] = levels remaining including p's own: depth + 1 - pn p *)
  Fixpoint tree_reduce (k : nat) (acc : pos -> bool) (p : pos) : A :=
    match k with
    | O => d
    | S k' =>
        if acc p then
          f p (Nat.eqb k' 0)
            (tree_reduce k' acc (c0 p), tree_reduce k' acc (c1 p),
             tree_reduce k' acc (c2 p), tree_reduce k' acc (c3 p))
        else d
    end.

  Fixpoint tree_log (k : nat) (acc : pos -> bool) (p : pos)
    : list (pos * bool * (A * A * A * A)) :=
    match k with
    | O => []
    | S k' =>
        if acc p then
          tree_log k' acc (c0 p) ++ tree_log k' acc (c1 p) ++
          tree_log k' acc (c2 p) ++ tree_log k' acc (c3 p) ++
          [(p, Nat.eqb k' 0,
            (tree_reduce k' acc (c0 p), tree_reduce k' acc (c1 p),
             tree_reduce k' acc (c2 p), tree_reduce k' acc (c3 p)))]
        else []
    end.
End Riter.

Arguments RErr {A}.
Arguments ROk {A} log result.

(* ---- the in-scope tree of a pyramid ------------------------------------ *)

(* all proper ancestors of the apex accepted by the user filter (level >= 1);
   level 0 is never filtered (the generator yields it unconditionally) *)
Fixpoint chain_ok (k : nat) (acc : pos -> bool) (p : pos) : bool :=
  match k with
  | O => true
  | S k' => let q := parent_pos p in
            (Nat.eqb (pn q) 0 || acc q) && chain_ok k' acc q
  end.

(* filter that applies inside the sub-pyramid rooted at the apex *)
Definition in_filter (P : pyr) : pos -> bool :=
  match kd P with
  | ToastFiltered => fun p => Nat.eqb (pn p) 0 || ufilt P p
  | _ => fun _ => true
  end.

Definition apex_reachable (P : pyr) : bool :=
  match kd P with
  | ToastFiltered => chain_ok (pn (apex P)) (ufilt P) (apex P)
  | _ => true
  end.

Definition sub_levels (P : pyr) : nat := S (depth P) - pn (apex P).

(* liveness: an accepted leaf reachable through accepted tiles *)
Fixpoint live (k : nat) (acc : pos -> bool) (p : pos) : bool :=
  match k with
  | O => false
  | S k' =>
      acc p &&
      (Nat.eqb k' 0 ||
       live k' acc (mkPos (S (pn p)) (2 * px p) (2 * py p)) ||
       live k' acc (mkPos (S (pn p)) (2 * px p + 1) (2 * py p)) ||
       live k' acc (mkPos (S (pn p)) (2 * px p) (2 * py p + 1)) ||
       live k' acc (mkPos (S (pn p)) (2 * px p + 1) (2 * py p + 1)))
  end.

(* positions of the accepted tree below p, children first *)
Definition tree_pos (k : nat) (acc : pos -> bool) (p : pos) : list pos := pwalk k acc p.

Definition live_list (k : nat) (acc : pos -> bool) (p : pos) : list pos :=
  filter (fun q => live (k + pn p - pn q) acc q) (tree_pos k acc p).

Definition spec_leaves (P : pyr) : list pos :=
  if apex_reachable P then
    filter (fun q => Nat.eqb (pn q) (depth P)) (tree_pos (sub_levels P) (in_filter P) (apex P))
  else [].

Definition spec_live (P : pyr) : list pos :=
  if apex_reachable P then live_list (sub_levels P) (in_filter P) (apex P) else [].

Definition spec_ops (P : pyr) : list pos :=
  filter (fun q => negb (Nat.eqb (pn q) (depth P))) (spec_live P).

(* ---- counters as coded -------------------------------------------------- *)

Definition res_or {A} (dflt : A) (r : @rres A) : option A :=
  match r with RErr => None | ROk _ v => Some v end.

Definition f_leaf (_ : pos) (leaf : bool) (t : N * N * N * N) : N :=
  let '(a, b, c, e) := t in if leaf then 1 else a + b + c + e.

Definition f_live (_ : pos) (leaf : bool) (t : N * N * N * N) : N :=
  let '(a, b, c, e) := t in
  if leaf then 1 else
  let s := a + b + c + e in if N.eqb s 0 then 0 else s + 1.

Definition f_ops (_ : pos) (leaf : bool)
           (t : (bool * N) * (bool * N) * (bool * N) * (bool * N)) : bool * N :=
  let '(a, b, c, e) := t in
  if leaf then (true, 0) else
  let lv := fst a || fst b || fst c || fst e in
  let ops := snd a + snd b + snd c + snd e in
  (lv, if lv then ops + 1 else ops).

Definition count_leaf_tiles (P : pyr) : option N :=
  if has_filter P then res_or 0 (riter_run f_leaf 0 P)
  else Some (tiles_at_depth (depth P - pn (apex P))).

Definition count_live_tiles (P : pyr) : option N :=
  if has_filter P then res_or 0 (riter_run f_live 0 P)
  else Some (depth2tiles (depth P - pn (apex P))).

(* depth2tiles(depth - (apex.n + 1)): Python evaluates (4**(m+1) - 1)//3 with
   m = depth - apex.n - 1 possibly -1, giving (4**0 - 1)//3 = 0. *)
Definition count_operations (P : pyr) : option N :=
  if has_filter P then option_map snd (res_or (false, 0) (riter_run f_ops (false, 0) P))
  else Some ((4 ^ N.of_nat (depth P - pn (apex P)) - 1) / 3).

(* ---- serial walk and leaf visit ---------------------------------------- *)

Definition f_walk (_ : pos) (leaf : bool) (t : bool * bool * bool * bool) : bool :=
  let '(a, b, c, e) := t in if leaf then true else a || b || c || e.

(* callback positions of _walk_serial, in call order *)
Definition walk_serial (P : pyr) : option (list pos) :=
  match count_operations P with
  | None => None
  | Some 0 => Some []
  | Some _ =>
      match riter_run f_walk false P with
      | RErr => None
      | ROk log _ =>
          Some (map (fun e => fst (fst e))
                 (filter (fun e => let '(_, leaf, (a, b, c, e')) := e in
                                   negb leaf && (a || b || c || e')) log))
      end
  end.

Definition f_unit (_ : pos) (_ : bool) (_ : unit * unit * unit * unit) : unit := tt.

(* callback positions of visit_leaves (serial), in call order *)
Definition visit_serial (P : pyr) : option (list pos) :=
  match count_leaf_tiles P with
  | None => None
  | Some 0 => Some []
  | Some _ =>
      match riter_run f_unit tt P with
      | RErr => None
      | ROk log _ =>
          Some (map (fun e => fst (fst e)) (filter (fun e => snd (fst e)) log))
      end
  end.
