(* L-term model of toasty/toast.py (TOAST tile construction, point lookup) and of
   toasty/_libtoasty.pyx (subsample).  Definitions only, all executable.

   The model is generic in the carrier [P] of points and in the binary
   operation [mid] (and the level-1 vertices [base]); it is instantiated
     - at the free term algebra [pt] (Base k | Mid a b): exact, syntactic;
     - at a hash algebra over primitive 63-bit integers (a homomorphic image of the terms; used by the
       correspondence for deep positions where terms have 2^n nodes);
     - at unit vectors of R^3 in Geom/ToastReal.v (not executable).

   Source anchors:
     toast.py 103-126  _level1_astronomical_lonlats, _create_level1_tiles
     toast.py 174-244  _toast_tile_containment_score (level-1 branch 223-232)
     toast.py 247-303  toast_tile_for_point
     toast.py 306-328  toast_tile_get_coords
     toast.py 418-447  _postfix_corner
     toast.py 450-471  _div4
     toast.py 474-512  create_single_tile
     toast.py 515-572  generate_tiles, generate_tiles_filtered
     _libtoasty.pyx 44-127  _subsample / subsample *)
From Coq Require Import List NArith ZArith Arith Bool.
From Coq Require Uint63.
From Toasty Require Import Model.Quadtree.
Import ListNotations.
Local Open Scope N_scope.

(* ToastCoordinateSystem *)
Inductive coordsys := Astro | Planet.

(* Level-1 vertices.  [Base k], k = 4*kind + q: kind 0 = equator point at
   longitude q*90deg, kind 1 = north pole, kind 2 = south pole, the pole carrying
   the longitude tag q*90deg that the level-1 table gives it (0 in the
   astronomical table, 180deg after the planetary shift (lon+pi) % 2pi). *)
Inductive pt := Base (k : N) | Mid (a b : pt).

Section Gen.
  Variable P : Type.
  Variable base : N -> P.
  Variable mid : P -> P -> P.

  (* Tile = namedtuple("Tile", "pos corners increasing"); corners = (ul, ur, lr, ll) *)
  Record gtile := mkT { tpos : pos; c_ul : P; c_ur : P; c_lr : P; c_ll : P; incr : bool }.

  (* toast.py:118-126: the planetary table adds pi to every longitude, poles included *)
  Definition lshift (cs : coordsys) : N := match cs with Astro => 0 | Planet => 2 end.
  Definition b_eq (cs : coordsys) (q : N) : P := base ((q + lshift cs) mod 4).
  Definition b_north (cs : coordsys) : P := base (4 + lshift cs).
  Definition b_south (cs : coordsys) : P := base (8 + lshift cs).

  (* toast.py:103-126.  Rows of the table are (ul, ur, lr, ll) in (lon, lat) degrees:
       [(0,-90),(90,0),(0,90),(180,0)]   pos (1,0,0) increasing
       [(90,0),(0,-90),(0,0),(0,90)]     pos (1,1,0) not increasing
       [(180,0),(0,90),(270,0),(0,-90)]  pos (1,0,1) not increasing
       [(0,90),(0,0),(0,-90),(270,0)]    pos (1,1,1) increasing *)
  Definition level1 (cs : coordsys) : list gtile :=
    let S := b_south cs in let Nn := b_north cs in let E := b_eq cs in
    [ mkT (mkPos 1 0 0) S (E 1) Nn (E 2) true;
      mkT (mkPos 1 1 0) (E 1) S (E 0) Nn false;
      mkT (mkPos 1 0 1) (E 2) Nn (E 3) S false;
      mkT (mkPos 1 1 1) Nn (E 0) S (E 3) true ].

  (* toast.py:450-471 _div4, argument order of every mid call as coded *)
  Definition div4 (t : gtile) : list gtile :=
    let ul := c_ul t in let ur := c_ur t in let lr := c_lr t in let ll := c_ll t in
    let to := mid ul ur in
    let ri := mid ur lr in
    let bo := mid lr ll in
    let le := mid ll ul in
    let ce := if incr t then mid ll ur else mid ul lr in
    let n := S (pn (tpos t)) in
    let x := 2 * px (tpos t) in
    let y := 2 * py (tpos t) in
    [ mkT (mkPos n x y) ul to ce le (incr t);
      mkT (mkPos n (x + 1) y) to ur ri ce (incr t);
      mkT (mkPos n x (y + 1)) le ce bo ll (incr t);
      mkT (mkPos n (x + 1) (y + 1)) ce ri lr bo (incr t) ].

  (* children[iy * 2 + ix] *)
  Definition child (t : gtile) (ix iy : N) : gtile :=
    nth (N.to_nat (iy * 2 + ix)) (div4 t) t.

  (* The tile's centre: the [ce] of _div4, which is also the value _subsample
     writes for a 1x1 grid. *)
  Definition centre (t : gtile) : P :=
    if incr t then mid (c_ll t) (c_ur t) else mid (c_ul t) (c_lr t).

  (* ---- reference tile at a position (specification used by the theorems):
     level-1 table, then one child per bit pair, most significant first.
     [tile_at1 cs m x y] is the tile at depth m+1. *)
  Definition l1_default (cs : coordsys) : gtile := hd (mkT root (base 0) (base 0) (base 0) (base 0) false) (level1 cs).
  Fixpoint tile_at1 (cs : coordsys) (m : nat) (x y : N) : gtile :=
    match m with
    | O => nth (N.to_nat (y * 2 + x)) (level1 cs) (l1_default cs)
    | S m' => child (tile_at1 cs m' (x / 2) (y / 2)) (x mod 2) (y mod 2)
    end.
  Definition tile_at (cs : coordsys) (p : pos) : gtile := tile_at1 cs (pred (pn p)) (px p) (py p).

  (* descendant of [t] at relative depth k and relative position (x, y), 0 <= x,y < 2^k *)
  Fixpoint desc (t : gtile) (k : nat) (x y : N) : gtile :=
    match k with
    | O => t
    | S k' => child (desc t k' (x / 2) (y / 2)) (x mod 2) (y mod 2)
    end.

  (* ---- toast.py:474-512 create_single_tile, as coded: bit descent from the top.
     [cur] is cur_n before the increment; fuel = number of loop iterations left. *)
  Fixpoint cst_loop (fuel : nat) (children : list gtile) (n cur : nat) (x y : N) : option gtile :=
    match fuel with
    | O => None
    | S f =>
        let cur := S cur in
        let ix := N.land (N.shiftr x (N.of_nat (n - cur))) 1 in
        let iy := N.land (N.shiftr y (N.of_nat (n - cur))) 1 in
        match nth_error children (N.to_nat (iy * 2 + ix)) with
        | None => None
        | Some t => if Nat.eqb cur n then Some t else cst_loop f (div4 t) n cur x y
        end
    end.
  (* ValueError for pos.n == 0 -> None *)
  Definition create_single_tile (cs : coordsys) (p : pos) : option gtile :=
    match pn p with
    | O => None
    | S _ => cst_loop (pn p) (level1 cs) (pn p) 0 (px p) (py p)
    end.

  (* ---- toast.py:418-447 _postfix_corner.  Fuel [k] >= depth + 2 - n. *)
  Fixpoint postfix_corner (k : nat) (depth : nat) (flt : gtile -> bool) (bottom : bool) (t : gtile) : list gtile :=
    match k with
    | O => []
    | S k' =>
        let n := pn (tpos t) in
        if Nat.ltb depth n then []
        else if Nat.ltb 1 n && negb (flt t) then []
        else flat_map (postfix_corner k' depth flt bottom) (div4 t)
             ++ (if Nat.eqb n depth || negb bottom then [t] else [])
    end.

  (* toast.py:543-572 generate_tiles_filtered *)
  Definition generate_tiles_filtered (depth : nat) (flt : gtile -> bool) (bottom : bool) (cs : coordsys) : list gtile :=
    flat_map (fun t => if flt t then postfix_corner (S depth) depth flt bottom t else []) (level1 cs).

  (* toast.py:515-540 generate_tiles *)
  Definition generate_tiles (depth : nat) (bottom : bool) (cs : coordsys) : list gtile :=
    generate_tiles_filtered depth (fun _ => true) bottom cs.

  (* ---- toast.py:247-303 toast_tile_for_point, generic in the score type.
     [is0 s] is "score == 0.0", [gtb a b] is "a > b"; best_score starts at -inf,
     modelled by [None] (every finite score is greater). *)
  Section Lookup.
    Variable Sc : Type.
    Variable is0 : Sc -> bool.
    Variable gtb : Sc -> Sc -> bool.
    Variable score : gtile -> Sc.

    (* for tile in level1: if score == 0: break   -- the last tile stays bound when none breaks *)
    Fixpoint pick_first0 (l : list gtile) (last : gtile) : gtile :=
      match l with
      | [] => last
      | t :: l' => if is0 (score t) then t else pick_first0 l' t
      end.

    (* the for-loop over _div4(tile): first child with score 0, else the first maximal one *)
    Fixpoint pick_child (l : list gtile) (best : option Sc) (cur : gtile) : gtile :=
      match l with
      | [] => cur
      | c :: l' =>
          let s := score c in
          if is0 s then c
          else match best with
               | None => pick_child l' (Some s) c
               | Some bs => if gtb s bs then pick_child l' (Some s) c else pick_child l' best cur
               end
      end.

    Fixpoint lookup_desc (fuel : nat) (t : gtile) : gtile :=
      match fuel with
      | O => t
      | S f => lookup_desc f (pick_child (div4 t) None t)
      end.

    (* depth 0 returns the corner-less root tile: None *)
    Definition lookup (cs : coordsys) (depth : nat) : option gtile :=
      match depth with
      | O => None
      | S d => Some (lookup_desc d (pick_first0 (level1 cs) (l1_default cs)))
      end.
  End Lookup.

  (* toast.py:223-232: the level-1 branch of _toast_tile_containment_score looks at
     lon and tile.pos only.  [q] is the longitude interval of lon % 2pi:
       0: [0, pi/2]  1: (pi/2, pi]  2: (pi, 3pi/2)  3: [3pi/2, 2pi].
     true = score 0, false = score -100.  The coordinate system plays no role (F4). *)
  Definition level1_hit_coded (q : N) (t : gtile) : bool :=
    let x := px (tpos t) in let y := py (tpos t) in
    match q with
    | 0 => N.eqb x 1 && N.eqb y 0
    | 1 => N.eqb x 0 && N.eqb y 0
    | 2 => N.eqb x 0 && N.eqb y 1
    | _ => N.eqb x 1 && N.eqb y 1
    end.
  (* repaired (fixes/C12-1.patch): toast_tile_for_point hands the level-1 test the longitude
     (lon + pi) % 2pi for the planetary system; for lon in the interior of interval q that is
     interval (q + 2) mod 4 *)
  Definition level1_hit_fixed (cs : coordsys) (q : N) (t : gtile) : bool :=
    level1_hit_coded ((q + lshift cs) mod 4) t.

  (* the level-1 loop of toast_tile_for_point with the interval index [q1] of the longitude
     that is handed to the level-1 test *)
  Definition level1_pick (cs : coordsys) (q1 : N) : gtile :=
    pick_first0 bool (fun b => b) (level1_hit_coded q1) (level1 cs) (l1_default cs).

  (* ---- _libtoasty.pyx:44-93 _subsample; npix = 2^k; (i, j) = (row, column).
     Argument order of the mid calls as in the .pyx (le and lo differ from _div4). *)
  Fixpoint subsample (k : nat) (ul ur lr ll : P) (inc : bool) (i j : N) : P :=
    let up := mid ul ur in
    let le := mid ul ll in
    let ri := mid ur lr in
    let lo := mid ll lr in
    let cen := if inc then mid ll ur else mid ul lr in
    match k with
    | O => cen
    | S k' =>
        let n2 := 2 ^ N.of_nat k' in
        if i <? n2 then
          if j <? n2 then subsample k' ul up cen le inc i j
          else subsample k' up ur ri cen inc i (j - n2)
        else
          if j <? n2 then subsample k' le cen lo ll inc (i - n2) j
          else subsample k' cen ri lr lo inc (i - n2) (j - n2)
    end.

  (* toast.py:306-328 toast_tile_get_coords: subsample(corners..., 256, increasing) *)
  Definition tile_coords (t : gtile) (i j : N) : P :=
    subsample 8 (c_ul t) (c_ur t) (c_lr t) (c_ll t) (incr t) i j.
End Gen.

Arguments mkT {P}.
Arguments tpos {P}. Arguments c_ul {P}. Arguments c_ur {P}. Arguments c_lr {P}. Arguments c_ll {P}.
Arguments incr {P}.
Arguments div4 {P}. Arguments child {P}. Arguments centre {P}. Arguments desc {P}.
Arguments level1 {P}. Arguments l1_default {P}. Arguments tile_at1 {P}. Arguments tile_at {P}.
Arguments cst_loop {P}. Arguments create_single_tile {P}.
Arguments postfix_corner {P}. Arguments generate_tiles_filtered {P}. Arguments generate_tiles {P}.
Arguments pick_first0 {P Sc}. Arguments pick_child {P Sc}. Arguments lookup_desc {P} mid {Sc}.
Arguments lookup {P} base mid {Sc}.
Arguments level1_hit_coded {P}. Arguments level1_hit_fixed {P}. Arguments level1_pick {P}.
Arguments subsample {P}. Arguments tile_coords {P}.
Arguments b_eq {P}. Arguments b_north {P}. Arguments b_south {P}.

(* ---- specification vocabulary (used in theorem statements only) *)
(* ancestor of p, j levels up *)
Definition anc (p : pos) (j : nat) : pos :=
  mkPos (pn p - j) (px p / 2 ^ N.of_nat j) (py p / 2 ^ N.of_nat j).
(* the filter accepts the tile at p and at every ancestor of p down to level 1 *)
Definition accepted {P} (base : N -> P) (mid : P -> P -> P) (flt : gtile P -> bool)
           (cs : coordsys) (p : pos) : Prop :=
  forall j, (j < pn p)%nat -> flt (tile_at base mid cs (anc p j)) = true.

(* ---------------------------------------------------------------- term instance *)
Definition tile := gtile pt.

(* structural comparison, used only to pick a canonical argument order *)
Fixpoint pt_cmp (a b : pt) : comparison :=
  match a, b with
  | Base k, Base l => N.compare k l
  | Base _, Mid _ _ => Lt
  | Mid _ _, Base _ => Gt
  | Mid a1 a2, Mid b1 b2 =>
      match pt_cmp a1 b1 with Eq => pt_cmp a2 b2 | c => c end
  end.

Fixpoint pt_eqb (a b : pt) : bool :=
  match a, b with
  | Base k, Base l => N.eqb k l
  | Mid a1 a2, Mid b1 b2 => pt_eqb a1 b1 && pt_eqb a2 b2
  | _, _ => false
  end.

(* normal form modulo Mid a b ~ Mid b a *)
Fixpoint nf (p : pt) : pt :=
  match p with
  | Base k => Base k
  | Mid a b =>
      let a' := nf a in let b' := nf b in
      match pt_cmp a' b' with Gt => Mid b' a' | _ => Mid a' b' end
  end.

(* the congruence generated by commutativity of Mid *)
Inductive peq : pt -> pt -> Prop :=
| peq_refl p : peq p p
| peq_comm a b : peq (Mid a b) (Mid b a)
| peq_cong a a' b b' : peq a a' -> peq b b' -> peq (Mid a b) (Mid a' b')
| peq_trans p q r : peq p q -> peq q r -> peq p r.

Definition tile_eqb (s t : tile) : bool :=
  pos_eqb (tpos s) (tpos t) && pt_eqb (c_ul s) (c_ul t) && pt_eqb (c_ur s) (c_ur t)
  && pt_eqb (c_lr s) (c_lr t) && pt_eqb (c_ll s) (c_ll t) && Bool.eqb (incr s) (incr t).

(* tiles equal up to commutativity of Mid in the corners *)
Definition tile_nf (t : tile) : tile :=
  mkT (tpos t) (nf (c_ul t)) (nf (c_ur t)) (nf (c_lr t)) (nf (c_ll t)) (incr t).

(* diagonal orientation of the tile at (n, x, y), n >= 1: that of its level-1 quadrant *)
Definition incr_at (n : nat) (x y : N) : bool :=
  let h := 2 ^ N.of_nat (pred n) in Bool.eqb (x <? h) (y <? h).

(* The vertex lattice.  [vertex cs n i j], 0 <= i, j <= 2^n, n >= 1, is the point at
   column i, row j of the (2^n + 1) x (2^n + 1) grid of tile corners of depth n:
   the 3 x 3 grid of the level-1 table, refined by edge midpoints and, at the
   centre of each cell, the midpoint of that cell's diagonal. *)
Definition vertex_l1 (cs : coordsys) (i j : N) : pt :=
  let S := b_south Base cs in let Nn := b_north Base cs in let E := b_eq Base cs in
  match j, i with
  | 0, 0 => S    | 0, 1 => E 1 | 0, _ => S
  | 1, 0 => E 2  | 1, 1 => Nn  | 1, _ => E 0
  | _, 0 => S    | _, 1 => E 3 | _, _ => S
  end.
Fixpoint vertex1 (cs : coordsys) (m : nat) (i j : N) : pt :=
  match m with
  | O => vertex_l1 cs i j
  | S m' =>
      let i2 := i / 2 in let j2 := j / 2 in
      match i mod 2 =? 0, j mod 2 =? 0 with
      | true, true => vertex1 cs m' i2 j2
      | false, true => Mid (vertex1 cs m' i2 j2) (vertex1 cs m' (i2 + 1) j2)
      | true, false => Mid (vertex1 cs m' i2 j2) (vertex1 cs m' i2 (j2 + 1))
      | false, false =>
          if incr_at (S m') i2 j2
          then Mid (vertex1 cs m' i2 (j2 + 1)) (vertex1 cs m' (i2 + 1) j2)
          else Mid (vertex1 cs m' i2 j2) (vertex1 cs m' (i2 + 1) (j2 + 1))
      end
  end.
Definition vertex (cs : coordsys) (n : nat) (i j : N) : pt := vertex1 cs (pred n) i j.

(* ---------------------------------------------------------------- hash instance *)
(* A homomorphic image of the terms in the primitive 63-bit integers (arithmetic modulo
   2^63, evaluated natively by vm_compute), used by the correspondence harness: the same
   combination is computed by the recording [mid] in harness/toast_terms.py.  The
   combination is not symmetric, so the argument order of every mid call matters. *)
Notation int := Uint63.int.
Definition i63 (z : Z) : int := Uint63.of_Z z.
Definition hash_K0 : int := Eval vm_compute in i63 6364136223846793005.
Definition hash_A : int := Eval vm_compute in i63 1315423911420697.
Definition hash_B : int := Eval vm_compute in i63 2654435761987643.
Definition hash_C : int := Eval vm_compute in i63 88172645463325252.
Definition hbase (k : N) : int := Uint63.mul (Uint63.add (i63 (Z.of_N k)) (i63 1)) hash_K0.
Definition hmid (a b : int) : int :=
  Uint63.add (Uint63.add (Uint63.mul a hash_A) (Uint63.mul b hash_B)) hash_C.
Fixpoint hash (p : pt) : int :=
  match p with Base k => hbase k | Mid a b => hmid (hash a) (hash b) end.
Definition htile := gtile int.
Definition tile_hash (t : tile) : htile :=
  mkT (tpos t) (hash (c_ul t)) (hash (c_ur t)) (hash (c_lr t)) (hash (c_ll t)) (incr t).
Definition htile_eqb (s t : htile) : bool :=
  pos_eqb (tpos s) (tpos t) && Uint63.eqb (c_ul s) (c_ul t) && Uint63.eqb (c_ur s) (c_ur t)
  && Uint63.eqb (c_lr s) (c_lr t) && Uint63.eqb (c_ll s) (c_ll t) && Bool.eqb (incr s) (incr t).
