(* Model of toasty's producer / bounded queue / worker stages:
     pyramid.py   Pyramid._visit_leaves_parallel 1159-1197, _mp_visit_worker 1401-1421
     transform.py _transform_parallel 49-83, _transform_mp_worker 86-108
     multi_tan.py _tile_parallel 275-306, _mp_tile_worker 309-332
     multi_wcs.py _tile_parallel 262-297, _mp_tile_worker 300-320
   over a model of multiprocessing.Queue (CPython 3.12 queues.py): put() takes a
   bounded semaphore released by get(); an unbounded local buffer; a feeder
   moving one item at a time into a FIFO pipe of some capacity >= 1; get(timeout)
   receives iff the pipe is non-empty and may time out on an empty pipe.
   With [v_cont] (reader-lock contention) a get(timeout) may ALSO raise Empty
   while the pipe is non-empty, provided another worker is inside get() at that
   moment (it may be holding the queue's reader lock for the whole timeout:
   queues.py `if not self._rlock.acquire(block, timeout): raise Empty`); the
   holder itself then receives or sees a truly empty pipe.  "Another worker is
   at its get()" over-approximates "another worker holds the lock".
   Items are their indices 0..n-1 (FIFO makes the queue state three counters).
   Definitions only. *)
From Coq Require Import List Arith Bool.
Import ListNotations.

Inductive ppc := PPut | PClose | PJoinFeeder | PSet | PJoin (k : nat) | PReturned.

(* worker control state.  [fixed] protocol (current code): the flag is read
   before the blocking get.  [old] protocol: the flag is read after a timeout. *)
Inductive wst :=
| WAtFlag                      (* about to call done_event.is_set() *)
| WAtGet (seen : bool)         (* about to call queue.get(); [seen] = flag value read *)
| WExited (code : nat).        (* 0 = loop left normally, 1 = callback raised *)

Inductive act :=
| APut | AClose | AFlush | AFeederExit | AJoinThread | ASet | AJoin (w : nat)
| ARecv (w : nat) | ATimeout (w : nat) | AIsSet (w : nat)
| ACTimeout (w : nat).           (* Empty raised because the reader lock stayed taken *)

Record vstate := mkV {
  v_n : nat;            (* number of items *)
  v_cap : nat;          (* Queue(maxsize): 2*par or 16*par *)
  v_pcap : nat;         (* pipe capacity in items *)
  v_fixed : bool;       (* worker protocol variant *)
  v_cont : bool;        (* reader-lock contention timeouts possible *)
  nput : nat; npiped : nat; nrecv : nat;
  closed : bool; fdone : bool; flag : bool;
  pc : ppc;
  ws : list wst;
  started : list (nat * nat);      (* (item, worker) in receive order, newest first *)
  finished : list nat              (* items whose callback completed, newest first *)
}.

Definition init_c (n par cap pcap : nat) (fixed cont : bool) : vstate :=
  mkV n cap pcap fixed cont 0 0 0 false false false
      (match n with O => PClose | _ => PPut end)
      (repeat (if fixed then WAtFlag else WAtGet false) par) [] [].

(* the property's own quantifier: Empty only on an empty pipe *)
Definition init (n par cap pcap : nat) (fixed : bool) : vstate := init_c n par cap pcap fixed false.

Definition set_w (l : list wst) (w : nat) (x : wst) : list wst :=
  firstn w l ++ x :: skipn (S w) l.

Definition get_w (l : list wst) (w : nat) : option wst := nth_error l w.

Definition upd_pc (s : vstate) (p : ppc) : vstate :=
  mkV (v_n s) (v_cap s) (v_pcap s) (v_fixed s) (v_cont s) (nput s) (npiped s) (nrecv s)
      (closed s) (fdone s) (flag s) p (ws s) (started s) (finished s).

Definition upd_ws (s : vstate) (l : list wst) : vstate :=
  mkV (v_n s) (v_cap s) (v_pcap s) (v_fixed s) (v_cont s) (nput s) (npiped s) (nrecv s)
      (closed s) (fdone s) (flag s) (pc s) l (started s) (finished s).

Definition is_exited (x : option wst) : bool :=
  match x with Some (WExited _) => true | _ => false end.

Definition at_get (x : option wst) : bool :=
  match x with Some (WAtGet _) => true | _ => false end.

(* some worker other than [w] is inside get() *)
Definition other_at_get (l : list wst) (w : nat) : bool :=
  existsb (fun h => negb (Nat.eqb h w) && at_get (nth_error l h)) (seq 0 (length l)).

Definition enabled_b (s : vstate) (a : act) : bool :=
  match a with
  | APut => match pc s with PPut => Nat.ltb (nput s) (v_n s) && Nat.ltb (nput s - nrecv s) (v_cap s) | _ => false end
  | AClose => match pc s with PClose => true | _ => false end
  | AFlush => Nat.ltb (npiped s) (nput s) && Nat.ltb (npiped s - nrecv s) (v_pcap s)
  | AFeederExit => closed s && Nat.ltb 0 (nput s) && Nat.eqb (npiped s) (nput s) && negb (fdone s)
  | AJoinThread => match pc s with PJoinFeeder => Nat.eqb (nput s) 0 || fdone s | _ => false end
  | ASet => match pc s with PSet => true | _ => false end
  | AJoin w => match pc s with PJoin k => Nat.eqb k w && is_exited (get_w (ws s) w) | _ => false end
  | ARecv w => match get_w (ws s) w with Some (WAtGet _) => Nat.ltb (nrecv s) (npiped s) | _ => false end
  | ATimeout w => match get_w (ws s) w with Some (WAtGet _) => Nat.eqb (nrecv s) (npiped s) | _ => false end
  | AIsSet w => match get_w (ws s) w with Some WAtFlag => true | _ => false end
  | ACTimeout w => v_cont s && at_get (get_w (ws s) w) && Nat.ltb (nrecv s) (npiped s)
                   && other_at_get (ws s) w
  end.

Section Step.
  Variable bad : nat -> bool.       (* items whose callback raises *)

  (* the step function; identity when the action is not enabled *)
  Definition step (s : vstate) (a : act) : vstate :=
    if negb (enabled_b s a) then s else
    match a with
    | APut =>
        let np := S (nput s) in
        mkV (v_n s) (v_cap s) (v_pcap s) (v_fixed s) (v_cont s) np (npiped s) (nrecv s)
            (closed s) (fdone s) (flag s)
            (if Nat.eqb np (v_n s) then PClose else PPut) (ws s) (started s) (finished s)
    | AClose =>
        mkV (v_n s) (v_cap s) (v_pcap s) (v_fixed s) (v_cont s) (nput s) (npiped s) (nrecv s)
            true (fdone s) (flag s) PJoinFeeder (ws s) (started s) (finished s)
    | AFlush =>
        mkV (v_n s) (v_cap s) (v_pcap s) (v_fixed s) (v_cont s) (nput s) (S (npiped s)) (nrecv s)
            (closed s) (fdone s) (flag s) (pc s) (ws s) (started s) (finished s)
    | AFeederExit =>
        mkV (v_n s) (v_cap s) (v_pcap s) (v_fixed s) (v_cont s) (nput s) (npiped s) (nrecv s)
            (closed s) true (flag s) (pc s) (ws s) (started s) (finished s)
    | AJoinThread => upd_pc s PSet
    | ASet =>
        mkV (v_n s) (v_cap s) (v_pcap s) (v_fixed s) (v_cont s) (nput s) (npiped s) (nrecv s)
            (closed s) (fdone s) true (PJoin 0) (ws s) (started s) (finished s)
    | AJoin w => upd_pc s (if Nat.eqb (S w) (length (ws s)) then PReturned else PJoin (S w))
    | ARecv w =>
        let i := nrecv s in
        let crash := bad i in
        mkV (v_n s) (v_cap s) (v_pcap s) (v_fixed s) (v_cont s) (nput s) (npiped s) (S i)
            (closed s) (fdone s) (flag s) (pc s)
            (set_w (ws s) w (if crash then WExited 1
                             else if v_fixed s then WAtFlag else WAtGet false))
            ((i, w) :: started s)
            (if crash then finished s else i :: finished s)
    | ATimeout w =>
        match get_w (ws s) w with
        | Some (WAtGet seen) =>
            upd_ws s (set_w (ws s) w
                        (if v_fixed s then (if seen then WExited 0 else WAtFlag) else WAtFlag))
        | _ => s
        end
    | AIsSet w =>
        upd_ws s (set_w (ws s) w
                    (if v_fixed s then WAtGet (flag s)
                     else (if flag s then WExited 0 else WAtGet false)))
    | ACTimeout w =>
        (* the worker cannot tell this Empty from the other one *)
        match get_w (ws s) w with
        | Some (WAtGet seen) =>
            upd_ws s (set_w (ws s) w
                        (if v_fixed s then (if seen then WExited 0 else WAtFlag) else WAtFlag))
        | _ => s
        end
    end.

  Definition run (s : vstate) (l : list act) : vstate := fold_left step l s.
End Step.

(* all actions that can be enabled with [par] workers *)
Definition all_acts (par : nat) : list act :=
  [APut; AClose; AFlush; AFeederExit; AJoinThread; ASet]
  ++ map AJoin (seq 0 par) ++ map ARecv (seq 0 par)
  ++ map ATimeout (seq 0 par) ++ map AIsSet (seq 0 par) ++ map ACTimeout (seq 0 par).

Definition enabled_list (s : vstate) : list act :=
  filter (enabled_b s) (all_acts (length (ws s))).

Definition act_eqb (a b : act) : bool :=
  match a, b with
  | APut, APut | AClose, AClose | AFlush, AFlush | AFeederExit, AFeederExit
  | AJoinThread, AJoinThread | ASet, ASet => true
  | AJoin x, AJoin y | ARecv x, ARecv y | ATimeout x, ATimeout y | AIsSet x, AIsSet y
  | ACTimeout x, ACTimeout y => Nat.eqb x y
  | _, _ => false
  end.

(* polling moves: they change no shared state while the flag is clear *)
Definition polling (s : vstate) (a : act) : bool :=
  match a with
  | ATimeout _ | AIsSet _ | ACTimeout _ => negb (flag s)
  | _ => false
  end.

(* replay of an observed trace: at every step the observed enabled set must be
   the model's, and the chosen action must be enabled.  Returns the final state
   or the index of the first step that disagrees. *)
Definition same_set (a b : list act) : bool :=
  forallb (fun x => existsb (act_eqb x) b) a && forallb (fun x => existsb (act_eqb x) a) b.

Fixpoint replay (bad : nat -> bool) (s : vstate) (tr : list (list act * act)) (i : nat)
  : vstate + nat :=
  match tr with
  | [] => inl s
  | (en, a) :: tr' =>
      if same_set en (enabled_list s) && enabled_b s a
      then replay bad (step bad s a) tr' (S i)
      else inr i
  end.

Definition all_exited (s : vstate) : bool :=
  forallb (fun x => match x with WExited _ => true | _ => false end) (ws s).

Definition returned (s : vstate) : bool :=
  match pc s with PReturned => true | _ => false end.
