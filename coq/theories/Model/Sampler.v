(* Model of the plate-carree samplers of toasty/samplers.py (lines 167-436).
   Definitions only.  Arithmetic is exact (Q); [pi] is an explicit argument
   (any positive rational in the theorems, the double nearest to pi in the
   correspondence), so nothing here depends on real-number axioms.  Float
   rounding is outside the model: the correspondence evaluates the model on the
   exact rationals of the doubles and uses [margin] (distance of the unrounded
   index to the nearest rounding tie) to decide when the comparison is strict.

   Source anchors (samplers.py):
     plate_carree_sampler                  167-211   lon0 = pi - 0.5/dx,    ix = (lon0 - lon) dx, norm (lon+pi)%2pi - pi
     plate_carree_galactic_sampler         214-257   ICRS->Galactic, then as plate_carree
     plate_carree_ecliptic_sampler         260-303   ICRS->ecliptic, lon % 2pi - pi (line 291), then as plate_carree
     plate_carree_planet_sampler           306-347   lon0 = -pi + 0.5/dx,   ix = (lon - lon0) dx, norm (lon+pi)%2pi - pi
     plate_carree_planet_zeroleft_sampler  350-393   lon0 = 0.5/dx,         ix = (lon - lon0) dx, norm lon%2pi
     plate_carree_zeroright_sampler        396-436   lon0 = 2pi - 0.5/dx,   ix = (lon0 - lon) dx, norm lon%2pi
   Common to all: dx = nx/TWOPI, dy = ny/pi, lat0 = HALFPI - 0.5/dy,
     iy = (lat0 - lat) dy; np.round (half to even); np.clip(., 0, n-1); data[iy, ix]. *)
From Coq Require Import ZArith QArith Qround Qabs.
Local Open Scope Q_scope.

Inductive variant :=
| PlateCarree | ZeroRight | Planet | PlanetZeroLeft | Galactic | Ecliptic.

(* how the longitude is brought into the principal range *)
Inductive norm_kind :=
| NormPi     (* (lon + pi) % TWOPI - pi      lines 200, 246, 336 *)
| NormZero   (* lon % TWOPI                  lines 382, 425 *)
| NormEcl.   (* lon % TWOPI - pi             line 291 *)

(* direction in which longitude grows along +x *)
Inductive direction := Leftward | Rightward.

Definition norm_of (v : variant) : norm_kind :=
  match v with
  | PlateCarree | Planet | Galactic => NormPi
  | ZeroRight | PlanetZeroLeft => NormZero
  | Ecliptic => NormEcl
  end.

Definition dir_of (v : variant) : direction :=
  match v with
  | PlateCarree | ZeroRight | Galactic | Ecliptic => Leftward   (* ix = (lon0 - lon) * dx *)
  | Planet | PlanetZeroLeft => Rightward                        (* ix = (lon - lon0) * dx *)
  end.

(* does the variant rotate the frame first? *)
Definition rotates (v : variant) : bool :=
  match v with Galactic | Ecliptic => true | _ => false end.

(* Python / numpy float [%] with a positive modulus: a - m * floor(a / m) *)
Definition fmod (a m : Q) : Q := a - m * inject_Z (Qfloor (a / m)).

Definition normalise (pi : Q) (k : norm_kind) (lon : Q) : Q :=
  let twopi := 2 * pi in
  match k with
  | NormPi => fmod (lon + pi) twopi - pi
  | NormZero => fmod lon twopi
  | NormEcl => fmod lon twopi - pi
  end.

(* np.round: to nearest, ties to even *)
Definition round_half_even (x : Q) : Z :=
  let f := Qfloor x in
  match Qcompare (2 * (x - inject_Z f)) 1 with
  | Lt => f
  | Gt => (f + 1)%Z
  | Eq => if Z.even f then f else (f + 1)%Z
  end.

(* np.clip(a, lo, hi) = minimum(maximum(a, lo), hi) *)
Definition clip (k lo hi : Z) : Z := Z.min (Z.max k lo) hi.

Definition dx (pi : Q) (nx : Z) : Q := inject_Z nx / (2 * pi).   (* nx / TWOPI *)
Definition dy (pi : Q) (ny : Z) : Q := inject_Z ny / pi.         (* ny / np.pi *)

Definition lon0 (pi : Q) (v : variant) (nx : Z) : Q :=
  let half := (1 # 2) / dx pi nx in
  match v with
  | PlateCarree | Galactic | Ecliptic => pi - half
  | ZeroRight => 2 * pi - half
  | Planet => - pi + half
  | PlanetZeroLeft => half
  end.

Definition lat0 (pi : Q) (ny : Z) : Q := pi / 2 - (1 # 2) / dy pi ny.   (* HALFPI - 0.5/dy *)

(* unrounded column index for an already normalised longitude *)
Definition ix_raw (pi : Q) (v : variant) (nx : Z) (l : Q) : Q :=
  match dir_of v with
  | Leftward => (lon0 pi v nx - l) * dx pi nx
  | Rightward => (l - lon0 pi v nx) * dx pi nx
  end.

Definition iy_raw (pi : Q) (ny : Z) (lat : Q) : Q := (lat0 pi ny - lat) * dy pi ny.

Definition col (pi : Q) (v : variant) (nx : Z) (lon : Q) : Z :=
  clip (round_half_even (ix_raw pi v nx (normalise pi (norm_of v) lon))) 0 (nx - 1).

Definition row (pi : Q) (ny : Z) (lat : Q) : Z :=
  clip (round_half_even (iy_raw pi ny lat)) 0 (ny - 1).

(* frame change: identity, or the rotation oracle [rot] (astropy) *)
Definition frame (rot : Q -> Q -> Q * Q) (v : variant) (lon lat : Q) : Q * Q :=
  if rotates v then rot lon lat else (lon, lat).

(* the sampler: which element data[iy, ix] is returned for (lon, lat) *)
Definition sample (pi : Q) (rot : Q -> Q -> Q * Q) (v : variant) (nx ny : Z) (lon lat : Q) : Z * Z :=
  let lb := frame rot v lon lat in
  (row pi ny (snd lb), col pi v nx (fst lb)).

(* ---- the call into astropy as written in the snapshot under verification ---
   (the repaired form [frame_arg_fixed] is fixes/C11-1.patch; once that is applied
   to the tree, [sample_fixed] is the code that exists and [sample_coded] documents
   the defect that the correspondence reports if the fix is reverted)
   samplers.py:243  ICRS(..).transform_to(Galactic)      <- the frame *class*
   samplers.py:289  ICRS(..).transform_to(Ecliptic())    <- a frame instance
   (samplers.py:85, the HEALPix sampler, passes Galactic() — an instance.)
   astropy's BaseCoordinateFrame.transform_to looks the transformation up by
   new_frame.__class__; for a class that is abc.ABCMeta, no transformation is
   found and ConvertError is raised (the shim that instantiated a class argument
   was deprecated in astropy 4 and has since been removed; the environment under
   verification has astropy 8).  [None] = the call raises. *)
Inductive frame_arg := FrameClass | FrameInstance.

Definition transform_to (rot : Q -> Q -> Q * Q) (a : frame_arg) (lon lat : Q) : option (Q * Q) :=
  match a with
  | FrameInstance => Some (rot lon lat)
  | FrameClass => None
  end.

Definition frame_arg_coded (v : variant) : option frame_arg :=
  match v with
  | Galactic => Some FrameClass
  | Ecliptic => Some FrameInstance
  | _ => None
  end.

(* repaired: transform_to(Galactic()) *)
Definition frame_arg_fixed (v : variant) : option frame_arg :=
  match v with
  | Galactic | Ecliptic => Some FrameInstance
  | _ => None
  end.

Definition sample_with (args : variant -> option frame_arg)
           (pi : Q) (rot : Q -> Q -> Q * Q) (v : variant) (nx ny : Z) (lon lat : Q) : option (Z * Z) :=
  match args v with
  | None => Some (row pi ny lat, col pi v nx lon)
  | Some a =>
      match transform_to rot a lon lat with
      | None => None
      | Some lb => Some (row pi ny (snd lb), col pi v nx (fst lb))
      end
  end.

Definition sample_coded := sample_with frame_arg_coded.
Definition sample_fixed := sample_with frame_arg_fixed.

(* ---- layout the documentation promises: left edge of column 0 ---- *)
Definition left_edge (pi : Q) (v : variant) : Q :=
  match v with
  | PlateCarree | Galactic | Ecliptic => pi
  | ZeroRight => 2 * pi
  | Planet => - pi
  | PlanetZeroLeft => 0
  end.

Definition cell_w (pi : Q) (nx : Z) : Q := 2 * pi / inject_Z nx.
Definition cell_h (pi : Q) (ny : Z) : Q := pi / inject_Z ny.

(* closed column cell [k] contains normalised longitude [l] *)
Definition col_cell_contains (pi : Q) (v : variant) (nx : Z) (k : Z) (l : Q) : Prop :=
  match dir_of v with
  | Leftward =>
      left_edge pi v - (inject_Z k + 1) * cell_w pi nx <= l /\ l <= left_edge pi v - inject_Z k * cell_w pi nx
  | Rightward =>
      left_edge pi v + inject_Z k * cell_w pi nx <= l /\ l <= left_edge pi v + (inject_Z k + 1) * cell_w pi nx
  end.

Definition row_cell_contains (pi : Q) (ny : Z) (k : Z) (lat : Q) : Prop :=
  pi / 2 - (inject_Z k + 1) * cell_h pi ny <= lat /\ lat <= pi / 2 - inject_Z k * cell_h pi ny.

(* ---- correspondence helpers ---- *)

(* distance of an unrounded index [x] to the nearest rounding tie (in pixels,
   0..1/2), given r = round_half_even x: ties sit at half-integers, r is the
   nearest integer, so the distance is 1/2 - |x - r| *)
Definition margin_r (x : Q) (r : Z) : Q := (1 # 2) - Qabs (x - inject_Z r).
Definition margin (x : Q) : Q := margin_r x (round_half_even x).

(* a double m * 2^e shipped as two integers *)
Definition q_of_float (m e : Z) : Q :=
  match e with
  | Z0 => inject_Z m
  | Zpos p => inject_Z (m * 2 ^ Zpos p)
  | Zneg p => Qmake m (2 ^ p)
  end.

Definition Qleb (a b : Q) : bool := match Qcompare a b with Gt => false | _ => true end.

(* observed (iy, ix) for the point whose post-rotation coordinates are (l, b).
   0 = agrees; 1 = row differs; 2 = column differs.
   Strict comparison when the margin exceeds eps; inside eps the observed cell,
   widened by eps (columns: cyclically), must contain the point. *)
Definition check_point (pi eps : Q) (v : variant) (nx ny : Z) (l b : Q) (oy ox : Z) : nat :=
  let y := iy_raw pi ny b in
  let x := ix_raw pi v nx (normalise pi (norm_of v) l) in
  let ry := round_half_even y in
  let rx := round_half_even x in
  let row_ok :=
    if Qleb (margin_r y ry) eps
    then andb (andb (0 <=? oy)%Z (oy <? ny)%Z)
              (andb (Qleb (inject_Z oy - (1 # 2) - eps) y) (Qleb y (inject_Z oy + (1 # 2) + eps)))
    else Z.eqb oy (clip ry 0 (ny - 1))          (* = row pi ny b *) in
  let near j := andb (Qleb (inject_Z (ox + j * nx) - (1 # 2) - eps) x)
                     (Qleb x (inject_Z (ox + j * nx) + (1 # 2) + eps)) in
  let col_ok :=
    if Qleb (margin_r x rx) eps
    then andb (andb (0 <=? ox)%Z (ox <? nx)%Z) (orb (near 0%Z) (orb (near 1%Z) (near (-1)%Z)))
    else Z.eqb ox (clip rx 0 (nx - 1))          (* = col pi v nx l *) in
  if negb row_ok then 1%nat else if negb col_ok then 2%nat else 0%nat.
