(* What harness/py2coq.py assumes about the Python constructs it translates, as Gallina
   definitions shared by the generated files (Generated/PyramidSrc.v, Generated/StudySrc.v):
   a `Pos` named tuple, `range(a, b)`, and generators as the list of items they yield.
   Definitions only; lemmas in Proofs/SrcPreludeP.v.  Part of the translator (trusted base). *)
From Coq Require Import ZArith List.
Import ListNotations.
Local Open Scope Z_scope.

(* toasty.pyramid.Pos(n, x, y) with Python ints *)
Record spos := mkSP { sn : Z; sx : Z; sy : Z }.

(* range(a, b): a, a+1, ..., b-1; empty when b <= a *)
Fixpoint src_zrange (lo : Z) (n : nat) : list Z :=
  match n with O => [] | S k => lo :: src_zrange (lo + 1) k end.
Definition src_range (a b : Z) : list Z := src_zrange a (Z.to_nat (b - a)).

(* `for v in l: <body yielding items>`: the items of all iterations in order, or None as soon
   as one iteration fails (a raise, or recursion fuel exhausted) *)
Fixpoint src_concat_map {A B : Type} (f : A -> option (list B)) (l : list A) : option (list B) :=
  match l with
  | [] => Some []
  | a :: l' => match f a with
               | None => None
               | Some x => match src_concat_map f l' with None => None | Some y => Some (x ++ y) end
               end
  end.

(* statements after a loop: its items, then theirs *)
Definition src_app_opt {B : Type} (a b : option (list B)) : option (list B) :=
  match a, b with Some x, Some y => Some (x ++ y) | _, _ => None end.

(* `yield x`, then the rest *)
Definition src_cons_opt {B : Type} (x : B) (b : option (list B)) : option (list B) :=
  match b with Some y => Some (x :: y) | None => None end.

(* ---- strings (tile naming) ---- *)
From Coq Require Import String Ascii DecimalString DecimalZ.
Local Open Scope string_scope.

(* str(n) of a Python int: decimal, "-" for negatives, no leading zeros *)
Definition src_str (z : Z) : string := NilZero.string_of_int (Z.to_int z).

(* os.path.join(a, b) on POSIX for a non-empty [a] not ending in "/" and a relative [b] *)
Definition src_join (a b : string) : string := a ++ String "/"%char b.

(* `x or y` for an optional string x: y when x is None or empty *)
Definition src_or (x : option string) (y : string) : string :=
  match x with
  | Some f => if String.eqb f "" then y else f
  | None => y
  end.

(* ---- scripts of calls (orchestration code) ---- *)
(* a for loop whose body may return: the first iteration that returns decides *)
Fixpoint src_first_some {A B : Type} (f : A -> option B) (l : list A) : option B :=
  match l with
  | [] => None
  | a :: l' => match f a with Some b => Some b | None => src_first_some f l' end
  end.

(* symbolic values: what an argument of a recorded call is made of *)
Section SVal.
  Variable image : Type.
  Inductive sval :=
  | SZ (z : Z) | SOptZ (o : option Z) | SB (b : bool)
  | SImg (i : image)                              (* the loop variable over self.coll.images() *)
  | SAttr (a : string) (v : sval)                 (* v.a *)
  | SCallM (m : string) (v : sval)                (* v.m() *)
  | SNew (cls : string) (kw : list (string * sval))   (* cls(k=v, ...) *)
  | SClosure (name : string) (captured : list sval)   (* an inner def closing over a list *)
  | SIdx (k : nat) (v : sval)                     (* the k-th component of a tuple-valued v *)
  | SNoneV | SStr (s : string)                    (* None, a string literal *)
  | SName (n : string)                            (* a parameter or a name imported in the function *)
  | SNewP (cls : string) (pos : list sval) (kw : list (string * sval))    (* cls(p, ..., k=v, ...) *)
  | SCallA (m : string) (recv : sval) (pos : list sval) (kw : list (string * sval)).   (* recv.m(p, ..., k=v, ...) as a value *)
  Inductive sevent :=
  | SCall (target : string) (pos : list sval) (kw : list (string * sval))               (* f(p, ..., k=v, ...) *)
  | SMethod (recv : sval) (m : string) (pos : list sval) (kw : list (string * sval)).   (* recv.m(p, ..., k=v, ...) *)

  (* a function that tests its settings and makes calls: inner nodes are the tests, leaves the calls
     made on that path (TDie: the path ends in die(...)) *)
  Inductive stree :=
  | TDone (calls : list sevent)
  | TDie (calls : list sevent)
  | TIfNone (v : sval) (yes no : stree)           (* `v is None` *)
  | TIfEq (v : sval) (lit : string) (yes no : stree)    (* `v == "lit"` *)
  | TIfTrue (v : sval) (yes no : stree).                (* `if v:` *)

  (* running it under a valuation of the tests: (completed normally?, the calls made) *)
  Fixpoint run_tree (is_none : sval -> bool) (eq_lit : sval -> string -> bool) (is_true : sval -> bool)
           (t : stree) : bool * list sevent :=
    match t with
    | TDone c => (true, c)
    | TDie c => (false, c)
    | TIfNone v y n => if is_none v then run_tree is_none eq_lit is_true y else run_tree is_none eq_lit is_true n
    | TIfEq v l y n => if eq_lit v l then run_tree is_none eq_lit is_true y else run_tree is_none eq_lit is_true n
    | TIfTrue v y n => if is_true v then run_tree is_none eq_lit is_true y else run_tree is_none eq_lit is_true n
    end.
End SVal.
Arguments SZ {image}. Arguments SOptZ {image}. Arguments SB {image}. Arguments SImg {image}.
Arguments SAttr {image}. Arguments SCallM {image}. Arguments SNew {image}. Arguments SClosure {image}.
Arguments SIdx {image}. Arguments SCall {image}. Arguments SNoneV {image}. Arguments SStr {image}.
Arguments SName {image}. Arguments SNewP {image}. Arguments TDone {image}. Arguments TDie {image}.
Arguments TIfNone {image}. Arguments TIfEq {image}. Arguments TIfTrue {image}. Arguments run_tree {image}.
Arguments SCallA {image}. Arguments SMethod {image}.
