(* Model of toasty/par_util.py:resolve_parallelism (lines 21-73): how the worker count a caller
   asks for reaches the stages.  Definitions only.

   Inputs that come from the environment are parameters:
     [fork]   multiprocessing.get_start_method() == "fork"
     [slurm]  os.environ.get("SLURM_NPROCS"): None = unset or empty (falsy), Some None = set but
              int() raises ValueError, Some (Some n) = parses as the integer n
     [cpus]   os.cpu_count()
     [req]    the caller's `parallel` argument (None = not specified)
   The informational prints are dropped. *)
From Coq Require Import ZArith Bool.
Local Open Scope Z_scope.

Definition resolve_parallelism (fork : bool) (slurm : option (option Z)) (cpus : Z) (req : option Z) : Z :=
  let p :=
    match req with
    | Some n => n                                   (* an explicit request is not touched here *)
    | None =>
        if fork then
          match slurm with
          | Some (Some n) => n                      (* the Slurm allocation *)
          | _ => cpus                               (* unset, empty or unparsable: the CPU count *)
          end
        else 1
    end in
  let p := if (1 <? p) && negb fork then 1 else p in   (* no fork: serial, with a warning *)
  if 1 <? p then p else 1.

(* the stages take the parallel path exactly when the resolved count exceeds 1
   (pyramid.py:889, 1137; transform.py:45; multi_tan.py:221; multi_wcs.py:208) *)
Definition runs_serially (fork : bool) (slurm : option (option Z)) (cpus : Z) (req : option Z) : bool :=
  negb (1 <? resolve_parallelism fork slurm cpus req).
