(* Model of what the tiling workflows record in index_rel.wtml versus what they
   write, and of the FITS auto-tiler's handling of an existing output directory.
   Definitions only.

   Source anchors:
     next_highest_power_of_2            pyramid.py:39-50
     StudyTiling.__init__               study.py:61-88     p2n, tile_size, tile_levels, img_gx0/gy0
     StudyTiling.apply_to_imageset      study.py:136-158   imgset.tile_levels, projection
     generate_populated_positions       study.py:214-296   Pos(tile_levels, itx, ity) over the overlapped tile range
     Builder.toast_base                 builder.py:204-234 sample_layer(depth); imgset.tile_levels = depth
     Builder.cascade                    builder.py:236-257 cascade_images(pio, imgset.tile_levels, ...) -> levels < start
     MultiTanProcessor.compute_global_pixelization  multi_tan.py:157-166  StudyTiling(width, height).apply_to_imageset
     FitsTiler.tile                     fits_tiler.py:86-173, esp. 142-161 (existing directory)
     FitsTiler._copy_hips_properties_to_builder     fits_tiler.py:400-437
     toasty.tile_fits                   __init__.py:85-94  returns (tiler.out_dir, tiler.builder)
     Pipeline.process_todos             pipeline/__init__.py:414-431  PyramidIO(outdir, scheme='LXY', default_format='png') *)
From Coq Require Import NArith ZArith String List Bool.
From Toasty Require Import Model.Paths.
Import ListNotations.
Local Open Scope N_scope.

(* ------------------------------------------------------------------ tile levels *)

(* p = 256; while p < n: p *= 2.  [fuel] = number of bits of n bounds the iterations. *)
Fixpoint nhp2_loop (fuel : nat) (p n : N) : N :=
  match fuel with
  | O => p
  | S f => if p <? n then nhp2_loop f (p * 2) n else p
  end.

Definition next_highest_power_of_2 (n : N) : N := nhp2_loop (N.size_nat n) 256 n.

Record study_tiling := mkStudy {
  st_width : N; st_height : N; st_p2n : N; st_levels : N; st_gx0 : N; st_gy0 : N }.

Definition study_init (w h : N) : study_tiling :=
  let p2n := N.max (next_highest_power_of_2 w) (next_highest_power_of_2 h) in
  mkStudy w h p2n (N.log2 (p2n / 256)) ((p2n - w) / 2) ((p2n - h) / 2).

(* inclusive tile ranges of generate_populated_positions *)
Definition st_tx0 (t : study_tiling) := st_gx0 t / 256.
Definition st_ty0 (t : study_tiling) := st_gy0 t / 256.
Definition st_tx1 (t : study_tiling) := (st_gx0 t + st_width t - 1) / 256.
Definition st_ty1 (t : study_tiling) := (st_gy0 t + st_height t - 1) / 256.

Definition study_base (t : study_tiling) (x y : N) : bool :=
  (st_tx0 t <=? x) && (x <=? st_tx1 t) && (st_ty0 t <=? y) && (y <=? st_ty1 t).

(* The set of tile files a workflow leaves behind: a base layer at level [L]
   (predicate [base] on (x, y)), and — when a cascade was run — every ancestor
   of a base tile. *)
Definition pyramid_written (L : N) (base : N -> N -> Prop) (cascaded : bool) (n x y : N) : Prop :=
  (n = L /\ base x y) \/
  (cascaded = true /\ n < L /\ exists X Y, base X Y /\ X / 2 ^ (L - n) = x /\ Y / 2 ^ (L - n) = y).

Definition deepest_populated (written : N -> N -> N -> Prop) (L : N) : Prop :=
  (exists x y, written L x y) /\ (forall n x y, written n x y -> n <= L).

(* study-type workflows (tile-study CLI, WWTL, pipeline): base = populated positions *)
Definition study_written (w h : N) (cascaded : bool) : N -> N -> N -> Prop :=
  let t := study_init w h in
  pyramid_written (st_levels t) (fun x y => study_base t x y = true) cascaded.

(* executable version of the same set, used by the correspondence: for a
   contiguous base range the ancestors at level n are the shifted range *)
Definition study_written_b (w h : N) (cascaded : bool) (n x y : N) : bool :=
  let t := study_init w h in
  let L := st_levels t in
  if n =? L then study_base t x y
  else if cascaded && (n <? L) then
         let k := L - n in
         (N.shiftr (st_tx0 t) k <=? x) && (x <=? N.shiftr (st_tx1 t) k) &&
         (N.shiftr (st_ty0 t) k <=? y) && (y <=? N.shiftr (st_ty1 t) k)
       else false.

(* all-sky TOAST (tile-allsky): every tile of level [depth] *)
Definition toast_base (depth : N) (x y : N) : Prop := x < 2 ^ depth /\ y < 2 ^ depth.
Definition toast_written (depth : N) (cascaded : bool) := pyramid_written depth (toast_base depth) cascaded.

(* executable versions of the other two file sets *)
Definition toast_written_b (depth : N) (cascaded : bool) (n x y : N) : bool :=
  if n =? depth then (x <? 2 ^ n) && (y <? 2 ^ n)
  else cascaded && (n <? depth) && (x <? 2 ^ n) && (y <? 2 ^ n).

Definition in_base (base : list (N * N)) (x y : N) : bool :=
  existsb (fun q => (fst q =? x) && (snd q =? y)) base.

(* base layer given as an explicit list (filtered TOAST, multi-image mosaics) *)
Definition list_written_b (L : N) (base : list (N * N)) (cascaded : bool) (n x y : N) : bool :=
  if n =? L then in_base base x y
  else if cascaded && (n <? L)
       then existsb (fun q => (N.shiftr (fst q) (L - n) =? x) && (N.shiftr (snd q) (L - n) =? y)) base
       else false.

(* what each workflow puts in ImageSet.tile_levels *)
Definition study_recorded_levels (w h : N) : N := st_levels (study_init w h).   (* study.py:152 *)
Definition toast_recorded_levels (depth : N) : N := depth.                      (* builder.py:231 *)

(* ------------------------------------------------------------------ data-set description *)

Inductive projection := SkyImage | Tan | Toast | Healpix.

(* What both Builder.imgset/place and index_rel.wtml carry.  [d_astro] stands
   for the remaining numeric fields (centre, scale, rotation, place RA/Dec/zoom,
   data range), opaque here. *)
Record desc := mkDesc {
  d_url : string; d_file_type : string; d_levels : N; d_proj : projection;
  d_name : string; d_astro : list Z }.

Definition proj_eqb (a b : projection) : bool :=
  match a, b with SkyImage, SkyImage | Tan, Tan | Toast, Toast | Healpix, Healpix => true | _, _ => false end.

Fixpoint zlist_eqb (a b : list Z) : bool :=
  match a, b with
  | [], [] => true
  | x :: a', y :: b' => Z.eqb x y && zlist_eqb a' b'
  | _, _ => false
  end.

Definition desc_eqb (a b : desc) : bool :=
  String.eqb (d_url a) (d_url b) && String.eqb (d_file_type a) (d_file_type b) &&
  (d_levels a =? d_levels b) && proj_eqb (d_proj a) (d_proj b) &&
  String.eqb (d_name a) (d_name b) &&
  zlist_eqb (d_astro a) (d_astro b).

(* Builder(pio) followed by set_name: ImageSet() defaults — tile_levels 0,
   projection SkyImage, all astrometry 0 *)
Definition fresh_builder (p : pyramid_io) (name : string) : desc :=
  mkDesc (builder_url p) (builder_file_type p) 0 SkyImage name [].

(* study.py:152-157 *)
Definition study_apply (levels : N) (d : desc) : desc :=
  mkDesc (d_url d) (d_file_type d) levels (if levels =? 0 then SkyImage else Tan) (d_name d) (d_astro d).

(* builder.py:229-231 *)
Definition toast_apply (depth : N) (d : desc) : desc :=
  mkDesc (d_url d) (d_file_type d) depth Toast (d_name d) (d_astro d).

(* ------------------------------------------------------------------ FitsTiler.tile *)

(* the output directory: absent, or present with/without HiPS "properties" and
   with/without an index_rel.wtml *)
Inductive disk :=
| NoDir
| Dir (hips_properties : bool) (index : option desc).

Record outcome := mkOut {
  returns_self : bool;     (* tile() returned self (true) or fell off a bare return (None) *)
  builder : desc;          (* self.builder after the call = what tile_fits hands back *)
  disk_after : disk }.

(* [tiling] : what _tile_tan / _tile_toast do to the fresh builder (levels,
   projection, astrometry); [hips] : _copy_hips_properties_to_builder.
   fits_tiler.py:142-173 as written. *)
Definition tile_coded (p : pyramid_io) (name : string) (tiling hips : desc -> desc)
           (override : bool) (d : disk) : outcome :=
  let b0 := fresh_builder p name in                      (* 142-144 *)
  let produce := tiling b0 in
  match d with
  | Dir props idx =>                                     (* 146: os.path.isdir(out_dir) *)
      if override
      then mkOut true produce (Dir false (Some produce))   (* 147-153 rmtree; 163-173 *)
      else mkOut false (if props then hips b0 else b0) d   (* 154-161: bare `return` *)
  | NoDir => mkOut true produce (Dir false (Some produce)) (* 163-173 *)
  end.

(* repaired: on reuse restore the builder from the existing index_rel.wtml, return self *)
Definition tile_fixed (p : pyramid_io) (name : string) (tiling hips : desc -> desc)
           (override : bool) (d : disk) : outcome :=
  let b0 := fresh_builder p name in
  let produce := tiling b0 in
  match d with
  | Dir props idx =>
      if override
      then mkOut true produce (Dir false (Some produce))
      else mkOut true
                 (if props then hips b0 else match idx with Some w => w | None => b0 end)
                 d
  | NoDir => mkOut true produce (Dir false (Some produce))
  end.

(* a history of calls on the same directory = the list of override flags *)
Fixpoint run (tile : bool -> disk -> outcome) (h : list bool) (d : disk) : list outcome :=
  match h with
  | [] => []
  | ov :: h' => let o := tile ov d in o :: run tile h' (disk_after o)
  end.

(* the returned description agrees with the WTML on disk *)
Definition agrees (o : outcome) : Prop :=
  exists props, disk_after o = Dir props (Some (builder o)).

Definition agrees_b (o : outcome) : bool :=
  match disk_after o with
  | Dir _ (Some w) => desc_eqb w (builder o)
  | _ => false
  end.
