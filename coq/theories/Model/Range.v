(* Model of the FITS DATAMIN / DATAMAX bookkeeping of a cascade (property C14).
   Definitions only.

   Source anchors
     image.py  644-671   load_path (fits): DATAMIN/DATAMAX cards -> Image.data_min/data_max
     image.py  779-834   Image.from_array keeps min_value/max_value for fits images
     image.py  1212-1240 Image.save (fits): header from the explicit range, else from the
                         array's own finite range (np.nanmin/np.nanmax, skipped when not finite)
     merge.py  200-225   walk_callback passes _get_min_max_of_children to write_image
     pyramid.py 378-420  write_image forwards min_value/max_value to Image.save
     builder.py 236-257  Builder.cascade copies the root tile's cards to the ImageSet
   Pixel values are rationals ([option Q], None = NaN); infinities are outside the model. *)
From Coq Require Import List ZArith QArith Bool.
From Toasty Require Import Model.Quadtree Model.Mask Model.Merge.
Import ListNotations.
Local Open Scope Z_scope.

(* a FITS tile file: the array and its two header cards *)
Record ftile := mkFT { ft_img : img; ft_min : option Q; ft_max : option Q }.

Definition fv_vals (v : fv) : list Q := match v with Some q => [q] | None => [] end.

(* the non-NaN numbers an array element contributes to np.nanmin / np.nanmax *)
Definition px_vals (p : pixel) : list Q :=
  match p with
  | PxF v => fv_vals v
  | PxF3 r g b => fv_vals r ++ fv_vals g ++ fv_vals b
  | PxI v => [inject_Z v]
  | PxC3 r g b => [inject_Z r; inject_Z g; inject_Z b]
  | PxC r g b a => [inject_Z r; inject_Z g; inject_Z b; inject_Z a]
  end.

Definition finite_vals (im : img) : list Q :=
  flat_map (fun r => flat_map (fun c => px_vals (ipx im r c)) (zrange (iw im))) (zrange (ih im)).

Definition qmin (a b : Q) : Q := if Qle_bool a b then a else b.
Definition qmax (a b : Q) : Q := if Qle_bool a b then b else a.

(* min(list) / max(list); None for the empty list *)
Definition qmin_opt (l : list Q) : option Q :=
  match l with [] => None | x :: r => Some (fold_left qmin r x) end.
Definition qmax_opt (l : list Q) : option Q :=
  match l with [] => None | x :: r => Some (fold_left qmax r x) end.

(* Image.save(format="fits", min_value, max_value) *)
Definition save_fits (im : img) (mn mx : option Q) : ftile :=
  mkFT im
       (match mn with Some v => Some v | None => qmin_opt (finite_vals im) end)
       (match mx with Some v => Some v | None => qmax_opt (finite_vals im) end).

Definition opt_vals (l : list (option Q)) : list Q :=
  flat_map (fun o => match o with Some q => [q] | None => [] end) l.

(* TileMerger._get_min_max_of_children *)
Definition children_minmax (is_fits : bool) (cs : list (option ftile)) : option Q * option Q :=
  if is_fits then
    (qmin_opt (opt_vals (map (fun c => match c with Some t => ft_min t | None => None end) cs)),
     qmax_opt (opt_vals (map (fun c => match c with Some t => ft_max t | None => None end) cs)))
  else (None, None).

(* walk_callback for a fits pyramid, on the four child files:
   None = raised; Some None = no parent file afterwards (early return with nothing
   there before, or completely masked -> unlinked); Some (Some t) = the file written *)
Definition range_callback (k : Z) (cs : list (option ftile)) : option (option ftile) :=
  match merge_tiles_fixed Fits k (map (option_map ft_img) cs) with
  | None => None
  | Some None => Some None
  | Some (Some m) =>
      if is_completely_masked m then Some None
      else let mm := children_minmax true cs in Some (Some (save_fits m (fst mm) (snd mm)))
  end.

(* the pyramid by iterated callbacks from the leaf files (cf. Merge.pyramid_spec) *)
Fixpoint range_spec (k : Z) (leaves : pos -> option ftile) (fuel : nat) (p : pos) : option ftile :=
  match fuel with
  | O => leaves p
  | S f =>
      match range_callback k (map (range_spec k leaves f) (children p)) with
      | Some (Some t) => Some t
      | _ => None
      end
  end.

(* Builder.cascade: DATAMIN / DATAMAX of the level-0 tile go to the ImageSet (and
   from there to the WTML); None = the tile or a card is missing (the code raises) *)
Definition builder_range (root_tile : option ftile) : option (Q * Q) :=
  match root_tile with
  | Some t => match ft_min t, ft_max t with Some a, Some b => Some (a, b) | _, _ => None end
  | None => None
  end.

(* ------------------------------------------------------------------ *)
(* specification vocabulary                                             *)

(* all finite pixel values of the leaf tiles beneath p, [fuel] levels down *)
Fixpoint leaf_vals (leaves : pos -> option ftile) (fuel : nat) (p : pos) : list Q :=
  match fuel with
  | O => match leaves p with Some t => finite_vals (ft_img t) | None => [] end
  | S f => flat_map (leaf_vals leaves f) (children p)
  end.

Definition is_min_of (o : option Q) (l : list Q) : Prop :=
  match o with Some m => In m l /\ (forall x, In x l -> (m <= x)%Q) | None => False end.
Definition is_max_of (o : option Q) (l : list Q) : Prop :=
  match o with Some m => In m l /\ (forall x, In x l -> (x <= m)%Q) | None => False end.

(* a leaf "written by toasty": stored through write_image without an explicit
   range, hence not completely masked and carrying its own finite range; k x k,
   of the pyramid's mode, well-typed *)
Definition leaf_ok (k : Z) (bm : mode) (t : ftile) : Prop :=
  good_img k bm (ft_img t) /\ imode (ft_img t) = bm /\ img_ok (ft_img t) /\
  is_completely_masked (ft_img t) = false /\
  t = save_fits (ft_img t) None None.

(* the modes a FITS tile pyramid of scalar data uses *)
Definition scalar_mode (m : mode) : bool :=
  match m with F32 | F64 | U8 | I16 | I32 => true | _ => false end.
