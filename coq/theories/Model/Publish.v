(* Model of the pipeline's publish step (property C18).  Definitions only.

   Source anchors:
     toasty/pipeline/__init__.py  PipelineManager.publish   433-464
        438      for uniq_id in os.listdir(todo_dir)            -> publish_loop over [outer]
        442      filenames = os.listdir(<image dir>)            -> [listing u], any permutation
        444-451  index.wtml swapped with the last entry         -> transfer_order
        455-462  for filename in filenames: put_item(...)       -> transfer
        464      os.rename(approved/<id>, published/<id>)       -> set_published, only after the loop
     toasty/pipeline/local_io.py  LocalPipelineIo.put_item  54-62
        open(fpath, 'wb') truncates/creates the destination, then copies: an
        interrupted copy leaves a partial file in place      -> [atomic = false]
        ([atomic = true]: write to a temporary name, then os.replace -- the repair)
     toasty/pipeline/cli.py  refresh_impl  264-266
        check_exists(uniq_id, "index.wtml") => skip            -> refresh_skips

   File names are numbers; 0 stands for "index.wtml".  A fault is an exception
   (or a crash) at the k-th put_item call of one publish() invocation, counted
   over all images: before anything is written, after half the bytes, or after
   the item is complete (e.g. between the last put_item and the rename). *)
From Coq Require Import List NArith Arith Bool.
Import ListNotations.

Definition name := N.
Definition INDEX : name := 0%N.
Definition imgid := N.

Inductive fstate := Absent | Partial | Complete.

Definition fstate_eqb (a b : fstate) : bool :=
  match a, b with
  | Absent, Absent | Partial, Partial | Complete, Complete => true
  | _, _ => false
  end.

(* os.path.exists on the destination *)
Definition present (s : fstate) : bool :=
  match s with Absent => false | _ => true end.

Definition store := name -> fstate.
Definition empty_store : store := fun _ => Absent.
Definition upd (st : store) (x : name) (s : fstate) : store :=
  fun y => if N.eqb y x then s else st y.

(* list.index(x): position of the first occurrence *)
Fixpoint index_of (x : name) (l : list name) : option nat :=
  match l with
  | [] => None
  | y :: r => if N.eqb y x then Some 0 else option_map S (index_of x r)
  end.

(* l[i] = v *)
Fixpoint set_nth {A} (i : nat) (v : A) (l : list A) : list A :=
  match l, i with
  | [], _ => []
  | _ :: r, 0 => v :: r
  | y :: r, S j => y :: set_nth j v r
  end.

(* publish 444-451:
     index_index = filenames.index('index.wtml')     (ValueError -> unchanged)
     temp = filenames[-1]; filenames[-1] = 'index.wtml'; filenames[index_index] = temp *)
Definition transfer_order (listing : list name) : list name :=
  match index_of INDEX listing with
  | None => listing
  | Some i =>
      let temp := last listing INDEX in
      set_nth i temp (set_nth (length listing - 1) INDEX listing)
  end.

Inductive fault := NoFault | Before (k : nat) | During (k : nat) | After (k : nat).

Definition is_before (f : fault) (k : nat) : bool := match f with Before j => Nat.eqb j k | _ => false end.
Definition is_during (f : fault) (k : nat) : bool := match f with During j => Nat.eqb j k | _ => false end.
Definition is_after (f : fault) (k : nat) : bool := match f with After j => Nat.eqb j k | _ => false end.

(* the put_item loop for one image: [k] calls were made so far in this
   publish(); returns the store, the call count, whether the loop completed,
   and the files handed to put_item (in order, including the faulted one) *)
Fixpoint transfer (atomic : bool) (fs : list name) (k : nat) (f : fault) (st : store)
  : store * nat * bool * list name :=
  match fs with
  | [] => (st, k, true, [])
  | x :: r =>
      let k' := S k in
      if is_before f k' then (st, k', false, [x])
      else if is_during f k' then ((if atomic then st else upd st x Partial), k', false, [x])
      else
        let st' := upd st x Complete in
        if is_after f k' then (st', k', false, [x])
        else let '(st2, k2, ok, log) := transfer atomic r k' f st' in (st2, k2, ok, x :: log)
  end.

Record world := mkWorld {
  w_store : imgid -> store;          (* destination store, per image folder *)
  w_published : imgid -> bool }.     (* false: still in approved/ ; true: moved to published/ *)

Definition clean_world : world := mkWorld (fun _ => empty_store) (fun _ => false).

Definition set_store (w : world) (u : imgid) (st : store) : world :=
  mkWorld (fun v => if N.eqb v u then st else w_store w v) (w_published w).

Definition set_published (w : world) (u : imgid) : world :=
  mkWorld (w_store w) (fun v => if N.eqb v u then true else w_published w v).

(* publish(): the outer loop over the images found in approved/ *)
Fixpoint publish_loop (atomic : bool) (outer : list imgid) (listing : imgid -> list name)
         (k : nat) (f : fault) (w : world) : world * bool * list (imgid * name) :=
  match outer with
  | [] => (w, true, [])
  | u :: r =>
      let '(st', k', ok, log) := transfer atomic (transfer_order (listing u)) k f (w_store w u) in
      let w' := set_store w u st' in
      let ulog := map (fun x => (u, x)) log in
      if ok then
        let '(w2, ok2, log2) := publish_loop atomic r listing k' f (set_published w' u) in
        (w2, ok2, ulog ++ log2)
      else (w', false, ulog)
  end.

(* one publish() invocation: [order] is the order in which os.listdir would
   list all image ids; only those still in approved/ are there to be listed *)
Definition publish (atomic : bool) (order : list imgid) (listing : imgid -> list name)
           (f : fault) (w : world) : world * bool * list (imgid * name) :=
  publish_loop atomic (filter (fun u => negb (w_published w u)) order) listing 0 f w.

(* refresh_impl 264-266 *)
Definition refresh_skips (w : world) (u : imgid) : bool := present (w_store w u INDEX).

(* a history of publish() invocations *)
Record run := mkRun { r_order : list imgid; r_listing : list (imgid * list name); r_fault : fault }.

Definition listing_fun (l : list (imgid * list name)) : imgid -> list name :=
  fun u => match find (fun p => N.eqb (fst p) u) l with Some p => snd p | None => [] end.

Fixpoint run_all (atomic : bool) (rs : list run) (w : world) : world :=
  match rs with
  | [] => w
  | r :: rest =>
      run_all atomic rest (fst (fst (publish atomic (r_order r) (listing_fun (r_listing r)) (r_fault r) w)))
  end.

(* the state the property speaks about *)
Definition others_complete (files : list name) (st : store) : bool :=
  forallb (fun x => N.eqb x INDEX || fstate_eqb (st x) Complete) files.

Definition all_complete (files : list name) (st : store) : bool :=
  forallb (fun x => fstate_eqb (st x) Complete) files.

(* index.wtml in the store (in any state) => every other file complete *)
Definition store_ok (files : list name) (st : store) : bool :=
  negb (present (st INDEX)) || others_complete files st.
