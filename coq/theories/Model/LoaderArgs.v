(* ImageLoader.create_from_args and the crop of ImageLoader.load_pil (toasty/image.py:439-477,
   499-511), by hand: how --crop is expanded to (top, right, bottom, left), which region of the
   input that selects, and that the options go into the NEW loader, the class defaults staying
   as they were.  Definitions only.  Compared with the real classmethod by harness/corr_C08.py
   (loader_args_part). *)
From Coq Require Import ZArith List Bool.
Import ListNotations.
Local Open Scope Z_scope.

(* --crop: 1, 2 or 4 non-negative integers; anything else is rejected (None) *)
Definition expand_crop (l : list Z) : option (list Z) :=
  if forallb (fun c => 0 <=? c) l then
    match l with
    | [c] => Some [c; c; c; c]
    | [cv; ch] => Some [cv; ch; cv; ch]
    | [a; b; c; d] => Some [a; b; c; d]
    | _ => None
    end
  else None.

Record loader_opts := mkLO { lo_b2t : bool; lo_csp : Z; lo_psd : bool; lo_crop : option (list Z) }.
Definition class_defaults : loader_opts := mkLO false 0 false None.     (* csp 0 = "srgb" *)

(* settings: the parsed --crop (None when the option is absent); Some (new loader, class state
   afterwards) or None when the option is rejected *)
Definition create_from_args (cls : loader_opts) (b2t : bool) (csp : Z) (psd : bool) (crop : option (list Z))
  : option (loader_opts * loader_opts) :=
  match crop with
  | None => Some (mkLO b2t csp psd (lo_crop cls), cls)
  | Some l => match expand_crop l with
              | Some c => Some (mkLO b2t csp psd (Some c), cls)
              | None => None
              end
  end.

(* load_pil: the box (left, upper, right, lower) cut from a width x height input *)
Definition crop_box (w h : Z) (c : list Z) : Z * Z * Z * Z :=
  (nth 3 c 0, nth 0 c 0, w - nth 1 c 0, h - nth 2 c 0).
Definition cropped_size (w h : Z) (c : list Z) : Z * Z :=
  let '(l, u, r, d) := crop_box w h c in (r - l, d - u).
