(* The pipeline's housekeeping around publish (property C18, last sentence): refresh also skips an
   image whose store folder holds skip.flag, and `ignore-rejects` writes that flag for every image
   directory it finds in rejects/.  Definitions only.

   Source anchors:
     toasty/pipeline/__init__.py  PipelineManager.ignore_rejects  466-482
        469      rejects_dir = self._path('rejects')
        475-477  for uniq_id in os.listdir(rejects_dir): put_item(uniq_id, 'skip.flag')   -> ignore_rejects
     toasty/pipeline/cli.py  refresh_impl  266-272
        check_exists(uniq_id, "index.wtml") => skip; check_exists(uniq_id, "skip.flag") => skip  -> refresh_skips_full

   [listed] is what os.listdir returned for the directory ignore_rejects walked. *)
From Coq Require Import List NArith Arith Bool.
From Toasty Require Import Model.Publish.
Import ListNotations.

Record hworld := mkH { h_w : world; h_flag : imgid -> bool }.
Definition clean_hworld : hworld := mkH clean_world (fun _ => false).

Inductive hop :=
| HPublish (r : run)
| HIgnore (listed : list imgid).

Definition ignore_rejects (listed : list imgid) (h : hworld) : hworld :=
  mkH (h_w h) (fun u => existsb (N.eqb u) listed || h_flag h u).

Definition hstep (atomic : bool) (h : hworld) (o : hop) : hworld :=
  match o with
  | HPublish r => mkH (fst (fst (publish atomic (r_order r) (listing_fun (r_listing r)) (r_fault r) (h_w h)))) (h_flag h)
  | HIgnore l => ignore_rejects l h
  end.

Definition hrun (atomic : bool) (ops : list hop) (h : hworld) : hworld := fold_left (hstep atomic) ops h.

(* refresh_impl: both tests *)
Definition refresh_skips_full (h : hworld) (u : imgid) : bool := refresh_skips (h_w h) u || h_flag h u.

(* the publish() runs of a history, in order *)
Fixpoint runs_of (ops : list hop) : list run :=
  match ops with [] => [] | HPublish r :: t => r :: runs_of t | HIgnore _ :: t => runs_of t end.

(* every directory listing ignore_rejects saw holds rejected images only *)
Definition ignores_only (rejected : imgid -> bool) (ops : list hop) : Prop :=
  forall l, In (HIgnore l) ops -> forall u, In u l -> rejected u = true.
