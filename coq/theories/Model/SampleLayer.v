(* Model of TOAST layer sampling (property C06).  Definitions only, executable.

   Source anchors
     toasty/toast.py
       toast_tile_get_coords            306-328   (a parameter here: [coords])
       sample_layer                     615-657
       sample_layer_filtered            660-702
       ToastSampler.__init__            730-735
       ToastSampler.visit_callback      737-754
     toasty/pyramid.py
       PyramidIO.get_default_vertical_parity_sign   324-336
       PyramidIO.read_image (default="masked")      338-376
       PyramidIO.write_image                        378-420
       PyramidIO.update_image                       422-441
       Pyramid._generator (level 0 has tile None)   719-722
       Pyramid.visit_leaves / _visit_leaves_serial  1068-1157
     toasty/image.py
       get_format_vertical_parity_sign  (fits: +1, bottom-up; png, jpg, npy: -1)
     toasty/builder.py  toast_base      204-234

   The sky coordinates of a tile's pixel centres are a parameter of the model
   ([coords]; their geometry is the subject of C04/C05).  A pixel value is
   [option V]: None is a masked pixel (NaN for floating-point modes, alpha 0 for
   RGB(A)); a sampler maps a coordinate to such a value. *)
From Coq Require Import List ZArith Bool.
From Toasty Require Import Model.Quadtree.
Import ListNotations.
Local Open Scope Z_scope.

Inductive fmt := Png | Jpg | Npy | Fits.

Definition fmt_eqb (a b : fmt) : bool :=
  match a, b with
  | Png, Png | Jpg, Jpg | Npy, Npy | Fits, Fits => true
  | _, _ => false
  end.

(* get_format_vertical_parity_sign(f) == 1 *)
Definition bottom_up (f : fmt) : bool := match f with Fits => true | _ => false end.

Fixpoint zseq (start : Z) (n : nat) : list Z :=
  match n with O => [] | S n' => start :: zseq (start + 1) n' end.

(* all positions of one level, row-major *)
Definition level_pos (d : nat) : list pos :=
  let n := N.to_nat (2 ^ N.of_nat d) in
  flat_map (fun y => map (fun x => mkPos d (Z.to_N x) (Z.to_N y)) (zseq 0 n)) (zseq 0 n).

(* toast.py 439, 569-570: the filter is asked at every level from 1 down to the tile *)
Definition chain_b (acc : pos -> bool) (p : pos) : bool :=
  forallb (fun k => acc (ancestor k p)) (seq 0 (pn p)).

Section SampleLayer.
  Variables C V : Type.
  Variable sz : Z.                              (* 256 *)
  Variable coords : pos -> Z -> Z -> C.         (* toast_tile_get_coords(tile at pos)[i][j] *)

  (* a stored array: row i, column j *)
  Definition img := Z -> Z -> option V.

  Definition flip (a : img) : img := fun i j => a (sz - 1 - i) j.          (* a[::-1] *)
  Definition masked : img := fun _ _ => None.                              (* make_maskable_buffer + clear *)

  Definition is_none {A} (o : option A) : bool := match o with None => true | Some _ => false end.

  (* Image.is_completely_masked *)
  Definition all_masked (a : img) : bool :=
    let r := zseq 0 (Z.to_nat sz) in
    forallb (fun i => forallb (fun j => is_none (a i j)) r) r.

  (* what a reader sees when the file of format f is shown the right way up *)
  Definition display (f : fmt) (a : img) : img := if bottom_up f then flip a else a.

  (* the tiles on disk: position, extension -> stored array *)
  Definition store := pos -> fmt -> option img.
  Definition empty : store := fun _ _ => None.

  Definition set_file (st : store) (p : pos) (f : fmt) (v : option img) : store :=
    fun q g => if pos_eqb q p && fmt_eqb g f then v else st q g.

  (* PyramidIO.write_image: a completely masked image is not written and any
     existing file is removed (pyramid.py 405-412) *)
  Definition write_image (st : store) (p : pos) (f : fmt) (a : img) : store :=
    set_file st p f (if all_masked a then None else Some a).

  (* read_image(default="masked") *)
  Definition read_or_masked (st : store) (p : pos) (f : fmt) : img :=
    match st p f with Some a => a | None => masked end.

  (* Image.update_into_maskable_buffer: unmasked source pixels replace the basis (C15) *)
  Definition update_into (src basis : img) : img :=
    fun i j => match src i j with Some v => Some v | None => basis i j end.

  Record cfg := mkCfg {
    c_default : fmt;              (* pio.get_default_format() *)
    c_override : option fmt;      (* the format= argument of sample_layer *)
    c_clobber : bool              (* True for sample_layer, False for sample_layer_filtered *)
  }.

  (* format or self._default_format  (pyramid.py 403) *)
  Definition out_fmt (c : cfg) : fmt :=
    match c_override c with Some f => f | None => c_default c end.

  Variable sampler : C -> option V.

  Definition sampled (tp : pos) : img := fun i j => sampler (coords tp i j).

  (* the effect of one callback for a tile that exists (levels >= 1):
     coordinates of THE TILE PASSED IN (tp), written under pos p *)
  Definition visit_one (c : cfg) (st : store) (p tp : pos) : store :=
    let data := sampled tp in                                             (* 738-739 *)
    let data := if bottom_up (c_default c) then flip data else data in    (* 735, 741-742 *)
    if c_clobber c then write_image st p (out_fmt c) data                 (* 746-747 *)
    else write_image st p (c_default c)                                   (* 749-754, 430-441 *)
           (update_into data (read_or_masked st p (c_default c))).

  (* ToastSampler.visit_callback as it stands: tile = None (level 0) reaches
     toast_tile_get_coords and raises AttributeError -> None *)
  Definition visit_callback (c : cfg) (st : store) (p : pos) (tile : option pos) : option store :=
    match tile with
    | None => None
    | Some tp => Some (visit_one c st p tp)
    end.

  (* what visit_leaves hands to the callback: (pos, tile) for each leaf; at depth 0
     the single leaf is the level-0 position with tile None (pyramid.py 722, 1106-1108) *)
  Definition leaf_args (d : nat) (acc : pos -> bool) : list (pos * option pos) :=
    match d with
    | O => [(root, None)]
    | _ => map (fun p => (p, Some p)) (filter (chain_b acc) (level_pos d))
    end.

  Fixpoint run (c : cfg) (st : store) (l : list (pos * option pos)) : option store :=
    match l with
    | [] => Some st
    | (p, t) :: l' =>
        match visit_callback c st p t with
        | None => None
        | Some st' => run c st' l'
        end
    end.

  (* sample_layer: every tile of the level, clobbering *)
  Definition sample_layer (default : fmt) (override : option fmt) (d : nat) (st : store) : option store :=
    run (mkCfg default override true) st (leaf_args d (fun _ => true)).

  (* sample_layer_filtered: accepted leaves, updating.  The `format` it hands to
     ToastSampler is Python's builtin (toast.py 701) and is never used on the
     update path, hence no override. *)
  Definition sample_layer_filtered (default : fmt) (acc : pos -> bool) (d : nat) (st : store) : option store :=
    run (mkCfg default None false) st (leaf_args d acc).

  (* ---- repaired behaviour (fixes/C06-1.patch, fixes/C06-2.patch) ------------- *)

  (* level-0 grid: the 2 x 2 arrangement of the level-1 tiles' half-resolution
     grids; [coords_half] is subsample(..., npix = 128) of a level-1 tile *)
  Variable coords_half : pos -> Z -> Z -> C.
  Definition coords0 : Z -> Z -> C :=
    fun i j => let h := sz / 2 in
               coords_half (mkPos 1 (Z.to_N (j / h)) (Z.to_N (i / h))) (i mod h) (j mod h).

  Definition sampled_t (t : option pos) : img :=
    match t with
    | Some tp => sampled tp
    | None => fun i j => sampler (coords0 i j)
    end.

  (* rows reversed iff the format actually written is bottom-up *)
  Definition visit_fixed (c : cfg) (st : store) (p : pos) (t : option pos) : store :=
    let f := if c_clobber c then out_fmt c else c_default c in
    let data := sampled_t t in
    let data := if bottom_up f then flip data else data in
    if c_clobber c then write_image st p f data
    else write_image st p f (update_into data (read_or_masked st p f)).

  Fixpoint run_fixed (c : cfg) (st : store) (l : list (pos * option pos)) : store :=
    match l with
    | [] => st
    | (p, t) :: l' => run_fixed c (visit_fixed c st p t) l'
    end.

  Definition sample_layer_fixed (default : fmt) (override : option fmt) (d : nat) (st : store) : store :=
    run_fixed (mkCfg default override true) st (leaf_args d (fun _ => true)).
  Definition sample_layer_filtered_fixed (default : fmt) (acc : pos -> bool) (d : nat) (st : store) : store :=
    run_fixed (mkCfg default None false) st (leaf_args d acc).

End SampleLayer.
