(* Model of the WCS parity code of toasty/image.py (property C16), over Q.
   Definitions only.

   Source anchors (image.py):
     _wcs_to_parity_sign                244-256   -> parity_sign
     _flip_wcs_parity                   259-278   -> flip_hdr
     ImageDescription.get_parity_sign   318-336, flip_parity 338-358,
       ensure_negative_parity 360-377            -> desc_flip, desc_ensure_negative
     Image.get_parity_sign              ~965-988, flip_parity 989-1011,
       ensure_negative_parity 1013-1033          -> image_flip, image_ensure_negative

   The linear part of a FITS WCS as the code reads it from wcs.to_header():
   CDELTi and PCi_j, absent PC keywords standing for the identity matrix
   (h.get("PC1_1", 1.0) / h.setdefault(...)), and the reference pixel CRPIXj.
   CRVAL, CTYPE, LONPOLE ... are not touched by the code and not modelled: the
   celestial position is the same function of the intermediate world
   coordinates before and after (astropy/wcslib, trusted). *)
From Coq Require Import List ZArith QArith.
Import ListNotations.
Local Open Scope Q_scope.

Record hdr := mkHdr {
  cdelt1 : Q; cdelt2 : Q;
  pc11 : option Q; pc12 : option Q; pc21 : option Q; pc22 : option Q;
  crpix1 : Q; crpix2 : Q }.

Definition dflt (d : Q) (o : option Q) : Q := match o with Some v => v | None => d end.

(* image.py:247-250 and 263-266 *)
Definition cd11 (h : hdr) : Q := cdelt1 h * dflt 1 (pc11 h).
Definition cd12 (h : hdr) : Q := cdelt1 h * dflt 0 (pc12 h).
Definition cd21 (h : hdr) : Q := cdelt2 h * dflt 0 (pc21 h).
Definition cd22 (h : hdr) : Q := cdelt2 h * dflt 1 (pc22 h).

Definition det (h : hdr) : Q := cd11 h * cd22 h - cd12 h * cd21 h.

(* image.py:252-256: `if det < 0: return 1` else -1 *)
Definition parity_sign (h : hdr) : Z := if Qle_bool 0 (det h) then (-1)%Z else 1%Z.

(* image.py:259-278: the header the new WCS is built from has the CD matrix
   (CDELT/PC removed), CD1_2 and CD2_2 negated and CRPIX2 reflected.  Read back
   through to_header() such a WCS shows CDELTi = 1 and PCi_j = CDi_j. *)
Definition flip_hdr (height : Z) (h : hdr) : hdr :=
  mkHdr 1 1
        (Some (cd11 h)) (Some (- cd12 h)) (Some (cd21 h)) (Some (- cd22 h))
        (crpix1 h) (inject_Z height + 1 - crpix2 h).

(* intermediate world coordinates of the 0-based pixel (x, y) -- FITS pixel
   coordinates are 1-based *)
Definition iw1 (h : hdr) (x y : Q) : Q := cd11 h * (x + 1 - crpix1 h) + cd12 h * (y + 1 - crpix2 h).
Definition iw2 (h : hdr) (x y : Q) : Q := cd21 h * (x + 1 - crpix1 h) + cd22 h * (y + 1 - crpix2 h).

(* an image: its rows (top to bottom as stored) and its WCS *)
Record image (A : Type) := mkImage { rows : list A; i_hdr : hdr }.
Arguments mkImage {A}. Arguments rows {A}. Arguments i_hdr {A}.

Definition height_of {A} (im : image A) : Z := Z.of_nat (length (rows im)).

(* Image.flip_parity: self._wcs = _flip_wcs_parity(self._wcs, self.height);
   self._array = self.asarray()[::-1] *)
Definition image_flip {A} (im : image A) : image A :=
  mkImage (rev (rows im)) (flip_hdr (height_of im) (i_hdr im)).

Definition image_ensure_negative {A} (im : image A) : image A :=
  if Z.eqb (parity_sign (i_hdr im)) 1 then image_flip im else im.

(* ImageDescription: shape and WCS, no data *)
Record desc := mkDesc { d_height : Z; d_width : Z; d_hdr : hdr }.

Definition desc_flip (d : desc) : desc :=
  mkDesc (d_height d) (d_width d) (flip_hdr (d_height d) (d_hdr d)).

Definition desc_ensure_negative (d : desc) : desc :=
  if Z.eqb (parity_sign (d_hdr d)) 1 then desc_flip d else d.

(* two headers describing the same linear WCS *)
Definition hdr_equiv (a b : hdr) : Prop :=
  cd11 a == cd11 b /\ cd12 a == cd12 b /\ cd21 a == cd21 b /\ cd22 a == cd22 b /\
  crpix1 a == crpix1 b /\ crpix2 a == crpix2 b.

Definition hdr_equivb (a b : hdr) : bool :=
  Qeq_bool (cd11 a) (cd11 b) && Qeq_bool (cd12 a) (cd12 b) && Qeq_bool (cd21 a) (cd21 b) &&
  Qeq_bool (cd22 a) (cd22 b) && Qeq_bool (crpix1 a) (crpix1 b) && Qeq_bool (crpix2 a) (crpix2 b).
