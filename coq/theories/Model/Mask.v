(* Model of toasty's mask semantics and tile persistence (property C15; reused by
   Merge.v for C02 and Range.v for C14).  Definitions only.

   Source anchors
     image.py   116-229   ImageMode, make_maskable_buffer (RGB -> RGBA buffer)
     image.py   1058-1098 fill_into_maskable_buffer
     image.py   1100-1154 update_into_maskable_buffer
     image.py   1156-1172 is_completely_masked
     image.py   1295-1319 clear
     image.py   624-713, 1174-1240  load_path / save per format
     pyramid.py 338-376   PyramidIO.read_image
     pyramid.py 378-420   PyramidIO.write_image
   numpy/CPython pieces that are modelled (trusted, checked by the correspondence):
     slice normalisation  = CPython PySlice_Unpack + PySlice_AdjustIndices
     b[sy, sx] = a[ty, tx], np.putmask, np.maximum(out=) on basic-slice views.

   Pixels: floats are [option Q] (None = NaN; the values are only moved, never
   computed with, in this file), integers and colour channels are [Z]. *)
From Coq Require Import List ZArith QArith Bool.
From Toasty Require Import Model.Quadtree.
Import ListNotations.
Local Open Scope Z_scope.

Inductive mode := RGB | RGBA | F32 | F64 | F16x3 | U8 | I16 | I32.

Definition mode_eqb (a b : mode) : bool :=
  match a, b with
  | RGB, RGB | RGBA, RGBA | F32, F32 | F64, F64 | F16x3, F16x3 | U8, U8 | I16, I16 | I32, I32 => true
  | _, _ => false
  end.

Definition fv := option Q.          (* None = NaN *)

Inductive pixel :=
| PxF (v : fv)                      (* F32, F64 *)
| PxF3 (r g b : fv)                 (* F16x3 *)
| PxI (v : Z)                       (* U8, I16, I32 *)
| PxC3 (r g b : Z)                  (* RGB *)
| PxC (r g b a : Z).                (* RGBA *)

(* the pixel constructor an array of the given mode holds *)
Definition px_ok (m : mode) (p : pixel) : bool :=
  match m, p with
  | RGB, PxC3 _ _ _ => true
  | RGBA, PxC _ _ _ _ => true
  | (F32 | F64), PxF _ => true
  | F16x3, PxF3 _ _ _ => true
  | (U8 | I16 | I32), PxI _ => true
  | _, _ => false
  end.

(* an image: a [ih] x [iw] array; [ipx im r c] is only meaningful for
   0 <= r < ih, 0 <= c < iw *)
Record img := mkImg { ih : Z; iw : Z; imode : mode; ipx : Z -> Z -> pixel }.

(* ------------------------------------------------------------------ *)
(* Python slices and their normalisation against an axis length.       *)

Record slice := mkSlice { s_start : option Z; s_stop : option Z; s_step : option Z }.

(* PySlice_AdjustIndices, applied to an explicit start or stop value *)
Definition adjust (len step v : Z) : Z :=
  if v <? 0 then
    (if v + len <? 0 then (if step <? 0 then -1 else 0) else v + len)
  else if len <=? v then (if step <? 0 then len - 1 else len)
  else v.

(* the selected indices are  first + r * step,  0 <= r < count *)
Record view := mkView { v_first : Z; v_step : Z; v_count : Z }.

(* slice.indices(len) plus the resulting length; None = ValueError (step 0) *)
Definition slice_view (len : Z) (s : slice) : option view :=
  let step := match s_step s with None => 1 | Some k => k end in
  if step =? 0 then None else
  let start := match s_start s with
               | None => if step <? 0 then len - 1 else 0       (* PY_SSIZE_T_MAX / 0, adjusted *)
               | Some v => adjust len step v end in
  let stop := match s_stop s with
              | None => if step <? 0 then -1 else len           (* PY_SSIZE_T_MIN / MAX, adjusted *)
              | Some v => adjust len step v end in
  let n := if step <? 0
           then (if stop <? start then (start - stop - 1) / (- step) + 1 else 0)
           else (if start <? stop then (stop - start - 1) / step + 1 else 0) in
  Some (mkView start step n).

Definition view_at (v : view) (r : Z) : Z := v_first v + r * v_step v.

(* which position of the view, if any, is array index [i] *)
Definition view_inv (v : view) (i : Z) : option Z :=
  let d := i - v_first v in
  let q := d / v_step v in
  if (q * v_step v =? d) && (0 <=? q) && (q <? v_count v) then Some q else None.

Definition full_slice : slice := mkSlice None None None.

(* ------------------------------------------------------------------ *)
(* Mode-specific pixel behaviour.                                       *)

(* ImageMode.make_maskable_buffer: RGB and RGBA both get a 4-channel buffer *)
Definition maskable (m : mode) : mode := match m with RGB => RGBA | _ => m end.

(* np.empty: contents arbitrary, supplied by the caller as [junk] *)
Definition make_maskable_buffer (m : mode) (h w : Z) (junk : Z -> Z -> pixel) : img :=
  mkImg h w (maskable m) junk.

(* what fill_into_maskable_buffer's b.fill(...) writes, by *source* mode
   (image.py:1087-1096): zeros for RGB/RGBA/integers, NaN for floats *)
Definition masked_px (m : mode) : pixel :=
  match m with
  | RGB | RGBA => PxC 0 0 0 0
  | F32 | F64 => PxF None
  | F16x3 => PxF3 None None None
  | U8 | I16 | I32 => PxI 0
  end.

(* the value stored for a source pixel: RGB gains alpha 255 (image.py:1089-1090, 1131-1132) *)
Definition fill_px (m : mode) (s : pixel) : pixel :=
  match m, s with
  | RGB, PxC3 r g b => PxC r g b 255
  | _, _ => s
  end.

(* update's own validity test of a source pixel, by source mode (image.py:1130-1150);
   integers have no test: np.maximum is applied to every pixel *)
Definition src_valid (m : mode) (s : pixel) : bool :=
  match m, s with
  | RGB, _ => true
  | RGBA, PxC _ _ _ a => negb (a =? 0)
  | (F32 | F64), PxF v => match v with Some _ => true | None => false end
  | F16x3, PxF3 r g b =>
      match r, g, b with Some _, Some _, Some _ => true | _, _, _ => false end
  | (U8 | I16 | I32), PxI v => negb (v =? 0)
  | _, _ => false
  end.

Definition is_int_mode (m : mode) : bool :=
  match m with U8 | I16 | I32 => true | _ => false end.

(* new buffer pixel from source pixel [s] and old buffer pixel [o] *)
Definition upd_px (m : mode) (s o : pixel) : pixel :=
  match m with
  | U8 | I16 | I32 =>
      match s, o with PxI a, PxI b => PxI (Z.max b a) | _, _ => o end   (* np.maximum(sub_b, sub_i, out=sub_b) *)
  | _ => if src_valid m s then fill_px m s else o                       (* putmask / plain store for RGB *)
  end.

(* "undefined" as the buffer represents it (alpha 0 / NaN / zero), used by the
   theorems; for F16x3 the update path tests "some channel NaN" ... *)
Definition undef_px (p : pixel) : bool :=
  match p with
  | PxF None => true
  | PxF (Some _) => false
  | PxF3 (Some _) (Some _) (Some _) => false
  | PxF3 _ _ _ => true
  | PxI v => v =? 0
  | PxC3 _ _ _ => false
  | PxC _ _ _ a => a =? 0
  end.

(* ... while is_completely_masked tests "every channel NaN" (image.py:1165-1166) *)
Definition nan_all (p : pixel) : bool :=
  match p with
  | PxF None => true
  | PxF3 None None None => true
  | _ => false
  end.

Definition alpha0 (p : pixel) : bool :=
  match p with PxC _ _ _ a => a =? 0 | _ => false end.

(* ------------------------------------------------------------------ *)
(* fill / update / clear / is_completely_masked                         *)

(* The four indexers resolved against source and buffer shapes.  None when a
   slice has step 0, when the rectangles disagree in size (outside the
   documented contract, image.py:1078-1079) or when the buffer is not the
   maskable buffer of the source's mode. *)
Definition rects (src buf : img) (iy ix by_ bx : slice) : option (view * view * view * view) :=
  match slice_view (ih src) iy, slice_view (iw src) ix,
        slice_view (ih buf) by_, slice_view (iw buf) bx with
  | Some vy, Some vx, Some wy, Some wx =>
      if (v_count vy =? v_count wy) && (v_count vx =? v_count wx)
         && mode_eqb (imode buf) (maskable (imode src))
      then Some (vy, vx, wy, wx) else None
  | _, _, _, _ => None
  end.

(* b.fill(mask); b[by, bx] = i[iy, ix] *)
Definition fill_into (src buf : img) (iy ix by_ bx : slice) : option img :=
  match rects src buf iy ix by_ bx with
  | None => None
  | Some (vy, vx, wy, wx) =>
      Some (mkImg (ih buf) (iw buf) (imode buf)
              (fun r c =>
                 match view_inv wy r, view_inv wx c with
                 | Some p, Some q => fill_px (imode src) (ipx src (view_at vy p) (view_at vx q))
                 | _, _ => masked_px (imode src)
                 end))
  end.

(* sub_b = b[by, bx]; sub_i = i[iy, ix]; mode-specific masked store into sub_b.
   [u] is the per-pixel rule: [upd_px] for the code before fix a186b8b (np.maximum on integers),
   [upd_px_fixed] for the code as it is now. *)
Definition update_into_gen (u : mode -> pixel -> pixel -> pixel)
           (src buf : img) (iy ix by_ bx : slice) : option img :=
  match rects src buf iy ix by_ bx with
  | None => None
  | Some (vy, vx, wy, wx) =>
      Some (mkImg (ih buf) (iw buf) (imode buf)
              (fun r c =>
                 match view_inv wy r, view_inv wx c with
                 | Some p, Some q => u (imode src) (ipx src (view_at vy p) (view_at vx q)) (ipx buf r c)
                 | _, _ => ipx buf r c
                 end))
  end.

Definition update_into : img -> img -> slice -> slice -> slice -> slice -> option img :=
  update_into_gen upd_px.

(* Repaired integer rule (finding C02-1; /repo commit a186b8b, the code as it is now): zero means undefined on
   both sides, so a zero buffer pixel takes the source and a zero source leaves
   the buffer alone, whatever the signs; two non-zero values keep the larger.
   Coincides with np.maximum on non-negative data. *)
Definition upd_px_fixed (m : mode) (s o : pixel) : pixel :=
  match m with
  | U8 | I16 | I32 =>
      match s, o with
      | PxI a, PxI b => if (b =? 0) || (negb (a =? 0) && (b <? a)) then PxI a else PxI b
      | _, _ => o
      end
  | _ => upd_px m s o
  end.

Definition update_into_fixed : img -> img -> slice -> slice -> slice -> slice -> option img :=
  update_into_gen upd_px_fixed.

(* Image.clear: by the image's own mode; a 3-channel RGB image is zeroed *)
Definition clear_px (m : mode) : pixel :=
  match m with RGB => PxC3 0 0 0 | _ => masked_px m end.

Definition clear (im : img) : img :=
  mkImg (ih im) (iw im) (imode im) (fun _ _ => clear_px (imode im)).

Definition zrange (n : Z) : list Z := map Z.of_nat (seq 0 (Z.to_nat n)).

Definition all_px (im : img) (f : pixel -> bool) : bool :=
  forallb (fun r => forallb (fun c => f (ipx im r c)) (zrange (iw im))) (zrange (ih im)).

Definition is_completely_masked (im : img) : bool :=
  match imode im with
  | RGB | U8 | I16 | I32 => false
  | F32 | F64 | F16x3 => all_px im nan_all       (* np.all(np.isnan(i)) *)
  | RGBA => all_px im alpha0                     (* np.all(i[..., 3] == 0) *)
  end.

(* ------------------------------------------------------------------ *)
(* Tile files.                                                          *)

Inductive fmt := Png | Jpg | Npy | Fits.

Definition fmt_eqb (a b : fmt) : bool :=
  match a, b with Png, Png | Jpg, Jpg | Npy, Npy | Fits, Fits => true | _, _ => false end.

(* lossless formats able to hold a mode: what Image.save followed by
   ImageLoader.load_path gives back unchanged (pixels and mode) *)
Definition holds (f : fmt) (m : mode) : bool :=
  match f, m with
  | Png, (RGB | RGBA) => true
  | Npy, _ => true
  | Fits, F16x3 => false
  | Fits, _ => true
  | _, _ => false
  end.

(* what a file decodes to *)
Inductive fdata :=
| FExact (im : img)           (* load_path returns these pixels and this mode *)
| FLossy (h w : Z).           (* jpg: an RGB image of that size, pixel values not modelled *)

(* Image.save; None = the (format, mode) pair is outside the model (save raises
   or stores something the loader rejects) *)
Definition encode (f : fmt) (im : img) : option fdata :=
  if holds f (imode im) then Some (FExact im)
  else match f, imode im with
       | Jpg, (RGB | RGBA) => Some (FLossy (ih im) (iw im))
       | _, _ => None
       end.

(* one file per (position, extension) *)
Definition store := pos -> fmt -> option fdata.

Definition st_set (st : store) (p : pos) (f : fmt) (v : option fdata) : store :=
  fun p' f' => if pos_eqb p' p && fmt_eqb f' f then v else st p' f'.

Definition or_default (dflt : fmt) (f : option fmt) : fmt :=
  match f with Some x => x | None => dflt end.

(* PyramidIO.write_image (pyramid.py:403-420): unlink when the image is
   completely masked by its own predicate, else save. *)
Definition write_image (dflt : fmt) (st : store) (p : pos) (im : img) (f : option fmt) : option store :=
  let f' := or_default dflt f in
  if is_completely_masked im then Some (st_set st p f' None)
  else match encode f' im with
       | Some d => Some (st_set st p f' (Some d))
       | None => None
       end.

Inductive rdefault := DNone | DMasked | DOther.

Inductive rres :=
| RImg (im : img)
| RLossy (h w : Z)
| RAbsent                      (* returns None *)
| RError.                      (* raises ValueError *)

(* PyramidIO.read_image (pyramid.py:355-376) *)
Definition read_image (dflt : fmt) (st : store) (p : pos) (d : rdefault) (mm : option mode)
           (f : option fmt) : rres :=
  match st p (or_default dflt f) with
  | Some (FExact im) => RImg im
  | Some (FLossy h w) => RLossy h w
  | None =>
      match d with
      | DNone => RAbsent
      | DMasked =>
          match mm with
          | None => RError
          | Some m => RImg (clear (make_maskable_buffer m 256 256 (fun _ _ => masked_px m)))
          end
      | DOther => RError
      end
  end.

(* histories of operations on one PyramidIO *)
Inductive op :=
| OWrite (p : pos) (im : img) (f : option fmt)
| ORead (p : pos) (d : rdefault) (mm : option mode) (f : option fmt).

(* final store and the results of the reads, in order; None = some write was
   outside the model *)
Fixpoint run_ops (dflt : fmt) (st : store) (ops : list op) : option (store * list rres) :=
  match ops with
  | [] => Some (st, [])
  | OWrite p im f :: rest =>
      match write_image dflt st p im f with
      | None => None
      | Some st' => run_ops dflt st' rest
      end
  | ORead p d mm f :: rest =>
      match run_ops dflt st rest with
      | None => None
      | Some (st', rs) => Some (st', read_image dflt st p d mm f :: rs)
      end
  end.

(* the last write addressed to file (p, f), if any *)
Fixpoint last_write (dflt : fmt) (p : pos) (f : fmt) (ops : list op) : option img :=
  match ops with
  | [] => None
  | OWrite p' im f' :: rest =>
      match last_write dflt p f rest with
      | Some x => Some x
      | None => if pos_eqb p p' && fmt_eqb f (or_default dflt f') then Some im else None
      end
  | ORead _ _ _ _ :: rest => last_write dflt p f rest
  end.

(* ------------------------------------------------------------------ *)
(* helpers for executable comparison (correspondence)                   *)

Definition q_same (a b : Q) : bool := Z.eqb (Qnum a) (Qnum b) && Pos.eqb (Qden a) (Qden b).
Definition fv_same (a b : fv) : bool :=
  match a, b with Some x, Some y => q_same x y | None, None => true | _, _ => false end.

Definition pixel_eqb (a b : pixel) : bool :=
  match a, b with
  | PxF x, PxF y => fv_same x y
  | PxF3 a1 a2 a3, PxF3 b1 b2 b3 => fv_same a1 b1 && fv_same a2 b2 && fv_same a3 b3
  | PxI x, PxI y => Z.eqb x y
  | PxC3 a1 a2 a3, PxC3 b1 b2 b3 => Z.eqb a1 b1 && Z.eqb a2 b2 && Z.eqb a3 b3
  | PxC a1 a2 a3 a4, PxC b1 b2 b3 b4 => Z.eqb a1 b1 && Z.eqb a2 b2 && Z.eqb a3 b3 && Z.eqb a4 b4
  | _, _ => false
  end.

(* same shape, mode and pixels on the whole array *)
Definition img_eqb (a b : img) : bool :=
  Z.eqb (ih a) (ih b) && Z.eqb (iw a) (iw b) && mode_eqb (imode a) (imode b)
  && forallb (fun r => forallb (fun c => pixel_eqb (ipx a r c) (ipx b r c)) (zrange (iw a))) (zrange (ih a)).

(* ------------------------------------------------------------------ *)
(* specification vocabulary used by the theorem statements              *)

(* array index [i] of an axis of length [len] is the [p]-th index selected by
   the Python slice [s] *)
Definition selects (len : Z) (s : slice) (p i : Z) : Prop :=
  exists v, slice_view len s = Some v /\ 0 <= p < v_count v /\ i = view_at v p.

(* buffer pixel (r, c) lies in the rectangle addressed by (by_, bx) *)
Definition in_rect (buf : img) (by_ bx : slice) (r c : Z) : Prop :=
  exists p q, selects (ih buf) by_ p r /\ selects (iw buf) bx q c.

Definition img_ok (im : img) : Prop := forall r c, px_ok (imode im) (ipx im r c) = true.

Definition nonneg_px (p : pixel) : Prop := match p with PxI v => 0 <= v | _ => True end.

(* a write the model covers *)
Definition writable (dflt : fmt) (o : op) : Prop :=
  match o with
  | OWrite _ im f => is_completely_masked im = true \/ encode (or_default dflt f) im <> None
  | ORead _ _ _ _ => True
  end.
