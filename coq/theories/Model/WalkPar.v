(* Model of toasty/pyramid.py Pyramid._walk_parallel (933-1066) and _mp_walk_worker
   (1383-1398): a dispatcher, an unbounded ready queue, a done queue bounded by
   2*parallel, a "readiness" table, and worker processes.

   Queue model as in VisitPar.v (CPython 3.12 multiprocessing.queues): every
   process that puts to a queue has its own local buffer and feeder; pipes are
   FIFO with some capacity >= 1; put() on the bounded queue takes a semaphore that
   get() releases; get(timeout) may time out only on an empty pipe; a process
   exits only after its feeders have flushed.  A callback has one sync point between its start and its end.
   Definitions only. *)
From Coq Require Import List NArith Arith Bool.
From Toasty Require Import Model.Quadtree Model.Reducer.
Import ListNotations.

(* ---- preparation pass (933-994): count, readiness prefill, seeds --------------- *)

Definition opsdata : Type := ((bool * N) * (bool * N) * (bool * N) * (bool * N))%type.
Definition logent : Type := (pos * bool * opsdata)%type.

Definition bits_of (t : opsdata) : N :=
  let '(a, b, c, e) := t in
  ((if fst a then 0%N else 1%N) + (if fst b then 0%N else 2%N) +
   (if fst c then 0%N else 4%N) + (if fst e then 0%N else 8%N))%N.

Definition live_of (leaf : bool) (t : opsdata) : bool :=
  let '(a, b, c, e) := t in if leaf then true else fst a || fst b || fst c || fst e.

Definition prep_readiness (log : list logent)
  : list (pos * N) :=
  flat_map (fun e : logent => let '(p, leaf, t) := e in
                     if leaf then [] else
                     if N.eqb (bits_of t) 0%N then [] else [(p, bits_of t)]) log.

Definition prep_seeds (dep : nat) (log : list logent)
  : list pos :=
  flat_map (fun e : logent => let '(p, leaf, t) := e in
                     if Nat.eqb (S (pn p)) dep && live_of leaf t then [p] else []) log.

Record prep_t := mkPrep { p_total : N; p_rdy : list (pos * N); p_seeds : list pos }.

Definition prep (P : pyr) : option prep_t :=
  match riter_run f_ops (false, 0%N) P with
  | RErr => None
  | ROk log (_, total) => Some (mkPrep total (prep_readiness log) (prep_seeds (depth P) log))
  end.

(* ---- the LTS ------------------------------------------------------------------ *)

Inductive dpc :=
| DSeed (l : list pos)       (* seeding the ready queue, workers not started yet *)
| DLoop                      (* done_queue.get(True, timeout=1) *)
| DRelease (p : pos)         (* ready_queue.put(ppos) *)
| DClose | DJoinFeeder | DSet | DJoin (k : nat) | DReturned
| DRaised.                   (* an exception escaped the dispatcher *)

Inductive wpc :=
| KAtGet                     (* ready_queue.get(True, timeout=1) *)
| KAtFlag                    (* done_event.is_set() after a timeout *)
| KInCb (p : pos)            (* inside callback(p) *)
| KAtPut (p : pos)           (* callback(p) returned; done_queue.put(p) *)
| KExiting (code : nat)      (* loop left / crashed; waiting for own feeder to flush *)
| KExited (code : nat).

Inductive wact :=
| DPut                       (* main: ready_queue.put (seed or release) *)
| DRecv | DTimeout           (* main: done_queue.get *)
| DCloseQ | DJoinThread | DSetFlag | DJoinW (w : nat)
| FFlushReady | FFeederExit  (* main's feeder of the ready queue *)
| FFlushDone (w : nat)       (* worker w's feeder of the done queue *)
| KRecv (w : nat) | KTimeout (w : nat) | KIsSet (w : nat) | KCb (w : nat) | KPut (w : nat) | KExit (w : nat)
| KCTimeout (w : nat).        (* ready_queue.get raises Empty although the pipe holds items: the queue's reader lock
                                stayed taken (queues.py: `if not self._rlock.acquire(block, timeout): raise Empty`) *)

Record wstate := mkWS {
  s_apex : pos; s_par : nat; s_pcap : nat;
  rq_buf : list pos; rq_pipe : list pos; rq_everput : bool;
  rq_closed : bool; rq_fdone : bool;
  dq_bufs : list (list pos); dq_pipe : list pos; dq_sem : nat;
  rdy : list (pos * N);
  wflag : bool;
  d_pc : dpc;
  wks : list (wpc * bool);          (* (control state, has ever put to the done queue) *)
  cblog : list (bool * pos * nat)   (* callback events (false = start / true = end, position, worker), newest first *)
}.

Definition rdy_get (r : list (pos * N)) (p : pos) : N :=
  match find (fun e => pos_eqb (fst e) p) r with Some (_, v) => v | None => 0%N end.

Definition rdy_remove (r : list (pos * N)) (p : pos) : list (pos * N) :=
  filter (fun e => negb (pos_eqb (fst e) p)) r.

Definition rdy_set (r : list (pos * N)) (p : pos) (v : N) : list (pos * N) :=
  (p, v) :: rdy_remove r p.

Definition start_workers (par : nat) : list (wpc * bool) := repeat (KAtGet, false) par.

Definition winit (P : pyr) (par pcap : nat) : option wstate :=
  match prep P with
  | None => None
  | Some pr =>
      let base dp ws :=
          mkWS (apex P) par pcap [] [] false false false (repeat [] par) [] (2 * par) (p_rdy pr)
               false dp ws [] in
      Some (if N.eqb (p_total pr) 0 then base DReturned []
            else match p_seeds pr with
                 | [] => base DLoop (start_workers par)
                 | l => base (DSeed l) []
                 end)
  end.

Definition nth_buf (l : list (list pos)) (w : nat) : list pos := nth w l [].

Definition set_nth {T} (l : list T) (w : nat) (x : T) : list T :=
  firstn w l ++ x :: skipn (S w) l.

Definition wk_get (s : wstate) (w : nat) : option (wpc * bool) := nth_error (wks s) w.

(* some worker other than [w] is inside ready_queue.get() (it may hold the reader lock) *)
Definition other_at_get (l : list (wpc * bool)) (w : nat) : bool :=
  existsb (fun h => negb (Nat.eqb h w) &&
                    match nth_error l h with Some (KAtGet, _) => true | _ => false end) (seq 0 (length l)).

Definition wk_exited (x : option (wpc * bool)) : bool :=
  match x with Some (KExited _, _) => true | _ => false end.

Definition wenabled (s : wstate) (a : wact) : bool :=
  match a with
  | DPut => match d_pc s with DSeed (_ :: _) | DRelease _ => true | _ => false end
  | DRecv => match d_pc s with DLoop => negb (match dq_pipe s with [] => true | _ => false end) | _ => false end
  | DTimeout => match d_pc s with DLoop => match dq_pipe s with [] => true | _ => false end | _ => false end
  | DCloseQ => match d_pc s with DClose => true | _ => false end
  | DJoinThread => match d_pc s with
                   | DJoinFeeder => negb (rq_everput s) || rq_fdone s
                   | _ => false end
  | DSetFlag => match d_pc s with DSet => true | _ => false end
  | DJoinW w => match d_pc s with DJoin k => Nat.eqb k w && wk_exited (wk_get s w) | _ => false end
  | FFlushReady => negb (match rq_buf s with [] => true | _ => false end)
                   && Nat.ltb (length (rq_pipe s)) (s_pcap s)
  | FFeederExit => rq_closed s && rq_everput s && (match rq_buf s with [] => true | _ => false end)
                   && negb (rq_fdone s)
  | FFlushDone w => negb (match nth_buf (dq_bufs s) w with [] => true | _ => false end)
                    && Nat.ltb (length (dq_pipe s)) (s_pcap s)
  | KRecv w => match wk_get s w with
               | Some (KAtGet, _) => negb (match rq_pipe s with [] => true | _ => false end)
               | _ => false end
  | KTimeout w => match wk_get s w with
                  | Some (KAtGet, _) => match rq_pipe s with [] => true | _ => false end
                  | _ => false end
  | KIsSet w => match wk_get s w with Some (KAtFlag, _) => true | _ => false end
  | KCTimeout w => match wk_get s w with
                   | Some (KAtGet, _) => negb (match rq_pipe s with [] => true | _ => false end)
                                         && other_at_get (wks s) w
                   | _ => false end
  | KCb w => match wk_get s w with Some (KInCb _, _) => true | _ => false end
  | KPut w => match wk_get s w with Some (KAtPut _, _) => Nat.ltb 0 (dq_sem s) | _ => false end
  | KExit w => match wk_get s w with
               | Some (KExiting _, _) => match nth_buf (dq_bufs s) w with [] => true | _ => false end
               | _ => false end
  end.

Section WStep.
  Variable bad : pos -> bool.        (* positions whose callback raises *)

  Definition upd (s : wstate) rqb rqp ev cl fd dqb dqp sem r fl dp ws lg : wstate :=
    mkWS (s_apex s) (s_par s) (s_pcap s) rqb rqp ev cl fd dqb dqp sem r fl dp ws lg.

  Definition set_dpc (s : wstate) (dp : dpc) : wstate :=
    upd s (rq_buf s) (rq_pipe s) (rq_everput s) (rq_closed s) (rq_fdone s) (dq_bufs s) (dq_pipe s)
        (dq_sem s) (rdy s) (wflag s) dp (wks s) (cblog s).

  Definition set_wk (s : wstate) (w : nat) (x : wpc * bool) : wstate :=
    upd s (rq_buf s) (rq_pipe s) (rq_everput s) (rq_closed s) (rq_fdone s) (dq_bufs s) (dq_pipe s)
        (dq_sem s) (rdy s) (wflag s) (d_pc s) (set_nth (wks s) w x) (cblog s).

  (* worker leaves its loop (normally or by a crash): a process that wrote to the
     done queue must flush its buffer before it is gone *)
  Definition leave (everput : bool) (code : nat) : wpc :=
    if everput then KExiting code else KExited code.

  Definition wstep (s : wstate) (a : wact) : wstate :=
    if negb (wenabled s a) then s else
    match a with
    | DPut =>
        match d_pc s with
        | DSeed (p :: l) =>
            upd s (rq_buf s ++ [p]) (rq_pipe s) true (rq_closed s) (rq_fdone s) (dq_bufs s) (dq_pipe s)
                (dq_sem s) (rdy s) (wflag s)
                (match l with [] => DLoop | _ => DSeed l end)
                (match l with [] => start_workers (s_par s) | _ => wks s end) (cblog s)
        | DRelease p =>
            upd s (rq_buf s ++ [p]) (rq_pipe s) true (rq_closed s) (rq_fdone s) (dq_bufs s) (dq_pipe s)
                (dq_sem s) (rdy s) (wflag s) DLoop (wks s) (cblog s)
        | _ => s
        end
    | DRecv =>
        match dq_pipe s with
        | [] => s
        | p :: rest =>
            let s1 := upd s (rq_buf s) (rq_pipe s) (rq_everput s) (rq_closed s) (rq_fdone s) (dq_bufs s) rest
                          (S (dq_sem s)) (rdy s) (wflag s) (d_pc s) (wks s) (cblog s) in
            if pos_eqb p (s_apex s) then set_dpc s1 DClose else
            match parent p with
            | None => set_dpc s1 DRaised
            | Some (pp, ix, iy) =>
                let flags := N.lor (rdy_get (rdy s) pp) (N.shiftl 1 (2 * iy + ix)%N) in
                if N.eqb flags 15%N
                then upd s1 (rq_buf s1) (rq_pipe s1) (rq_everput s1) (rq_closed s1) (rq_fdone s1) (dq_bufs s1)
                         (dq_pipe s1) (dq_sem s1) (rdy_remove (rdy s) pp) (wflag s1) (DRelease pp) (wks s1) (cblog s1)
                else upd s1 (rq_buf s1) (rq_pipe s1) (rq_everput s1) (rq_closed s1) (rq_fdone s1) (dq_bufs s1)
                         (dq_pipe s1) (dq_sem s1) (rdy_set (rdy s) pp flags) (wflag s1) DLoop (wks s1) (cblog s1)
            end
        end
    | DTimeout => s
    | DCloseQ =>
        upd s (rq_buf s) (rq_pipe s) (rq_everput s) true (rq_fdone s) (dq_bufs s) (dq_pipe s)
            (dq_sem s) (rdy s) (wflag s) DJoinFeeder (wks s) (cblog s)
    | DJoinThread => set_dpc s DSet
    | DSetFlag =>
        upd s (rq_buf s) (rq_pipe s) (rq_everput s) (rq_closed s) (rq_fdone s) (dq_bufs s) (dq_pipe s)
            (dq_sem s) (rdy s) true (DJoin 0) (wks s) (cblog s)
    | DJoinW w => set_dpc s (if Nat.eqb (S w) (length (wks s)) then DReturned else DJoin (S w))
    | FFlushReady =>
        match rq_buf s with
        | [] => s
        | p :: b =>
            upd s b (rq_pipe s ++ [p]) (rq_everput s) (rq_closed s) (rq_fdone s) (dq_bufs s) (dq_pipe s)
                (dq_sem s) (rdy s) (wflag s) (d_pc s) (wks s) (cblog s)
        end
    | FFeederExit =>
        upd s (rq_buf s) (rq_pipe s) (rq_everput s) (rq_closed s) true (dq_bufs s) (dq_pipe s)
            (dq_sem s) (rdy s) (wflag s) (d_pc s) (wks s) (cblog s)
    | FFlushDone w =>
        match nth_buf (dq_bufs s) w with
        | [] => s
        | p :: b =>
            upd s (rq_buf s) (rq_pipe s) (rq_everput s) (rq_closed s) (rq_fdone s)
                (set_nth (dq_bufs s) w b) (dq_pipe s ++ [p])
                (dq_sem s) (rdy s) (wflag s) (d_pc s) (wks s) (cblog s)
        end
    | KRecv w =>
        match rq_pipe s, wk_get s w with
        | p :: rest, Some (_, ev) =>
            upd s (rq_buf s) rest (rq_everput s) (rq_closed s) (rq_fdone s) (dq_bufs s) (dq_pipe s)
                (dq_sem s) (rdy s) (wflag s) (d_pc s)
                (set_nth (wks s) w (KInCb p, ev))
                ((false, p, w) :: cblog s)
        | _, _ => s
        end
    | KCb w =>
        match wk_get s w with
        | Some (KInCb p, ev) =>
            if bad p then set_wk s w (leave ev 1, ev) else
            upd s (rq_buf s) (rq_pipe s) (rq_everput s) (rq_closed s) (rq_fdone s) (dq_bufs s) (dq_pipe s)
                (dq_sem s) (rdy s) (wflag s) (d_pc s) (set_nth (wks s) w (KAtPut p, ev))
                ((true, p, w) :: cblog s)
        | _ => s
        end
    | KTimeout w =>
        match wk_get s w with Some (_, ev) => set_wk s w (KAtFlag, ev) | None => s end
    | KCTimeout w =>      (* the worker cannot tell this Empty from the other one *)
        match wk_get s w with Some (_, ev) => set_wk s w (KAtFlag, ev) | None => s end
    | KIsSet w =>
        match wk_get s w with
        | Some (_, ev) => set_wk s w (if wflag s then (leave ev 0, ev) else (KAtGet, ev))
        | None => s
        end
    | KPut w =>
        match wk_get s w with
        | Some (KAtPut p, _) =>
            upd s (rq_buf s) (rq_pipe s) (rq_everput s) (rq_closed s) (rq_fdone s)
                (set_nth (dq_bufs s) w (nth_buf (dq_bufs s) w ++ [p])) (dq_pipe s)
                (pred (dq_sem s)) (rdy s) (wflag s) (d_pc s) (set_nth (wks s) w (KAtGet, true)) (cblog s)
        | _ => s
        end
    | KExit w =>
        match wk_get s w with
        | Some (KExiting c, ev) => set_wk s w (KExited c, ev)
        | _ => s
        end
    end.

  Definition wrun (s : wstate) (l : list wact) : wstate := fold_left wstep l s.
End WStep.

Definition all_wacts (par : nat) : list wact :=
  [DPut; DRecv; DTimeout; DCloseQ; DJoinThread; DSetFlag; FFlushReady; FFeederExit]
  ++ map DJoinW (seq 0 par) ++ map FFlushDone (seq 0 par)
  ++ map KRecv (seq 0 par) ++ map KTimeout (seq 0 par) ++ map KIsSet (seq 0 par)
  ++ map KCb (seq 0 par) ++ map KPut (seq 0 par) ++ map KExit (seq 0 par) ++ map KCTimeout (seq 0 par).

Definition wenabled_list (s : wstate) : list wact := filter (wenabled s) (all_wacts (s_par s)).

Definition wact_eqb (a b : wact) : bool :=
  match a, b with
  | DPut, DPut | DRecv, DRecv | DTimeout, DTimeout | DCloseQ, DCloseQ | DJoinThread, DJoinThread
  | DSetFlag, DSetFlag | FFlushReady, FFlushReady | FFeederExit, FFeederExit => true
  | DJoinW x, DJoinW y | FFlushDone x, FFlushDone y | KRecv x, KRecv y | KTimeout x, KTimeout y
  | KIsSet x, KIsSet y | KCb x, KCb y | KPut x, KPut y | KExit x, KExit y | KCTimeout x, KCTimeout y => Nat.eqb x y
  | _, _ => false
  end.

Definition wsame_set (a b : list wact) : bool :=
  forallb (fun x => existsb (wact_eqb x) b) a && forallb (fun x => existsb (wact_eqb x) a) b.

Definition is_kctimeout (a : wact) : bool := match a with KCTimeout _ => true | _ => false end.

(* [cont]: the recorded run admitted Empty under reader-lock contention; otherwise the
   implementation's scheduler never offered it and it is left out of the comparison *)
Fixpoint wreplay_c (cont : bool) (bad : pos -> bool) (s : wstate) (tr : list (list wact * wact)) (i : nat)
  : wstate + nat :=
  match tr with
  | [] => inl s
  | (en, a) :: tr' =>
      if wsame_set en (filter (fun x => cont || negb (is_kctimeout x)) (wenabled_list s)) && wenabled s a
      then wreplay_c cont bad (wstep bad s a) tr' (S i)
      else inr i
  end.

Definition wreplay := wreplay_c false.

Definition wreturned (s : wstate) : bool := match d_pc s with DReturned => true | _ => false end.

(* polling moves: change no shared state *)
Definition wpolling (s : wstate) (a : wact) : bool :=
  match a with
  | DTimeout => true
  | KTimeout _ | KIsSet _ | KCTimeout _ => negb (wflag s)
  | _ => false
  end.
