(* Model of toasty/multi_tan.py (MultiTanProcessor) together with the pieces of
   image.py / pyramid.py it drives.  Definitions only (no proofs).

   Source anchors:
     multi_tan.py 71-198   compute_global_pixelization
     multi_tan.py 200-229  tile (serial / parallel, then clean_lockfiles)
     multi_tan.py 231-273  _tile_serial
     multi_tan.py 275-358  _tile_parallel / _mp_tile_worker
     image.py     259-278  _flip_wcs_parity (CRPIX2 := height + 1 - CRPIX2)
     image.py     361-377  ImageDescription.ensure_negative_parity
     image.py     989-1011 Image.flip_parity (array[::-1])
     image.py     1100-1139 update_into_maskable_buffer (float modes: putmask of the non-NaN pixels)
     pyramid.py   422-441  PyramidIO.update_image (SoftFileLock; read default=masked; write)
     pyramid.py   443-467  PyramidIO.clean_lockfiles
     study.py     90-130   compute_for_subimage; 212-296 generate_populated_positions

   Numbers: CRPIX values are floats in the code; they are modelled by rationals
   (Q) — the theorems assume the inputs share one pixel grid, under which every
   float operation involved is exact.  Everything after the global
   pixelisation is integer (Z).  Pixels: option V, None = NaN. *)
From Coq Require Import ZArith QArith Qround Qminmax List Bool.
From Toasty Require Import Model.Study.
Import ListNotations.
Local Open Scope Z_scope.

(* ------------------------------------------------------------------ *)
(* compute_global_pixelization *)

(* what the descriptor of one input file provides.  [fd_match] is an opaque
   token for the MATCH_HEADERS values (CTYPE1/2, CRVAL1/2, CDELT1/2) of
   desc.wcs.to_header() after ensure_negative_parity; CRPIX as in the file
   (1-based); [fd_par] = true iff the file's WCS has positive parity
   (bottom-up data, get_parity_sign() == +1). *)
Record fits_desc := mkFD {
  fd_match : Z; fd_crpix1 : Q; fd_crpix2 : Q; fd_w : Z; fd_h : Z; fd_par : bool }.

(* image.py:361-377 + 275-277: a positive-parity descriptor is flipped *)
Definition norm_crpix1 (d : fits_desc) : Q := fd_crpix1 d.
Definition norm_crpix2 (d : fits_desc) : Q :=
  if fd_par d then (inject_Z (fd_h d) + 1 - fd_crpix2 d)%Q else fd_crpix2 d.

(* multi_tan.py:131-141 *)
Definition this_crpix1 (d : fits_desc) : Q := (norm_crpix1 d - 1)%Q.
Definition this_crpix2 (d : fits_desc) : Q := (norm_crpix2 d - 1)%Q.
Definition crxmin (d : fits_desc) : Q := (0 - this_crpix1 d)%Q.
Definition crxmax (d : fits_desc) : Q := (inject_Z (fd_w d - 1) - this_crpix1 d)%Q.
Definition crymin (d : fits_desc) : Q := (0 - this_crpix2 d)%Q.
Definition crymax (d : fits_desc) : Q := (inject_Z (fd_h d - 1) - this_crpix2 d)%Q.

(* multi_tan.py:143-152: running min / max *)
Fixpoint qmin_list (a : Q) (l : list Q) : Q :=
  match l with [] => a | x :: r => qmin_list (Qmin a x) r end.
Fixpoint qmax_list (a : Q) (l : list Q) : Q :=
  match l with [] => a | x :: r => qmax_list (Qmax a x) r end.

(* Python int(): truncation towards zero *)
Definition q_int (q : Q) : Z := if Qle_bool 0 q then Qfloor q else Qceiling q.

Record segment := mkSeg { sg_imin : Z; sg_jmin : Z; sg_tiling : tiling }.

Record global_px := mkGlobal {
  gp_width : Z; gp_height : Z; gp_tiling : tiling;
  gp_match : Z;             (* ref_headers: MATCH_HEADERS of the first input *)
  gp_crpix1 : Q; gp_crpix2 : Q;   (* ref_headers["CRPIX1"/"CRPIX2"] (1-based) *)
  gp_segments : list segment;
  gp_n_todo : Z }.

(* multi_tan.py:175-196 for one descriptor *)
Definition segment_of (t : tiling) (gxmin gymin : Q) (d : fits_desc) : option segment :=
  let imin := Qfloor (crxmin d - gxmin) in
  let imax := Qceiling (crxmax d - gxmin) in
  let jmin := Qfloor (crymin d - gymin) in
  let jmax := Qceiling (crymax d - gymin) in
  if (imax <? imin) || (jmax <? jmin) then None
  else match compute_for_subimage t imin jmin (imax + 1 - imin) (jmax + 1 - jmin) with
       | None => None
       | Some st => Some (mkSeg imin jmin st)
       end.

(* None = an exception (empty collection, header mismatch, zero-size segment, ValueError) *)
Definition compute_global_pixelization (ds : list fits_desc) : option global_px :=
  match ds with
  | [] => None
  | d0 :: rest =>
      if negb (forallb (fun d => fd_match d =? fd_match d0) rest) then None
      else
        let gxmin := qmin_list (crxmin d0) (map crxmin rest) in
        let gxmax := qmax_list (crxmax d0) (map crxmax rest) in
        let gymin := qmin_list (crymin d0) (map crymin rest) in
        let gymax := qmax_list (crymax d0) (map crymax rest) in
        let width := q_int (gxmax - gxmin) + 1 in
        let height := q_int (gymax - gymin) + 1 in
        match study_tiling width height with
        | None => None
        | Some t =>
            let dl := last rest d0 in   (* the loop variables after the loop: the last input *)
            let crpix1 := (this_crpix1 dl + 1 + (crxmin dl - gxmin))%Q in
            let crpix2 := (this_crpix2 dl + 1 + (crymin dl - gymin))%Q in
            match map_opt (segment_of t gxmin gymin) ds with
            | None => None
            | Some segs =>
                Some (mkGlobal width height t (fd_match d0) crpix1 crpix2 segs
                        (fold_left (fun n s => n + count_populated_positions (sg_tiling s)) segs 0))
            end
        end
  end.

(* ------------------------------------------------------------------ *)
(* tile: placement of one tuple of one input, multi_tan.py:257-264 / 346-353.
   [inv] = (pio.get_default_vertical_parity_sign() == 1).  The four slices are
   plain start:stop slices; numpy clamps them to the array (slice_run) and
   np.putmask requires the selected shapes to agree (None = ValueError). *)
Definition mt_place (inv : bool) (imgh imgw : Z) (u : tup) : option placement :=
  let image_y := if inv then imgh - (u_iy u + u_h u) else u_iy u in
  let tile_y := if inv then 256 - (u_ty u + u_h u) else u_ty u in
  let ix := slice_run (mkSlice (Some (u_ix u)) (Some (u_ix u + u_w u)) 1) imgw in
  let bx := slice_run (mkSlice (Some (u_tx u)) (Some (u_tx u + u_w u)) 1) 256 in
  let iy := slice_run (mkSlice (Some image_y) (Some (image_y + u_h u)) 1) imgh in
  let byr := slice_run (mkSlice (Some tile_y) (Some (tile_y + u_h u)) 1) 256 in
  if (r_count iy =? r_count byr) && (r_count ix =? r_count bx)
  then Some (mkPlacement (u_n u) (u_x u) (u_y u) iy ix byr bx)
  else None.

Section Pixels.
  Context {V : Type}.
  Notation pixels := (@pixels V).
  Notation store := (@store V).

  (* image.py:1010  self._array = self.asarray()[::-1] *)
  Definition flip_rows (h : Z) (img : pixels) : pixels := fun r c => img (h - 1 - r) c.

  (* one input as seen by the tile phase: its segment in the global image
     (imin, jmin, sub-tiling), the loaded array and its parity *)
  Record input := mkInput {
    in_seg : segment; in_w : Z; in_h : Z; in_par : bool; in_px : pixels }.

  (* multi_tan.py:237-238 / 334-335: make the image agree with the tile parity *)
  Definition working_image (inv : bool) (i : input) : pixels :=
    if Bool.eqb (in_par i) inv then in_px i else flip_rows (in_h i) (in_px i).

  (* image.py:1137-1139: valid = ~isnan(sub_i); putmask(sub_b, valid, sub_i) *)
  Definition update_buffer (img : pixels) (p : placement) (b : pixels) : pixels :=
    fun r c => match placement_src p r c with
               | Some (y, x) => match img y x with Some v => Some v | None => b r c end
               | None => b r c
               end.

  (* one locked read-modify-write, pyramid.py:422-441 (atomic under the tile's
     lock — property C10); the write unlinks a fully masked tile *)
  Record op := mkOp { op_pl : placement; op_img : pixels }.

  Definition apply_op (s : store) (o : op) : store :=
    let p := op_pl o in
    write_image true s (p_n p) (p_x p) (p_y p)
      (update_buffer (op_img o) p (read_image_masked s (p_n p) (p_x p) (p_y p))).

  Definition run_ops (ops : list op) (s : store) : store := fold_left apply_op ops s.

  (* the updates one (image, desc) item causes, in order *)
  Definition input_ops (inv : bool) (i : input) : option (list op) :=
    map_opt (fun u => match mt_place inv (in_h i) (in_w i) u with
                      | Some p => Some (mkOp p (working_image inv i))
                      | None => None
                      end)
            (generate_populated_positions (sg_tiling (in_seg i))).

  Fixpoint all_ops (inv : bool) (ins : list input) : option (list op) :=
    match ins with
    | [] => Some []
    | i :: r => match input_ops inv i, all_ops inv r with
                | Some a, Some b => Some (a ++ b)
                | _, _ => None
                end
    end.

  (* _tile_serial: inputs in collection order, each input's tuples in order *)
  Definition tile_serial (inv : bool) (ins : list input) : option store :=
    match all_ops inv ins with
    | None => None
    | Some ops => Some (run_ops ops empty_store)
    end.

  (* the top-down version of an input (what ensure_negative_parity describes) *)
  Definition top_down (i : input) : pixels :=
    if in_par i then flip_rows (in_h i) (in_px i) else in_px i.

  (* pixel of input i at global-image position (row R, col C); None outside its rectangle *)
  Definition input_at (i : input) (R C : Z) : option V :=
    let y := R - sg_jmin (in_seg i) in
    let x := C - sg_imin (in_seg i) in
    if (0 <=? y) && (y <? in_h i) && (0 <=? x) && (x <? in_w i) then top_down i y x else None.

  (* the assembled mosaic: the inputs pasted into one image, a defined pixel
     never being overwritten by an undefined one (first defined wins; with
     agreeing overlaps the order is irrelevant) *)
  Fixpoint pasted (ins : list input) (R C : Z) : option V :=
    match ins with
    | [] => None
    | i :: r => match input_at i R C with Some v => Some v | None => pasted r R C end
    end.

  (* the (image, desc) items tile() iterates over: zip(collection.images(), self._descs) *)
  Fixpoint make_inputs (segs : list segment) (ds : list fits_desc) (pxs : list pixels) : list input :=
    match segs, ds, pxs with
    | s :: segs', d :: ds', p :: pxs' =>
        mkInput s (fd_w d) (fd_h d) (fd_par d) p :: make_inputs segs' ds' pxs'
    | _, _, _ => []
    end.

  (* compute_global_pixelization followed by tile(parallel=1) *)
  Definition process (ds : list fits_desc) (pxs : list pixels) (inv : bool) : option (global_px * store) :=
    match compute_global_pixelization ds with
    | None => None
    | Some g =>
        match tile_serial inv (make_inputs (gp_segments g) ds pxs) with
        | None => None
        | Some s => Some (g, s)
        end
    end.

  Definition overlaps_agree (ins : list input) : Prop :=
    forall i j R C v v', In i ins -> In j ins ->
      input_at i R C = Some v -> input_at j R C = Some v' -> v = v'.
End Pixels.

(* ------------------------------------------------------------------ *)
(* lock files (pyramid.py:430-432, 443-467): update_image creates
   tile_path(pos) + ".lock"; whether releasing the SoftFileLock removes it is
   left open (any subset of the created files may linger); clean_lockfiles
   unlinks the files of all positions of one level. *)
Definition lock_pos := (Z * Z * Z)%type.
Definition locks_created (pls : list placement) : list lock_pos :=
  map (fun p => (p_n p, p_x p, p_y p)) pls.
Definition cleaned (level : Z) (l : lock_pos) : bool :=
  let '(n, x, y) := l in
  (n =? level) && (0 <=? x) && (x <? 2 ^ level) && (0 <=? y) && (y <? 2 ^ level).
Definition clean_lockfiles (level : Z) (locks : list lock_pos) : list lock_pos :=
  filter (fun l => negb (cleaned level l)) locks.
