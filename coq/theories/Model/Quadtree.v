(* Model of toasty/pyramid.py: position algebra and enumeration.
   Definitions only (no proofs) so that the model keeps running when a proof breaks.

   Source anchors (pyramid.py):
     Pos                      line 36
     depth2tiles/tiles_at_depth  53-62
     is_subtile               65-86
     pos_parent               89-111
     pos_children             114-139
     _postfix_pos             142-150
     generate_pos             153-172 *)
From Coq Require Import List NArith Arith Bool.
Import ListNotations.
Local Open Scope N_scope.

Record pos := mkPos { pn : nat; px : N; py : N }.

Definition pos_eqb (a b : pos) : bool :=
  Nat.eqb (pn a) (pn b) && N.eqb (px a) (px b) && N.eqb (py a) (py b).

Definition root : pos := mkPos 0 0 0.

(* pos_parent: raises ValueError when pos.n < 1  ->  None *)
Definition parent (p : pos) : option (pos * N * N) :=
  match pn p with
  | O => None
  | S n => Some (mkPos n (px p / 2) (py p / 2), px p mod 2, py p mod 2)
  end.

Definition parent_pos (p : pos) : pos :=
  match parent p with Some (q, _, _) => q | None => p end.

(* pos_children: TL, TR, BL, BR *)
Definition children (p : pos) : list pos :=
  let n := S (pn p) in
  let x := 2 * px p in
  let y := 2 * py p in
  [ mkPos n x y; mkPos n (x + 1) y; mkPos n x (y + 1); mkPos n (x + 1) (y + 1) ].

(* is_subtile: ValueError when deeper is shallower -> None.  The recursion of the
   source is on the depth difference; [fuel] is that difference. *)
Fixpoint is_subtile_rec (fuel : nat) (deep shallow : pos) : bool :=
  match fuel with
  | O => N.eqb (px deep) (px shallow) && N.eqb (py deep) (py shallow)
  | S f => is_subtile_rec f (parent_pos deep) shallow
  end.

Definition is_subtile (deep shallow : pos) : option bool :=
  if Nat.ltb (pn deep) (pn shallow) then None
  else Some (is_subtile_rec (pn deep - pn shallow) deep shallow).

(* _postfix_pos(pos, depth): [k] = number of levels still to emit, i.e.
   depth + 1 - pos.n (0 when pos.n > depth). *)
Fixpoint postfix (k : nat) (p : pos) : list pos :=
  match k with
  | O => []
  | S k' => flat_map (postfix k') (children p) ++ [p]
  end.

Definition generate_pos (depth : nat) : list pos := postfix (S depth) root.

Definition tiles_at_depth (d : nat) : N := 4 ^ N.of_nat d.
Definition depth2tiles (d : nat) : N := (4 ^ (N.of_nat d + 1) - 1) / 3.

(* a position is well-formed when its coordinates fit its level *)
Definition valid (p : pos) : bool :=
  N.ltb (px p) (2 ^ N.of_nat (pn p)) && N.ltb (py p) (2 ^ N.of_nat (pn p)).

(* ancestor of p at level pn p - k *)
Fixpoint ancestor (k : nat) (p : pos) : pos :=
  match k with O => p | S k' => ancestor k' (parent_pos p) end.

(* shift-based descendant test, the closed form the recursion should equal *)
Definition below (c p : pos) : bool :=
  Nat.leb (pn p) (pn c) &&
  N.eqb (N.shiftr (px c) (N.of_nat (pn c - pn p))) (px p) &&
  N.eqb (N.shiftr (py c) (N.of_nat (pn c - pn p))) (py p).
