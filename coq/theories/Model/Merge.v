(* Model of toasty/merge.py: TileMerger.walk_callback, averaging_merger and the
   cascade they drive (property C02).  Definitions only.

   Source anchors
     merge.py  35-47    SLICES_MATCHING_PARITY / SLICES_OPPOSITE_PARITY
     merge.py  50-69    averaging_merger: reshape (k,2,k,2) + nanmean(axis=(1,3)) + astype
     merge.py  72-120   cascade_images: Pyramid.new_generic(start).walk(proc.walk_callback)
     merge.py  154-157  slice table chosen by the pio's default-format parity
     merge.py  159-202  walk_callback
     image.py  83-85    get_format_vertical_parity_sign (fits +1, everything else -1)
     pyramid.py 114-139 pos_children order TL, TR, BL, BR (Model/Quadtree.v)
   The tile size 256 (buffer 512) of the source is the parameter [k] (buffer 2k).

   numpy pieces modelled (trusted, checked by the correspondence):
     np.nanmean on floats = mean of the non-NaN entries, NaN when there is none;
     np.nanmean on integer arrays = np.mean in float64 (exact for four small
     integers), astype(int dtype) truncates toward zero. *)
From Coq Require Import List ZArith QArith Bool.
From Toasty Require Import Model.Quadtree Model.Mask.
Import ListNotations.
Local Open Scope Z_scope.

(* ------------------------------------------------------------------ *)
(* slice tables (merge.py:35-47), as (row indexer, column indexer)      *)

Definition sl_lo (k : Z) : slice := mkSlice None (Some k) None.      (* slice(None, 256) *)
Definition sl_hi (k : Z) : slice := mkSlice (Some k) None None.      (* slice(256, None) *)

Definition slices_matching (k : Z) : list (slice * slice) :=
  [ (sl_lo k, sl_lo k); (sl_lo k, sl_hi k); (sl_hi k, sl_lo k); (sl_hi k, sl_hi k) ].

Definition slices_opposite (k : Z) : list (slice * slice) :=
  [ (sl_hi k, sl_lo k); (sl_hi k, sl_hi k); (sl_lo k, sl_lo k); (sl_lo k, sl_hi k) ].

Definition parity_sign (f : fmt) : Z := match f with Fits => 1 | _ => -1 end.

(* bottom-up tile storage: row 0 of the array is the bottom row on screen *)
Definition bottom_up (f : fmt) : bool := parity_sign f =? 1.

Definition slices_for (f : fmt) (k : Z) : list (slice * slice) :=
  if bottom_up f then slices_opposite k else slices_matching k.

(* ------------------------------------------------------------------ *)
(* averaging_merger                                                     *)

Definition fdefined (l : list fv) : list Q :=
  flat_map (fun v => match v with Some q => [q] | None => [] end) l.

Definition qsum (l : list Q) : Q := fold_right Qplus 0%Q l.

(* np.nanmean over a block of float entries; the value is kept in lowest terms *)
Definition favg (l : list fv) : fv :=
  match fdefined l with
  | [] => None
  | ds => Some (Qred (qsum ds / inject_Z (Z.of_nat (length ds))))
  end.

(* mean of four integers computed in float64, cast back by truncation *)
Definition iavg (a b c d : Z) : Z := Z.quot (a + b + c + d) 4.

(* the four entries of a 2x2 block: (0,0) (0,1) (1,0) (1,1) *)
Definition avg4 (a b c d : pixel) : pixel :=
  match a, b, c, d with
  | PxF x, PxF y, PxF z, PxF w => PxF (favg [x; y; z; w])
  | PxF3 x1 x2 x3, PxF3 y1 y2 y3, PxF3 z1 z2 z3, PxF3 w1 w2 w3 =>
      PxF3 (favg [x1; y1; z1; w1]) (favg [x2; y2; z2; w2]) (favg [x3; y3; z3; w3])
  | PxI x, PxI y, PxI z, PxI w => PxI (iavg x y z w)
  | PxC3 x1 x2 x3, PxC3 y1 y2 y3, PxC3 z1 z2 z3, PxC3 w1 w2 w3 =>
      PxC3 (iavg x1 y1 z1 w1) (iavg x2 y2 z2 w2) (iavg x3 y3 z3 w3)
  | PxC x1 x2 x3 x4, PxC y1 y2 y3 y4, PxC z1 z2 z3 z4, PxC w1 w2 w3 w4 =>
      PxC (iavg x1 y1 z1 w1) (iavg x2 y2 z2 w2) (iavg x3 y3 z3 w3) (iavg x4 y4 z4 w4)
  | _, _, _, _ => PxI 0        (* mixed pixel kinds: not an array numpy can hold *)
  end.

(* data.reshape(h//2, 2, w//2, 2, ...) ; nanmean over axes (1, 3) ; astype(data.dtype) *)
Definition averaging_merger (b : img) : img :=
  mkImg (ih b / 2) (iw b / 2) (imode b)
        (fun i j => avg4 (ipx b (2 * i) (2 * j)) (ipx b (2 * i) (2 * j + 1))
                         (ipx b (2 * i + 1) (2 * j)) (ipx b (2 * i + 1) (2 * j + 1))).

(* ------------------------------------------------------------------ *)
(* walk_callback                                                        *)

Fixpoint first_present (cs : list (option img)) : option img :=
  match cs with
  | [] => None
  | Some c :: _ => Some c
  | None :: r => first_present r
  end.

(* for slidx, subimg in zip(self._slices, (img0, img1, img2, img3)):
       if subimg is not None: subimg.update_into_maskable_buffer(buf, slice(None), slice(None), *slidx) *)
Fixpoint update_all (u : mode -> pixel -> pixel -> pixel) (buf : img)
         (l : list ((slice * slice) * option img)) : option img :=
  match l with
  | [] => Some buf
  | (_, None) :: r => update_all u buf r
  | ((by_, bx), Some c) :: r =>
      match update_into_gen u c buf full_slice full_slice by_ bx with
      | None => None
      | Some b' => update_all u b' r
      end
  end.

(* The in-memory part of walk_callback (merge.py:181-200).
   None = an update raised (child of the wrong size or mode);
   Some None = all four children absent: early return;
   Some (Some m) = the merged image.
   The buffer kept in self._buf is created from the first child ever seen; its
   mode equals maskable(first present child's mode) as long as all tiles of the
   pyramid share one maskable mode, which [update_into] enforces here. *)
Definition merge_tiles_gen (u : mode -> pixel -> pixel -> pixel) (f : fmt) (k : Z)
           (cs : list (option img)) : option (option img) :=
  match first_present cs with
  | None => Some None
  | Some c0 =>
      let buf := clear (make_maskable_buffer (imode c0) (2 * k) (2 * k) (fun _ _ => masked_px (imode c0))) in
      match update_all u buf (combine (slices_for f k) cs) with
      | None => None
      | Some b => Some (Some (averaging_merger b))
      end
  end.

Definition merge_tiles := merge_tiles_gen upd_px.              (* the code before fix a186b8b *)
Definition merge_tiles_fixed := merge_tiles_gen upd_px_fixed.  (* the code as it is now *)

(* what load_path gives for a jpg: an RGB image whose pixel values are not
   modelled; [orc] stands for the decoder's output *)
Definition lossy_img (orc : Z -> Z -> pixel) (h w : Z) : img :=
  mkImg h w RGB (fun r c => match orc r c with PxC3 x y z => PxC3 x y z | _ => PxC3 0 0 0 end).

Definition decode (orc : Z -> Z -> pixel) (d : fdata) : img :=
  match d with FExact im => im | FLossy h w => lossy_img orc h w end.

(* result of self._pio.read_image(child, default="none") as an optional image *)
Definition rres_image (orc : Z -> Z -> pixel) (r : rres) : option img :=
  match r with
  | RImg im => Some im
  | RLossy h w => Some (lossy_img orc h w)
  | RAbsent => None
  | RError => None          (* not reachable with default="none" *)
  end.

(* walk_callback on the tile store; None = the callback raised.
   [keep_stale = false] is the code as it is (merge.py:182-191): when none of the four
   children exists, a tile file already present at p (left by an earlier cascade) is
   unlinked.  [keep_stale = true] is the code before that repair: it returned without
   touching the store. *)
Definition walk_callback_var (keep_stale : bool) (u : mode -> pixel -> pixel -> pixel) (dflt : fmt) (k : Z)
           (orc : pos -> Z -> Z -> pixel) (st : store) (p : pos) : option store :=
  let cs := map (fun c => rres_image (orc c) (read_image dflt st c DNone None None)) (children p) in
  match merge_tiles_gen u dflt k cs with
  | None => None
  | Some None => Some (if keep_stale then st else st_set st p dflt None)
  | Some (Some m) => write_image dflt st p m None
  end.

Definition walk_callback_gen := walk_callback_var false.

(* Pyramid.walk calls the callback once per position of [order]
   (C01/C13: a children-first enumeration of the live parents) *)
Fixpoint cascade_var (keep_stale : bool) (u : mode -> pixel -> pixel -> pixel) (dflt : fmt) (k : Z)
         (orc : pos -> Z -> Z -> pixel) (st : store) (order : list pos) : option store :=
  match order with
  | [] => Some st
  | p :: rest =>
      match walk_callback_var keep_stale u dflt k orc st p with
      | None => None
      | Some st' => cascade_var keep_stale u dflt k orc st' rest
      end
  end.

Definition cascade_gen := cascade_var false.

Definition walk_callback := walk_callback_gen upd_px.
Definition cascade := cascade_gen upd_px.
Definition cascade_fixed := cascade_gen upd_px_fixed.

(* ------------------------------------------------------------------ *)
(* specification vocabulary                                             *)

(* display orientation: row 0 on top *)
Definition disp (bu : bool) (im : img) (r c : Z) : pixel :=
  if bu then ipx im (ih im - 1 - r) c else ipx im r c.

(* what a child pixel contributes to the mosaic under rule [u]: the update of a
   cleared (all-undefined) buffer pixel *)
Definition mosaic_val_gen (u : mode -> pixel -> pixel -> pixel) (m : mode) (s : pixel) : pixel :=
  u m s (masked_px m).

(* the intended contribution: the stored value when the pixel is defined by its
   mode's own test (RGB gaining alpha 255), the mode's undefined value otherwise;
   integers contribute their stored value (zero is both "undefined" and 0) *)
Definition mosaic_val (m : mode) (s : pixel) : pixel :=
  if is_int_mode m then s
  else if src_valid m s then fill_px m s else masked_px m.

(* the 2k x 2k mosaic in display orientation: child (2x + cx, 2y + cy), i.e.
   element cx + 2 cy of pos_children, fills quadrant (cx, cy) = columns
   [cx k, cx k + k), rows [cy k, cy k + k); absent children are undefined *)
Definition mosaic_of (val : mode -> pixel -> pixel) (bu : bool) (k : Z) (m : mode)
           (cs : list (option img)) (r c : Z) : pixel :=
  match nth (Z.to_nat (c / k + 2 * (r / k))) cs None with
  | Some ch => val (imode ch) (disp bu ch (r mod k) (c mod k))
  | None => masked_px m
  end.

Definition block_avg (M : Z -> Z -> pixel) (i j : Z) : pixel :=
  avg4 (M (2 * i) (2 * j)) (M (2 * i) (2 * j + 1)) (M (2 * i + 1) (2 * j)) (M (2 * i + 1) (2 * j + 1)).

(* integer children without negative values *)
Definition nonneg_img (im : img) : Prop := forall r c, nonneg_px (ipx im r c).
Definition nonneg_children (cs : list (option img)) : Prop :=
  forall ch, In (Some ch) cs -> is_int_mode (imode ch) = true -> nonneg_img ch.

(* the pyramid the cascade should produce: tile files by recursion on the
   distance [fuel] to the start level; [leaves] are the files at the start level *)
Fixpoint pyramid_spec (u : mode -> pixel -> pixel -> pixel) (dflt : fmt) (k : Z)
         (orc : pos -> Z -> Z -> pixel) (leaves : pos -> option fdata) (fuel : nat) (p : pos)
  : option fdata :=
  match fuel with
  | O => leaves p
  | S f =>
      let cs := map (fun c => option_map (decode (orc c)) (pyramid_spec u dflt k orc leaves f c))
                    (children p) in
      match merge_tiles_gen u dflt k cs with
      | Some (Some m) => if is_completely_masked m then None else encode dflt m
      | _ => None
      end
  end.

(* admissible visiting orders for a cascade from level [start] *)
Definition children_first (order : list pos) : Prop :=
  forall l1 p l2 c, order = l1 ++ p :: l2 -> In c (children p) -> In c order -> In c l1.

Definition covers (spec : nat -> pos -> option fdata) (start : nat) (order : list pos) : Prop :=
  forall p, (pn p < start)%nat ->
            (exists c, In c (children p) /\ spec (start - S (pn p))%nat c <> None) -> In p order.

(* what C01/C13 provide about the sequence of callback positions of
   Pyramid.walk for a cascade from level [start] over the store [st0] *)
Definition valid_order (u : mode -> pixel -> pixel -> pixel) (dflt : fmt) (k : Z)
           (orc : pos -> Z -> Z -> pixel) (st0 : store) (start : nat) (order : list pos) : Prop :=
  (forall p, In p order -> (pn p < start)%nat) /\ NoDup order /\ children_first order /\
  covers (pyramid_spec u dflt k orc (fun p => st0 p dflt)) start order.

(* no tile files above the start level before the cascade *)
Definition upper_levels_empty (dflt : fmt) (st0 : store) (start : nat) : Prop :=
  forall p, (pn p < start)%nat -> st0 p dflt = None.

(* re-cascade of a directory that already holds tiles above the start level: the walk
   must also come by every position where such a tile lies (an unfiltered walk visits
   every position above the start level) *)
Definition covers_present (dflt : fmt) (st0 : store) (start : nat) (order : list pos) : Prop :=
  forall p, (pn p < start)%nat -> st0 p dflt <> None -> In p order.

(* compact description of the placement, used by the correspondence to expand
   the model in numpy: for child i = 0..3 the resolved row and column indexers
   of its quadrant in the 2k x 2k buffer, flattened as
   [first_y; step_y; count_y; first_x; step_x; count_x] (all -1 when a slice
   does not resolve) *)
Definition view_flat (o : option view) : list Z :=
  match o with Some v => [v_first v; v_step v; v_count v] | None => [-1; -1; -1] end.

Definition placement (f : fmt) (k : Z) : list Z :=
  flat_map (fun sl => view_flat (slice_view (2 * k) (fst sl)) ++ view_flat (slice_view (2 * k) (snd sl)))
           (slices_for f k).

(* well-formed pyramids: every tile is k x k and of one maskable mode [bm];
   jpg files decode to k x k RGB images *)
Definition good_img (k : Z) (bm : mode) (im : img) : Prop :=
  ih im = k /\ iw im = k /\ maskable (imode im) = bm.

Definition good_file (k : Z) (bm : mode) (d : fdata) : Prop :=
  match d with
  | FExact im => good_img k bm im
  | FLossy h w => h = k /\ w = k /\ bm = RGBA
  end.

Definition good_store (dflt : fmt) (k : Z) (bm : mode) (st : store) : Prop :=
  forall p d, st p dflt = Some d -> good_file k bm d.

(* the pio's format can store merged tiles of mode bm *)
Definition storable (dflt : fmt) (bm : mode) : Prop :=
  holds dflt bm = true \/ (dflt = Jpg /\ bm = RGBA).
