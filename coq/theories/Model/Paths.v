(* Model of tile naming (toasty/pyramid.py:227-312), the URL template recorded by
   Builder (toasty/builder.py:48-58, 185-186) and the WWT client's template
   substitution.  Definitions only.

   Source anchors:
     PyramidIO.__init__          pyramid.py:227-252   scheme -> (_tile_path, _scheme)
     PyramidIO.tile_path         pyramid.py:254-280   level = str(pos.n); ix = str(pos.x); iy = str(pos.y)
     _tile_path_LsYsYX           pyramid.py:282-288   join(join(base, level, iy), "{iy}_{ix}.{fmt}")
     _tile_path_LXY              pyramid.py:290-297   join(base, "L{level}X{ix}Y{iy}.{fmt}")
     get_path_scheme             pyramid.py:299-312
     SUPPORTED_FORMATS           image.py:38-45       jpg png npy fits
     Builder.__init__            builder.py:53-54     file_type = "." + default_format; url = scheme + file_type
     Builder.load_from_wwtl      builder.py:185-186   same two assignments *)
From Coq Require Import NArith String Ascii DecimalString DecimalN Bool.
Local Open Scope string_scope.

(* Python str(n) for a non-negative int: decimal, no leading zeros, "0" for 0 *)
Definition dec (n : N) : string := NilZero.string_of_uint (N.to_uint n).

Inductive scheme := LsYsYX | LXY.
Inductive fmt := Png | Jpg | Npy | Fits.

Definition ext_of (f : fmt) : string :=
  match f with Png => "png" | Jpg => "jpg" | Npy => "npy" | Fits => "fits" end.

Definition fmt_eqb (a b : fmt) : bool :=
  match a, b with Png, Png | Jpg, Jpg | Npy, Npy | Fits, Fits => true | _, _ => false end.

(* self._scheme *)
Definition scheme_template (s : scheme) : string :=
  match s with
  | LsYsYX => "{1}/{3}/{3}_{2}"
  | LXY => "L{1}X{2}Y{3}"
  end.

(* os.path.join(a, b) on POSIX for a non-empty [a] not ending in "/" and a relative [b] *)
Definition join (a b : string) : string := a ++ String "/" b.

(* the part of the tile path below base_dir *)
Definition rel_path (s : scheme) (level x y : N) (e : string) : string :=
  let l := dec level in
  let ix := dec x in
  let iy := dec y in
  match s with
  | LsYsYX => join (join l iy) (iy ++ String "_" (ix ++ String "." e))     (* "{}_{}.{}".format(iy, ix, fmt) *)
  | LXY => String "L" (l ++ String "X" (ix ++ String "Y" (iy ++ String "." e)))   (* "L{}X{}Y{}.{}" *)
  end.

Record pyramid_io := mkPio { pio_base : string; pio_scheme : scheme; pio_default : fmt }.

(* tile_path(pos, format=None): format or self._default_format *)
Definition tile_path (p : pyramid_io) (level x y : N) (format : option fmt) : string :=
  let f := match format with Some g => g | None => pio_default p end in
  join (pio_base p) (rel_path (pio_scheme p) level x y (ext_of f)).

(* Builder.__init__ / load_from_wwtl *)
Definition builder_file_type (p : pyramid_io) : string := String "." (ext_of (pio_default p)).
Definition builder_url (p : pyramid_io) : string := scheme_template (pio_scheme p) ++ builder_file_type p.

(* WWT client: replace {1} by the level, {2} by x, {3} by y (single pass; the
   inserted text is never re-scanned) *)
Definition is_char (c : ascii) (d : ascii) : bool := Ascii.eqb c d.

Fixpoint expand (t : string) (l x y : string) : string :=
  match t with
  | EmptyString => EmptyString
  | String c r =>
      let keep := String c (expand r l x y) in
      if is_char c "{" then
        match r with
        | String d (String e r') =>
            if is_char e "}" then
              if is_char d "1" then l ++ expand r' l x y
              else if is_char d "2" then x ++ expand r' l x y
              else if is_char d "3" then y ++ expand r' l x y
              else keep
            else keep
        | _ => keep
        end
      else keep
  end.

Definition expand_pos (url : string) (level x y : N) : string := expand url (dec level) (dec x) (dec y).

(* decimal digits *)
Definition is_digit (c : ascii) : bool :=
  let n := N_of_ascii c in (48 <=? n)%N && (n <=? 57)%N.

Fixpoint all_digits (s : string) : bool :=
  match s with EmptyString => true | String c r => is_digit c && all_digits r end.

(* ---- correspondence helper: compare a model string with an observed one ---- *)
Definition str_eqb (a b : string) : bool := String.eqb a b.
