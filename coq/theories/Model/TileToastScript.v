(* What FitsTiler._tile_toast (toasty/fits_tiler.py:206-265) does, as the list of calls it makes on
   its Builder, written by hand in the vocabulary of symbolic values (Model/SrcPrelude.v) so that it
   can be read against the source and compared with the translation of the source
   (Generated/ScriptSrc.v; Proofs/ScriptSrcP.v).  Definitions only. *)
From Coq Require Import ZArith String List Bool.
From Toasty Require Import Model.SrcPrelude Model.MultiToast.
Import ListNotations.
Local Open Scope string_scope.
Local Open Scope Z_scope.
Local Open Scope list_scope.

Section Spec.
  Variable image : Type.
  Variable has_wcs : image -> bool.          (* image.has_wcs() *)
  Variable guess : image -> Z.               (* pyramid.guess_base_layer_level(wcs=image.wcs) *)

  Definition levels (images : list image) : list (option Z) :=
    map (fun im => if has_wcs im then Some (guess im) else None) images.

  (* WcsSampler(data=image.asarray(), wcs=image.wcs): data and WCS of the SAME image *)
  Definition sampler_obj (im : image) : sval image :=
    SNew "WcsSampler" [("data", SCallM "asarray" (SImg im)); ("wcs", SAttr "wcs" (SImg im))].
  Definition filter_of (im : image) : sval image := SCallM "filter" (sampler_obj im).
  Definition sampler_of (im : image) : sval image := SCallM "sampler" (sampler_obj im).

  (* builder.toast_base(sampler, start, cli_progress=..., tile_filter=<its own filter>, parallel=...) *)
  Definition toast_base_call (start : Z) (cp : bool) (par : option Z) (im : image) : sevent image :=
    SCall "builder.toast_base" [sampler_of im; SZ start]
          [("cli_progress", SB cp); ("tile_filter", filter_of im); ("parallel", SOptZ par)].

  (* builder.cascade(cli_progress=..., tile_filter=<the closure over ALL the filters>, parallel=...) *)
  Definition cascade_call (cp : bool) (par : option Z) (images : list image) : sevent image :=
    SCall "builder.cascade" []
          [("cli_progress", SB cp); ("tile_filter", SClosure "tile_filters" (map filter_of images)); ("parallel", SOptZ par)].

  (* builder.apply_wcs_info(wcs=last.wcs, width=last.wcs._naxis[1], height=last.wcs._naxis[0]) *)
  Definition apply_wcs_call (last : image) : sevent image :=
    let w := SAttr "wcs" (SImg last) in
    SCall "builder.apply_wcs_info" []
          [("wcs", w); ("width", SIdx 1 (SAttr "_naxis" w)); ("height", SIdx 0 (SAttr "_naxis" w))].

  (* None: no image (the source then fails on an unbound name after the cascade) *)
  Definition tile_toast_script (images : list image) (cp : bool) (par : option Z) (given : option Z)
    : option (list (sevent image)) :=
    match rev images with
    | [] => None
    | last :: _ =>
        let start := start_level given (levels images) in
        Some (map (toast_base_call start cp par) images ++ [cascade_call cp par images] ++ [apply_wcs_call last])
    end.
End Spec.
