(* C09 — Tiling images on a common TAN grid equals tiling the assembled mosaic.
   Statements only; proofs live in Proofs/MultiTanP.v (model: Model/MultiTan.v,
   built on Model/Study.v of C08).

   [inv]   : the tile format is bottom-up (FITS, parity +1).
   [input] : one (image, desc) item: its segment (imin, jmin, sub-tiling), the
             loaded array, its size and its storage parity.
   [valid_input t i] : i's sub-tiling is compute_for_subimage t imin jmin w h
             with w, h the array's own size — what the common-pixel-grid
             hypothesis yields (theorem global_wcs_eq_mosaic).
   [the_ops inv ins] : the locked read-modify-write updates of all inputs.
   Pixels: option V, None = NaN. *)
From Coq Require Import ZArith QArith List Bool.
From Toasty Require Import Model.Study Proofs.StudyP Model.MultiTan Proofs.MultiTanP.
Import ListNotations.
Local Open Scope Z_scope.

(* global pixelisation on a common pixel grid (explicit hypothesis [on_grid]):
   the mosaic is the bounding box of the inputs, every input's segment is the
   sub-image at its grid position with the input's own size, and the global
   reference pixel (CRPIX) is every input's reference pixel moved to its place
   in the mosaic — so the header handed to set_position_from_wcs is the
   mosaic's; it does not depend on which input comes last *)
Theorem global_wcs_eq_mosaic :
  forall (ax ay : fits_desc -> Z) (cx cy : Q) (d0 : fits_desc) (rest : list fits_desc),
  let ds := d0 :: rest in
  on_grid ax ay cx cy ds ->
  (forall d, In d ds -> fd_match d = fd_match d0 /\ 1 <= fd_w d /\ 1 <= fd_h d) ->
  let xmin := xmin_of ax d0 rest in
  let ymin := ymin_of ay d0 rest in
  let width := xmax_of ax d0 rest - xmin + 1 in
  let height := ymax_of ay d0 rest - ymin + 1 in
  exists g,
    compute_global_pixelization ds = Some g /\
    gp_width g = width /\ gp_height g = height /\ gp_match g = fd_match d0 /\
    study_tiling width height = Some (gp_tiling g) /\
    Forall2 (fun d s =>
               sg_imin s = ax d - xmin /\ sg_jmin s = ay d - ymin /\
               compute_for_subimage (gp_tiling g) (sg_imin s) (sg_jmin s) (fd_w d) (fd_h d)
               = Some (sg_tiling s)) ds (gp_segments g) /\
    (forall d, In d ds ->
       (gp_crpix1 g - 1 == this_crpix1 d + inject_Z (ax d - xmin))%Q /\
       (gp_crpix2 g - 1 == this_crpix2 d + inject_Z (ay d - ymin))%Q).
Proof. exact global_pixelization_grid. Qed.
Print Assumptions global_wcs_eq_mosaic.

(* ... nor on the order of the inputs: the bounding box (hence width, height,
   tiling, every segment and the global CRPIX above) is the same for any
   collection with the same members *)
Theorem global_order_independent :
  forall (ax ay : fits_desc -> Z) d0 rest d0' rest',
  (forall d, In d (d0 :: rest) <-> In d (d0' :: rest')) ->
  xmin_of ax d0 rest = xmin_of ax d0' rest' /\ ymin_of ay d0 rest = ymin_of ay d0' rest' /\
  xmax_of ax d0 rest = xmax_of ax d0' rest' /\ ymax_of ay d0 rest = ymax_of ay d0' rest'.
Proof. exact bbox_order_independent. Qed.
Print Assumptions global_order_independent.

(* the updates of an input never hit numpy's shape error: one per tuple *)
Theorem updates_well_shaped :
  forall (V : Type) W H t, study_tiling W H = Some t ->
  forall inv (i : @input V), valid_input t i ->
  input_ops inv i = Some (map (op_of inv i) (generate_populated_positions (sg_tiling (in_seg i)))).
Proof. exact @input_ops_ok. Qed.
Print Assumptions updates_well_shaped.

(* placement: one locked update, seen in display orientation on the global
   square, touches exactly the tuple's rectangle and puts there the pixels the
   pasted mosaic has (a NaN leaves the tile alone) — both input parities, both
   tile parities *)
Theorem placement_eq_mosaic :
  forall (V : Type) W H t, study_tiling W H = Some t ->
  forall inv (i : @input V) u s R C,
  valid_input t i -> In u (generate_populated_positions (sg_tiling (in_seg i))) ->
  mosaic_display t inv (apply_op s (op_of inv i u)) R C =
  if covers u (C - t_gx0 (sg_tiling (in_seg i))) (R - t_gy0 (sg_tiling (in_seg i)))
  then match input_at i (R - t_gy0 t) (C - t_gx0 t) with
       | Some v => Some v
       | None => mosaic_display t inv s R C
       end
  else mosaic_display t inv s R C.
Proof. exact @apply_op_display. Qed.
Print Assumptions placement_eq_mosaic.

(* tiles = tiles of the pasted mosaic, for every sequence made of exactly the
   inputs' updates (any order, repetitions allowed), when overlaps agree *)
Theorem tiles_eq_mosaic :
  forall (V : Type) W H t, study_tiling W H = Some t ->
  forall inv (ins : list (@input V)),
  (forall i, In i ins -> valid_input t i) -> overlaps_agree ins ->
  forall seq, (forall o, In o seq <-> In o (the_ops inv ins)) ->
  forall R C, mosaic_display t inv (run_ops seq empty_store) R C = expected_mosaic t (pasted ins) R C.
Proof. exact @any_order_gives_mosaic. Qed.
Print Assumptions tiles_eq_mosaic.

(* ... and the tile files are the ones StudyTiling.tile_image writes for the
   pasted mosaic: same set of files, same pixels *)
Theorem tile_files_eq_mosaic :
  forall (V : Type) W H t, study_tiling W H = Some t ->
  forall inv (ins : list (@input V)),
  (forall i, In i ins -> valid_input t i) -> overlaps_agree ins ->
  forall seq, (forall o, In o seq <-> In o (the_ops inv ins)) ->
  exists s_ref, tile_image true t inv (pasted ins) = Some s_ref /\
    forall n x y,
      (run_ops seq empty_store n x y = None <-> s_ref n x y = None) /\
      (forall r c, 0 <= r < 256 -> 0 <= c < 256 ->
         read_image_masked (run_ops seq empty_store) n x y r c = read_image_masked s_ref n x y r c).
Proof. exact @tiles_identical. Qed.
Print Assumptions tile_files_eq_mosaic.

(* any number of workers, any assignment of inputs to them, any interleaving of
   their (atomic, locked) updates *)
Theorem schedule_independent :
  forall (V : Type) W H t inv (ins : list (@input V)) (workers : list (list op)) seq,
  study_tiling W H = Some t -> (forall i, In i ins -> valid_input t i) -> overlaps_agree ins ->
  (forall o, In o (concat workers) <-> In o (the_ops inv ins)) ->
  interleave workers seq ->
  forall R C, mosaic_display t inv (run_ops seq empty_store) R C = expected_mosaic t (pasted ins) R C.
Proof. exact @MultiTanP.schedule_independent. Qed.
Print Assumptions schedule_independent.

(* the order of the inputs is irrelevant *)
Theorem input_order_independent :
  forall (V : Type) W H t inv (ins ins' : list (@input V)) seq',
  study_tiling W H = Some t -> (forall i, In i ins -> valid_input t i) -> overlaps_agree ins ->
  (forall i, In i ins <-> In i ins') ->
  (forall o, In o seq' <-> In o (the_ops inv ins')) ->
  forall R C, mosaic_display t inv (run_ops seq' empty_store) R C = expected_mosaic t (pasted ins) R C.
Proof. exact @MultiTanP.input_order_independent. Qed.
Print Assumptions input_order_independent.

(* whether the inputs are stored bottom-up or top-down is irrelevant *)
Theorem storage_parity_independent :
  forall (V : Type) W H t inv (insA insB : list (@input V)) seqA seqB,
  study_tiling W H = Some t ->
  (forall i, In i insA -> valid_input t i) -> overlaps_agree insA ->
  Forall2 same_content insA insB ->
  (forall o, In o seqA <-> In o (the_ops inv insA)) ->
  (forall o, In o seqB <-> In o (the_ops inv insB)) ->
  forall R C, mosaic_display t inv (run_ops seqA empty_store) R C =
              mosaic_display t inv (run_ops seqB empty_store) R C.
Proof. exact @MultiTanP.storage_parity_independent. Qed.
Print Assumptions storage_parity_independent.

(* clean_lockfiles(tile_levels) removes every lock file update_image can leave *)
Theorem no_lockfiles_left :
  forall (V : Type) W H t, study_tiling W H = Some t ->
  forall inv (ins : list (@input V)), (forall i, In i ins -> valid_input t i) ->
  forall lingering,
  (forall l, In l lingering -> In l (locks_created (map op_pl (the_ops inv ins)))) ->
  clean_lockfiles (t_levels t) lingering = [].
Proof. exact @MultiTanP.no_lockfiles_left. Qed.
Print Assumptions no_lockfiles_left.

(* the whole processor, serial: compute_global_pixelization + tile *)
Theorem processor_eq_mosaic :
  forall (V : Type) (ax ay : fits_desc -> Z) (cx cy : Q) d0 rest (pxs : list (@pixels V)) inv,
  let ds := d0 :: rest in
  on_grid ax ay cx cy ds ->
  (forall d, In d ds -> fd_match d = fd_match d0 /\ 1 <= fd_w d /\ 1 <= fd_h d) ->
  forall g, compute_global_pixelization ds = Some g ->
  overlaps_agree (make_inputs (gp_segments g) ds pxs) ->
  exists s, process ds pxs inv = Some (g, s) /\
    forall R C, mosaic_display (gp_tiling g) inv s R C =
                expected_mosaic (gp_tiling g) (pasted (make_inputs (gp_segments g) ds pxs)) R C.
Proof. exact @process_eq_mosaic. Qed.
Print Assumptions processor_eq_mosaic.

(* hypotheses are satisfiable: a top-down and a bottom-up input on one grid *)
Example global_nonvacuous :
  option_map (fun g => (gp_width g, gp_height g, t_levels (gp_tiling g), Qred (gp_crpix1 g), Qred (gp_crpix2 g),
                        map (fun s => (sg_imin s, sg_jmin s, t_width (sg_tiling s), t_height (sg_tiling s)))
                            (gp_segments g), gp_n_todo g))
    (compute_global_pixelization
       [mkFD 7 (261#1) (151#1) 300 200 false; mkFD 7 (11#1) (150#1) 270 290 true])
  = Some (520, 300, 2, 261%Q, 151%Q, [(0, 0, 300, 200); (250, 10, 270, 290)], 12).
Proof. vm_compute. reflexivity. Qed.

Example update_nonvacuous :
  option_map placement_flat (mt_place true 290 270 (mkTup 2 2 1 100 150 0 0 156 106))
  = Some [2; 2; 1; 140; 150; 0; 100; 0; 1; 150; 156; 100].
Proof. vm_compute. reflexivity. Qed.

(* ======================================================================================
   Composition with C10 (locked tile update): the atomic-update premise of
   [schedule_independent] / [tiles_eq_mosaic] discharged.  Proofs in Proofs/GlueMultiTan.v.
   Vocabulary:
   [table]             256 x 256 tables of pixels — the tile type at which Model/Lock.v is
                       instantiated ([tab] / [untab] convert from / to [pixels]; [tdflt]
                       = all undefined = what a missing file reads as; [tmasked] =
                       completely_masked on tables, for which C10's hypothesis "a
                       completely masked tile is the default tile" holds);
   [targets n x y o]   op o updates tile (n, x, y);  [ops_at] the ops that do, in order;
   [fs_at ops n x y]   their update functions ([update_buffer] of C09 on tables): the
                       updaters of the tile's instance of Lock.v;
   [pick os idxs]      the elements of os at the indices idxs;
   [gact]/[gstep]/[grun]  the product of independent per-tile instances of Lock.v: an
                       action names a tile and a protocol step of one updater of it;
   [ginit ops s0]      every updater idle, files as in s0;  [par_store g] the files of g.
   A schedule is an arbitrary list of actions (disabled ones are no-ops); which worker
   runs which update only restricts the schedules.

   Modelling statement added by the product (in neither model): updates of different
   tiles do not interact (separate tile and lock files, pyramid.py:430-432) and an
   op's image is fixed before its update starts.
   ====================================================================================== *)
From Coq Require Import Arith Permutation.
From Toasty Require Import Model.Lock Proofs.LockP Proofs.GlueMultiTan.

(* one tile, any ops, any initial files, every complete schedule of update_image's
   protocol: lock free, and the tile content is what C09's atomic [run_ops] leaves for
   the ops of the tile taken in lock-acquisition order — each exactly once *)
Theorem tile_linearizable :
  forall (V : Type) (ops : list (@op V)) (n x y : Z) (s0 : @store V) (l : list lact),
  let fs := fs_at ops n x y in
  let s := lrun tdflt tmasked fs (linit fs (file_of (s0 n x y))) l in
  all_done s = true ->
  lock s = None /\
  Permutation (pick (ops_at ops n x y) (rev (order s))) (ops_at ops n x y) /\
  content tdflt (file s) =
  Some (tab (read_image_masked (run_ops (pick (ops_at ops n x y) (rev (order s))) s0) n x y)).
Proof. exact tile_linearizable_thm. Qed.
Print Assumptions tile_linearizable.

(* a schedule of the product acts on each tile as a schedule of Model/Lock.v *)
Theorem product_projection :
  forall (V : Type) (ops : list (@op V)) (l : list gact) (g : @gstate V) n x y,
  grun ops g l n x y = lrun tdflt tmasked (fs_at ops n x y) (g n x y) (proj n x y l).
Proof. exact product_projection_thm. Qed.
Print Assumptions product_projection.

(* the parallel tile phase, every schedule in which all updaters finish: no lock is
   held and the tiles show the mosaic of the pasted inputs = what the serial phase shows *)
Theorem multitan_parallel_eq_serial :
  forall (V : Type) W H t inv (ins : list (@input V)) (gl : list gact),
  study_tiling W H = Some t -> (forall i, In i ins -> valid_input t i) -> overlaps_agree ins ->
  let g := grun (the_ops inv ins) (ginit (the_ops inv ins) empty_store) gl in
  (forall n x y, all_done (g n x y) = true) ->
  (forall n x y, lock (g n x y) = None) /\
  (forall R C, mosaic_display t inv (par_store g) R C = expected_mosaic t (pasted ins) R C) /\
  (exists s_ser, tile_serial inv ins = Some s_ser /\
     forall R C, mosaic_display t inv (par_store g) R C = mosaic_display t inv s_ser R C).
Proof. exact multitan_parallel_eq_serial_thm. Qed.
Print Assumptions multitan_parallel_eq_serial.

(* ... it IS an atomic run: one arrangement seq of exactly the updates (each once) such
   that on every tile the parallel run leaves the content of [run_ops seq] and the same
   file / no file; and these are the tile files of the pasted mosaic *)
Theorem multitan_parallel_atomic :
  forall (V : Type) W H t inv (ins : list (@input V)) (gl : list gact),
  study_tiling W H = Some t -> (forall i, In i ins -> valid_input t i) -> overlaps_agree ins ->
  let g := grun (the_ops inv ins) (ginit (the_ops inv ins) empty_store) gl in
  (forall n x y, all_done (g n x y) = true) ->
  exists seq s_ref,
    Permutation seq (the_ops inv ins) /\
    tile_image true t inv (pasted ins) = Some s_ref /\
    forall n x y,
      content tdflt (file (g n x y)) = Some (tab (read_image_masked (run_ops seq empty_store) n x y)) /\
      (par_store g n x y = None <-> run_ops seq empty_store n x y = None) /\
      (par_store g n x y = None <-> s_ref n x y = None) /\
      (forall r c, 0 <= r < 256 -> 0 <= c < 256 ->
         read_image_masked (par_store g) n x y r c = read_image_masked s_ref n x y r c).
Proof. exact multitan_parallel_atomic_thm. Qed.
Print Assumptions multitan_parallel_atomic.

(* the hypothesis "all updaters done" is satisfiable for every set of updates and every
   initial store: some schedule of the product completes (C10 lock_no_deadlock, lock_measure) *)
Theorem product_completes :
  forall (V : Type) (ops : list (@op V)) (s0 : @store V),
  exists gl, forall n x y, all_done (grun ops (ginit ops s0) gl n x y) = true.
Proof. exact product_completes_thm. Qed.
Print Assumptions product_completes.
