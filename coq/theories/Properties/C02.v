(* C02 — Cascade output: every parent tile is the 2x2 downsample of its children mosaic.
   Statements only; model in Model/Merge.v (+ Model/Mask.v), proofs in Proofs/MergeP.v.

   Vocabulary (Model/Merge.v):
   [merge_tiles f k cs]   the in-memory part of TileMerger.walk_callback for a pio whose
                          default format is f, tile size k (256 in the code), children
                          cs = [TL; TR; BL; BR] as optional images, with the integer update
                          rule the code had before fix a186b8b (np.maximum);
   [merge_tiles_fixed]    the same with the repaired integer update: the code as it is now,
                          and what the correspondence check compares the implementation with;
   [disp bu im]           the image in display orientation (rows reversed when the format
                          is stored bottom-up, bu = bottom_up f, true exactly for fits);
   [mosaic_of mosaic_val bu k m cs]  the 2k x 2k display-orientation mosaic: child
                          (2x+cx, 2y+cy) = element cx + 2 cy of cs fills quadrant (cx, cy);
                          a pixel that is undefined by its mode's own test, or whose child
                          is absent, is the mode's undefined value;
   [block_avg M i j]      avg4 of M(2i,2j) M(2i,2j+1) M(2i+1,2j) M(2i+1,2j+1);
   [merge_pixel_statement merge extra]  "for every k > 0, format (parity), children that
                          are well-typed and satisfy extra: if merge returns an image it is
                          k x k, every present child is k x k of one maskable mode, and its
                          display-orientation pixel (i,j) is block_avg of the mosaic";
   [pyramid_spec]         the pyramid obtained by iterating the reduction from the leaves;
   [valid_order]          what C01/C13 give about the callback sequence of Pyramid.walk:
                          duplicate-free, above the start level, children before parents,
                          containing every position that has a populated child. *)
From Coq Require Import List ZArith QArith Bool.
From Toasty Require Import Model.Quadtree Model.Mask Model.Merge Proofs.MaskP Proofs.MergeP.
Import ListNotations.
Local Open Scope Z_scope.

(* The parent is the 2x2 block reduction of the display-orientation mosaic, for
   both vertical parities, every tile size, every sparsity pattern — under the old
   np.maximum rule when integer children hold no negative values ... *)
Theorem merge_pixel : merge_pixel_statement merge_tiles nonneg_children.
Proof. exact merge_pixel_lemma. Qed.
Print Assumptions merge_pixel.

(* ... but not for negative integer data (finding C02-1): update_into_maskable_buffer
   applies np.maximum against the cleared (zero) buffer, so negative stored values
   enter the mosaic as 0.  Witness: four 1x1 I16 children holding -8 merge to 0. *)
Theorem merge_pixel_refuted : ~ merge_pixel_statement merge_tiles (fun _ => True).
Proof. exact merge_int_refuted_lemma. Qed.
Print Assumptions merge_pixel_refuted.

(* With the repaired integer rule -- the code as it is now -- the statement holds for all contents. *)
Theorem merge_pixel_fixed : merge_pixel_statement merge_tiles_fixed (fun _ => True).
Proof. exact merge_pixel_fixed_lemma. Qed.
Print Assumptions merge_pixel_fixed.

(* Stock averaging merger, floating point: the mean of the non-NaN entries of the
   block, NaN exactly when all four are NaN (per channel for F16x3). *)
Theorem merge_avg_float :
  (forall x y z w, avg4 (PxF x) (PxF y) (PxF z) (PxF w) = PxF (favg [x; y; z; w])) /\
  (forall x1 x2 x3 y1 y2 y3 z1 z2 z3 w1 w2 w3,
      avg4 (PxF3 x1 x2 x3) (PxF3 y1 y2 y3) (PxF3 z1 z2 z3) (PxF3 w1 w2 w3) =
      PxF3 (favg [x1; y1; z1; w1]) (favg [x2; y2; z2; w2]) (favg [x3; y3; z3; w3])) /\
  (forall l,
      (favg l = None <-> forall v, In v l -> v = None) /\
      (forall q, favg l = Some q ->
                 fdefined l <> [] /\
                 (q == qsum (fdefined l) / inject_Z (Z.of_nat (length (fdefined l))))%Q) /\
      (forall q, In (Some q) l -> favg l <> None)).
Proof. exact (conj avg4_float (conj avg4_float3 favg_spec)). Qed.
Print Assumptions merge_avg_float.

(* Integer and colour data: the mean of the four stored values in the input's data
   type, i.e. the exact mean truncated toward zero, channel by channel. *)
Theorem merge_avg_int :
  (forall x y z w, avg4 (PxI x) (PxI y) (PxI z) (PxI w) = PxI (Z.quot (x + y + z + w) 4)) /\
  (forall x1 x2 x3 x4 y1 y2 y3 y4 z1 z2 z3 z4 w1 w2 w3 w4,
      avg4 (PxC x1 x2 x3 x4) (PxC y1 y2 y3 y4) (PxC z1 z2 z3 z4) (PxC w1 w2 w3 w4) =
      PxC (Z.quot (x1 + y1 + z1 + w1) 4) (Z.quot (x2 + y2 + z2 + w2) 4)
          (Z.quot (x3 + y3 + z3 + w3) 4) (Z.quot (x4 + y4 + z4 + w4) 4)) /\
  (forall a b c d,
      4 * iavg a b c d + Z.rem (a + b + c + d) 4 = a + b + c + d /\
      Z.abs (Z.rem (a + b + c + d) 4) < 4 /\
      (0 <= a + b + c + d -> 0 <= Z.rem (a + b + c + d) 4) /\
      (a + b + c + d <= 0 -> Z.rem (a + b + c + d) 4 <= 0)).
Proof. exact (conj avg4_int (conj avg4_rgba iavg_spec)). Qed.
Print Assumptions merge_avg_int.

(* Existence: with all four children absent no tile is left at p (a tile lying there
   from an earlier cascade is removed); otherwise the parent file is removed when the
   merged image is completely masked (the code's own predicate) and holds the merged
   image otherwise; no other file changes. *)
Theorem merge_exists :
  forall u dflt k orc st p st',
    walk_callback_gen u dflt k orc st p = Some st' ->
    ((forall c, In c (children p) -> st c dflt = None) ->
     forall q f, st' q f = if pos_eqb q p && fmt_eqb f dflt then None else st q f) /\
    ((exists c, In c (children p) /\ st c dflt <> None) ->
     exists m, merge_tiles_gen u dflt k (child_files orc dflt st p) = Some (Some m) /\
               (is_completely_masked m = false -> encode dflt m <> None) /\
               forall q f, st' q f = if pos_eqb q p && fmt_eqb f dflt
                                     then (if is_completely_masked m then None else encode dflt m)
                                     else st q f).
Proof. exact merge_exists_lemma. Qed.
Print Assumptions merge_exists.

(* Cascade: starting with nothing above the start level, after the walk every tile
   above the start level is the iterated reduction of the leaves beneath it (absent
   when that reduction is absent or completely masked); leaves and files of other
   formats are untouched.  (u = upd_px: the code before fix a186b8b; u = upd_px_fixed: the code now.) *)
Theorem cascade_spec :
  forall u dflt k orc start st0 order st',
    upper_levels_empty dflt st0 start ->
    valid_order u dflt k orc st0 start order ->
    cascade_gen u dflt k orc st0 order = Some st' ->
    (forall p, (pn p < start)%nat ->
               st' p dflt = pyramid_spec u dflt k orc (fun q => st0 q dflt) (start - pn p) p) /\
    (forall p, (start <= pn p)%nat -> st' p dflt = st0 p dflt) /\
    (forall p f, fmt_eqb f dflt = false -> st' p f = st0 p f).
Proof. exact cascade_spec_full. Qed.
Print Assumptions cascade_spec.

(* Any two admissible callback orders (serial, or any parallel schedule, by C01)
   leave the same set of files with the same contents. *)
Theorem cascade_order_independent :
  forall u dflt k orc start st0 o1 o2 s1 s2,
    upper_levels_empty dflt st0 start ->
    valid_order u dflt k orc st0 start o1 -> valid_order u dflt k orc st0 start o2 ->
    cascade_gen u dflt k orc st0 o1 = Some s1 -> cascade_gen u dflt k orc st0 o2 = Some s2 ->
    forall p f, s1 p f = s2 p f.
Proof. exact cascade_order_independent_lemma. Qed.
Print Assumptions cascade_order_independent.

(* The cascade never raises on a well-formed pyramid (every tile k x k, one maskable
   mode bm that the pio's format can store; jpg files decode to k x k RGB), whatever
   the visiting order, and leaves a well-formed pyramid: the hypotheses
   "... = Some st'" above are met. *)
Theorem cascade_defined :
  forall u dflt k orc bm order st,
    0 < k -> maskable bm = bm -> storable dflt bm -> good_store dflt k bm st ->
    exists st', cascade_gen u dflt k orc st order = Some st' /\ good_store dflt k bm st'.
Proof. exact cascade_defined_lemma. Qed.
Print Assumptions cascade_defined.

(* Re-cascade of a directory that already holds tiles above the start level (the output
   of an earlier cascade of other data): provided the walk comes by every such tile
   (an unfiltered walk visits every position), the result is the same iterated
   reduction of the leaves -- no tile written earlier survives or leaks into the
   levels above.  [cascade_spec] above is the special case of an empty directory. *)
Theorem cascade_overwrite :
  forall u dflt k orc start st0 order st',
    covers_present dflt st0 start order ->
    valid_order u dflt k orc st0 start order ->
    cascade_gen u dflt k orc st0 order = Some st' ->
    (forall p, (pn p < start)%nat ->
               st' p dflt = pyramid_spec u dflt k orc (fun q => st0 q dflt) (start - pn p) p) /\
    (forall p, (start <= pn p)%nat -> st' p dflt = st0 p dflt) /\
    (forall p f, fmt_eqb f dflt = false -> st' p f = st0 p f).
Proof. exact cascade_spec_overwrite. Qed.
Print Assumptions cascade_overwrite.

Theorem cascade_overwrite_order_independent :
  forall u dflt k orc start st0 o1 o2 s1 s2,
    covers_present dflt st0 start o1 -> covers_present dflt st0 start o2 ->
    valid_order u dflt k orc st0 start o1 -> valid_order u dflt k orc st0 start o2 ->
    cascade_gen u dflt k orc st0 o1 = Some s1 -> cascade_gen u dflt k orc st0 o2 = Some s2 ->
    forall p f, s1 p f = s2 p f.
Proof. exact cascade_order_independent_overwrite. Qed.
Print Assumptions cascade_overwrite_order_independent.

(* the code before the repair (walk_callback returned without touching the store when no
   child exists: [cascade_var true]) left such a tile in place; recorded so that a revert
   is recognised.  Witness: a root tile and no level-1 tile, cascade from level 1. *)
Theorem stale_parent_survived_before_fix :
  covers_present Fits stale_st0 1 [root] /\ valid_order upd_px Fits 2 no_orc stale_st0 1 [root] /\
  pyramid_spec upd_px Fits 2 no_orc (fun q => stale_st0 q Fits) 1 root = None /\
  (exists st', cascade_var true upd_px Fits 2 no_orc stale_st0 [root] = Some st' /\ st' root Fits <> None) /\
  (exists st', cascade_gen upd_px Fits 2 no_orc stale_st0 [root] = Some st' /\ st' root Fits = None).
Proof.
  split; [exact stale_covers_present|]. split; [exact stale_valid_order|].
  split; [vm_compute; reflexivity|]. exact stale_root_outcomes.
Qed.
Print Assumptions stale_parent_survived_before_fix.

(* RGB children (in particular every jpg pyramid, where pixel values are not
   modelled): the merged tile is never completely masked, so the parent exists
   exactly when one of its children does. *)
Theorem rgb_merge_never_masked :
  forall u f k c0 c1 c2 c3 m,
    0 < k -> (forall s o, u RGB s o = fill_px RGB s) -> rgb_children [c0; c1; c2; c3] ->
    merge_tiles_gen u f k [c0; c1; c2; c3] = Some (Some m) ->
    is_completely_masked m = false.
Proof. exact rgb_merge_not_masked. Qed.
Print Assumptions rgb_merge_never_masked.

Theorem jpg_exists :
  forall u k orc st p st',
    0 < k -> (forall s o, u RGB s o = fill_px RGB s) ->
    (forall c d, In c (children p) -> st c Jpg = Some d -> exists h w, d = FLossy h w /\ 0 <= h /\ 0 <= w) ->
    walk_callback_gen u Jpg k orc st p = Some st' ->
    (st' p Jpg <> None <-> exists c, In c (children p) /\ st c Jpg <> None).
Proof. exact jpg_exists_lemma. Qed.
Print Assumptions jpg_exists.

(* the compact placement description handed to the correspondence: child i occupies
   rows [oy, oy+k) x columns [ox, ox+k) of the stored buffer, unit steps *)
Theorem placement_meaning :
  forall f k, 0 < k ->
    placement f k = flat_map (fun o => [fst o; 1; k; snd o; 1; k]) (offsets (bottom_up f) k).
Proof. exact placement_spec. Qed.
Print Assumptions placement_meaning.

(* --- non-vacuity ----------------------------------------------------------- *)

(* a fits (bottom-up) cascade from level 1 with TL and BR children, NaN pixels:
   stored parent row 0 is the bottom display row, so 108 (from BR) sits in stored
   row 0, column 1, and 8 (from TL) in stored row 1, column 0 *)
Example cascade_nonvacuous :
  upper_levels_empty Fits ex_st0 1 /\ valid_order upd_px Fits 2 no_orc ex_st0 1 [root] /\
  ex_root_rows = Some [ [PxF None; PxF (Some 108%Q)]; [PxF (Some 8%Q); PxF None] ].
Proof. split; [exact ex_upper_empty|]. split; [exact ex_valid_order|]. vm_compute. reflexivity. Qed.

(* averaging on explicit blocks: truncation toward zero for negative integers,
   no uint8 wrap-around, NaN skipped *)
Example avg_examples :
  avg4 (PxI (-3)) (PxI 0) (PxI 0) (PxI 0) = PxI 0 /\
  avg4 (PxI (-5)) (PxI (-4)) (PxI 0) (PxI 0) = PxI (-2) /\
  avg4 (PxI 255) (PxI 255) (PxI 255) (PxI 254) = PxI 254 /\
  avg4 (PxF (Some (1 # 2)%Q)) (PxF None) (PxF (Some (3 # 2)%Q)) (PxF (Some 1%Q)) = PxF (Some 1%Q) /\
  avg4 (PxF None) (PxF None) (PxF None) (PxF None) = PxF None /\
  avg4 (PxC 9 8 7 255) (PxC 0 0 0 0) (PxC 0 0 0 0) (PxC 3 0 1 255) = PxC 3 2 2 127.
Proof. vm_compute. repeat split; reflexivity. Qed.

(* with all four children absent a parent file already lying there is removed
   (before the repair it stayed: theorem stale_parent_survived_before_fix) *)
Example early_return_removes_stale_parent : ex_stale_parent_survives = false.
Proof. vm_compute. reflexivity. Qed.

(* ======================================================================================
   Composition with C01 (parallel walk) and C13 (enumeration): parallel = serial.
   Proofs in Proofs/GlueCascade.v.  Vocabulary:
   [spec_ops P]        the callback list of the serial walk (C13 walk_serial_callbacks);
   [winit]/[wrun]      the parallel walk LTS of Model/WalkPar.v (C01), [l] any schedule;
   [end_order s]       the callback positions of the log of s, in the order of their End
                       events (oldest first);
   [cascade_pyramid]   the pyramid cascade_images builds (merge.py:108-113): generic of
                       depth start, or filtered TOAST;
   [running past q]    in the log [past], the callback of q has started and not ended;
   [replay]            a store semantics over the event log: the four child files are
                       read at the Start event, the parent is written at the End event.
   Merge.v and WalkPar.v use the same positions and [children] (Model/Quadtree.v).

   Remaining modelling assumption (WalkPar.v does not carry the tile store): the
   callback of p acts on the store as [walk_callback_gen] does, reading only the files
   of [children p] and writing only the file of p, at instants between its Start and
   End events.  [walk_par_no_interference], [walk_par_reads_settled] and
   [replay_eq_cascade] show that under this reading the instants do not matter.
   ====================================================================================== *)
From Coq Require Import NArith Arith Permutation.
From Toasty Require Import Model.Reducer Model.WalkPar Proofs.ReducerP Proofs.CountsP Proofs.WalkParAux
  Proofs.GlueCascade Model.Mask Model.Merge.

(* every well-formed pyramid with apex at the root whose leaves contain the populated
   start-level tiles, every par >= 1, pcap >= 1, every schedule that reaches DReturned:
   the End order is a rearrangement of the serial callback list, both are valid orders
   for the cascade, and the two cascades leave the same files with the same contents *)
Theorem cascade_parallel_eq_serial :
  forall (u : mode -> pixel -> pixel -> pixel) (dflt : fmt) (k : Z) (orc : pos -> Z -> Z -> pixel)
         (P : pyr) (st0 : store) (par pcap : nat),
    wf_pyr P -> apex P = root -> (1 <= par)%nat -> (1 <= pcap)%nat ->
    upper_levels_empty dflt st0 (depth P) ->
    (forall q, pn q = depth P -> st0 q dflt <> None -> In q (spec_leaves P)) ->
    forall s0, winit P par pcap = Some s0 ->
    forall l : list wact,
    let s := wrun (fun _ => false) s0 l in
    d_pc s = DReturned ->
    walk_serial P = Some (spec_ops P) /\
    Permutation (end_order s) (spec_ops P) /\
    valid_order u dflt k orc st0 (depth P) (spec_ops P) /\
    valid_order u dflt k orc st0 (depth P) (end_order s) /\
    forall s_ser s_par,
      cascade_gen u dflt k orc st0 (spec_ops P) = Some s_ser ->
      cascade_gen u dflt k orc st0 (end_order s) = Some s_par ->
      forall p f, s_ser p f = s_par p f.
Proof. exact cascade_parallel_eq_serial_thm. Qed.
Print Assumptions cascade_parallel_eq_serial.

(* cascade_images as called, on a well-formed store: without a tile filter the start
   level holds files at valid positions only; with one, at leaves the filter reaches.
   Both cascades are defined, agree, and give the specification pyramid of cascade_spec *)
Theorem cascade_images_parallel_eq_serial :
  forall (u : mode -> pixel -> pixel -> pixel) (dflt : fmt) (k : Z) (orc : pos -> Z -> Z -> pixel)
         (bm : mode) (tile_filter : option (pos -> bool)) (start : nat) (st0 : store) (par pcap : nat),
    let P := cascade_pyramid tile_filter start in
    0 < k -> maskable bm = bm -> storable dflt bm -> good_store dflt k bm st0 ->
    (1 <= par)%nat -> (1 <= pcap)%nat ->
    upper_levels_empty dflt st0 start ->
    (forall q, pn q = start -> st0 q dflt <> None ->
       match tile_filter with None => valid q = true | Some _ => In q (spec_leaves P) end) ->
    forall s0, winit P par pcap = Some s0 ->
    forall l : list wact,
    let s := wrun (fun _ => false) s0 l in
    d_pc s = DReturned ->
    exists s_ser s_par,
      walk_serial P = Some (spec_ops P) /\
      cascade_gen u dflt k orc st0 (spec_ops P) = Some s_ser /\
      cascade_gen u dflt k orc st0 (end_order s) = Some s_par /\
      (forall p f, s_ser p f = s_par p f) /\
      (forall p, (pn p < start)%nat ->
         s_par p dflt = pyramid_spec u dflt k orc (fun q => st0 q dflt) (start - pn p) p) /\
      (forall p, (start <= pn p)%nat -> s_par p dflt = st0 p dflt) /\
      (forall p f, fmt_eqb f dflt = false -> s_par p f = st0 p f).
Proof. exact cascade_images_parallel_eq_serial_thm. Qed.
Print Assumptions cascade_images_parallel_eq_serial.

(* every reachable state (returned or not): when the callback of p starts, a callback q
   that is in progress is a different tile and neither is a child of the other — no
   callback writes a file that a concurrently running callback reads or writes *)
Theorem walk_par_no_interference :
  forall P par pcap, wf_pyr P -> (1 <= par)%nat -> (1 <= pcap)%nat ->
  forall s0, winit P par pcap = Some s0 ->
  forall (l : list wact) l1 p w l2 q,
    cblog (wrun (fun _ => false) s0 l) = l1 ++ (false, p, w) :: l2 ->
    running l2 q ->
    q <> p /\ ~ In q (children p) /\ ~ In p (children q).
Proof. exact walk_par_no_interference_thm. Qed.
Print Assumptions walk_par_no_interference.

(* when the callback of p starts, a child that the walk writes at all has been written
   (its End lies in the past) and is not written again; any other child is never
   touched by the walk *)
Theorem walk_par_reads_settled :
  forall P par pcap, wf_pyr P -> (1 <= par)%nat -> (1 <= pcap)%nat ->
  forall s0, winit P par pcap = Some s0 ->
  forall (l : list wact) l1 p w l2 c,
    cblog (wrun (fun _ => false) s0 l) = l1 ++ (false, p, w) :: l2 ->
    In c (children p) ->
    (In c (spec_ops P) -> In c (ends l2) /\ ~ In c (ends l1)) /\
    (~ In c (spec_ops P) ->
       ~ In c (starts (cblog (wrun (fun _ => false) s0 l))) /\
       ~ In c (ends (cblog (wrun (fun _ => false) s0 l)))).
Proof. exact walk_par_reads_settled_thm. Qed.
Print Assumptions walk_par_reads_settled.

(* reading the children at the Start event and writing the parent at the End event
   (the two extreme instants) gives, in every reachable state and for every store, the
   store of the atomic cascade over the End order *)
Theorem replay_eq_cascade :
  forall (u : mode -> pixel -> pixel -> pixel) (dflt : fmt) (k : Z) (orc : pos -> Z -> Z -> pixel)
         (st0 : store) P par pcap, wf_pyr P -> (1 <= par)%nat -> (1 <= pcap)%nat ->
  forall s0, winit P par pcap = Some s0 ->
  forall l : list wact,
  let s := wrun (fun _ => false) s0 l in
  option_map fst (replay u dflt k orc st0 (rev (cblog s))) = cascade_gen u dflt k orc st0 (end_order s).
Proof. exact replay_eq_cascade_thm. Qed.
Print Assumptions replay_eq_cascade.

(* the hypotheses are satisfiable and the End order can differ from the serial order:
   generic pyramid of depth 2, two workers, pipe capacity 1, one populated leaf; the
   callbacks of (1,0,0) and (1,1,0) overlap and end in the opposite order *)
Example cascade_parallel_nonvacuous :
  wf_pyr (cascade_pyramid None 2) /\ apex (cascade_pyramid None 2) = root /\
  upper_levels_empty Fits glue_ex_st0 2 /\
  (forall q, pn q = 2%nat -> glue_ex_st0 q Fits <> None -> valid q = true) /\
  spec_ops (cascade_pyramid None 2) = [mkPos 1 0%N 0%N; mkPos 1 1%N 0%N; mkPos 1 0%N 1%N; mkPos 1 1%N 1%N; root] /\
  exists s0, winit (cascade_pyramid None 2) 2 1 = Some s0 /\
    let s := wrun (fun _ => false) s0 glue_ex_schedule in
    d_pc s = DReturned /\
    end_order s = [mkPos 1 1%N 0%N; mkPos 1 0%N 0%N; mkPos 1 0%N 1%N; mkPos 1 1%N 1%N; root].
Proof.
  split; [exact (proj1 (cascade_pyramid_wf None 2))|]. split; [reflexivity|].
  split; [exact (proj1 glue_ex_hyps)|]. split; [exact (proj2 glue_ex_hyps)|].
  split; [vm_compute; reflexivity|]. eexists. split; [vm_compute; reflexivity|]. vm_compute. auto.
Qed.

(* ------------------------------------------------------------------ *)
(* `toasty cascade` (cli.cascade_impl), tied by TRANSLATION: Generated/CliCascadeSrc.v is the
   decision tree of the function -- the tests it makes on its settings, the calls it makes on each
   path -- produced from toasty/cli.py in /repo's working tree on every build.  Under every
   valuation of the settings it behaves like the hand-written model (Model/CliScript.v), in which
   --format, --start and --parallelism reach cascade_images (the format in particular: the
   cascade reads and writes the format the user named, not one guessed from the directory).
   Proofs in Proofs/CliCascadeP.v. *)
From Coq Require Import String.
From Toasty Require Import Model.SrcPrelude Model.CliScript Generated.CliCascadeSrc Proofs.CliCascadeP.

Theorem src_cascade_command_is_model :
  forall (is_none : sval unit -> bool) (eq_lit : sval unit -> string -> bool) (is_true : sval unit -> bool),
  run_tree is_none eq_lit is_true src_cli_cascade_impl = cascade_impl_model is_none.
Proof. exact src_cascade_impl_eq. Qed.
Print Assumptions src_cascade_command_is_model.

Theorem cascade_command_plumbing :
  forall is_none : sval unit -> bool,
  (is_none (setting "start") = false ->
   exists e, cascade_impl_model is_none = (true, [e]) /\
             call_pos e = [pyramid_at (setting "pyramid_dir") [("default_format"%string, setting "format")];
                           setting "start"; SName "averaging_merger"] /\
             call_kw "parallel" e = Some (setting "parallelism")) /\
  (is_none (setting "start") = true -> cascade_impl_model is_none = (false, [])).
Proof. intros is_none. split; [apply cascade_plumbing|apply cascade_dies_without_start]. Qed.
Print Assumptions cascade_command_plumbing.
