(* C07 — Tile filters never drop a tile holding data: filtered sampling leaves no holes.
   Statements only; proofs live in Proofs/FilterP.v, the model in Model/Filter.v.
   tau (= 2 pi), pi, halfpi and thr (the pole threshold 1.5707963) are universally
   quantified rationals; what each theorem needs of them is stated as a hypothesis. *)
From Coq Require Import List ZArith QArith Qround Bool Permutation.
From Toasty Require Import Model.Quadtree Model.Filter Proofs.FilterP.
Import ListNotations.
Local Open Scope Q_scope.

(* 1. the 5-comparator network sorts every 4-tuple *)
Theorem sorting_network_sorts :
  forall l : Q4, sorted4 (sort4 l) /\ Permutation (list4 (sort4 l)) (list4 l).
Proof. exact sort4_correct. Qed.
Print Assumptions sorting_network_sorts.

(* 2. soundness of the bbox test (no false negative), any box width / origin *)
Theorem bbox_sound :
  forall tau pi thr : Q, 0 < tau ->
  forall (fuel : nat) (c : corners) (bx : box) (r : bres),
    bbox tau pi thr fuel c bx = Some r ->
    forall lon lat : Q,
      in_range4 (lats c) lat -> b_lat_min bx <= lat <= b_lat_max bx ->
      (polar thr c = true \/
       exists tmin tmax k1 k2,
         tile_lon_range tau pi fuel c = Some (tmin, tmax) /\
         tmin <= lon + inject_Z k1 * tau <= tmax /\
         b_lon_min bx <= lon + inject_Z k2 * tau <= b_lon_max bx /\
         (tmin < lon + inject_Z k1 * tau \/ lon + inject_Z k2 * tau < b_lon_max bx) /\
         (lon + inject_Z k1 * tau < tmax \/ b_lon_min bx < lon + inject_Z k2 * tau)) ->
      r_dec r = true.
Proof. exact bbox_sound_l. Qed.
Print Assumptions bbox_sound.

Example bbox_sound_nonvacuous :
  (* a box wider than a turn with a far-away origin, a tile straddling the seam *)
  let c := mkC (6, 1 # 10, 2 # 10, 61 # 10) (1 # 10, 2 # 10, 3 # 10, 0) in
  let bx := mkBox (-20) (-12) (-1) 1 in
  exists r, bbox (63 # 10) (315 # 100) (157 # 100) 16 c bx = Some r /\ r_dec r = true /\ r_sorted r = true /\
            exists tmin tmax, tile_lon_range (63 # 10) (315 # 100) 16 c = Some (tmin, tmax) /\
                              tmin == 6 /\ tmax == 65 # 10.
Proof. eexists. repeat split; try (vm_compute; reflexivity). eexists; eexists. split; [vm_compute; reflexivity|]. split; reflexivity. Qed.

(* what "the tile's unwrapped longitude range" is: the in-place part leaves the
   corner longitudes sorted, each moved up by whole turns, within a half-turn *)
Theorem unwrapped_range_meaning :
  forall (tau pi thr : Q) (fuel : nat) (c : corners) (bx : box) (r : bres),
    reaches_sort thr c bx = true -> bbox tau pi thr fuel c bx = Some r ->
    r_sorted r = true /\ sorted4 (r_lons r) /\ lifts4 tau (sort4 (lons c)) (r_lons r) /\
    (let '(a, _, _, d) := r_lons r in d - a <= pi).
Proof. exact bbox_late. Qed.
Print Assumptions unwrapped_range_meaning.

(* the explicit hypothesis under which the span loop (hence the function)
   terminates: the four corner longitudes fit in a window of width pi < tau
   after unwrapping by whole turns *)
Theorem bbox_terminates_half_turn :
  forall tau pi thr : Q, 0 < tau ->
  forall (c : corners) (bx : box),
    pi < tau ->
    (exists A ka kb kc kd,
        let '(a, b, c0, d) := lons c in
        A <= a + inject_Z ka * tau <= A + pi /\ A <= b + inject_Z kb * tau <= A + pi /\
        A <= c0 + inject_Z kc * tau <= A + pi /\ A <= d + inject_Z kd * tau <= A + pi) ->
    exists fuel r, bbox tau pi thr fuel c bx = Some r.
Proof. exact bbox_terminates. Qed.
Print Assumptions bbox_terminates_half_turn.

Theorem bbox_fuel_independent :
  forall (tau pi thr : Q) (fuel : nat) (c : corners) (bx : box) (r : bres),
    bbox tau pi thr fuel c bx = Some r ->
    forall fuel', (fuel <= fuel')%nat -> bbox tau pi thr fuel' c bx = Some r.
Proof. exact bbox_fuel_mono. Qed.
Print Assumptions bbox_fuel_independent.

(* the two shifting loops (pyx 245-251) compute the closed form via ceilings *)
Theorem shift_loops_closed_form :
  forall tau : Q, 0 < tau ->
  forall (fuel : nat) (bmin lo hi m lo1 hi1 m1 lo2 hi2 m2 : Q),
    shift_up tau fuel bmin (lo, hi) m = Some (lo1, hi1, m1) ->
    shift_down tau fuel bmin (lo1, hi1) m1 = Some (lo2, hi2, m2) ->
    lo2 == fst (shift_closed tau bmin (lo, hi)) /\ hi2 == snd (shift_closed tau bmin (lo, hi)).
Proof. exact shift_loops_closed. Qed.
Print Assumptions shift_loops_closed_form.

(* corners spread over more than a half-turn: the loop of pyx 219 never ends *)
Example span_loop_diverges_example :
  span_loop 6 3 200 (0, 2, 4, 6) 0 = None.
Proof. vm_compute. reflexivity. Qed.

(* 3. purity of the filter on every tile the generators make *)
Theorem filter_pure :
  forall (tau pi thr : Q) (fuel : nat) (bx : box),
  (forall c, snd (latlon_tile_filter tau pi thr fuel bx (mkTile CTuple c)) = mkTile CTuple c /\
             fst (latlon_tile_filter tau pi thr fuel bx (mkTile CTuple c)) =
             match bbox tau pi thr fuel c bx with Some r => FRet (r_dec r) (r_margin r) | None => FFuel end) /\
  (forall planetary n c, (n = 1%nat -> polar thr c = true) ->
     let t := mkTile (repr_at_level planetary n) c in
     snd (latlon_tile_filter tau pi thr fuel bx t) = t /\
     fst (latlon_tile_filter tau pi thr fuel bx t) <> FRaise).
Proof. exact filter_pure_l. Qed.
Print Assumptions filter_pure.

(* ... whereas an ndarray that is not polar (no generator makes one) is sorted in place / raises *)
Theorem filter_nonpolar_array_not_pure :
  (exists c bx, snd (latlon_tile_filter 6 3 (3 # 2) 8 bx (mkTile CArrayRW c)) <> mkTile CArrayRW c) /\
  (exists c bx, fst (latlon_tile_filter 6 3 (3 # 2) 8 bx (mkTile CArrayRO c)) = FRaise).
Proof. exact (conj filter_array_rw_mutated filter_array_ro_raises). Qed.
Print Assumptions filter_nonpolar_array_not_pure.

(* 4. chunks *)
Theorem chunks_tile_edge_to_edge :
  forall (tau pi halfpi : Q) (W H : Z),
  0 < tau -> 0 < pi -> (0 < W)%Z -> (0 < H)%Z ->
  (forall cx cy cw ch cw2,
     b_lon_max (chunk_bounds tau pi halfpi W H cx cy cw ch) =
     b_lon_min (chunk_bounds tau pi halfpi W H (cx + cw) cy cw2 ch)) /\
  (forall cx cy cw ch ch2,
     b_lat_min (chunk_bounds tau pi halfpi W H cx cy cw ch) =
     b_lat_max (chunk_bounds tau pi halfpi W H cx (cy + ch) cw ch2)) /\
  (forall cw ch,
     b_lon_min (chunk_bounds tau pi halfpi W H 0 0 cw ch) == - pi /\
     b_lat_max (chunk_bounds tau pi halfpi W H 0 0 cw ch) == halfpi /\
     b_lon_max (chunk_bounds tau pi halfpi W H (W - cw) (H - ch) cw ch) == tau - pi /\
     b_lat_min (chunk_bounds tau pi halfpi W H (W - cw) (H - ch) cw ch) == halfpi - pi) /\
  (forall cx cy cw ch, (0 < cw)%Z -> (0 < ch)%Z ->
     box_ok (chunk_bounds tau pi halfpi W H cx cy cw ch) = true).
Proof. exact chunks_tile_l. Qed.
Print Assumptions chunks_tile_edge_to_edge.

(* away from rounding ties exactly one chunk leaves a point unmasked and it
   reads the whole-map sampler's source pixel *)
Theorem chunks_cover :
  forall tau pi halfpi : Q, 0 < tau -> 0 < pi ->
  forall (W H : Z) (cols rows : list Z) (lon lat : Q),
    (0 < W)%Z -> (0 < H)%Z ->
    Forall (fun w => (0 < w)%Z) cols -> Forall (fun w => (0 < w)%Z) rows ->
    zsum cols = W -> zsum rows = H ->
    halfpi - pi < lat <= halfpi ->
    ~ tie (whole_gx tau pi W lon) -> ~ tie (whole_gy pi halfpi H lat) ->
    grid_samples tau pi halfpi W H cols rows lon lat = [whole_sample tau pi halfpi W H lon lat].
Proof. exact grid_samples_whole. Qed.
Print Assumptions chunks_cover.

Example chunks_cover_nonvacuous :
  grid_samples 6 3 (3 # 2) 10 6 [4; 3; 3]%Z [2; 4]%Z (29 # 10) (-(14 # 10)) = [(5, 9)%Z] /\
  whole_sample 6 3 (3 # 2) 10 6 (29 # 10) (-(14 # 10)) = (5, 9)%Z /\
  grid_samples 6 3 (3 # 2) 10 6 [4; 3; 3]%Z [2; 4]%Z (- (1 # 10)) (1 # 10) = [(2, 4)%Z].
Proof. vm_compute. repeat split. Qed.

(* the chunk sampler masks exactly the pixels whose rounded global source index
   is outside the chunk *)
Theorem chunk_mask_exact :
  forall tau pi halfpi : Q, 0 < tau -> 0 < pi ->
  forall (W H cx cy cw ch : Z) (lon lat : Q),
    (0 < W)%Z -> (0 < H)%Z -> (0 < cw)%Z -> (0 < ch)%Z ->
    ~ tie (whole_gx tau pi W lon) -> ~ tie (whole_gy pi halfpi H lat) ->
    chunk_sample tau pi (chunk_bounds tau pi halfpi W H cx cy cw ch) cw ch lon lat =
    let X := rhe (whole_gx tau pi W lon) in
    let Y := rhe (whole_gy pi halfpi H lat) in
    if in_span X (cx, cw) && in_span Y (cy, ch) then Some ((Y - cy)%Z, (X - cx)%Z) else None.
Proof. exact chunk_sample_global. Qed.
Print Assumptions chunk_mask_exact.

(* an unmasked pixel lies in the chunk's box, so the chunk's own filter must
   (by bbox_sound) accept its tile *)
Theorem chunk_unmasked_in_box :
  forall (tau pi : Q) (bx : box) (nx ny : Z) (lon lat : Q) (r : Z * Z),
    0 < tau -> b_lon_min bx < b_lon_max bx -> b_lat_min bx < b_lat_max bx ->
    (0 < nx)%Z -> (0 < ny)%Z ->
    chunk_sample tau pi bx nx ny lon lat = Some r -> in_box tau bx lon lat.
Proof. exact chunk_sample_in_box_mod. Qed.
Print Assumptions chunk_unmasked_in_box.

(* 5. image footprints: the sampling positions of _image_bounds *)
Theorem refine_includes_coarse_refuted :
  exists naxis e, (1 <= naxis)%Z /\ (0 <= e <= NM)%Z /\
    existsb (Qeq_bool (cidx naxis e)) (refine_axis 0 naxis e) = false.
Proof. exact refine_includes_coarse_refuted_l. Qed.
Print Assumptions refine_includes_coarse_refuted.

Theorem refine_lon_includes_coarse_refuted :
  exists naxis1 naxis2 e, (1 <= naxis1)%Z /\ (1 <= naxis2)%Z /\ (0 <= e <= 4 * NM)%Z /\
    mem_pt (cidx naxis1 (fst (edge_walk e)), cidx naxis2 (snd (edge_walk e)))
           (refine_lon_pts 0 naxis1 naxis2 e) = false.
Proof. exact refine_lon_includes_coarse_refuted_l. Qed.
Print Assumptions refine_lon_includes_coarse_refuted.

(* when it happens: the window spans at most one pixel, n = 1, only its start is sampled *)
Theorem refine_single_sample_condition :
  forall naxis e, (1 <= naxis)%Z -> ((clamp_hi e - clamp_lo e) * naxis <= 31)%Z ->
    refine_axis 0 naxis e = [cidx naxis (clamp_lo e)].
Proof. exact refine_axis_coded_n1. Qed.
Print Assumptions refine_single_sample_condition.

(* repaired behaviour (fixes/C07-1.patch), all axis lengths, all extreme positions *)
Theorem refine_fixed_includes_coarse :
  forall n1 n2 : Z,
  (forall e1 e2, mem_pt (cidx n1 e1, cidx n2 e2) (refine_lat_fixed n1 n2 e1 e2) = true) /\
  (forall e, mem_pt (cidx n1 (fst (edge_walk e)), cidx n2 (snd (edge_walk e))) (refine_lon_fixed n1 n2 e) = true).
Proof. exact refine_fixed_includes_coarse_l. Qed.
Print Assumptions refine_fixed_includes_coarse.

Theorem refine_fixed_window_sampled :
  forall naxis e : Z,
    InQ (cidx naxis (clamp_lo e)) (refine_axis 1 naxis e) /\
    InQ (cidx naxis (clamp_hi e)) (refine_axis 1 naxis e) /\
    (cidx naxis (clamp_hi e) - cidx naxis (clamp_lo e)) /
      inject_Z (refine_n 1 naxis (clamp_lo e) (clamp_hi e) - 1) <= 1.
Proof. exact refine_axis_fixed_l. Qed.
Print Assumptions refine_fixed_window_sampled.

(* 6. the property: a tile with a pixel centre in the box / chunk / bounds is
   accepted together with all its ancestors; filtering removes no tile that
   holds data.  The tile geometry (corners_of, centre, tile_holds) is a
   parameter discharged by the geometry properties C04/C05. *)
Theorem box_filter_complete :
  forall tau pi thr : Q, 0 < tau ->
  forall (corners_of : pos -> corners) (fuel : nat) (bx : box) (p : pos) (lon lat : Q),
    in_box tau bx lon lat ->
    (forall k, (k < pn p)%nat ->
       tile_holds tau pi thr corners_of fuel (ancestor k p) lon lat /\
       bbox tau pi thr fuel (corners_of (ancestor k p)) bx <> None) ->
    accepted_chain (box_filter tau pi thr corners_of fuel bx) p.
Proof. exact box_filter_complete_l. Qed.
Print Assumptions box_filter_complete.

Theorem filtered_eq_unfiltered :
  forall tau pi thr : Q, 0 < tau ->
  forall (corners_of : pos -> corners) (centre : pos -> Z -> Z -> Q * Q)
         (V : Type) (samp : Q -> Q -> option V) (fuel : nat) (bx : box) (p : pos),
    (forall lon lat, samp lon lat <> None -> in_box tau bx lon lat) ->
    (forall i j k, (k < pn p)%nat ->
       tile_holds tau pi thr corners_of fuel (ancestor k p) (fst (centre p i j)) (snd (centre p i j)) /\
       bbox tau pi thr fuel (corners_of (ancestor k p)) bx <> None) ->
    (has_data centre V samp p <->
     accepted_chain (box_filter tau pi thr corners_of fuel bx) p /\ has_data centre V samp p).
Proof. exact filtered_eq_unfiltered_l. Qed.
Print Assumptions filtered_eq_unfiltered.

(* sequential chunk sampling with update: the one unmasked contribution survives *)
Theorem chunk_updates_keep_the_value :
  forall (V : Type) (vals : list (option V)) (v : V),
    (exists l1 l2, vals = l1 ++ Some v :: l2 /\
                   Forall (fun x => x = None) l1 /\ Forall (fun x => x = None) l2) ->
    forall init, fold_left merge_px vals init = Some v.
Proof. exact @merge_singleton. Qed.
Print Assumptions chunk_updates_keep_the_value.

(* ------------------------------------------------------------------ *)
(* Several images tiled into one TOAST pyramid (FitsTiler._tile_toast; Model/MultiToast.v): the
   cascade's filter is the union of the images' filters, so it accepts every tile some image's
   filter accepts, and -- the image filters being monotone towards the root -- every ancestor of
   a tile some image wrote into: the filtered cascade leaves no holes above any image.  The
   calls themselves (one sampling call per image with its own filter at one common depth, then
   one cascade, the caller's worker count in each) are compared with [script] by the
   correspondence run (harness/corr_C07.py, part M). *)
From Toasty Require Import Model.MultiToast Proofs.MultiToastP.

Theorem union_filter_is_union :
  forall (tile : Type) (fs : list (tile -> bool)) (t : tile),
  union_filter tile fs t = true <-> exists f, In f fs /\ f t = true.
Proof. exact union_spec. Qed.
Print Assumptions union_filter_is_union.

Theorem union_filter_leaves_no_holes :
  forall (tile : Type) (parent : tile -> tile) (fs : list (tile -> bool)),
  (forall f, In f fs -> forall t, f t = true -> f (parent t) = true) ->
  forall (k : nat) (f : tile -> bool) (t : tile), In f fs -> f t = true ->
  union_filter tile fs (Nat.iter k parent t) = true.
Proof. exact union_ancestors. Qed.
Print Assumptions union_filter_leaves_no_holes.

Theorem multi_toast_common_depth :
  forall (given : option Z) (levels : list (option Z)) (par : option Z),
  length (script given levels par) = S (length levels) /\
  last (script given levels par) (Cascade None) = Cascade par /\
  (forall i, (i < length levels)%nat ->
             nth i (script given levels par) (Cascade None) = ToastBase i (recorded_levels given levels) i par) /\
  (given = None -> (1 <= recorded_levels given levels)%Z /\
                   forall v, In (Some v) levels -> (v <= recorded_levels given levels)%Z).
Proof.
  intros given levels par. destruct (script_shape given levels par) as (A & B & C).
  repeat split; try assumption.
  - subst given. apply auto_start_ge_1.
  - subst given. apply auto_start_covers.
Qed.
Print Assumptions multi_toast_common_depth.

Example multi_toast_script_runs :
  script None [Some 2%Z; Some 4%Z; None; Some 3%Z] (Some 2%Z)
  = [ToastBase 0%nat 4%Z 0%nat (Some 2%Z); ToastBase 1%nat 4%Z 1%nat (Some 2%Z); ToastBase 2%nat 4%Z 2%nat (Some 2%Z);
     ToastBase 3%nat 4%Z 3%nat (Some 2%Z); Cascade (Some 2%Z)] /\
  union_filter nat [Nat.eqb 3%nat; Nat.eqb 5%nat] 5%nat = true /\ union_filter nat [Nat.eqb 3%nat; Nat.eqb 5%nat] 4%nat = false.
Proof. vm_compute. repeat split. Qed.

(* Tie by TRANSLATION: Generated/ScriptSrc.v is produced by harness/py2coq.py from
   FitsTiler._tile_toast in /repo's working tree on every build -- the calls it makes on its
   Builder, with their arguments as symbolic values, and the closure it hands to the cascade.
   The translated function makes exactly the calls of the hand-written script
   (Model/TileToastScript.v: one toast_base per image with the sampler and the filter of THAT
   image at the common start level, then one cascade with the closure over ALL the filters, the
   caller's worker count and progress flag in each, then apply_wcs_info with the last image's
   WCS), and the translated closure is the union filter of the theorems above.  Proofs in
   Proofs/ScriptSrcP.v. *)
From Coq Require Import String.
From Toasty Require Import Model.SrcPrelude Model.TileToastScript Generated.ScriptSrc Proofs.ScriptSrcP.

Theorem src_tile_toast_is_script :
  forall (image : Type) (has_wcs : image -> bool) (guess : image -> Z)
         (images : list image) (cp : bool) (par given : option Z),
  src_tile_toast image has_wcs guess images cp par given
  = tile_toast_script image has_wcs guess images cp par given.
Proof. exact src_tile_toast_eq. Qed.
Print Assumptions src_tile_toast_is_script.

Theorem src_cascade_filter_is_union :
  forall (tile : Type) (fs : list (tile -> bool)) (t : tile),
  src_tile_toast_tile_filters fs t = union_filter tile fs t.
Proof. exact src_tile_filters_is_union. Qed.
Print Assumptions src_cascade_filter_is_union.

(* the script's start level is MultiToast's, over the images' guessed levels *)
Example src_tile_toast_runs :
  option_map (@List.length _)
    (src_tile_toast nat (fun i => negb (Nat.eqb i 2)) (fun i => Z.of_nat i + 2)%Z [0; 1; 2; 3]%nat true (Some 2%Z) None)
  = Some 6%nat /\
  option_map (fun l => nth 1 l (SCall EmptyString [] []))
    (src_tile_toast nat (fun i => negb (Nat.eqb i 2)) (fun i => Z.of_nat i + 2)%Z [0; 1; 2; 3]%nat true (Some 2%Z) None)
  = Some (toast_base_call nat 5%Z true (Some 2%Z) 1%nat) /\
  src_tile_toast nat (fun _ => true) (fun _ => 3%Z) [] true None None = None.
Proof. vm_compute. repeat split. Qed.
