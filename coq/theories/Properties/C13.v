(* C13 — Quadtree enumeration and tile counts are consistent and match what is visited.
   Statements only; proofs live in Proofs/. *)
From Coq Require Import List NArith Arith Bool.
From Toasty Require Import Model.Quadtree Model.Reducer Proofs.QuadtreeP.
Import ListNotations.
Local Open Scope N_scope.

Theorem parent_children_agree :
  forall p c, In c (children p) <-> (exists ix iy, parent c = Some (p, ix, iy)).
Proof. exact parent_children_iff. Qed.
Print Assumptions parent_children_agree.
