(* C13 — Quadtree enumeration and tile counts are consistent and match what is visited.
   Statements only; proofs live in Proofs/ (QuadtreeP, ReducerP, EnumP, CountsP).

   Reading guide.  [pwalk k acc p] is the enumeration every generator yields below the
   apex ([k] levels, filter [acc]); [riter_refines] (ReducerP) shows that running the
   coded PyramidReductionIterator over the coded generator of any well-formed pyramid
   equals structural recursion over that enumeration.  [spec_leaves], [spec_live],
   [spec_ops] are the in-scope accepted leaves / live tiles / live non-leaves in
   generator order.  [desc_ok acc p q m]: q lies m levels below p, p = ancestor m q,
   and q and all its ancestors up to p are accepted.  [cfirst l]: no child of an
   element of l occurs after it. *)
From Coq Require Import List NArith Arith Bool.
From Toasty Require Import Model.Quadtree Model.Reducer Proofs.QuadtreeP Proofs.ReducerP
  Proofs.EnumP Proofs.CountsP.
Import ListNotations.
Local Open Scope N_scope.

(* ---- 1. parent, children and is-descendant agree --------------------------------- *)

Theorem parent_children_agree :
  forall p c, In c (children p) <-> (exists ix iy, parent c = Some (p, ix, iy)).
Proof. exact parent_children_iff. Qed.
Print Assumptions parent_children_agree.

Theorem is_subtile_error_iff :
  forall c p, is_subtile c p = None <-> (pn c < pn p)%nat.
Proof. exact is_subtile_none. Qed.
Print Assumptions is_subtile_error_iff.

Theorem is_subtile_iff_ancestor :
  forall c p b, is_subtile c p = Some b ->
    (pn p <= pn c)%nat /\
    (b = true <-> exists m, ancestor m c = p /\ m = (pn c - pn p)%nat).
Proof. exact is_subtile_ancestor. Qed.
Print Assumptions is_subtile_iff_ancestor.

Theorem is_subtile_shift :
  forall c p, (pn p <= pn c)%nat -> is_subtile c p = Some (below c p).
Proof. exact is_subtile_below. Qed.
Print Assumptions is_subtile_shift.

Theorem below_iff_ancestor :
  forall c p, below c p = true <-> (pn p <= pn c)%nat /\ ancestor (pn c - pn p) c = p.
Proof. exact below_iff. Qed.
Print Assumptions below_iff_ancestor.

Theorem children_are_subtiles :
  forall p c, In c (children p) -> is_subtile c p = Some true.
Proof. exact child_is_subtile. Qed.
Print Assumptions children_are_subtiles.

(* ---- 2. generate_pos ---------------------------------------------------------------- *)

Theorem generate_pos_nodup : forall d, NoDup (generate_pos d).
Proof. exact generate_pos_NoDup. Qed.
Print Assumptions generate_pos_nodup.

Theorem generate_pos_members :
  forall d q, In q (generate_pos d) <-> valid q = true /\ (pn q <= d)%nat.
Proof. exact generate_pos_in. Qed.
Print Assumptions generate_pos_members.

Theorem generate_pos_count :
  forall d, N.of_nat (length (generate_pos d)) = depth2tiles d.
Proof. exact generate_pos_length. Qed.
Print Assumptions generate_pos_count.

Theorem generate_pos_children_before :
  forall d l1 q l2, generate_pos d = l1 ++ q :: l2 -> (pn q < d)%nat ->
    forall c, In c (children q) -> In c l1.
Proof. exact generate_pos_children_first. Qed.
Print Assumptions generate_pos_children_before.

(* ---- 3. the accepted-tree enumeration ------------------------------------------------ *)

Theorem enum_nodup : forall k acc p, NoDup (pwalk k acc p).
Proof. exact pwalk_NoDup. Qed.
Print Assumptions enum_nodup.

Theorem enum_members :
  forall k acc p q,
    In q (pwalk k acc p) <-> exists m, (m < k)%nat /\ desc_ok acc p q m.
Proof. exact pwalk_in. Qed.
Print Assumptions enum_members.

Theorem enum_children_before :
  forall k acc p l1 q l2 c,
    pwalk k acc p = l1 ++ q :: l2 -> In c (children q) -> In c (pwalk k acc p) -> In c l1.
Proof. exact pwalk_children_first. Qed.
Print Assumptions enum_children_before.

(* an accepted child within depth does occur (so: before its parent) *)
Theorem enum_child_present :
  forall k acc p q c,
    In q (pwalk k acc p) -> In c (children q) -> acc c = true -> (pn c < pn p + k)%nat ->
    In c (pwalk k acc p).
Proof. exact pwalk_child_in. Qed.
Print Assumptions enum_child_present.

(* the iterator over the coded generator = recursion over that enumeration (every kind,
   filter, apex, step function and default) *)
Theorem riter_refines_tree_reduce :
  forall (A : Type) (f : pos -> bool -> A * A * A * A -> A) (d : A) (P : pyr),
    wf_pyr P ->
    riter_run f d P =
    if apex_reachable P
    then ROk (tree_log f d (sub_levels P) (in_filter P) (apex P))
             (tree_reduce f d (sub_levels P) (in_filter P) (apex P))
    else ROk [] d.
Proof. exact (@riter_refines). Qed.
Print Assumptions riter_refines_tree_reduce.

(* ---- 4. the counters ------------------------------------------------------------------ *)

Theorem count_leaf_tiles_correct :
  forall P, wf_pyr P -> count_leaf_tiles P = Some (N.of_nat (length (spec_leaves P))).
Proof. exact count_leaf_correct. Qed.
Print Assumptions count_leaf_tiles_correct.

Theorem count_live_tiles_correct :
  forall P, wf_pyr P -> count_live_tiles P = Some (N.of_nat (length (spec_live P))).
Proof. exact count_live_correct. Qed.
Print Assumptions count_live_tiles_correct.

Theorem count_operations_correct :
  forall P, wf_pyr P -> count_operations P = Some (N.of_nat (length (spec_ops P))).
Proof. exact count_ops_correct. Qed.
Print Assumptions count_operations_correct.

Theorem ops_plus_leaves_eq_live :
  forall P, wf_pyr P ->
    (length (spec_ops P) + length (spec_leaves P) = length (spec_live P))%nat.
Proof. exact ops_leaves_live. Qed.
Print Assumptions ops_plus_leaves_eq_live.

Theorem counters_sum :
  forall P, wf_pyr P ->
    exists o l v, count_operations P = Some o /\ count_leaf_tiles P = Some l /\
                  count_live_tiles P = Some v /\ o + l = v.
Proof. exact counts_sum. Qed.
Print Assumptions counters_sum.

(* closed forms when no filter is active (including apex depth = depth and depth 0) *)
Theorem closed_form_leaves :
  forall P, wf_pyr P -> has_filter P = false ->
    N.of_nat (length (spec_leaves P)) = 4 ^ N.of_nat (depth P - pn (apex P)).
Proof. exact nofilter_leaves. Qed.
Print Assumptions closed_form_leaves.

Theorem closed_form_live :
  forall P, wf_pyr P -> has_filter P = false ->
    N.of_nat (length (spec_live P)) = (4 ^ (N.of_nat (depth P - pn (apex P)) + 1) - 1) / 3.
Proof. exact nofilter_live. Qed.
Print Assumptions closed_form_live.

Theorem closed_form_ops :
  forall P, wf_pyr P -> has_filter P = false ->
    N.of_nat (length (spec_ops P)) = (4 ^ N.of_nat (depth P - pn (apex P)) - 1) / 3.
Proof. exact nofilter_ops. Qed.
Print Assumptions closed_form_ops.

(* the reducer gives the right number whether or not the shortcut is taken, so the
   analytic shortcut and the reducer coincide where the shortcut applies *)
Theorem shortcut_equals_reducer :
  forall P, wf_pyr P -> has_filter P = false ->
    res_or 0 (riter_run f_leaf 0 P) = Some (tiles_at_depth (depth P - pn (apex P))) /\
    res_or 0 (riter_run f_live 0 P) = Some (depth2tiles (depth P - pn (apex P))) /\
    option_map snd (res_or (false, 0) (riter_run f_ops (false, 0) P)) =
      Some ((4 ^ N.of_nat (depth P - pn (apex P)) - 1) / 3).
Proof. exact shortcut_eq_reducer. Qed.
Print Assumptions shortcut_equals_reducer.

(* ---- 5. what the serial leaf visit and the serial walk call back ------------------- *)

Theorem visit_leaves_serial_spec :
  forall P, wf_pyr P -> visit_serial P = Some (spec_leaves P).
Proof. exact visit_serial_spec. Qed.
Print Assumptions visit_leaves_serial_spec.

Theorem walk_serial_callbacks :
  forall P, wf_pyr P -> walk_serial P = Some (spec_ops P).
Proof. exact walk_serial_spec. Qed.
Print Assumptions walk_serial_callbacks.

Theorem visited_once :
  forall P, NoDup (spec_leaves P) /\ NoDup (spec_live P) /\ NoDup (spec_ops P).
Proof. exact spec_NoDup. Qed.
Print Assumptions visited_once.

Theorem leaves_members :
  forall P q, In q (spec_leaves P) <-> in_tree P q /\ pn q = depth P.
Proof. exact spec_leaves_in. Qed.
Print Assumptions leaves_members.

(* live = in the accepted tree under the apex, with an accepted deepest-level tile
   reachable through accepted tiles *)
Theorem live_members :
  forall P q, wf_pyr P ->
    (In q (spec_live P) <->
     in_tree P q /\
     exists l, In l (pwalk (S (depth P) - pn q) (in_filter P) q) /\ pn l = depth P).
Proof. exact spec_live_in. Qed.
Print Assumptions live_members.

Theorem ops_members :
  forall P q, In q (spec_ops P) <-> In q (spec_live P) /\ pn q <> depth P.
Proof. exact spec_ops_in. Qed.
Print Assumptions ops_members.

(* never a leaf (walk), a rejected tile or a tile outside the sub-pyramid *)
Theorem walk_scope :
  forall P q, wf_pyr P -> In q (spec_ops P) ->
    in_filter P q = true /\ below q (apex P) = true /\ (pn (apex P) <= pn q < depth P)%nat.
Proof. exact spec_ops_scope. Qed.
Print Assumptions walk_scope.

Theorem visit_scope :
  forall P q, In q (spec_leaves P) ->
    in_filter P q = true /\ below q (apex P) = true /\ pn q = depth P.
Proof. exact spec_leaves_scope. Qed.
Print Assumptions visit_scope.

Theorem walk_children_before :
  forall P l1 q l2 c,
    spec_ops P = l1 ++ q :: l2 -> In c (children q) -> In c (spec_ops P) -> In c l1.
Proof. exact spec_ops_children_first. Qed.
Print Assumptions walk_children_before.

(* ---- 6. sub-pyramid restriction -------------------------------------------------------- *)

(* P is any pyramid whose apex is the root (in particular the full pyramid, sub P = false);
   the record on the left is what subpyramid(a) returns for it. *)

Theorem subpyramid_restriction_live :
  forall P a, apex P = root -> valid a = true -> (pn a <= depth P)%nat ->
    spec_live (mkPyr (kd P) (depth P) (ufilt P) a true) =
    filter (fun q => below q a) (spec_live P).
Proof. exact restrict_live. Qed.
Print Assumptions subpyramid_restriction_live.

Theorem subpyramid_restriction_leaves :
  forall P a, apex P = root -> valid a = true -> (pn a <= depth P)%nat ->
    spec_leaves (mkPyr (kd P) (depth P) (ufilt P) a true) =
    filter (fun q => below q a) (spec_leaves P).
Proof. exact restrict_leaves. Qed.
Print Assumptions subpyramid_restriction_leaves.

Theorem subpyramid_restriction_ops :
  forall P a, apex P = root -> valid a = true -> (pn a <= depth P)%nat ->
    spec_ops (mkPyr (kd P) (depth P) (ufilt P) a true) =
    filter (fun q => below q a) (spec_ops P).
Proof. exact restrict_ops. Qed.
Print Assumptions subpyramid_restriction_ops.

Theorem subpyramid_restriction_counts :
  forall P a, apex P = root -> valid a = true -> (pn a <= depth P)%nat ->
    count_live_tiles (mkPyr (kd P) (depth P) (ufilt P) a true) =
      Some (N.of_nat (length (filter (fun q => below q a) (spec_live P)))) /\
    count_leaf_tiles (mkPyr (kd P) (depth P) (ufilt P) a true) =
      Some (N.of_nat (length (filter (fun q => below q a) (spec_leaves P)))) /\
    count_operations (mkPyr (kd P) (depth P) (ufilt P) a true) =
      Some (N.of_nat (length (filter (fun q => below q a) (spec_ops P)))).
Proof. exact restrict_counts. Qed.
Print Assumptions subpyramid_restriction_counts.

(* a rejected ancestor of the apex: nothing in the sub-pyramid, and nothing of the
   full result lies below the apex *)
Theorem subpyramid_unreachable :
  forall P a, apex P = root -> valid a = true -> (pn a <= depth P)%nat ->
    apex_reachable (mkPyr (kd P) (depth P) (ufilt P) a true) = false ->
    spec_live (mkPyr (kd P) (depth P) (ufilt P) a true) = [] /\
    spec_leaves (mkPyr (kd P) (depth P) (ufilt P) a true) = [] /\
    spec_ops (mkPyr (kd P) (depth P) (ufilt P) a true) = [] /\
    forall q, In q (spec_live P) -> below q a = false.
Proof. exact restrict_unreachable. Qed.
Print Assumptions subpyramid_unreachable.

(* ---- non-vacuity: concrete non-trivial instances --------------------------------------- *)

Example relations_nonvacuous :
  is_subtile (mkPos 3 5 6) (mkPos 1 1 1) = Some true /\
  is_subtile (mkPos 3 5 6) (mkPos 1 0 1) = Some false /\
  is_subtile (mkPos 1 0 0) (mkPos 2 0 0) = None /\
  ancestor 2 (mkPos 3 5 6) = mkPos 1 1 1 /\
  below (mkPos 3 5 6) (mkPos 1 1 1) = true.
Proof. vm_compute; repeat split; reflexivity. Qed.

Example generate_pos_nonvacuous :
  generate_pos 1 = [mkPos 1 0 0; mkPos 1 1 0; mkPos 1 0 1; mkPos 1 1 1; root] /\
  length (generate_pos 3) = 85%nat /\ depth2tiles 3 = 85.
Proof. vm_compute; repeat split; reflexivity. Qed.

(* a filtered depth-3 pyramid with an accepted-but-childless tile (2,2,0) and a gap
   tile (3,7,7) whose parent is rejected *)
Example wf_nonvacuous :
  (valid (apex ex_full) && Nat.leb (pn (apex ex_full)) (depth ex_full) &&
   valid (apex ex_sub) && Nat.leb (pn (apex ex_sub)) (depth ex_sub) &&
   valid (apex ex_sub_deep) && Nat.leb (pn (apex ex_sub_deep)) (depth ex_sub_deep) &&
   valid (apex ex_generic_sub) && Nat.leb (pn (apex ex_generic_sub)) (depth ex_generic_sub))%bool
  = true.
Proof. vm_compute; reflexivity. Qed.

Example counts_nonvacuous :
  (count_leaf_tiles ex_full, count_live_tiles ex_full, count_operations ex_full)
    = (Some 3, Some 7, Some 4) /\
  (count_leaf_tiles ex_sub, count_live_tiles ex_sub, count_operations ex_sub)
    = (Some 3, Some 6, Some 3) /\
  (* apex depth = pyramid depth *)
  (count_leaf_tiles ex_sub_deep, count_live_tiles ex_sub_deep, count_operations ex_sub_deep)
    = (Some 1, Some 1, Some 0) /\
  (* analytic shortcut, generic sub-pyramid *)
  has_filter ex_generic_sub = false /\
  (count_leaf_tiles ex_generic_sub, count_live_tiles ex_generic_sub,
   count_operations ex_generic_sub) = (Some 4, Some 5, Some 1) /\
  length (spec_live ex_generic_sub) = 5%nat /\
  (* reducer branch on an unfiltered TOAST sub-pyramid *)
  has_filter ex_toast_sub = true /\
  (count_leaf_tiles ex_toast_sub, count_live_tiles ex_toast_sub,
   count_operations ex_toast_sub) = (Some 4, Some 5, Some 1) /\
  (* depth 0 *)
  (count_leaf_tiles ex_depth0, count_live_tiles ex_depth0, count_operations ex_depth0)
    = (Some 1, Some 1, Some 0).
Proof. vm_compute; repeat split; reflexivity. Qed.

Example visits_nonvacuous :
  visit_serial ex_full = Some [mkPos 3 0 0; mkPos 3 1 1; mkPos 3 2 2] /\
  walk_serial ex_full = Some [mkPos 2 0 0; mkPos 2 1 1; mkPos 1 0 0; root] /\
  walk_serial ex_sub = Some [mkPos 2 0 0; mkPos 2 1 1; mkPos 1 0 0] /\
  spec_live ex_full =
    [mkPos 3 0 0; mkPos 3 1 1; mkPos 2 0 0; mkPos 3 2 2; mkPos 2 1 1; mkPos 1 0 0; root] /\
  (* zero operations: the walk returns before iterating *)
  walk_serial ex_sub_deep = Some [] /\ visit_serial ex_sub_deep = Some [mkPos 3 1 1].
Proof. vm_compute; repeat split; reflexivity. Qed.

Example restriction_nonvacuous :
  spec_live ex_sub = filter (fun q => below q (mkPos 1 0 0)) (spec_live ex_full) /\
  length (spec_live ex_sub) = 6%nat /\
  (* filter disjoint from the sub-pyramid: apex reachable but rejected *)
  apex_reachable ex_sub_disjoint = true /\ spec_live ex_sub_disjoint = [] /\
  filter (fun q => below q (mkPos 1 1 1)) (spec_live ex_full) = [] /\
  count_live_tiles ex_sub_disjoint = Some 0 /\ walk_serial ex_sub_disjoint = Some [] /\
  (* accepted apex below a rejected ancestor *)
  apex_reachable ex_sub_gap = false /\ in_filter ex_sub_gap (apex ex_sub_gap) = true /\
  count_leaf_tiles ex_sub_gap = Some 0 /\ visit_serial ex_sub_gap = Some [].
Proof. vm_compute; repeat split; reflexivity. Qed.

(* ======================================================================================
   Tie by TRANSLATION (besides the correspondence runs): Generated/PyramidSrc.v is produced
   from toasty/pyramid.py by harness/py2coq.py on every build, and the definitions it contains
   ([src_pos_parent], [src_pos_children], [src_is_subtile], [src_depth2tiles],
   [src_tiles_at_depth], [src_next_highest_power_of_2]: the Python functions statement by
   statement, integers as Z, ValueError as None, loops and recursion on explicit fuel) agree
   with the hand-written position algebra used by every theorem above, on every input.
   Proofs in Proofs/PyramidSrcP.v. *)
From Coq Require Import ZArith.
From Toasty Require Import Model.SrcPrelude Model.Study Generated.PyramidSrc Proofs.PyramidSrcP.

Theorem src_pos_parent_is_model :
  forall p, src_pos_parent (to_spos p) =
            option_map (fun r => (to_spos (fst (fst r)), Z.of_N (snd (fst r)), Z.of_N (snd r))) (parent p).
Proof. exact PyramidSrcP.src_pos_parent_eq. Qed.
Print Assumptions src_pos_parent_is_model.

Theorem src_pos_children_is_model :
  forall p, src_pos_children (to_spos p) = Some (map to_spos (children p)).
Proof. exact PyramidSrcP.src_pos_children_eq. Qed.
Print Assumptions src_pos_children_is_model.

Theorem src_is_subtile_is_model :
  forall a b fuel, (pn a - pn b < fuel)%nat ->
  src_is_subtile fuel (to_spos a) (to_spos b) = is_subtile a b.
Proof. exact PyramidSrcP.src_is_subtile_eq. Qed.
Print Assumptions src_is_subtile_is_model.

Theorem src_counts_are_model :
  forall d, src_depth2tiles (Z.of_nat d) = Some (Z.of_N (depth2tiles d)) /\
            src_tiles_at_depth (Z.of_nat d) = Some (Z.of_N (tiles_at_depth d)).
Proof. intros d. split; [apply PyramidSrcP.src_depth2tiles_eq|apply PyramidSrcP.src_tiles_at_depth_eq]. Qed.
Print Assumptions src_counts_are_model.

Theorem src_next_highest_power_of_2_is_model :
  forall n r, next_pow2 n = Some r ->
  src_next_highest_power_of_2 (S (Z.to_nat (Z.log2_up n))) n = Some r.
Proof. exact PyramidSrcP.src_next_highest_power_of_2_eq. Qed.
Print Assumptions src_next_highest_power_of_2_is_model.

(* the translated functions run: Pos(3, 5, 2) *)
Example src_functions_run :
  src_pos_parent (mkSP 3 5 2) = Some (mkSP 2 2 1, 1%Z, 0%Z) /\
  src_pos_children (mkSP 1 1 0) = Some [mkSP 2 2 0; mkSP 2 3 0; mkSP 2 2 1; mkSP 2 3 1] /\
  src_is_subtile 5 (mkSP 3 5 2) (mkSP 1 1 0) = Some true /\
  src_is_subtile 5 (mkSP 1 1 0) (mkSP 3 5 2) = None /\
  src_next_highest_power_of_2 10 700 = Some 1024%Z /\ src_depth2tiles 2 = Some 21%Z.
Proof. vm_compute. repeat split; reflexivity. Qed.

(* the generators _postfix_pos / generate_pos, translated as functions returning the list of the
   items they yield, in order: the translated enumeration IS [generate_pos] of the model, which
   the C13 theorems above speak about ([fuel] only has to exceed the recursion depth). *)

Theorem src_postfix_pos_is_model :
  forall (k fuel : nat) (p : pos) (d : nat),
  k = (S d - pn p)%nat -> (k < fuel)%nat ->
  src__postfix_pos fuel (to_spos p) (Z.of_nat d) = Some (map to_spos (postfix k p)).
Proof. exact PyramidSrcP.src_postfix_pos_eq. Qed.
Print Assumptions src_postfix_pos_is_model.

Theorem src_generate_pos_is_model :
  forall d fuel : nat, (S d < fuel)%nat ->
  src_generate_pos fuel (Z.of_nat d) = Some (map to_spos (generate_pos d)).
Proof. exact PyramidSrcP.src_generate_pos_eq. Qed.
Print Assumptions src_generate_pos_is_model.

Example src_generate_pos_runs :
  src_generate_pos 5 1 = Some [mkSP 1 0 0; mkSP 1 1 0; mkSP 1 0 1; mkSP 1 1 1; mkSP 0 0 0] /\
  option_map (@length _) (src_generate_pos 9 3) = Some 85%nat.
Proof. vm_compute. split; reflexivity. Qed.
