(* C08 — Study tiling is a lossless, centred partition of the image into
   256-pixel tiles.  Statements only; proofs live in Proofs/StudyP.v.

   [constructed t] : t is StudyTiling(w, h) or a compute_for_subimage of one.
   [inv] : the tile format is bottom-up (FITS); [m] : the buffer mode has a mask
   representation (RGBA / float), i.e. fully masked tiles are not written. *)
From Coq Require Import ZArith List Bool.
From Toasty Require Import Model.Study Proofs.StudyP.
Import ListNotations.
Local Open Scope Z_scope.

(* the constructor accepts exactly the positive sizes *)
Theorem constructor_total :
  forall w h, (1 <= w /\ 1 <= h) <-> exists t, study_tiling w h = Some t.
Proof. exact study_tiling_total. Qed.
Print Assumptions constructor_total.

(* smallest power-of-two square of at least 256 pixels that contains the image *)
Theorem padded_square_minimal :
  forall w h t, study_tiling w h = Some t ->
  t_width t = w /\ t_height t = h /\ 0 <= t_levels t /\
  t_p2n t = 2 ^ (8 + t_levels t) /\ t_tile_size t = 2 ^ t_levels t /\
  t_p2n t = 256 * t_tile_size t /\
  256 <= t_p2n t /\ Z.max w h <= t_p2n t /\
  (forall j, 0 <= j -> 256 <= 2 ^ j -> Z.max w h <= 2 ^ j -> t_p2n t <= 2 ^ j) /\
  (256 < t_p2n t -> t_p2n t / 2 < Z.max w h).
Proof. exact p2n_minimal. Qed.
Print Assumptions padded_square_minimal.

(* the image is centred, offsets rounded down *)
Theorem offsets_centred :
  forall w h t, study_tiling w h = Some t ->
  t_gx0 t = (t_p2n t - w) / 2 /\ t_gy0 t = (t_p2n t - h) / 2 /\
  0 <= t_gx0 t /\ 0 <= t_gy0 t /\
  t_gx0 t + w <= t_p2n t /\ t_gy0 t + h <= t_p2n t /\
  (let right := t_p2n t - (t_gx0 t + w) in right = t_gx0 t \/ right = t_gx0 t + 1) /\
  (let bottom := t_p2n t - (t_gy0 t + h) in bottom = t_gy0 t \/ bottom = t_gy0 t + 1).
Proof. exact StudyP.offsets_centred. Qed.
Print Assumptions offsets_centred.

(* the number of tuples equals the reported count *)
Theorem tuple_count :
  forall t, constructed t ->
  Z.of_nat (length (generate_populated_positions t)) = count_populated_positions t.
Proof. exact c08_count. Qed.
Print Assumptions tuple_count.

(* the tuples come in row-major order over the populated tile range *)
Theorem tuple_order :
  forall t i, wf t -> 0 <= i < count_populated_positions t ->
  nth_error (generate_populated_positions t) (Z.to_nat i) = Some (generate_nth t i).
Proof. exact generate_nth_spec. Qed.
Print Assumptions tuple_order.

(* rectangles lie inside the image and inside their (existing) tile *)
Theorem rectangles_inside :
  forall t u, constructed t -> In u (generate_populated_positions t) ->
  u_n u = t_levels t /\ 0 <= u_x u < t_tile_size t /\ 0 <= u_y u < t_tile_size t /\
  0 <= u_ix u /\ u_ix u + u_w u <= t_width t /\ 0 <= u_iy u /\ u_iy u + u_h u <= t_height t /\
  0 <= u_tx u /\ u_tx u + u_w u <= 256 /\ 0 <= u_ty u /\ u_ty u + u_h u <= 256 /\
  0 <= u_w u /\ 0 <= u_h u /\ (1 <= t_width t -> 1 <= u_w u) /\ (1 <= t_height t -> 1 <= u_h u).
Proof. exact c08_tuple_bounds. Qed.
Print Assumptions rectangles_inside.

(* cover + disjoint: every image pixel lies in the rectangle of exactly one tuple *)
Theorem every_pixel_exactly_once :
  forall t x y, constructed t -> 0 <= x < t_width t -> 0 <= y < t_height t ->
  length (filter (fun u => covers u x y) (generate_populated_positions t)) = 1%nat.
Proof. exact c08_exactly_once. Qed.
Print Assumptions every_pixel_exactly_once.

Theorem rectangles_pairwise_disjoint :
  forall t i j u v x y,
  nth_error (generate_populated_positions t) i = Some u ->
  nth_error (generate_populated_positions t) j = Some v ->
  covers u x y = true -> covers v x y = true -> i = j.
Proof. exact tuples_pairwise_disjoint. Qed.
Print Assumptions rectangles_pairwise_disjoint.

(* no tile is yielded twice *)
Theorem one_tuple_per_tile :
  forall t u v, In u (generate_populated_positions t) -> In v (generate_populated_positions t) ->
  u_x u = u_x v -> u_y u = u_y v -> u = v.
Proof. exact generate_pos_unique. Qed.
Print Assumptions one_tuple_per_tile.

(* covered pixels are image pixels; their slot is image_to_tile's and lies in the tile *)
Theorem slots_agree_with_image_to_tile :
  forall t u x y, constructed t -> In u (generate_populated_positions t) -> covers u x y = true ->
  0 <= x < t_width t /\ 0 <= y < t_height t /\
  image_to_tile t x y = slot_of u x y /\
  0 <= u_tx u + (x - u_ix u) < 256 /\ 0 <= u_ty u + (y - u_iy u) < 256.
Proof. exact c08_covered_pixels. Qed.
Print Assumptions slots_agree_with_image_to_tile.

(* distinct pixels get distinct (tile, in-tile pixel) slots *)
Theorem slots_injective :
  forall t x y x' y', image_to_tile t x y = image_to_tile t x' y' -> x = x' /\ y = y'.
Proof. exact image_to_tile_inj. Qed.
Print Assumptions slots_injective.

(* the -1 -> None replacement of study.py:349-350 is needed: a slice end of -1 selects nothing *)
Theorem slice_end_minus_one_selects_nothing :
  forall len a, 0 <= a < len -> r_count (slice_run (mkSlice (Some a) (Some (-1)) (-1)) len) = 0.
Proof. exact slice_stop_minus_one_selects_nothing. Qed.
Print Assumptions slice_end_minus_one_selects_nothing.

(* the fills never hit numpy's shape-mismatch error; one fill per tuple *)
Theorem fills_well_shaped :
  forall t inv, wf t ->
  tile_image_placements t inv = Some (map (placement_of inv) (generate_populated_positions t)).
Proof. exact tile_image_placements_ok. Qed.
Print Assumptions fills_well_shaped.

(* bottom-up tiles hold the same pixels with the rows reversed *)
Theorem bottom_up_rows_reversed :
  forall u r c,
  placement_src (placement_of true u) r c = placement_src (placement_of false u) (255 - r) c.
Proof. exact placement_src_storage_flip. Qed.
Print Assumptions bottom_up_rows_reversed.

(* reassembly: the written deepest-level tiles in display orientation are the
   image at (gx0, gy0), undefined everywhere else — both parities, maskable or not *)
Theorem reassembly :
  forall (V : Type) t (m inv : bool) (img : @pixels V), constructed t ->
  exists s, tile_image m t inv img = Some s /\
            forall R C, mosaic_display t inv s R C = expected_mosaic t img R C.
Proof. exact @c08_reassembly. Qed.
Print Assumptions reassembly.

(* which tile files exist afterwards *)
Theorem tile_files_written :
  forall (V : Type) t (m inv : bool) (img : @pixels V) s n x y,
  constructed t -> tile_image m t inv img = Some s ->
  (s n x y <> None <->
   exists u, In u (generate_populated_positions t) /\ n = u_n u /\ x = u_x u /\ y = u_y u /\
             (m && completely_masked (fill_buffer img (placement_of inv u))) = false).
Proof. exact @c08_tile_files. Qed.
Print Assumptions tile_files_written.

(* compute_for_subimage succeeds exactly on rectangles inside the image *)
Theorem subimage_guards :
  forall w h t ix iy sw sh, study_tiling w h = Some t ->
  (legal_subimage t ix iy sw sh <-> exists s, compute_for_subimage t ix iy sw sh = Some s).
Proof. exact subimage_total. Qed.
Print Assumptions subimage_guards.

(* the same holds for any sub-image placed inside a larger tiling *)
Theorem subimage_consistent :
  forall (V : Type) w h t ix iy sw sh s (m inv : bool) (img : @pixels V),
  study_tiling w h = Some t -> compute_for_subimage t ix iy sw sh = Some s ->
  t_p2n s = t_p2n t /\ t_levels s = t_levels t /\ t_tile_size s = t_tile_size t /\
  (forall x y, image_to_tile s x y = image_to_tile t (ix + x) (iy + y)) /\
  exists st, tile_image m s inv (fun y x => img (iy + y) (ix + x)) = Some st /\
    forall R C, mosaic_display s inv st R C =
                if in_image s R C then expected_mosaic t img R C else None.
Proof. exact @c08_subimage. Qed.
Print Assumptions subimage_consistent.

(* hypotheses are satisfiable; concrete values at the 512/513 boundary *)
Example constructed_nonvacuous :
  study_tiling 513 255 = Some (mkTiling 513 255 1024 4 2 255 384).
Proof. vm_compute. reflexivity. Qed.

Example subimage_nonvacuous :
  compute_for_subimage (mkTiling 513 255 1024 4 2 255 384) 500 200 13 55
  = Some (mkTiling 13 55 1024 4 2 755 584).
Proof. vm_compute. reflexivity. Qed.

Example tuples_nonvacuous :
  map (fun u => [u_x u; u_y u; u_w u; u_h u; u_ix u; u_iy u; u_tx u; u_ty u])
      (generate_populated_positions (mkTiling 513 255 1024 4 2 255 384))
  = [[0; 1; 1; 128; 0; 0; 255; 128]; [1; 1; 256; 128; 1; 0; 0; 128]; [2; 1; 256; 128; 257; 0; 0; 128];
     [0; 2; 1; 127; 0; 128; 255; 0]; [1; 2; 256; 127; 1; 128; 0; 0]; [2; 2; 256; 127; 257; 128; 0; 0]].
Proof. vm_compute. reflexivity. Qed.

Example bottom_up_fill_nonvacuous :
  option_map (map placement_flat) (tile_image_placements (mkTiling 13 55 1024 4 2 755 584) true)
  = Some [[2; 2; 2; 0; 55; 0; 13; 183; -1; 55; 243; 13]].
Proof. vm_compute. reflexivity. Qed.

(* scope note: compute_for_subimage re-derives the square from self._width /
   self._height (study.py:125), so calling it on a tiling that is itself a
   sub-tiling forgets the parent's square.  The property (and [constructed])
   quantify over sub-images of a tiling built by the constructor only. *)
Example nested_subimage_outside_scope :
  match study_tiling 2048 2048 with
  | Some t => match compute_for_subimage t 0 0 100 100 with
              | Some s => option_map t_p2n (compute_for_subimage s 10 10 50 50)
              | None => None
              end
  | None => None
  end = Some 256.
Proof. vm_compute. reflexivity. Qed.

(* ------------------------------------------------------------------ *)
(* Tie by TRANSLATION (besides the correspondence runs): Generated/StudySrc.v is produced by
   harness/py2coq.py from toasty/study.py in /repo's working tree on every build -- class
   StudyTiling's constructor, compute_for_subimage, n_deepest_layer_tiles, image_to_tile,
   count_populated_positions and the generator generate_populated_positions, statement by
   statement -- and the theorems below state that those translated definitions ARE the model
   functions the C08 theorems above speak about, for every input ([fuel] only has to exceed the
   number of doublings of next_highest_power_of_2).  Proofs in Proofs/StudySrcP.v. *)
From Toasty Require Import Model.SrcPrelude Generated.StudySrc Proofs.StudySrcP.

Theorem src_constructor_is_model :
  forall (w h : Z) (fuel : nat), (Z.to_nat (Z.log2_up (Z.max w h)) < fuel)%nat ->
  src_StudyTiling_init fuel w h = option_map to_st (study_tiling w h).
Proof. exact StudySrcP.src_init_eq. Qed.
Print Assumptions src_constructor_is_model.

Theorem src_compute_for_subimage_is_model :
  forall (t : tiling) (ix iy sw sh : Z) (fuel : nat),
  (Z.to_nat (Z.log2_up (Z.max (t_width t) (t_height t))) < fuel)%nat ->
  src_StudyTiling_compute_for_subimage fuel (to_st t) ix iy sw sh =
  option_map to_st (compute_for_subimage t ix iy sw sh).
Proof. exact StudySrcP.src_compute_for_subimage_eq. Qed.
Print Assumptions src_compute_for_subimage_is_model.

Theorem src_image_to_tile_is_model :
  forall (t : tiling) (x y : Z),
  src_StudyTiling_image_to_tile (to_st t) x y = Some (image_to_tile t x y).
Proof. exact StudySrcP.src_image_to_tile_eq. Qed.
Print Assumptions src_image_to_tile_is_model.

Theorem src_counts_are_model :
  forall t : tiling,
  src_StudyTiling_count_populated_positions (to_st t) = Some (count_populated_positions t) /\
  src_StudyTiling_n_deepest_layer_tiles (to_st t) = Some (n_deepest_layer_tiles t).
Proof. intros t. split; [apply StudySrcP.src_count_populated_eq|apply StudySrcP.src_n_deepest_eq]. Qed.
Print Assumptions src_counts_are_model.

Theorem src_generate_populated_positions_is_model :
  forall t : tiling,
  src_StudyTiling_generate_populated_positions (to_st t) =
  Some (map to_stup (generate_populated_positions t)).
Proof. exact StudySrcP.src_generate_populated_eq. Qed.
Print Assumptions src_generate_populated_positions_is_model.

(* the translated definitions run: the tiling of a 513 x 255 image, a sub-image of it, and the
   first generated tuple *)
Example src_study_runs :
  src_StudyTiling_init 20 513 255 = Some (mkST 513 255 1024 4 2 255 384) /\
  src_StudyTiling_init 20 0 255 = None /\
  src_StudyTiling_compute_for_subimage 20 (mkST 513 255 1024 4 2 255 384) 500 200 13 55
    = Some (mkST 13 55 1024 4 2 755 584) /\
  src_StudyTiling_compute_for_subimage 20 (mkST 513 255 1024 4 2 255 384) 500 200 14 55 = None /\
  src_StudyTiling_image_to_tile (mkST 513 255 1024 4 2 255 384) 1 (-1) = Some (1, 1, 0, 127) /\
  option_map (@length _) (src_StudyTiling_generate_populated_positions (mkST 513 255 1024 4 2 255 384)) = Some 6%nat /\
  option_map (hd_error (A:=_)) (src_StudyTiling_generate_populated_positions (mkST 513 255 1024 4 2 255 384))
    = Some (Some (mkSP 2 0 1, 1, 128, 0, 0, 255, 128)).
Proof. vm_compute. repeat split. Qed.

(* ------------------------------------------------------------------ *)
(* How an image reaches StudyTiling: Builder.prepare_study_tiling, execute_study_tiling and
   tile_base_as_study (toasty/builder.py), tied by TRANSLATION (Generated/BuilderSrc.v, harness/py2coq.py
   MethodTranslator, regenerated from /repo's working tree on every build): the tiling is built from
   (image.width, image.height) in that order -- the arguments src_StudyTiling_init above takes --, it
   is applied to the builder's own image set and it is the tiling returned; tiling writes into the
   builder's own pyramid with the caller's keyword arguments.  Proofs in Proofs/BuilderSrcP.v. *)
From Coq Require Import String.
From Toasty Require Import Model.BuilderScript Generated.BuilderSrc Proofs.BuilderSrcP.
Local Open Scope string_scope.
Local Open Scope list_scope.

Theorem src_builder_study_methods_are_model :
  src_Builder_prepare_study_tiling = TDone builder_prepare_study_tiling_model /\
  src_Builder_execute_study_tiling = TDone builder_execute_study_tiling_model /\
  src_Builder_tile_base_as_study = TDone builder_tile_base_as_study_model.
Proof. destruct src_builder_methods_eq as (_ & _ & H1 & H2 & H3). repeat split; assumption. Qed.
Print Assumptions src_builder_study_methods_are_model.

Theorem builder_study_tiling_plumbing :
  builder_prepare_study_tiling_model =
    [ SMethod (SNewP "StudyTiling" [SAttr "width" (SName "image"); SAttr "height" (SName "image")] [])
              "apply_to_imageset" [SAttr "imgset" (SName "self")] [];
      SCall "return" [SNewP "StudyTiling" [SAttr "width" (SName "image"); SAttr "height" (SName "image")] []] [] ] /\
  builder_tile_base_as_study_model =
    [ SMethod (SName "self") "_check_no_wcs_yet" [] [];
      SCall "tile_study_image" [SName "image"; SAttr "pio" (SName "self")] [("**", SName "kwargs")];
      SMethod (SNewP "tile_study_image" [SName "image"; SAttr "pio" (SName "self")] [("**", SName "kwargs")])
              "apply_to_imageset" [SAttr "imgset" (SName "self")] [];
      SCall "return" [SName "self"] [] ].
Proof. split; [exact prepare_study_tiling_plumbing | exact tile_base_as_study_plumbing]. Qed.
Print Assumptions builder_study_tiling_plumbing.

(* ------------------------------------------------------------------ *)
(* Which image is tiled: ImageLoader.create_from_args and the crop of load_pil (Model/LoaderArgs.v;
   toasty/image.py:439-477, 499-511).  An accepted --crop is (top, right, bottom, left), the one- and
   two-value forms symmetric (V,H: V rows off top and bottom, H columns off each side); anything
   else is rejected; the options go into the new loader and the class defaults stay as they were
   (every tile a later cascade reads is loaded by a plain ImageLoader()).  The real classmethod is
   compared with [create_from_args] by harness/corr_C08.py (loader_args_part), class attributes
   before and after included.  Proofs in Proofs/LoaderArgsP.v. *)
From Coq Require Import ZArith.
From Toasty Require Import Model.LoaderArgs Proofs.LoaderArgsP.
Local Open Scope Z_scope.

Theorem crop_option_is_top_right_bottom_left :
  forall l c : list Z, expand_crop l = Some c ->
  List.length c = 4%nat /\ Forall (fun x => 0 <= x) c /\
  (forall v, l = [v] -> c = [v; v; v; v]) /\
  (forall v h, l = [v; h] -> c = [v; h; v; h]) /\
  (List.length l = 4%nat -> c = l).
Proof. exact expand_crop_shape. Qed.
Print Assumptions crop_option_is_top_right_bottom_left.

Theorem crop_option_rejects_the_rest :
  forall l : list Z,
  (exists x, In x l /\ x < 0) \/ (List.length l <> 1 /\ List.length l <> 2 /\ List.length l <> 4)%nat -> expand_crop l = None.
Proof. exact expand_crop_rejects. Qed.
Print Assumptions crop_option_rejects_the_rest.

Theorem crop_two_values_region :
  forall (w h v hh : Z) (c : list Z), expand_crop [v; hh] = Some c ->
  crop_box w h c = (hh, v, w - hh, h - v) /\ cropped_size w h c = (w - 2 * hh, h - 2 * v).
Proof. exact crop_two_values. Qed.
Print Assumptions crop_two_values_region.

Theorem loader_options_do_not_touch_the_class :
  forall (cls : loader_opts) b2t csp psd crop new cls',
  create_from_args cls b2t csp psd crop = Some (new, cls') ->
  cls' = cls /\ lo_b2t new = b2t /\ lo_csp new = csp /\ lo_psd new = psd /\
  (crop = None -> lo_crop new = lo_crop cls) /\
  (forall l, crop = Some l -> lo_crop new = expand_crop l).
Proof. exact create_from_args_leaves_class. Qed.
Print Assumptions loader_options_do_not_touch_the_class.

Example crop_nonvacuous :
  expand_crop [3; 20] = Some [3; 20; 3; 20] /\ cropped_size 300 280 [3; 20; 3; 20] = (260, 274) /\
  expand_crop [1; 2; 3] = None /\ expand_crop [-1] = None.
Proof. vm_compute. repeat split. Qed.
