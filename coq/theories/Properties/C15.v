(* C15 — Undefined pixels stay undefined: mask semantics and tile persistence.
   Statements only; model in Model/Mask.v, proofs in Proofs/MaskP.v.

   Vocabulary (Model/Mask.v): [selects len s p i] — index i is the p-th index the
   Python slice s selects on an axis of length len (CPython normalisation, any
   non-zero step, None/negative/out-of-range bounds); [in_rect buf by bx r c] —
   buffer pixel (r,c) is addressed; [src_valid m s] — update's own validity test
   per source mode; [undef_px] — alpha 0 / NaN (any channel for F16x3) / zero;
   [nan_all] — every channel NaN (what is_completely_masked tests for F16x3). *)
From Coq Require Import List ZArith QArith Bool.
From Toasty Require Import Model.Quadtree Model.Mask Proofs.MaskP.
Import ListNotations.
Local Open Scope Z_scope.

(* --- slices ------------------------------------------------------------- *)

(* every selected index is inside the axis, no index is selected twice, and the
   p-th selected index is unique *)
Theorem slice_selects_sound :
  forall len s p p' i i', 0 <= len ->
    selects len s p i ->
    0 <= i < len /\ (selects len s p' i -> p = p') /\ (selects len s p i' -> i = i').
Proof. exact slice_selects_sound_lemma. Qed.
Print Assumptions slice_selects_sound.

(* the forms used by the callers: a[lo:hi], a[:k], a[k:], a[:], a[::-1], a[hi:lo:-1] *)
Theorem slice_forms :
  forall len, 0 <= len ->
    (forall a b, 0 <= a <= b -> b <= len ->
       slice_view len (mkSlice (Some a) (Some b) None) = Some (mkView a 1 (b - a))) /\
    (forall k, 0 <= k <= len -> slice_view len (mkSlice None (Some k) None) = Some (mkView 0 1 k)) /\
    (forall k, 0 <= k <= len -> slice_view len (mkSlice (Some k) None None) = Some (mkView k 1 (len - k))) /\
    slice_view len full_slice = Some (mkView 0 1 len) /\
    slice_view len (mkSlice None None (Some (-1))) = Some (mkView (len - 1) (-1) len) /\
    (forall hi lo, 0 <= lo <= hi -> hi < len ->
       slice_view len (mkSlice (Some hi) (Some lo) (Some (-1))) = Some (mkView hi (-1) (hi - lo))).
Proof. exact slice_forms_lemma. Qed.
Print Assumptions slice_forms.

(* --- fill ---------------------------------------------------------------- *)

(* Filling defines exactly the addressed rectangle (with the source values, RGB
   gaining alpha 255) and marks everything else undefined. *)
Theorem fill_spec :
  forall src buf iy ix by_ bx out,
    0 <= ih src -> 0 <= iw src -> 0 <= ih buf -> 0 <= iw buf ->
    fill_into src buf iy ix by_ bx = Some out ->
    ih out = ih buf /\ iw out = iw buf /\ imode out = maskable (imode src) /\
    (forall p q r c sr sc,
        selects (ih buf) by_ p r -> selects (iw buf) bx q c ->
        selects (ih src) iy p sr -> selects (iw src) ix q sc ->
        ipx out r c = fill_px (imode src) (ipx src sr sc)) /\
    (forall r c, ~ in_rect buf by_ bx r c -> ipx out r c = masked_px (imode src)).
Proof. exact fill_spec_lemma. Qed.
Print Assumptions fill_spec.

(* the fill value is undefined in every sense the code uses, a copied pixel is
   defined exactly when its source pixel is *)
Theorem fill_values :
  (forall m, undef_px (masked_px m) = true /\ px_ok (maskable m) (masked_px m) = true /\
             (nan_all (masked_px m) = true \/ alpha0 (masked_px m) = true \/ is_int_mode m = true)) /\
  (forall m s, px_ok m s = true ->
               undef_px (fill_px m s) = undef_px s /\ px_ok (maskable m) (fill_px m s) = true).
Proof. exact fill_values_lemma. Qed.
Print Assumptions fill_values.

(* fill succeeds whenever the indexers are valid slices selecting rectangles of
   equal size and the buffer is the maskable buffer of the source's mode; every
   addressed buffer pixel then has its source pixel *)
Theorem fill_defined :
  forall src buf iy ix by_ bx vy vx wy wx,
    slice_view (ih src) iy = Some vy -> slice_view (iw src) ix = Some vx ->
    slice_view (ih buf) by_ = Some wy -> slice_view (iw buf) bx = Some wx ->
    v_count vy = v_count wy -> v_count vx = v_count wx ->
    imode buf = maskable (imode src) ->
    (exists out, fill_into src buf iy ix by_ bx = Some out) /\
    (exists out, update_into src buf iy ix by_ bx = Some out) /\
    (forall p q r c, selects (ih buf) by_ p r -> selects (iw buf) bx q c ->
                     exists sr sc, selects (ih src) iy p sr /\ selects (iw src) ix q sc).
Proof. exact fill_defined_lemma. Qed.
Print Assumptions fill_defined.

(* --- update -------------------------------------------------------------- *)

(* Updating never changes a pixel outside the addressed rectangle (nor shape or mode). *)
Theorem update_frame :
  forall src buf iy ix by_ bx out,
    0 <= ih buf -> 0 <= iw buf ->
    update_into src buf iy ix by_ bx = Some out ->
    ih out = ih buf /\ iw out = iw buf /\ imode out = imode buf /\
    forall r c, ~ in_rect buf by_ bx r c -> ipx out r c = ipx buf r c.
Proof. exact update_frame_full. Qed.
Print Assumptions update_frame.

(* ... nor one whose source value is undefined by the source mode's own test
   (alpha 0; NaN; any channel NaN for F16x3; zero for integers, where the old
   value must be non-negative as the property says). *)
Theorem update_undefined_src :
  forall src buf out iy ix by_ bx,
    0 <= ih buf -> 0 <= iw buf ->
    update_into src buf iy ix by_ bx = Some out ->
    forall p q r c sr sc,
      selects (ih buf) by_ p r -> selects (iw buf) bx q c ->
      selects (ih src) iy p sr -> selects (iw src) ix q sc ->
      src_valid (imode src) (ipx src sr sc) = false -> nonneg_px (ipx buf r c) ->
      ipx out r c = ipx buf r c.
Proof. exact update_undefined_src_lemma. Qed.
Print Assumptions update_undefined_src.

(* Every addressed pixel that was undefined gets the source value (and stays
   undefined when the source is undefined too). *)
Theorem update_fills_undefined :
  forall src buf out iy ix by_ bx,
    0 <= ih buf -> 0 <= iw buf ->
    update_into src buf iy ix by_ bx = Some out ->
    forall p q r c sr sc,
      selects (ih buf) by_ p r -> selects (iw buf) bx q c ->
      selects (ih src) iy p sr -> selects (iw src) ix q sc ->
      img_ok src -> img_ok buf ->
      undef_px (ipx buf r c) = true -> nonneg_px (ipx src sr sc) ->
      (src_valid (imode src) (ipx src sr sc) = true -> ipx out r c = fill_px (imode src) (ipx src sr sc)) /\
      (src_valid (imode src) (ipx src sr sc) = false -> undef_px (ipx out r c) = true).
Proof. exact update_fills_undefined_lemma. Qed.
Print Assumptions update_fills_undefined.

(* Colour and floating-point data: a defined source pixel always replaces the old value. *)
Theorem update_defined_wins :
  forall src buf out iy ix by_ bx,
    0 <= ih buf -> 0 <= iw buf ->
    update_into src buf iy ix by_ bx = Some out ->
    forall p q r c sr sc,
      selects (ih buf) by_ p r -> selects (iw buf) bx q c ->
      selects (ih src) iy p sr -> selects (iw src) ix q sc ->
      is_int_mode (imode src) = false -> src_valid (imode src) (ipx src sr sc) = true ->
      ipx out r c = fill_px (imode src) (ipx src sr sc).
Proof. exact update_defined_wins_lemma. Qed.
Print Assumptions update_defined_wins.

(* Integer data: the larger of the two values is kept. *)
Theorem update_int_max :
  forall src buf out iy ix by_ bx,
    0 <= ih buf -> 0 <= iw buf ->
    update_into src buf iy ix by_ bx = Some out ->
    forall p q r c sr sc,
      selects (ih buf) by_ p r -> selects (iw buf) bx q c ->
      selects (ih src) iy p sr -> selects (iw src) ix q sc ->
      forall a b, is_int_mode (imode src) = true -> ipx src sr sc = PxI a -> ipx buf r c = PxI b ->
                  ipx out r c = PxI (Z.max b a).
Proof. exact update_int_max_lemma. Qed.
Print Assumptions update_int_max.

(* The repaired integer rule of fixes/C02-1.patch (zero tested explicitly instead of
   np.maximum) agrees with the coded rule on non-negative data, so the integer
   clauses above are unaffected by that repair; on signed data it keeps a non-zero
   value against a zero on either side. *)
Theorem update_fixed_agrees :
  (forall m s o, nonneg_px s -> nonneg_px o -> upd_px_fixed m s o = upd_px m s o) /\
  (forall m a b, is_int_mode m = true ->
                 upd_px_fixed m (PxI a) (PxI 0) = PxI a /\ upd_px_fixed m (PxI 0) (PxI b) = PxI b).
Proof. exact update_fixed_agrees_lemma. Qed.
Print Assumptions update_fixed_agrees.

(* The code in /repo now carries that repaired rule ([update_into_fixed]; fix a186b8b), and the
   correspondence check compares the implementation with it alone.  On non-negative data -- the
   data the statement speaks about -- a whole update under it gives exactly the image the
   np.maximum rule gives (same definedness, shape, mode and pixels), so every update theorem
   above holds of the code as it is. *)
Theorem update_in_code_agrees :
  forall src buf iy ix by_ bx,
    (forall r c, nonneg_px (ipx src r c)) -> (forall r c, nonneg_px (ipx buf r c)) ->
    match update_into_fixed src buf iy ix by_ bx, update_into src buf iy ix by_ bx with
    | Some o', Some o => ih o' = ih o /\ iw o' = iw o /\ imode o' = imode o /\
                         forall r c, ipx o' r c = ipx o r c
    | None, None => True
    | _, _ => False
    end.
Proof. exact update_fixed_agrees_img. Qed.
Print Assumptions update_in_code_agrees.

(* Its integer rule for all data, signed included: a zero buffer pixel takes the source value, a
   zero source value leaves the buffer alone, two non-zero values keep the larger. *)
Theorem update_int_in_code :
  forall src buf out iy ix by_ bx,
    0 <= ih buf -> 0 <= iw buf ->
    update_into_fixed src buf iy ix by_ bx = Some out ->
    forall p q r c sr sc,
      selects (ih buf) by_ p r -> selects (iw buf) bx q c ->
      selects (ih src) iy p sr -> selects (iw src) ix q sc ->
      forall a b, is_int_mode (imode src) = true -> ipx src sr sc = PxI a -> ipx buf r c = PxI b ->
                  ipx out r c = PxI (if (b =? 0) || (negb (a =? 0) && (b <? a)) then a else b).
Proof. exact update_int_fixed_lemma. Qed.
Print Assumptions update_int_in_code.

(* update's validity test is "defined" on well-typed pixels (for F16x3: no channel NaN) *)
Theorem update_validity_is_definedness :
  forall m s, px_ok m s = true -> src_valid m s = negb (undef_px s).
Proof. exact src_valid_defined. Qed.
Print Assumptions update_validity_is_definedness.

(* fill and update keep the buffer a well-typed maskable buffer *)
Theorem buffers_stay_well_typed :
  forall src buf iy ix by_ bx out,
    img_ok src ->
    (fill_into src buf iy ix by_ bx = Some out -> img_ok out) /\
    (img_ok buf -> update_into src buf iy ix by_ bx = Some out -> img_ok out).
Proof. exact buffers_stay_well_typed_lemma. Qed.
Print Assumptions buffers_stay_well_typed.

(* --- clear / is_completely_masked ---------------------------------------- *)

Theorem clear_spec :
  forall im,
    ih (clear im) = ih im /\ iw (clear im) = iw im /\ imode (clear im) = imode im /\
    (forall r c, ipx (clear im) r c = clear_px (imode im)) /\
    img_ok (clear im) /\
    (imode im <> RGB -> forall r c, undef_px (ipx (clear im) r c) = true).
Proof. exact clear_spec_lemma. Qed.
Print Assumptions clear_spec.

(* the code's own "completely masked": RGBA all alpha 0, F32/F64 all NaN, F16x3
   all channels of all pixels NaN; never for RGB and the integer modes *)
Theorem completely_masked_spec :
  forall im, img_ok im ->
    (is_completely_masked im = true <->
     (imode im = RGBA \/ imode im = F32 \/ imode im = F64 \/ imode im = F16x3) /\
     forall r c, 0 <= r < ih im -> 0 <= c < iw im ->
                 match imode im with
                 | F16x3 => nan_all (ipx im r c) = true
                 | _ => undef_px (ipx im r c) = true
                 end).
Proof. exact completely_masked_spec_lemma. Qed.
Print Assumptions completely_masked_spec.

Theorem rgb_and_integers_never_masked :
  forall im, imode im = RGB \/ is_int_mode (imode im) = true -> is_completely_masked im = false.
Proof. exact never_masked_lemma. Qed.
Print Assumptions rgb_and_integers_never_masked.

(* --- persistence ---------------------------------------------------------- *)

(* After any sequence of writes and reads, from any prior state, the file of a
   position exists iff the last write addressed to it was not completely masked
   (by the code's own predicate) and then holds that write; untouched files keep
   their prior state. *)
Theorem store_history :
  forall dflt ops st st' rs,
    run_ops dflt st ops = Some (st', rs) ->
    forall p f,
      st' p f = match last_write dflt p f ops with
                | None => st p f
                | Some im => if is_completely_masked im then None else encode f im
                end.
Proof. exact store_history_lemma. Qed.
Print Assumptions store_history.

Theorem store_history_total :
  forall dflt ops st, Forall (writable dflt) ops -> exists st' rs, run_ops dflt st ops = Some (st', rs).
Proof. exact run_ops_total. Qed.
Print Assumptions store_history_total.

(* every read inside a history sees exactly the state left by the operations before it *)
Theorem read_in_history :
  forall dflt pre p d mm f post st st' rs,
    run_ops dflt st (pre ++ ORead p d mm f :: post) = Some (st', rs) ->
    exists st1 rs1 rs2,
      run_ops dflt st pre = Some (st1, rs1) /\
      rs = rs1 ++ read_image dflt st1 p d mm f :: rs2 /\
      st1 p (or_default dflt f) =
        match last_write dflt p (or_default dflt f) pre with
        | None => st p (or_default dflt f)
        | Some im => if is_completely_masked im then None else encode (or_default dflt f) im
        end.
Proof. exact read_history_lemma. Qed.
Print Assumptions read_in_history.

(* a missing tile reads as None, or as an all-undefined 256x256 tile on request *)
Theorem read_default :
  forall dflt st p f,
    st p (or_default dflt f) = None ->
    read_image dflt st p DNone None f = RAbsent /\
    (forall mm, read_image dflt st p DNone mm f = RAbsent) /\
    (forall mm, read_image dflt st p DOther mm f = RError) /\
    read_image dflt st p DMasked None f = RError /\
    (forall m, exists im,
        read_image dflt st p DMasked (Some m) f = RImg im /\
        ih im = 256 /\ iw im = 256 /\ imode im = maskable m /\
        (forall r c, ipx im r c = masked_px m /\ undef_px (ipx im r c) = true) /\
        is_completely_masked im = negb (is_int_mode m)).
Proof. exact read_default_lemma. Qed.
Print Assumptions read_default.

(* every tile that is not completely masked reads back with identical pixels and
   mode in each lossless format able to hold its mode, whatever was there before *)
Theorem roundtrip :
  forall dflt st p im f,
    holds (or_default dflt f) (imode im) = true -> is_completely_masked im = false ->
    exists st', write_image dflt st p im f = Some st' /\
                (forall d mm, read_image dflt st' p d mm f = RImg im) /\
                (forall p' f', pos_eqb p' p && fmt_eqb f' (or_default dflt f) = false -> st' p' f' = st p' f').
Proof. exact roundtrip_lemma. Qed.
Print Assumptions roundtrip.

(* a completely masked tile is never stored and any earlier file is removed *)
Theorem write_masked_removes :
  forall dflt st p im f,
    is_completely_masked im = true ->
    exists st', write_image dflt st p im f = Some st' /\
                st' p (or_default dflt f) = None /\
                (forall mm, read_image dflt st' p DNone mm f = RAbsent) /\
                (forall p' f', pos_eqb p' p && fmt_eqb f' (or_default dflt f) = false -> st' p' f' = st p' f').
Proof. exact write_masked_lemma. Qed.
Print Assumptions write_masked_removes.

(* the round-trip table: which (format, mode) pairs are lossless *)
Theorem roundtrip_table :
  forall f m, holds f m = true <->
    match f with
    | Png => m = RGB \/ m = RGBA
    | Jpg => False
    | Npy => True
    | Fits => m <> F16x3
    end.
Proof. exact holds_table. Qed.
Print Assumptions roundtrip_table.

(* --- non-vacuity and the code's quirks ------------------------------------ *)

Example fill_nonvacuous :
  ex_rows (fill_into ex_src ex_buf full_slice full_slice ex_by ex_bx) = Some
      [ [PxC 0 0 0 0; PxC 0 0 0 0; PxC 0 0 0 0; PxC 0 0 0 0];
        [PxC 0 0 0 0; PxC 20 7 7 200; PxC 21 7 7 200; PxC 0 0 0 0];
        [PxC 0 0 0 0; PxC 10 7 7 0; PxC 11 7 7 0; PxC 0 0 0 0];
        [PxC 0 0 0 0; PxC 0 7 7 200; PxC 1 7 7 200; PxC 0 0 0 0];
        [PxC 0 0 0 0; PxC 0 0 0 0; PxC 0 0 0 0; PxC 0 0 0 0] ].
Proof. vm_compute. reflexivity. Qed.

(* alpha-0 source row (source row 1 -> buffer row 2) leaves the buffer alone *)
Example update_nonvacuous :
  ex_rows (update_into ex_src ex_buf full_slice full_slice ex_by ex_bx) = Some
      [ [PxC 1 2 3 0; PxC 1 2 3 9; PxC 1 2 3 9; PxC 1 2 3 9];
        [PxC 1 2 3 0; PxC 20 7 7 200; PxC 21 7 7 200; PxC 1 2 3 9];
        [PxC 1 2 3 0; PxC 1 2 3 9; PxC 1 2 3 9; PxC 1 2 3 9];
        [PxC 1 2 3 0; PxC 0 7 7 200; PxC 1 7 7 200; PxC 1 2 3 9];
        [PxC 1 2 3 0; PxC 1 2 3 9; PxC 1 2 3 9; PxC 1 2 3 9] ].
Proof. vm_compute. reflexivity. Qed.

Example selects_nonvacuous : selects 5 ex_by 2 1 /\ selects 4 ex_bx 1 2 /\ in_rect ex_buf ex_by ex_bx 1 2.
Proof. exact selects_example. Qed.

(* quirk 1 (as coded): an F16x3 pixel with one NaN channel is not copied by
   update, yet a tile made of such pixels is not "completely masked" *)
Example f16x3_quirk :
  src_valid F16x3 (PxF3 None (Some 1%Q) (Some 1%Q)) = false /\
  undef_px (PxF3 None (Some 1%Q) (Some 1%Q)) = true /\
  is_completely_masked (mkImg 1 1 F16x3 (fun _ _ => PxF3 None (Some 1%Q) (Some 1%Q))) = false.
Proof. vm_compute. auto. Qed.

(* quirk 2 (as coded): integer update is a plain maximum, so an undefined (zero)
   source does change a negative buffer value; the property speaks of
   non-negative integer data only *)
Example int_negative_quirk : upd_px I16 (PxI 0) (PxI (-5)) = PxI 0.
Proof. reflexivity. Qed.

(* quirk 3 (as coded): an all-zero integer or RGB tile is written, never removed *)
Example int_zero_tile_is_stored :
  forall st, exists st',
    write_image Npy st root (mkImg 2 2 U8 (fun _ _ => PxI 0)) None = Some st' /\
    st' root Npy <> None.
Proof. exact int_zero_tile_example. Qed.

(* stale lossy file, write, read, masked write (file removed), read -> absent,
   read of another format's stale file *)
Example history_nonvacuous : ex_hist_result = Some (PxF (Some 2%Q)).
Proof. vm_compute. reflexivity. Qed.
