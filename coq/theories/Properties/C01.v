(* C01 — Cascade walk: each live parent exactly once, only after all its live children.

   Serial walk: Model/Reducer.v (walk_serial), proofs in Proofs/CountsP.v.
   Parallel walk: Model/WalkPar.v — dispatcher, unbounded ready queue, done queue
   bounded by 2*par, readiness table, par worker processes, over the
   multiprocessing.Queue model of VisitPar.v (including Empty raised under reader-lock
   contention, action KCTimeout).  A schedule is an arbitrary list of
   actions; actions that are not enabled are no-ops, so every theorem below holds
   for every interleaving of dispatcher, feeder flushes, worker receives, receive
   timeouts (only on an empty pipe), callbacks (one sync point between start and
   end) and the shutdown signal, for every well-formed pyramid (generic / TOAST /
   filtered, any sub-pyramid apex), every worker count par >= 1 and every pipe
   capacity pcap >= 1.  [spec_ops P] = the live non-leaf tiles of the sub-pyramid.
   The callback log [cblog] is newest first: (false, p, w) = worker w starts the
   callback of p, (true, p, w) = it returns.  [starts]/[ends] (Proofs/WalkParAux.v)
   are the positions of the Start/End events of a log.
   Statements only; proofs in Proofs/WalkParPrep.v (preparation pass),
   Proofs/WalkParInv.v (LTS invariant), Proofs/WalkParP.v (instantiation). *)
From Coq Require Import List NArith Arith Bool Permutation.
From Toasty Require Import Model.Quadtree Model.Reducer Model.WalkPar Proofs.ReducerP Proofs.CountsP.
From Toasty Require Import Proofs.WalkParTotal.
From Toasty Require Import Proofs.WalkParAux Proofs.WalkParInv Proofs.WalkParP.
Import ListNotations.

(* serial walk: callbacks are exactly the live non-leaf tiles of the sub-pyramid,
   in call order, each once (NoDup), children first *)
Theorem walk_serial_spec : forall P, wf_pyr P -> walk_serial P = Some (spec_ops P).
Proof. exact CountsP.walk_serial_spec. Qed.
Print Assumptions walk_serial_spec.

(* what is in spec_ops: accepted by the filter, inside the apex's subtree, never a leaf *)
Theorem walk_ops_scope : forall P q, wf_pyr P -> In q (spec_ops P) ->
  in_filter P q = true /\ below q (apex P) = true /\ (pn (apex P) <= pn q < depth P)%nat.
Proof. exact CountsP.spec_ops_scope. Qed.
Print Assumptions walk_ops_scope.

(* the preparation pass never fails: the LTS has an initial state for every
   well-formed pyramid, so the theorems below are not vacuous *)
Theorem walk_par_defined :
  forall P par pcap, wf_pyr P -> exists s0, winit P par pcap = Some s0.
Proof. exact WalkParTotal.winit_defined. Qed.
Print Assumptions walk_par_defined.

(* every reachable state of the parallel walk: a callback starts only for a live
   non-leaf tile of the sub-pyramid; at most one Start and one End per tile; every
   End is preceded by its Start; and when the callback of p starts, the callback of
   every child of p that is itself an operation has already returned *)
Theorem walk_par_safety :
  forall P par pcap, wf_pyr P -> 1 <= par -> 1 <= pcap ->
  forall s0, winit P par pcap = Some s0 ->
  forall l : list wact,
  let s := wrun (fun _ => false) s0 l in
  (forall p w, In (false, p, w) (cblog s) -> In p (spec_ops P)) /\
  NoDup (starts (cblog s)) /\ NoDup (ends (cblog s)) /\
  (forall l1 p w l2, cblog s = l1 ++ (true, p, w) :: l2 -> exists w', In (false, p, w') l2) /\
  (forall l1 p w l2, cblog s = l1 ++ (false, p, w) :: l2 ->
     forall c, In c (children p) -> In c (spec_ops P) -> exists w', In (true, c, w') l2).
Proof. exact WalkParP.walk_par_safety. Qed.
Print Assumptions walk_par_safety.

(* whenever the walk has returned: the callback started and returned exactly once
   for every element of spec_ops P and for nothing else, and every worker has left
   its loop normally (exit code 0) *)
Theorem walk_par_terminal :
  forall P par pcap, wf_pyr P -> 1 <= par -> 1 <= pcap ->
  forall s0, winit P par pcap = Some s0 ->
  forall l : list wact,
  let s := wrun (fun _ => false) s0 l in
  d_pc s = DReturned ->
  Permutation (starts (cblog s)) (spec_ops P) /\
  Permutation (ends (cblog s)) (spec_ops P) /\
  (forall w x, nth_error (wks s) w = Some x -> fst x = KExited 0) /\
  (spec_ops P <> [] -> length (wks s) = par).
Proof. exact WalkParP.walk_par_terminal. Qed.
Print Assumptions walk_par_terminal.

(* nothing to do: the walk returns at once, starts no worker, runs no callback *)
Theorem walk_par_immediate :
  forall P par pcap, wf_pyr P -> 1 <= par -> 1 <= pcap ->
  forall s0, winit P par pcap = Some s0 ->
  spec_ops P = [] ->
  d_pc s0 = DReturned /\ wks s0 = [] /\ forall l, wrun (fun _ => false) s0 l = s0.
Proof. exact WalkParP.walk_par_immediate. Qed.
Print Assumptions walk_par_immediate.

(* parallel = serial: in a returned state the callback positions are a permutation
   of the serial walk's callback list, for every par and every schedule *)
Theorem walk_par_eq_serial :
  forall P par pcap, wf_pyr P -> 1 <= par -> 1 <= pcap ->
  forall s0, winit P par pcap = Some s0 ->
  forall l : list wact,
  let s := wrun (fun _ => false) s0 l in
  d_pc s = DReturned ->
  exists cbs, walk_serial P = Some cbs /\
    Permutation (starts (cblog s)) cbs /\ Permutation (ends (cblog s)) cbs /\
    (forall p, (exists w, In (true, p, w) (cblog s)) <-> In p cbs).
Proof. exact WalkParP.walk_par_eq_serial. Qed.
Print Assumptions walk_par_eq_serial.

(* pos_parent is never called on a level-0 position: no exception escapes the dispatcher *)
Theorem walk_par_never_raises :
  forall P par pcap, wf_pyr P -> 1 <= par -> 1 <= pcap ->
  forall s0, winit P par pcap = Some s0 ->
  forall l : list wact, d_pc (wrun (fun _ => false) s0 l) <> DRaised.
Proof. exact WalkParP.walk_par_never_raises. Qed.
Print Assumptions walk_par_never_raises.

(* no deadlock: in every reachable state that has not returned, a non-polling
   action is enabled, possibly after ONE polling move (worker 0's flag test that
   sends it back to the blocking get); see WalkParInv.can_progress *)
Theorem walk_par_no_deadlock :
  forall P par pcap, wf_pyr P -> 1 <= par -> 1 <= pcap ->
  forall s0, winit P par pcap = Some s0 ->
  forall l : list wact,
  let s := wrun (fun _ => false) s0 l in
  d_pc s <> DReturned ->
  (exists a, wenabled s a = true /\ wpolling s a = false) \/
  (exists a0 a1, wenabled s a0 = true /\ wpolling s a0 = true /\
                 wenabled (wstep (fun _ => false) s a0) a1 = true /\
                 wpolling (wstep (fun _ => false) s a0) a1 = false).
Proof. exact WalkParP.walk_par_no_deadlock. Qed.
Print Assumptions walk_par_no_deadlock.

(* bounded progress: every enabled non-polling action strictly decreases a
   natural-number measure, so a run contains at most [measure _ par s0] of them;
   with walk_par_no_deadlock: every schedule that does not poll forever while
   progress is possible reaches DReturned *)
Theorem walk_par_measure :
  forall P par pcap, wf_pyr P -> 1 <= par -> 1 <= pcap ->
  forall s0, winit P par pcap = Some s0 ->
  forall (l : list wact) a,
  let s := wrun (fun _ => false) s0 l in
  wenabled s a = true -> wpolling s a = false ->
  measure (spec_ops P) par (wstep (fun _ => false) s a) < measure (spec_ops P) par s.
Proof. exact WalkParP.walk_par_measure. Qed.
Print Assumptions walk_par_measure.

(* ---- non-vacuity ------------------------------------------------------------------ *)

(* a filtered depth-3 TOAST pyramid (CountsP.ex_full: one accepted tile without
   accepted children, one accepted tile below a rejected one), two workers, pipe
   capacity 1: an interleaved schedule that reaches DReturned; the two seeds run
   concurrently on different workers, the parents afterwards *)
Definition c01_schedule : list wact :=
  [DPut; DPut; FFlushReady; KRecv 0; FFlushReady; KRecv 1; KCb 1; KCb 0; KPut 1; KPut 0;
   FFlushDone 1; DRecv; FFlushDone 0; DRecv; DPut; KTimeout 1; FFlushReady; KIsSet 1; KRecv 1;
   KCb 1; KPut 1; FFlushDone 1; DRecv; DPut; FFlushReady; KRecv 0; KCb 0; KPut 0; FFlushDone 0;
   DRecv; DCloseQ; FFeederExit; DJoinThread; DSetFlag; KTimeout 1; KIsSet 1; KExit 1;
   KTimeout 0; KIsSet 0; KExit 0; DJoinW 0; DJoinW 1].

Example walk_par_nonvacuous :
  wf_pyr ex_full /\
  spec_ops ex_full = [mkPos 2 0%N 0%N; mkPos 2 1%N 1%N; mkPos 1 0%N 0%N; mkPos 0 0%N 0%N] /\
  exists s0, winit ex_full 2 1 = Some s0 /\
    let s := wrun (fun _ => false) s0 c01_schedule in
    d_pc s = DReturned /\
    rev (cblog s) =
      [(false, mkPos 2 0%N 0%N, 0); (false, mkPos 2 1%N 1%N, 1); (true, mkPos 2 1%N 1%N, 1); (true, mkPos 2 0%N 0%N, 0);
       (false, mkPos 1 0%N 0%N, 1); (true, mkPos 1 0%N 0%N, 1); (false, mkPos 0 0%N 0%N, 0); (true, mkPos 0 0%N 0%N, 0)] /\
    wks s = [(KExited 0, true); (KExited 0, true)].
Proof.
  split; [repeat split; try reflexivity; cbn; auto|]. split; [vm_compute; reflexivity|].
  eexists. split; [vm_compute; reflexivity|]. vm_compute. auto.
Qed.

(* a sub-pyramid disjoint from the filter: nothing to do, immediate return *)
Example walk_par_nothing_to_do :
  wf_pyr ex_sub_disjoint /\ spec_ops ex_sub_disjoint = [] /\
  option_map d_pc (winit ex_sub_disjoint 2 1) = Some DReturned.
Proof. split; [repeat split; try reflexivity; cbn; auto; discriminate|]. split; vm_compute; reflexivity. Qed.

(* the schedules quantified over above also contain [KCTimeout w]: ready_queue.get of worker w
   raises Empty although the pipe holds items, because another worker sits inside get() and
   may hold the queue's reader lock for the whole timeout (beyond the property's own quantifier,
   "timeouts firing at any time the queue is empty").  Here worker 0 loses the race for the first
   seed that way, goes through its flag test and takes the second seed *)
Definition c01_contended_schedule : list wact :=
  [DPut; DPut; FFlushReady; FFlushReady; KCTimeout 0; KRecv 1; KIsSet 0; KRecv 0; KCb 1; KCb 0; KPut 1; KPut 0;
   FFlushDone 1; DRecv; FFlushDone 0; DRecv; DPut; KTimeout 1; FFlushReady; KIsSet 1; KRecv 1;
   KCb 1; KPut 1; FFlushDone 1; DRecv; DPut; FFlushReady; KRecv 0; KCb 0; KPut 0; FFlushDone 0;
   DRecv; DCloseQ; FFeederExit; DJoinThread; DSetFlag; KTimeout 1; KIsSet 1; KExit 1;
   KTimeout 0; KIsSet 0; KExit 0; DJoinW 0; DJoinW 1].

Example walk_par_contended_timeout :
  exists s0, winit ex_full 2 2 = Some s0 /\
    wenabled (wrun (fun _ => false) s0 (firstn 4 c01_contended_schedule)) (KCTimeout 0) = true /\
    let s := wrun (fun _ => false) s0 c01_contended_schedule in
    d_pc s = DReturned /\ length (cblog s) = 8 /\
    wks s = [(KExited 0, true); (KExited 0, true)].
Proof. eexists. split; [vm_compute; reflexivity|]. vm_compute. auto. Qed.

(* the polling prefix of walk_par_no_deadlock is needed: a worker that timed out
   before the first item was flushed sits at its flag test; the only other enabled
   action is the dispatcher's own timeout *)
Example walk_par_polling_needed :
  exists s0, winit ex_generic_sub 1 1 = Some s0 /\
    let s := wrun (fun _ => false) s0 [DPut; KTimeout 0; FFlushReady] in
    wenabled_list s = [DTimeout; KIsSet 0] /\ wpolling s DTimeout = true /\ wpolling s (KIsSet 0) = true /\
    wenabled (wstep (fun _ => false) s (KIsSet 0)) (KRecv 0) = true.
Proof. eexists. split; [vm_compute; reflexivity|]. vm_compute. auto. Qed.
