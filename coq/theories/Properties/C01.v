(* C01 — Cascade walk: each live parent exactly once, only after all its live children.
   (theorems being added; see Proofs/WalkParP.v) *)
From Coq Require Import List Arith Bool.
From Toasty Require Import Model.Quadtree Model.Reducer Model.WalkPar Proofs.ReducerP Proofs.CountsP.
Import ListNotations.

(* serial walk: callbacks are exactly the live non-leaf tiles of the sub-pyramid,
   in call order, each once (NoDup), children first *)
Theorem walk_serial_spec : forall P, wf_pyr P -> walk_serial P = Some (spec_ops P).
Proof. exact CountsP.walk_serial_spec. Qed.
Print Assumptions walk_serial_spec.
