(* C05 — a tile's 256x256 pixel grid is the centres of the tiles eight levels deeper.
   Statements only; proofs in Proofs/ToastTermP.v (term layer) and Geom/ (real layer).

   Term layer: pixel_grid_is_centres (every npix = 2^k, every tile, every pixel),
   toast_tile_get_coords_is_centres (k = 8 on the tile of any position, both systems),
   subsample_hash_image.  Real layer: second half of this file. *)
From Coq Require Import List NArith Arith Bool.
From Coq Require Import Reals.
From Toasty Require Import Model.Quadtree Model.ToastTerm Proofs.ToastTermP Geom.Cone Geom.ToastReal.
Import ListNotations.
Local Open Scope N_scope.

(* _libtoasty.pyx _subsample on an npix = 2^k grid: entry (row i, column j) is, up to
   commutativity of mid, the centre of the descendant of the tile at relative depth k and
   relative position (x, y) = (j, i), as toast.py's _div4 builds it. *)
Theorem pixel_grid_is_centres :
  forall k (t : tile) i j, i < 2 ^ N.of_nat k -> j < 2 ^ N.of_nat k ->
  peq (subsample Mid k (c_ul t) (c_ur t) (c_lr t) (c_ll t) (incr t) i j)
      (centre Mid (desc Mid t k j i)).
Proof. exact subsample_is_centres_term. Qed.
Print Assumptions pixel_grid_is_centres.

(* toast_tile_get_coords(tile at (n, x, y))[i][j] = centre of the tile at (n+8, 256x+j, 256y+i) *)
Theorem toast_tile_get_coords_is_centres :
  forall cs p i j, (1 <= pn p)%nat -> i < 256 -> j < 256 ->
  peq (tile_coords Mid (tile_at Base Mid cs p) i j)
      (centre Mid (tile_at Base Mid cs (mkPos (8 + pn p) (256 * px p + j) (256 * py p + i)))).
Proof. exact tile_coords_is_centres. Qed.
Print Assumptions toast_tile_get_coords_is_centres.

(* descendants are tiles of the global pyramid: desc (tile at p) k j i = tile at (n+k, 2^k x + j, 2^k y + i) *)
Theorem descendants_are_global_tiles :
  forall (P : Type) (base : N -> P) (mid : P -> P -> P) cs p k j i,
  (1 <= pn p)%nat -> j < 2 ^ N.of_nat k -> i < 2 ^ N.of_nat k ->
  tile_at base mid cs (mkPos (k + pn p) (2 ^ N.of_nat k * px p + j) (2 ^ N.of_nat k * py p + i)) =
  desc mid (tile_at base mid cs p) k j i.
Proof. exact tile_at_desc. Qed.
Print Assumptions descendants_are_global_tiles.

(* the hash run of subsample used by the correspondence is the image of the term run *)
Theorem subsample_hash_image :
  forall k ul ur lr ll inc i j,
  hash (subsample Mid k ul ur lr ll inc i j) = subsample hmid k (hash ul) (hash ur) (hash lr) (hash ll) inc i j.
Proof. exact (hom_subsample pt int Mid hmid hash (fun a b => eq_refl)). Qed.
Print Assumptions subsample_hash_image.

Example pixel_grid_nonvacuous :
  let t := tile_at Base Mid Astro (mkPos 2 1 2) in
  nf (subsample Mid 2 (c_ul t) (c_ur t) (c_lr t) (c_ll t) (incr t) 3 1)
  = nf (centre Mid (tile_at Base Mid Astro (mkPos 4 (4 * 1 + 1) (4 * 2 + 3)))) /\
  (* the equality is genuinely modulo commutativity: the terms differ syntactically *)
  pt_eqb (subsample Mid 2 (c_ul t) (c_ur t) (c_lr t) (c_ll t) (incr t) 3 1)
         (centre Mid (tile_at Base Mid Astro (mkPos 4 5 11))) = false.
Proof. vm_compute. split; reflexivity. Qed.

(* ====================================================================================
   Real layer (see Properties/C04.v for the vocabulary: eval, rmid, inU). *)

(* the pixel's direction in R^3 is the centre of the real tile eight levels deeper (equality,
   since evaluation identifies Mid a b and Mid b a) ... *)
Theorem pixel_is_deeper_centre :
  forall cs p i j, (1 <= pn p)%nat -> i < 256 -> j < 256 ->
  eval (tile_coords Mid (tile_at Base Mid cs p) i j) =
  centre rmid (tile_at rbase rmid cs (mkPos (8 + pn p) (256 * px p + j) (256 * py p + i))).
Proof. exact pixel_is_centre_real. Qed.
Print Assumptions pixel_is_deeper_centre.

(* ... and lies inside its tile *)
Theorem centre_inside :
  forall cs p k j i, valid p = true -> (1 <= pn p)%nat ->
  inU (tile_at rbase rmid cs p) (centre rmid (desc rmid (tile_at rbase rmid cs p) k j i)).
Proof. exact centre_inside_all. Qed.
Print Assumptions centre_inside.

Theorem pixel_centre_inside_tile :
  forall cs p i j, valid p = true -> (1 <= pn p)%nat -> i < 256 -> j < 256 ->
  inU (tile_at rbase rmid cs p) (eval (tile_coords Mid (tile_at Base Mid cs p) i j)).
Proof. exact pixel_in_tile. Qed.
Print Assumptions pixel_centre_inside_tile.

(* Latitude clause -- PARTIAL.  sin(lat) of a direction is its y coordinate.  Proved: the
   EQUATORWARD bound -- a tile whose corners all have sin(lat) >= m >= 0 (resp. <= -m) has every
   pixel centre with sin(lat) >= m (resp. <= -m); spherical caps smaller than a hemisphere are
   convex (cap_convexity, for any axis e).
   MISSING (no proof in this development): the POLEWARD bound, pixel latitude <= the largest
   corner latitude (resp. >= the smallest), and hence the full "within the latitude range spanned
   by the corners"; no inductive invariant for iterated midpoints was found.  The harness
   validates the full range numerically (every pixel of every tile to depth 3/5, both systems). *)
Theorem lat_range_partial :
  forall cs p i j (m : R),
  valid p = true -> (1 <= pn p)%nat -> i < 256 -> j < 256 -> (0 <= m)%R ->
  let t := tile_at rbase rmid cs p in
  let px := eval (tile_coords Mid (tile_at Base Mid cs p) i j) in
  ((m <= vy (c_ul t) /\ m <= vy (c_ur t) /\ m <= vy (c_lr t) /\ m <= vy (c_ll t))%R -> (m <= vy px)%R) /\
  ((vy (c_ul t) <= - m /\ vy (c_ur t) <= - m /\ vy (c_lr t) <= - m /\ vy (c_ll t) <= - m)%R -> (vy px <= - m)%R).
Proof. exact pixel_lat_equatorward. Qed.
Print Assumptions lat_range_partial.

Theorem cap_convexity :
  forall e m (t : gtile vec) k x y, (0 <= m)%R -> in_cap e m t ->
  (m <= dot e (centre rmid (desc rmid t k x y)))%R.
Proof. exact cap_bound_centres. Qed.
Print Assumptions cap_convexity.
