(* C16 — Flipping image parity reverses rows but moves no pixel on the sky.
   Statements only; proofs in Proofs/ParityP.v, model (over Q) in Model/Parity.v.
   [hdr] is the linear WCS as the code reads it (CDELTi * PCi_j with the identity
   defaults, CRPIXj); iw1/iw2 are the intermediate world coordinates of a 0-based
   pixel.  No theorem below restricts CRPIX or the height; non-singularity
   (det <> 0) is needed only for the sign flip. *)
From Coq Require Import List ZArith QArith.
From Toasty Require Import Model.Parity Proofs.ParityP.
Import ListNotations.
Local Open Scope Q_scope.

(* the reported parity sign is negated, for every non-singular CD *)
Theorem flip_negates_sign :
  forall ht h, ~ det h == 0 -> parity_sign (flip_hdr ht h) = (- parity_sign h)%Z.
Proof. exact flip_negates_sign_hdr. Qed.
Print Assumptions flip_negates_sign.

Theorem image_flip_negates_sign :
  forall A (im : image A), ~ det (i_hdr im) == 0 ->
    parity_sign (i_hdr (image_flip im)) = (- parity_sign (i_hdr im))%Z.
Proof. exact @ParityP.image_flip_negates_sign. Qed.
Print Assumptions image_flip_negates_sign.

Theorem description_flip_negates_sign :
  forall d, ~ det (d_hdr d) == 0 -> parity_sign (d_hdr (desc_flip d)) = (- parity_sign (d_hdr d))%Z.
Proof. exact desc_flip_negates_sign. Qed.
Print Assumptions description_flip_negates_sign.

(* world coordinates of pixel (x, y) before = those of (x, height-1-y) after;
   every CD (singular or not), CRPIX anywhere, every height, every (even
   fractional) pixel position *)
Theorem flip_fixes_sky :
  forall ht h x y,
    iw1 (flip_hdr ht h) x (inject_Z ht - 1 - y) == iw1 h x y /\
    iw2 (flip_hdr ht h) x (inject_Z ht - 1 - y) == iw2 h x y.
Proof. exact flip_fixes_sky_hdr. Qed.
Print Assumptions flip_fixes_sky.

Theorem description_flip_fixes_sky :
  forall d x y,
    iw1 (d_hdr (desc_flip d)) x (inject_Z (d_height d) - 1 - y) == iw1 (d_hdr d) x y /\
    iw2 (d_hdr (desc_flip d)) x (inject_Z (d_height d) - 1 - y) == iw2 (d_hdr d) x y.
Proof. exact desc_flip_fixes_sky. Qed.
Print Assumptions description_flip_fixes_sky.

(* the rows are reversed *)
Theorem flip_reverses_rows :
  forall A (im : image A) (d : A) (y : nat),
    (y < length (rows im))%nat ->
    nth y (rows (image_flip im)) d = nth (length (rows im) - 1 - y) (rows im) d.
Proof. exact @flip_reverses_rows_nth. Qed.
Print Assumptions flip_reverses_rows.

(* both at once: the data of row y end up in row height-1-y, whose pixels have
   the world coordinates row y had *)
Theorem flip_moves_no_pixel :
  forall A (im : image A) (d : A) (x : Q) (y : nat),
    (y < length (rows im))%nat ->
    let im' := image_flip im in
    let y' := (length (rows im) - 1 - y)%nat in
    nth y' (rows im') d = nth y (rows im) d /\
    iw1 (i_hdr im') x (inject_Z (Z.of_nat y')) == iw1 (i_hdr im) x (inject_Z (Z.of_nat y)) /\
    iw2 (i_hdr im') x (inject_Z (Z.of_nat y')) == iw2 (i_hdr im) x (inject_Z (Z.of_nat y)).
Proof. exact @flip_moves_no_pixel_img. Qed.
Print Assumptions flip_moves_no_pixel.

Theorem flip_involutive :
  forall A (im : image A),
    rows (image_flip (image_flip im)) = rows im /\
    hdr_equiv (i_hdr (image_flip (image_flip im))) (i_hdr im).
Proof. exact @image_flip_involutive. Qed.
Print Assumptions flip_involutive.

Theorem description_flip_involutive :
  forall d,
    d_height (desc_flip (desc_flip d)) = d_height d /\ d_width (desc_flip (desc_flip d)) = d_width d /\
    hdr_equiv (d_hdr (desc_flip (desc_flip d))) (d_hdr d).
Proof. exact desc_flip_involutive. Qed.
Print Assumptions description_flip_involutive.

(* ensure_negative_parity: always -1, idempotent; images and descriptions *)
Theorem ensure_negative_is_neg :
  forall A (im : image A), parity_sign (i_hdr (image_ensure_negative im)) = (-1)%Z.
Proof. exact @image_ensure_negative_is_neg. Qed.
Print Assumptions ensure_negative_is_neg.

Theorem ensure_negative_idempotent :
  forall A (im : image A), image_ensure_negative (image_ensure_negative im) = image_ensure_negative im.
Proof. exact @image_ensure_negative_idempotent. Qed.
Print Assumptions ensure_negative_idempotent.

Theorem ensure_negative_flips_or_keeps :
  forall A (im : image A),
    (parity_sign (i_hdr im) = (-1)%Z /\ image_ensure_negative im = im) \/
    (parity_sign (i_hdr im) = 1%Z /\ image_ensure_negative im = image_flip im).
Proof. exact @image_ensure_negative_cases. Qed.
Print Assumptions ensure_negative_flips_or_keeps.

Theorem description_ensure_negative_is_neg :
  forall d, parity_sign (d_hdr (desc_ensure_negative d)) = (-1)%Z.
Proof. exact desc_ensure_negative_is_neg. Qed.
Print Assumptions description_ensure_negative_is_neg.

Theorem description_ensure_negative_idempotent :
  forall d, desc_ensure_negative (desc_ensure_negative d) = desc_ensure_negative d.
Proof. exact desc_ensure_negative_idempotent. Qed.
Print Assumptions description_ensure_negative_idempotent.

(* non-vacuity: a rotated, skewed, positive-parity WCS with CRPIX outside a 3-row image *)
Definition ex_hdr : hdr := mkHdr (-1 # 64) (1 # 32) None (Some (1 # 2)) (Some (-1 # 4)) None (7 # 2) (-29 # 4).
Definition ex_img : image nat := mkImage [10; 11; 12]%nat ex_hdr.

Example flip_negates_sign_nonvacuous :
  ~ det ex_hdr == 0 /\ parity_sign ex_hdr = 1%Z /\ parity_sign (i_hdr (image_flip ex_img)) = (-1)%Z.
Proof. split; [intros H; vm_compute in H; discriminate|split; vm_compute; reflexivity]. Qed.

Example flip_moves_no_pixel_nonvacuous :
  rows (image_flip ex_img) = [12; 11; 10]%nat /\
  crpix2 (i_hdr (image_flip ex_img)) == 45 # 4 /\
  iw1 (i_hdr (image_flip ex_img)) 5 2 == iw1 ex_hdr 5 0 /\ ~ iw1 ex_hdr 5 2 == iw1 ex_hdr 5 0.
Proof.
  split; [reflexivity|]. split; [vm_compute; reflexivity|]. split; [vm_compute; reflexivity|].
  intros H; vm_compute in H; discriminate.
Qed.

Example ensure_negative_nonvacuous :
  image_ensure_negative ex_img = image_flip ex_img /\
  parity_sign (d_hdr (desc_ensure_negative (mkDesc 3 4 ex_hdr))) = (-1)%Z.
Proof. split; vm_compute; reflexivity. Qed.
