(* C12 — point lookup returns the tile and pixel that contain the point.
   Statements only; proofs in Proofs/ToastTermP.v (term layer) and Geom/ToastReal.v (real layer).

   Term layer (exact): descent_selection, lookup_arrives_at_the_tile_of_its_position,
   lookup_nested, level1_* (the level-1 longitude test; F4: the coded test ignores coordsys).
   Real layer: second half of this file.
   NOT decided by proof: the pixel-position clause of the property (toast_pixel_for_point:
   biquadratic least-squares fit within 2 px).  LAPACK's lstsq on floats has no executable
   Gallina model here; harness/corr_C12.py keeps a numeric test of that clause on the
   implementation (this is where F5, the longitude-branch defect, is caught). *)
From Coq Require Import List NArith ZArith Arith Bool.
From Coq Require Import Reals.
From Toasty Require Import Model.Quadtree Model.ToastTerm Proofs.ToastTermP Geom.Cone Geom.ToastReal.
Import ListNotations.
Local Open Scope N_scope.

(* toast.py:284-301: the loop over _div4(tile) takes the first child with score 0; if there
   is none, the first child of maximal score (ties: the earliest). *)
Theorem descent_selection :
  forall (P : Type) (score : gtile P -> Z) c0 l cur,
  let r := pick_child (fun s => Z.eqb s 0) Z.gtb score (c0 :: l) None cur in
  (forall l1 c l2, c0 :: l = l1 ++ c :: l2 -> score c = 0%Z -> (forall d, In d l1 -> score d <> 0%Z) -> r = c) /\
  ((forall d, In d (c0 :: l) -> score d <> 0%Z) ->
     exists l1 l2, c0 :: l = l1 ++ r :: l2 /\ (forall d, In d l1 -> (score d < score r)%Z) /\
                   (forall d, In d (c0 :: l) -> (score d <= score r)%Z)).
Proof. exact pick_child_selects. Qed.
Print Assumptions descent_selection.

(* whatever the scores, the answer at depth d >= 1 is a genuine tile of depth d: the tile of
   its own position (C04 routes_agree), valid *)
Theorem lookup_arrives_at_the_tile_of_its_position :
  forall (P : Type) (base : N -> P) (mid : P -> P -> P) Sc (is0 : Sc -> bool) gtb score cs depth t,
  lookup base mid is0 gtb score cs depth = Some t ->
  (t = tile_at base mid cs (tpos t) /\ valid (tpos t) = true /\ (1 <= pn (tpos t))%nat) /\ pn (tpos t) = depth.
Proof. exact lookup_good. Qed.
Print Assumptions lookup_arrives_at_the_tile_of_its_position.

(* nesting: the depth-d answer is the ancestor, k levels up, of the depth-(d+k) answer.
   Structural (same score oracle): true of the float code too. *)
Theorem lookup_nested :
  forall (P : Type) (base : N -> P) (mid : P -> P -> P) Sc (is0 : Sc -> bool) gtb score cs d k t t',
  (1 <= d)%nat ->
  lookup base mid is0 gtb score cs d = Some t -> lookup base mid is0 gtb score cs (d + k) = Some t' ->
  anc (tpos t') k = tpos t.
Proof. exact lookup_nested_all. Qed.
Print Assumptions lookup_nested.

(* level 1.  [level1_pick cs q1]: the tile the level-1 loop ends with when the longitude handed
   to the test lies in interval q1 ([0,pi/2], (pi/2,pi], (pi,3pi/2), [3pi/2,2pi]).  Its equator
   corners sit at TRUE longitudes ((q1 + shift) mod 4) * 90deg and 90deg further, shift = 2
   quarter turns for the planetary system. *)
Theorem level1_choice_spans :
  forall cs q1, q1 < 4 ->
  let t := level1_pick Base cs q1 in
  In (Base ((q1 + lshift cs) mod 4)) (corners_of t) /\
  In (Base ((q1 + 1 + lshift cs) mod 4)) (corners_of t) /\
  In (b_north Base cs) (corners_of t) /\ In (b_south Base cs) (corners_of t).
Proof. exact level1_pick_spans. Qed.
Print Assumptions level1_choice_spans.

(* the code as it stands hands over the interval of lon itself: right for sky maps ... *)
Theorem level1_coded_astronomical_ok :
  forall q, q < 4 ->
  In (Base q) (corners_of (level1_pick Base Astro q)) /\ In (Base ((q + 1) mod 4)) (corners_of (level1_pick Base Astro q)).
Proof. exact level1_coded_astronomical. Qed.
Print Assumptions level1_coded_astronomical_ok.

(* ... and wrong for planetary maps (F4, toast.py:223-232): for every interval the tile chosen
   touches neither end of the interval. *)
Theorem level1_coded_planetary_refuted :
  forall q, q < 4 -> ~ In (Base q) (corners_of (level1_pick Base Planet q)) /\
                     ~ In (Base ((q + 1) mod 4)) (corners_of (level1_pick Base Planet q)).
Proof. exact level1_coded_planetary_refuted_term. Qed.
Print Assumptions level1_coded_planetary_refuted.

(* repaired (fixes/C12-1.patch: the planetary test gets lon + pi, i.e. interval (q + 2) mod 4) *)
Theorem level1_fixed_spans_interval :
  forall cs q, q < 4 ->
  let t := level1_pick Base cs ((q + lshift cs) mod 4) in
  In (Base q) (corners_of t) /\ In (Base ((q + 1) mod 4)) (corners_of t).
Proof. exact level1_fixed_spans. Qed.
Print Assumptions level1_fixed_spans_interval.

Example descent_selection_nonvacuous :
  let sc := fun t : htile => (- Z.of_N ((px (tpos t) + 2 * py (tpos t) + 1) mod 3))%Z in
  option_map (fun t => tpos t) (lookup hbase hmid (fun s => Z.eqb s 0) Z.gtb sc Planet 3) = Some (mkPos 3 3 4).
Proof. vm_compute. reflexivity. Qed.

(* ====================================================================================
   Real layer: exact arithmetic.  lookup_R is toast_tile_for_point over R with the repaired
   level-1 test (fixes/C12-1.patch); lookup_R_coded is the code as it stands (toast.py:223-232
   ignores coordsys).  score = 0 iff the four half-space determinants are >= 0 (score_is_containment);
   inU: in one of the tile's two triangles; inQ: the code's four half-spaces. *)

Theorem score_is_containment :
  forall p (t : gtile vec), rscore p t = 0%R <-> inQ t p.
Proof. exact rscore_zero. Qed.
Print Assumptions score_is_containment.

(* for every latitude in [-pi/2, pi/2], every real longitude, every depth >= 1 and both
   coordinate systems the returned tile has the requested depth and contains the point *)
Theorem lookup_contains :
  forall cs depth lat lon t, (- (PI / 2) <= lat <= PI / 2)%R ->
  lookup_R cs depth lat lon = Some t ->
  inU t (xyz lat lon) /\ inQ t (xyz lat lon) /\ pn (tpos t) = depth.
Proof. exact lookup_contains_R. Qed.
Print Assumptions lookup_contains.

(* longitudes differing by multiples of 2 pi give the same answer *)
Theorem lookup_periodic :
  forall cs depth lat lon (k : Z),
  lookup_R cs depth lat (lon + IZR k * (2 * PI))%R = lookup_R cs depth lat lon.
Proof. exact lookup_periodic_R. Qed.
Print Assumptions lookup_periodic.

(* F4: the code as it stands fails for the planetary system (witness lat 0, lon pi/4, depth 1) ... *)
Theorem lookup_planetary_refuted :
  exists lat lon depth t, (- (PI / 2) <= lat <= PI / 2)%R /\
    lookup_R_coded Planet depth lat lon = Some t /\ ~ inU t (xyz lat lon).
Proof. exact lookup_planetary_refuted_R. Qed.
Print Assumptions lookup_planetary_refuted.

(* ... and is the repaired lookup for the astronomical one *)
Theorem lookup_coded_astronomical_is_repaired :
  forall depth lat lon, lookup_R_coded Astro depth lat lon = lookup_R Astro depth lat lon.
Proof. exact lookup_coded_astronomical. Qed.
Print Assumptions lookup_coded_astronomical_is_repaired.

(* convexity of TOAST tiles at the ends of their diagonal: the code's four-half-space test is
   the union of the two triangles (wfQ holds for every tile reached by the lookup) *)
Theorem four_halfspaces_are_the_two_triangles :
  forall (t : gtile vec) p, wfQ t -> (inQ t p <-> inU t p).
Proof. exact inQ_iff_inU. Qed.
Print Assumptions four_halfspaces_are_the_two_triangles.
