(* C20 — Each input file contributes exactly the HDU and WCS solution the user selected.
   Statements only; proofs live in Proofs/CollectionP.v, the model in Model/Collection.v.
   [load_coll wd old hs ws files]: wd = images() / descriptions(); old = true is
   collection.py:152 as found (`hdul[self._hdu_index]`), old = false the one-token
   repair (`hdul[hdu_index]`).  [contribution wd k f i kc] (CollectionP.v) is what
   file k contributes when its HDU i is read with WCS key kc. *)
From Coq Require Import List ZArith NArith Bool Ascii.
From Toasty Require Import Model.Collection Proofs.CollectionP.
Import ListNotations.
Local Open Scope Z_scope.

(* a single HDU index and a single WCS key apply to every file (both variants) *)
Theorem scalar_applies_to_all :
  forall wd old i c files,
    load_coll wd old (HScalar i) (WScalar c) files =
    run_files (fun k f => contribution wd k f i (Ok c)) 0 files.
Proof. exact scalar_all. Qed.
Print Assumptions scalar_applies_to_all.

(* lists are positional, for the HDU index and for the WCS key (repaired code) *)
Theorem list_is_positional :
  forall wd l cs files,
    load_coll wd false (HList l) (WList cs) files =
    run_files (fun k f =>
      match nth_error l k with
      | None => Err EIndex
      | Some i => contribution wd k f i
                    (match nth_error cs k with Some c => Ok c | None => Err EIndex end)
      end) 0 files.
Proof. exact list_positional. Qed.
Print Assumptions list_is_positional.

(* every mixture of none / scalar / list for the two options, read per file:
   the collection loads iff every file's selection is readable, and then item k
   is the selected HDU of file k under the selected key, in input order *)
Theorem each_file_contributes_selected :
  forall wd hs ws files items,
    load_coll wd false hs ws files = (items, None) <->
    (length items = length files /\
     forall k f, nth_error files k = Some f ->
       exists it, nth_error items k = Some it /\ spec_step wd hs ws k f = Ok it).
Proof. exact load_coll_per_file. Qed.
Print Assumptions each_file_contributes_selected.

(* ... and the code as found agrees with that reading unless a per-file HDU list is given *)
Theorem current_code_agrees_except_for_lists :
  forall wd old hs ws files,
    (old = false \/ forall l, hs <> HList l) ->
    load_coll wd old hs ws files = run_files (spec_step wd hs ws) 0 files.
Proof. exact load_coll_spec. Qed.
Print Assumptions current_code_agrees_except_for_lists.

(* the code as found: a valid per-file list [1; 2] for two files raises KeyError *)
Theorem list_is_positional_refuted :
  exists files l ws items,
    run_files (spec_step false (HList l) ws) 0 files = (items, None) /\
    length items = length files /\
    descriptions true (HList l) ws files = ([], Some EKey).
Proof. exact list_positional_refuted. Qed.
Print Assumptions list_is_positional_refuted.

Theorem current_code_never_loads_a_list :
  forall wd l ws f files, snd (load_coll wd true (HList l) ws (f :: files)) <> None.
Proof. exact old_list_never_loads. Qed.
Print Assumptions current_code_never_loads_a_list.

(* no selection: the first HDU holding image data (image-like, >= 2 axes) *)
Theorem default_is_first_image_hdu :
  forall old k f j h,
    first_image_at f j h -> select_hdu old HNone k f = Ok (Z.of_nat j, h).
Proof. exact default_is_first_image. Qed.
Print Assumptions default_is_first_image_hdu.

Theorem default_collection_is_first_image_hdu :
  forall wd old ws k f j h,
    first_image_at f j h ->
    load_step wd old HNone ws k f = contribution wd k f (Z.of_nat j) (key_for ws k).
Proof. exact load_step_default. Qed.
Print Assumptions default_collection_is_first_image_hdu.

(* a file without any image HDU: the loop leaves the last HDU selected *)
Theorem default_without_image_is_last_hdu :
  forall old k f,
    f <> [] -> (forall h, In h f -> ~ holds_image h) ->
    select_hdu old HNone k f = Ok (Z.of_nat (length f - 1), List.last f (mkHdu KImage [] [] 0)).
Proof. exact default_without_image. Qed.
Print Assumptions default_without_image_is_last_hdu.

(* descriptions() and images() refer to the same HDUs, order, shapes, WCS *)
Theorem descriptions_images_agree :
  forall old hs ws files items,
    images old hs ws files = (items, None) -> descriptions old hs ws files = (items, None).
Proof. exact images_ok_descriptions_same. Qed.
Print Assumptions descriptions_images_agree.

Theorem images_yield_prefix_of_descriptions :
  forall old hs ws files,
    exists more,
      fst (descriptions old hs ws files) = fst (images old hs ws files) ++ more /\
      (snd (images old hs ws files) = None -> more = [] /\ snd (descriptions old hs ws files) = None).
Proof. exact images_prefix_of_descriptions. Qed.
Print Assumptions images_yield_prefix_of_descriptions.

Theorem descriptions_without_images_only_for_dataless_hdu :
  forall old hs ws files ditems iitems e,
    descriptions old hs ws files = (ditems, None) ->
    images old hs ws files = (iitems, Some e) ->
    e = ENoData /\
    exists f i h c, nth_error files (length iitems) = Some f /\
      scan_one old hs ws (length iitems) f = Ok (i, h, c) /\ h_shape h = [].
Proof. exact descriptions_ok_images_fail. Qed.
Print Assumptions descriptions_without_images_only_for_dataless_hdu.

Theorem export_simple_agrees :
  forall old hs ws files items,
    descriptions old hs ws files = (items, None) ->
    export_simple old hs ws files = (map (fun it => (it_file it, it_index it)) items, None).
Proof. exact export_matches_descriptions. Qed.
Print Assumptions export_simple_agrees.

Theorem items_are_in_input_order :
  forall wd old hs ws files items e k it,
    load_coll wd old hs ws files = (items, e) -> nth_error items k = Some it -> it_file it = k.
Proof. exact items_in_input_order. Qed.
Print Assumptions items_are_in_input_order.

(* command line: the documented text of a selection parses back to it *)
Theorem cli_parse_roundtrip_hdu_scalar :
  forall i, parse_hdu_arg (dec_Z i) = Ok (HScalar i).
Proof. exact parse_hdu_scalar. Qed.
Print Assumptions cli_parse_roundtrip_hdu_scalar.

Theorem cli_parse_roundtrip_hdu_list :
  forall l, (2 <= length l)%nat -> parse_hdu_arg (join_comma (map dec_Z l)) = Ok (HList l).
Proof. exact parse_hdu_list. Qed.
Print Assumptions cli_parse_roundtrip_hdu_list.

Theorem cli_parse_roundtrip_wcs_scalar :
  forall k, key_ok k = true -> parse_wcs_arg k = Ok (WScalar k).
Proof. exact parse_wcs_scalar. Qed.
Print Assumptions cli_parse_roundtrip_wcs_scalar.

Theorem cli_parse_roundtrip_wcs_list :
  forall l, (2 <= length l)%nat -> forallb key_ok l = true -> parse_wcs_arg (join_comma l) = Ok (WList l).
Proof. exact parse_wcs_list. Qed.
Print Assumptions cli_parse_roundtrip_wcs_list.

(* non-vacuity: concrete collections meeting the hypotheses *)
Example list_is_positional_nonvacuous :
  descriptions false (HList [1; 2]) (WList [[" "%char]; [" "%char]]) wit_files =
  ([mkItem 0 1 101 [3; 4]%N 11; mkItem 1 2 202 [7; 8]%N 22], None).
Proof. vm_compute. reflexivity. Qed.

Example default_nonvacuous :
  first_image_at (nth 0 wit_files []) 1 (wit_img 101 11 [3; 4]%N) /\
  images false HNone WNone wit_files =
  ([mkItem 0 1 101 [3; 4]%N 11; mkItem 1 0 200 [2; 3]%N 20], None).
Proof.
  split; [|vm_compute; reflexivity].
  split; [reflexivity|]. split; [split; [reflexivity|cbn; auto]|].
  intros [|j'] h' Hj Hn; [|exfalso; apply (Nat.nlt_0_r j'); apply Nat.succ_lt_mono; exact Hj].
  cbn in Hn. injection Hn as <-. intros [_ H]. cbn in H. inversion H.
Qed.

Example dataless_nonvacuous :
  descriptions false (HScalar 0) (WScalar blank_key) [nth 0 wit_files []] =
    ([mkItem 0 0 100 [1; 1]%N 0], None) /\
  images false (HScalar 0) (WScalar blank_key) [nth 0 wit_files []] = ([], Some ENoData).
Proof. split; vm_compute; reflexivity. Qed.

Example cli_roundtrip_nonvacuous :
  parse_hdu_arg (join_comma (map dec_Z [0; 12; -1])) = Ok (HList [0; 12; -1]) /\
  dec_Z 12 = ["1"%char; "2"%char] /\
  parse_wcs_arg ["A"%char; ","%char; " "%char] = Ok (WList [["A"%char]; [" "%char]]).
Proof. repeat split; vm_compute; reflexivity. Qed.

(* ------------------------------------------------------------------ *)
(* `toasty tile-multi-tan` (cli.tile_multi_tan_impl), tied by TRANSLATION: Generated/CliMultiTanSrc.v
   is produced from toasty/cli.py in /repo's working tree on every build; it makes the calls of the
   hand-written model (Model/CliScript.v), in which the collection the tiler reads is built from the
   paths, the --hdu-index selection and the --wcs-key selection the user gave.  Proofs in
   Proofs/CliMultiTanP.v. *)
From Coq Require Import String.
From Toasty Require Import Model.SrcPrelude Model.CliScript Generated.CliMultiTanSrc Proofs.CliMultiTanP.

Theorem src_tile_multi_tan_command_is_model :
  forall (is_none : sval unit -> bool) (eq_lit : sval unit -> string -> bool) (is_true : sval unit -> bool),
  run_tree is_none eq_lit is_true src_cli_tile_multi_tan_impl = tile_multi_tan_impl_model.
Proof. exact src_tile_multi_tan_impl_eq. Qed.
Print Assumptions src_tile_multi_tan_command_is_model.

Theorem multi_tan_command_selection_reaches_the_collection :
  mt_collection = SNewP "SimpleFitsCollection" [setting "paths"]
                        [("hdu_index"%string, setting "hdu_index"); ("wcs_key"%string, setting "wcs_key")].
Proof. reflexivity. Qed.
Print Assumptions multi_tan_command_selection_reaches_the_collection.

(* `toasty view` (cli.view_locally), in the same generated file: under every valuation of its
   settings it behaves like the hand-written model, in which the collection is loaded from the
   paths exactly as the user gave them (a file named twice stays twice, so per-file --hdu-index /
   --wcs-key lists keep their positions) by the loader built from the settings, and each
   tiling-method name selects its own TilingMethod. *)
Theorem src_view_command_is_model :
  forall (is_none : sval unit -> bool) (eq_lit : sval unit -> string -> bool) (is_true : sval unit -> bool),
  run_tree is_none eq_lit is_true src_cli_view_locally = view_locally_model eq_lit is_true.
Proof. exact src_view_locally_eq. Qed.
Print Assumptions src_view_command_is_model.

Theorem view_command_loads_the_paths_as_given :
  view_collection
  = SCallA "load_paths" (SCallA "create_from_args" (SName "CollectionLoader") [SName "settings"] [])
           [setting "paths"] [].
Proof. reflexivity. Qed.
Print Assumptions view_command_loads_the_paths_as_given.
