(* C03 — Parallel stages hand every work item to exactly one worker and then terminate.

   Model: Model/VisitPar.v (producer / bounded multiprocessing.Queue / workers, the
   four stages of pyramid.py, transform.py, multi_tan.py, multi_wcs.py share it).
   A schedule is an arbitrary list of actions; actions that are not enabled are
   no-ops, so the theorems quantify over every interleaving of producer, feeder
   flushes, worker receives, receive timeouts (only on an empty pipe) and the
   shutdown signal, for every item count n, worker count par >= 1, queue
   capacity and pipe capacity.  The [_contended] theorems further below widen the
   schedules beyond the property's own quantifier: get(timeout) may also raise
   Empty on a NON-empty pipe while another worker is inside get() (it may be
   holding the queue's reader lock).  Statements only; proofs in Proofs/VisitParP.v. *)
From Coq Require Import List Arith Bool.
From Toasty Require Import Model.VisitPar Proofs.VisitParP.
From Toasty Require Import Model.Quadtree Model.Reducer Proofs.ReducerP Proofs.CountsP.
Import ListNotations.

(* every reachable state: the items handed out so far are 0..nrecv-1, each exactly
   once and in order (an item goes to exactly one worker); no worker leaves its
   loop while an item is outstanding — even when callbacks raise *)
Theorem visit_safety :
  forall bad n par cap pcap (l : list act), 1 <= par ->
  let s := run bad (init n par cap pcap true) l in
  map fst (started s) = rev (seq 0 (nrecv s)) /\ nrecv s <= n /\
  (forall w, nth_error (ws s) w = Some (WExited 0) -> nrecv s = n).
Proof. exact VisitParP.visit_safety. Qed.
Print Assumptions visit_safety.

(* whenever the stage has returned: every item was received exactly once, its
   callback completed before the return, and every worker has exited normally *)
Theorem visit_terminal :
  forall n par cap pcap (l : list act), 1 <= par ->
  let s := run (fun _ => false) (init n par cap pcap true) l in
  pc s = PReturned ->
  nrecv s = n /\
  map fst (started s) = rev (seq 0 n) /\
  finished s = rev (seq 0 n) /\
  (forall w, w < par -> nth_error (ws s) w = Some (WExited 0)).
Proof. exact VisitParP.visit_terminal. Qed.
Print Assumptions visit_terminal.

(* no deadlock: in every reachable state that has not returned a non-polling
   action is enabled, possibly after one polling move (a worker's flag test) *)
Theorem visit_no_deadlock :
  forall n par cap pcap (l : list act), 1 <= par -> 1 <= cap -> 1 <= pcap ->
  let s := run (fun _ => false) (init n par cap pcap true) l in
  pc s <> PReturned -> can_progress (fun _ => false) s.
Proof. exact VisitParP.visit_no_deadlock. Qed.
Print Assumptions visit_no_deadlock.

(* bounded progress: every non-polling action strictly decreases a natural-number
   measure, so a run contains at most [measure par init] of them; with
   visit_no_deadlock: every schedule that does not poll forever while progress is
   possible reaches PReturned *)
Theorem visit_measure :
  forall n par cap pcap (l : list act) a, 1 <= par ->
  let s := run (fun _ => false) (init n par cap pcap true) l in
  enabled_b s a = true -> polling s a = false ->
  measure par (step (fun _ => false) s a) < measure par s.
Proof. exact VisitParP.visit_measure. Qed.
Print Assumptions visit_measure.

(* the items of a leaf visit are the filtered leaves of the sub-pyramid, i.e. the
   serial visit list (C13): the parallel stage enumerates the same reduction *)
Theorem visit_items_eq_serial :
  forall P, wf_pyr P -> visit_serial P = Some (spec_leaves P).
Proof. exact CountsP.visit_serial_spec. Qed.
Print Assumptions visit_items_eq_serial.

(* ---- the protocol before the repair (flag tested after the timeout) loses items:
        recorded so that a revert is recognised; witness = DESIGN F9 ---------------- *)
Definition f9_schedule : list act :=
  [ATimeout 0; APut; AFlush; AClose; AFeederExit; AJoinThread; ASet; AIsSet 0; AJoin 0].

Theorem old_worker_loses_item :
  let s := run (fun _ => false) (init 1 1 2 1 false) f9_schedule in
  pc s = PReturned /\ nrecv s = 0 /\ started s = [].
Proof. vm_compute. auto. Qed.
Print Assumptions old_worker_loses_item.

(* the same schedule on the current protocol: the worker's stale "flag clear" read
   sends it back to the flag test, it then receives the item *)
Example f9_schedule_safe_now :
  let s := run (fun _ => false) (init 1 1 2 1 true)
               [AIsSet 0; ATimeout 0; APut; AFlush; AClose; AFeederExit; AJoinThread; ASet;
                AIsSet 0; ARecv 0; AIsSet 0; ATimeout 0; AJoin 0] in
  pc s = PReturned /\ nrecv s = 1 /\ finished s = [0].
Proof. vm_compute. auto. Qed.

(* non-vacuity: a 3-item, 2-worker run with a bounded queue that reaches PReturned *)
Example visit_nonvacuous :
  let s := run (fun _ => false) (init 3 2 2 2 true)
    [AIsSet 0; AIsSet 1; APut; APut; AFlush; ARecv 1; ATimeout 0; APut; AFlush; AFlush;
     AIsSet 1; ARecv 1; AIsSet 0; ARecv 0; AClose; AFeederExit; AJoinThread; ASet;
     AIsSet 0; AIsSet 1; ATimeout 0; ATimeout 1; AJoin 0; AJoin 1] in
  pc s = PReturned /\ rev (started s) = [(0, 1); (1, 1); (2, 0)].
Proof. vm_compute. auto. Qed.

(* ---- beyond the property's quantifier: Empty raised under reader-lock contention ----
   [init_c … true]: action [ACTimeout w] (get() of worker w raises Empty although the
   pipe holds items) is enabled whenever another worker is inside get().  The stage is
   still exactly-once and complete at return, cannot deadlock, and makes bounded
   progress; what weakens is only the per-worker clause of [visit_safety]: a worker
   MAY now leave its loop with items outstanding, but never the last one. *)
Theorem visit_terminal_contended :
  forall n par cap pcap (l : list act), 1 <= par ->
  let s := run (fun _ => false) (init_c n par cap pcap true true) l in
  pc s = PReturned ->
  nrecv s = n /\
  map fst (started s) = rev (seq 0 n) /\
  finished s = rev (seq 0 n) /\
  (forall w, w < par -> nth_error (ws s) w = Some (WExited 0)).
Proof. intros n par cap pcap l. exact (VisitParP.visit_terminal_c n par cap pcap true l). Qed.
Print Assumptions visit_terminal_contended.

Theorem visit_safety_contended :
  forall bad n par cap pcap (l : list act), 1 <= par ->
  let s := run bad (init_c n par cap pcap true true) l in
  map fst (started s) = rev (seq 0 (nrecv s)) /\ nrecv s <= n /\
  (nrecv s < n -> exists h x, nth_error (ws s) h = Some x /\ not_exit0 x = true) /\
  (forall w, nth_error (ws s) w = Some (WExited 1) -> exists i, i < nrecv s /\ bad i = true).
Proof. intros bad n par cap pcap l. exact (VisitParP.visit_safety_c bad n par cap pcap true l). Qed.
Print Assumptions visit_safety_contended.

Theorem visit_no_deadlock_contended :
  forall n par cap pcap (l : list act), 1 <= par -> 1 <= cap -> 1 <= pcap ->
  let s := run (fun _ => false) (init_c n par cap pcap true true) l in
  pc s <> PReturned -> can_progress (fun _ => false) s.
Proof. intros n par cap pcap l. exact (VisitParP.visit_no_deadlock_c n par cap pcap true l). Qed.
Print Assumptions visit_no_deadlock_contended.

Theorem visit_measure_contended :
  forall n par cap pcap (l : list act) a, 1 <= par ->
  let s := run (fun _ => false) (init_c n par cap pcap true true) l in
  enabled_b s a = true -> polling s a = false ->
  measure par (step (fun _ => false) s a) < measure par s.
Proof. intros n par cap pcap l a. exact (VisitParP.visit_measure_c n par cap pcap true l a). Qed.
Print Assumptions visit_measure_contended.

(* non-vacuity: worker 0 leaves its loop on a contended Empty while item 1 is still in
   the pipe (so the per-worker clause of visit_safety really fails here); worker 1
   takes the item and the stage returns complete *)
Example contended_exit_reachable :
  let s1 := run (fun _ => false) (init_c 2 2 4 4 true true) (firstn 14 contended_schedule) in
  let s2 := run (fun _ => false) (init_c 2 2 4 4 true true) contended_schedule in
  (nth_error (ws s1) 0 = Some (WExited 0) /\ nrecv s1 = 1) /\
  (pc s2 = PReturned /\ rev (started s2) = [(0, 0); (1, 1)]).
Proof. exact VisitParP.contended_exit_reachable. Qed.

(* the old protocol loses items under contention as well (a revert is recognised) *)
Example old_worker_loses_item_contended :
  let s := run (fun _ => false) (init_c 1 1 2 1 false true) f9_schedule in
  pc s = PReturned /\ nrecv s = 0.
Proof. vm_compute. auto. Qed.

(* ------------------------------------------------------------------ *)
(* `toasty transform` (cli.transform_impl), tied by TRANSLATION: Generated/CliTransformSrc.v is the
   decision tree of the function produced from toasty/cli.py in /repo's working tree on every
   build.  Under every valuation of the settings it behaves like the hand-written model
   (Model/CliScript.v), in which every call -- either sub-command, in place or with --outdir --
   works on the pyramid at pyramid_dir down to --start with --parallelism workers and writes into
   the pyramid at --outdir exactly when that is given: the worker count and the item set the
   user asked for are the ones the stage gets.  Proofs in Proofs/CliTransformP.v. *)
From Coq Require Import String.
From Toasty Require Import Model.SrcPrelude Model.CliScript Generated.CliTransformSrc Proofs.CliTransformP.

Theorem src_transform_command_is_model :
  forall (is_none : sval unit -> bool) (eq_lit : sval unit -> string -> bool) (is_true : sval unit -> bool),
  run_tree is_none eq_lit is_true src_cli_transform_impl = transform_impl_model is_none eq_lit.
Proof. exact src_transform_impl_eq. Qed.
Print Assumptions src_transform_command_is_model.

Theorem transform_command_plumbing :
  forall (is_none : sval unit -> bool) (eq_lit : sval unit -> string -> bool) (e : sevent unit),
  In e (snd (transform_impl_model is_none eq_lit)) ->
  call_pos e = [pyramid_at (setting "pyramid_dir") []; setting "start"] /\
  call_kw "parallel" e = Some (setting "parallelism") /\
  call_kw "pio_out" e = Some (if is_none (setting "outdir") then SNoneV else pyramid_at (setting "outdir") []).
Proof. exact transform_plumbing. Qed.
Print Assumptions transform_command_plumbing.
