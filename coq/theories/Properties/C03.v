(* C03 — Parallel stages hand every work item to exactly one worker and then terminate.

   Model: Model/VisitPar.v (producer / bounded multiprocessing.Queue / workers, the
   four stages of pyramid.py, transform.py, multi_tan.py, multi_wcs.py share it).
   A schedule is an arbitrary list of actions; actions that are not enabled are
   no-ops, so the theorems quantify over every interleaving of producer, feeder
   flushes, worker receives, receive timeouts (only on an empty pipe) and the
   shutdown signal, for every item count n, worker count par >= 1, queue
   capacity and pipe capacity.  Statements only; proofs in Proofs/VisitParP.v. *)
From Coq Require Import List Arith Bool.
From Toasty Require Import Model.VisitPar Proofs.VisitParP.
From Toasty Require Import Model.Quadtree Model.Reducer Proofs.ReducerP Proofs.CountsP.
Import ListNotations.

(* every reachable state: the items handed out so far are 0..nrecv-1, each exactly
   once and in order (an item goes to exactly one worker); no worker leaves its
   loop while an item is outstanding — even when callbacks raise *)
Theorem visit_safety :
  forall bad n par cap pcap (l : list act), 1 <= par ->
  let s := run bad (init n par cap pcap true) l in
  map fst (started s) = rev (seq 0 (nrecv s)) /\ nrecv s <= n /\
  (forall w, nth_error (ws s) w = Some (WExited 0) -> nrecv s = n).
Proof. exact VisitParP.visit_safety. Qed.
Print Assumptions visit_safety.

(* whenever the stage has returned: every item was received exactly once, its
   callback completed before the return, and every worker has exited normally *)
Theorem visit_terminal :
  forall n par cap pcap (l : list act), 1 <= par ->
  let s := run (fun _ => false) (init n par cap pcap true) l in
  pc s = PReturned ->
  nrecv s = n /\
  map fst (started s) = rev (seq 0 n) /\
  finished s = rev (seq 0 n) /\
  (forall w, w < par -> nth_error (ws s) w = Some (WExited 0)).
Proof. exact VisitParP.visit_terminal. Qed.
Print Assumptions visit_terminal.

(* no deadlock: in every reachable state that has not returned a non-polling
   action is enabled, possibly after one polling move (a worker's flag test) *)
Theorem visit_no_deadlock :
  forall n par cap pcap (l : list act), 1 <= par -> 1 <= cap -> 1 <= pcap ->
  let s := run (fun _ => false) (init n par cap pcap true) l in
  pc s <> PReturned -> can_progress (fun _ => false) s.
Proof. exact VisitParP.visit_no_deadlock. Qed.
Print Assumptions visit_no_deadlock.

(* bounded progress: every non-polling action strictly decreases a natural-number
   measure, so a run contains at most [measure par init] of them; with
   visit_no_deadlock: every schedule that does not poll forever while progress is
   possible reaches PReturned *)
Theorem visit_measure :
  forall n par cap pcap (l : list act) a, 1 <= par ->
  let s := run (fun _ => false) (init n par cap pcap true) l in
  enabled_b s a = true -> polling s a = false ->
  measure par (step (fun _ => false) s a) < measure par s.
Proof. exact VisitParP.visit_measure. Qed.
Print Assumptions visit_measure.

(* the items of a leaf visit are the filtered leaves of the sub-pyramid, i.e. the
   serial visit list (C13): the parallel stage enumerates the same reduction *)
Theorem visit_items_eq_serial :
  forall P, wf_pyr P -> visit_serial P = Some (spec_leaves P).
Proof. exact CountsP.visit_serial_spec. Qed.
Print Assumptions visit_items_eq_serial.

(* ---- the protocol before the repair (flag tested after the timeout) loses items:
        recorded so that a revert is recognised; witness = DESIGN F9 ---------------- *)
Definition f9_schedule : list act :=
  [ATimeout 0; APut; AFlush; AClose; AFeederExit; AJoinThread; ASet; AIsSet 0; AJoin 0].

Theorem old_worker_loses_item :
  let s := run (fun _ => false) (init 1 1 2 1 false) f9_schedule in
  pc s = PReturned /\ nrecv s = 0 /\ started s = [].
Proof. vm_compute. auto. Qed.
Print Assumptions old_worker_loses_item.

(* the same schedule on the current protocol: the worker's stale "flag clear" read
   sends it back to the flag test, it then receives the item *)
Example f9_schedule_safe_now :
  let s := run (fun _ => false) (init 1 1 2 1 true)
               [AIsSet 0; ATimeout 0; APut; AFlush; AClose; AFeederExit; AJoinThread; ASet;
                AIsSet 0; ARecv 0; AIsSet 0; ATimeout 0; AJoin 0] in
  pc s = PReturned /\ nrecv s = 1 /\ finished s = [0].
Proof. vm_compute. auto. Qed.

(* non-vacuity: a 3-item, 2-worker run with a bounded queue that reaches PReturned *)
Example visit_nonvacuous :
  let s := run (fun _ => false) (init 3 2 2 2 true)
    [AIsSet 0; AIsSet 1; APut; APut; AFlush; ARecv 1; ATimeout 0; APut; AFlush; AFlush;
     AIsSet 1; ARecv 1; AIsSet 0; ARecv 0; AClose; AFeederExit; AJoinThread; ASet;
     AIsSet 0; AIsSet 1; ATimeout 0; ATimeout 1; AJoin 0; AJoin 1] in
  pc s = PReturned /\ rev (started s) = [(0, 1); (1, 1); (2, 0)].
Proof. vm_compute. auto. Qed.
