(* C06 — TOAST sampling writes the sampler's values at each tile's own pixel centres.
   Statements only; proofs in Proofs/SampleLayerP.v, model in Model/SampleLayer.v.
   The coordinate function of a tile ([coords], and [coords_half] for the 128-grid of a
   level-1 tile) is a parameter: its geometry belongs to C04/C05.  [sz] is the tile
   size (256 in the code; nothing depends on its value).  [shown st p f] is what a
   reader of file (p, f) sees the right way up (all masked when there is no file). *)
From Coq Require Import List ZArith NArith Bool Permutation.
From Toasty Require Import Model.Quadtree Model.SampleLayer Proofs.SampleLayerP.
Import ListNotations.
Local Open Scope Z_scope.

(* the tiles of a level: 4^d distinct positions *)
Theorem level_tiles :
  forall d : nat,
    NoDup (level_pos d) /\ length (level_pos d) = N.to_nat (4 ^ N.of_nat d) /\
    (forall p, In p (level_pos d) <-> pn p = d /\ (px p < 2 ^ N.of_nat d)%N /\ (py p < 2 ^ N.of_nat d)%N).
Proof. exact level_tiles_l. Qed.
Print Assumptions level_tiles.

(* pixel clause, code as it stands, depth >= 1: display pixel (i, j) of file (d, x, y) is
   the sampler at coords(d, x, y)(i, j), for both parities -- provided the format written has
   the parity of the pio's default format; a tile is absent iff it is completely masked *)
Theorem sample_pixel :
  forall (C V : Type) (sz : Z) (coords : pos -> Z -> Z -> C) (sampler : C -> option V)
         (default : fmt) (override : option fmt) (d : nat) (st st' : store V) (p : pos),
    let f := out_fmt (mkCfg default override true) in
    bottom_up f = bottom_up default ->
    sample_layer C V sz coords sampler default override (S d) st = Some st' ->
    In p (level_pos (S d)) ->
    (forall i j, inr sz i -> inr sz j -> shown V sz st' p f i j = sampler (coords p i j)) /\
    (st' p f = None <-> (forall i j, inr sz i -> inr sz j -> sampler (coords p i j) = None)).
Proof. exact sample_pixel_l. Qed.
Print Assumptions sample_pixel.

Example sample_pixel_nonvacuous :
  (* FITS (bottom-up) as default, 2 x 2 tiles, depth 1: the stored rows are reversed, the display is not *)
  exists st', sample_layer Z Z 2 (fun p i j => Z.of_N (px p) * 100 + Z.of_N (py p) * 10 + 2 * i + j)
                (fun c => Some c) Fits None 1 (empty Z) = Some st' /\
              match st' (mkPos 1 1 0) Fits with
              | Some a => a 0 0 = Some 102 /\ a 1 0 = Some 100 /\ shown Z 2 st' (mkPos 1 1 0) Fits 0 0 = Some 100
              | None => False
              end.
Proof. eexists. split; [vm_compute; reflexivity|]. vm_compute. repeat split. Qed.

(* file-set clause: from an empty directory, files exist only for the 4^d tiles of the level
   (and only with the extension written); together with sample_pixel: one file per unmasked tile *)
Theorem sample_fileset :
  forall (C V : Type) (sz : Z) (coords : pos -> Z -> Z -> C) (sampler : C -> option V)
         (default : fmt) (override : option fmt) (d : nat) (st' : store V) (q : pos) (g : fmt),
    sample_layer C V sz coords sampler default override (S d) (empty V) = Some st' ->
    st' q g <> None ->
    In q (level_pos (S d)) /\ g = out_fmt (mkCfg default override true).
Proof. exact sample_fileset_l. Qed.
Print Assumptions sample_fileset.

Theorem sample_layer_succeeds_below_level0 :
  forall (C V : Type) (sz : Z) (coords : pos -> Z -> Z -> C) (sampler : C -> option V)
         (default : fmt) (override : option fmt) (d : nat) (st : store V),
    exists st', sample_layer C V sz coords sampler default override (S d) st = Some st'.
Proof. exact sample_layer_total. Qed.
Print Assumptions sample_layer_succeeds_below_level0.

(* schedule clause: any order of the leaf callbacks (any distribution over workers) gives the same files *)
Theorem sample_schedule_independent :
  forall (C V : Type) (sz : Z) (coords : pos -> Z -> Z -> C) (sampler : C -> option V)
         (c : cfg) (l l' : list (pos * option pos)) (st s1 s2 : store V),
    Permutation l l' -> NoDup (map fst l) ->
    run C V sz coords sampler c st l = Some s1 ->
    run C V sz coords sampler c st l' = Some s2 ->
    forall q g, s1 q g = s2 q g.
Proof. exact run_order_independent. Qed.
Print Assumptions sample_schedule_independent.

(* filtered / updating mode: exactly the accepted leaves are touched; unmasked samples replace
   what was there *)
Theorem filtered_pixel :
  forall (C V : Type) (sz : Z) (coords : pos -> Z -> Z -> C) (sampler : C -> option V)
         (default : fmt) (acc : pos -> bool) (d : nat) (st st' : store V) (p : pos) (i j : Z),
    sample_layer_filtered C V sz coords sampler default acc (S d) st = Some st' ->
    In p (level_pos (S d)) -> inr sz i -> inr sz j ->
    shown V sz st' p default i j =
    (if chain_b acc p
     then match sampler (coords p i j) with Some v => Some v | None => shown V sz st p default i j end
     else shown V sz st p default i j).
Proof. exact filtered_pixel_l. Qed.
Print Assumptions filtered_pixel.

Theorem filtered_fileset :
  forall (C V : Type) (sz : Z) (coords : pos -> Z -> Z -> C) (sampler : C -> option V)
         (default : fmt) (acc : pos -> bool) (d : nat) (st' : store V) (q : pos) (g : fmt),
    sample_layer_filtered C V sz coords sampler default acc (S d) (empty V) = Some st' ->
    st' q g <> None ->
    In q (level_pos (S d)) /\ chain_b acc q = true /\ g = default.
Proof. exact filtered_fileset_l. Qed.
Print Assumptions filtered_fileset.

(* update mode merges two partial samplers *)
Theorem update_mode_merges :
  forall (C V : Type) (sz : Z) (coords : pos -> Z -> Z -> C) (s1 s2 : C -> option V)
         (default : fmt) (acc1 acc2 : pos -> bool) (d : nat) (st1 st2 : store V) (p : pos) (i j : Z),
    sample_layer_filtered C V sz coords s1 default acc1 (S d) (empty V) = Some st1 ->
    sample_layer_filtered C V sz coords s2 default acc2 (S d) st1 = Some st2 ->
    In p (level_pos (S d)) -> inr sz i -> inr sz j ->
    shown V sz st2 p default i j =
    merge_px (if chain_b acc1 p then s1 (coords p i j) else None)
             (if chain_b acc2 p then s2 (coords p i j) else None).
Proof. exact update_mode_merges_l. Qed.
Print Assumptions update_mode_merges.

Example update_mode_merges_nonvacuous :
  exists st1 st2,
    sample_layer_filtered Z Z 2 (fun p i j => Z.of_N (px p) * 100 + Z.of_N (py p) * 10 + 2 * i + j)
      (fun c => if c <? 100 then Some c else None) Fits (fun _ => true) 1 (empty Z) = Some st1 /\
    sample_layer_filtered Z Z 2 (fun p i j => Z.of_N (px p) * 100 + Z.of_N (py p) * 10 + 2 * i + j)
      (fun c => if 100 <=? c then Some (- c) else None) Fits (fun p => N.eqb (py p) 0) 1 st1 = Some st2 /\
    shown Z 2 st2 (mkPos 1 1 0) Fits 1 1 = Some (-103) /\ shown Z 2 st2 (mkPos 1 0 1) Fits 0 1 = Some 11 /\
    st2 (mkPos 1 1 1) Fits = None.
Proof. eexists; eexists. split; [vm_compute; reflexivity|]. split; [vm_compute; reflexivity|]. vm_compute. repeat split. Qed.

(* ---- where the code as it stands does not satisfy the statement ---- *)

(* depth 0 (documented in docs/cli/tile-allsky.rst): the level-0 leaf has tile = None and the
   callback raises, for every sampler / format / start state  (F6) *)
Theorem sample_depth0_refuted :
  forall (C V : Type) (sz : Z) (coords : pos -> Z -> Z -> C) (sampler : C -> option V)
         (default : fmt) (override : option fmt) (st : store V),
    sample_layer C V sz coords sampler default override 0 st = None.
Proof. exact depth0_raises. Qed.
Print Assumptions sample_depth0_refuted.

(* a format override of the other parity: rows are oriented by the pio's DEFAULT format *)
Theorem format_override_parity_refuted :
  exists (st' : store Z) p i j,
    sample_layer Z Z 2 (fun _ i j => 2 * i + j) (fun c => Some c) Png (Some Fits) 1 (empty Z) = Some st' /\
    In p (level_pos 1) /\ 0 <= i < 2 /\ 0 <= j < 2 /\
    shown Z 2 st' p Fits i j <> Some (2 * i + j).
Proof. exact format_override_parity_refuted_l. Qed.
Print Assumptions format_override_parity_refuted.

(* ---- the full statement for the repaired code (fixes/C06-1.patch, C06-2.patch):
   every depth including 0, every default format and override ---- *)
Theorem sample_pixel_repaired :
  forall (C V : Type) (sz : Z) (coords : pos -> Z -> Z -> C) (sampler : C -> option V)
         (coords_half : pos -> Z -> Z -> C)
         (default : fmt) (override : option fmt) (d : nat) (st : store V) (p : pos),
    let f := out_fmt (mkCfg default override true) in
    let st' := sample_layer_fixed C V sz coords sampler coords_half default override d st in
    In p (level_pos d) ->
    (forall i j, inr sz i -> inr sz j ->
       shown V sz st' p f i j = sampled_t C V sz coords sampler coords_half (tile_of d p) i j) /\
    (st' p f = None <->
     (forall i j, inr sz i -> inr sz j -> sampled_t C V sz coords sampler coords_half (tile_of d p) i j = None)).
Proof. exact sample_pixel_fixed_l. Qed.
Print Assumptions sample_pixel_repaired.

(* what is sampled: the tile's own grid below level 0; at level 0 the 2 x 2 arrangement of the
   level-1 tiles' half-resolution grids (C05: these are the centres of the depth-8 tiles) *)
Theorem repaired_grid :
  forall (C V : Type) (sz : Z) (coords : pos -> Z -> Z -> C) (sampler : C -> option V)
         (coords_half : pos -> Z -> Z -> C) (p : pos) (i j : Z),
    sampled_t C V sz coords sampler coords_half (Some p) i j = sampler (coords p i j) /\
    sampled_t C V sz coords sampler coords_half None i j =
    sampler (coords_half (mkPos 1 (Z.to_N (j / (sz / 2))) (Z.to_N (i / (sz / 2)))) (i mod (sz / 2)) (j mod (sz / 2))).
Proof. exact (fun C V sz coords sampler ch p i j => conj (sampled_level_pos C V sz coords sampler ch p i j) (sampled_level0 C V sz coords sampler ch i j)). Qed.
Print Assumptions repaired_grid.

Example sample_pixel_repaired_nonvacuous :
  (* depth 0, default png, override fits, 4 x 4 tile assembled from 2 x 2 half grids *)
  let st' := sample_layer_fixed Z Z 4 (fun _ _ _ => 0)
               (fun c => Some c) (fun p i j => Z.of_N (px p) * 1000 + Z.of_N (py p) * 100 + 10 * i + j)
               Png (Some Fits) 0 (empty Z) in
  shown Z 4 st' root Fits 0 0 = Some 0 /\ shown Z 4 st' root Fits 0 3 = Some 1001 /\
  shown Z 4 st' root Fits 3 1 = Some 111 /\
  match st' root Fits with Some a => a 0 1 = Some 111 | None => False end.
Proof. vm_compute. repeat split. Qed.

(* ======================================================================================
   Composition with C03 (parallel leaf visit) and C13 (leaf list): parallel = serial.
   Proofs in Proofs/GlueSample.v.  Vocabulary:
   [spec_leaves P]     the callback list of the serial visit (C13 visit_leaves_serial_spec);
   [VisitPar.run]/[init]  the producer / queue / worker LTS of Model/VisitPar.v (C03), [l]
                       any schedule; its items are indices into the item list;
   [started s]         (item, worker) pairs in receive order, newest first;
   [arg_of d p]        what visit_leaves passes for leaf p: (p, Some p), (p, None) at depth 0;
   [sample_pyramid]    the pyramid of sample_layer (new_toast) / sample_layer_filtered;
   [o]                 the order in which the handed-out callbacks take effect: ANY
                       arrangement of the handed-out items (in particular the receive
                       order and every interleaving of the workers' own sequences).

   Remaining modelling assumption (VisitPar.v does not carry the store): the callbacks
   of one visit act as if executed one after another in some order.  They touch
   pairwise disjoint files (visit_one reads / writes only the files of its own position,
   SampleLayerP.visit_one_other_pos / visit_one_local; [handed_out_distinct]).
   ====================================================================================== *)
From Coq Require Import Arith.
From Toasty Require Import Model.Reducer Model.VisitPar Proofs.ReducerP Proofs.CountsP Proofs.GlueSample.

(* every well-formed pyramid, every par >= 1, queue and pipe capacity, every schedule that
   reaches PReturned (no raising callback): the items handed out are exactly the leaf
   list — each leaf to one worker, once — every callback completed, and executing them
   in any order o gives the store of the serial visit *)
Theorem sample_parallel_eq_serial :
  forall (C V : Type) (sz : Z) (coords : pos -> Z -> Z -> C) (sampler : C -> option V) (c : cfg)
         (P : pyr) (st : store V) (par cap pcap : nat),
    wf_pyr P -> (1 <= par)%nat ->
    forall l : list act,
    let items := spec_leaves P in
    let s := VisitPar.run (fun _ => false) (init (length items) par cap pcap true) l in
    pc s = PReturned ->
    visit_serial P = Some items /\
    map (fun i => nth i items root) (rev (map fst (started s))) = items /\
    map (fun i => nth i items root) (rev (finished s)) = items /\
    NoDup items /\
    forall o, Permutation o (map fst (started s)) ->
      Permutation (map (fun i => arg_of (depth P) (nth i items root)) o) (map (arg_of (depth P)) items) /\
      forall s_ser s_par,
        SampleLayer.run C V sz coords sampler c st (map (arg_of (depth P)) items) = Some s_ser ->
        SampleLayer.run C V sz coords sampler c st (map (fun i => arg_of (depth P) (nth i items root)) o) = Some s_par ->
        forall q g, s_ser q g = s_par q g.
Proof. exact sample_parallel_eq_serial_thm. Qed.
Print Assumptions sample_parallel_eq_serial.

(* sample_layer / sample_layer_filtered, depth >= 1: after any returned parallel visit
   the store is the one [sample_layer] / [sample_layer_filtered] of this file computes
   (to which sample_pixel, sample_fileset, filtered_pixel ... apply) *)
Theorem sample_layer_parallel :
  forall (C V : Type) (sz : Z) (coords : pos -> Z -> Z -> C) (sampler : C -> option V)
         (default : fmt) (override : option fmt) (tile_filter : option (pos -> bool))
         (d : nat) (st : store V) (par cap pcap : nat),
    (1 <= par)%nat ->
    let P := sample_pyramid tile_filter (S d) in
    let c := match tile_filter with
             | None => mkCfg default override true
             | Some _ => mkCfg default None false
             end in
    let items := spec_leaves P in
    forall l : list act,
    let s := VisitPar.run (fun _ => false) (init (length items) par cap pcap true) l in
    pc s = PReturned ->
    forall o, Permutation o (map fst (started s)) ->
    exists s_ref s_par,
      (match tile_filter with
       | None => sample_layer C V sz coords sampler default override (S d) st
       | Some f => sample_layer_filtered C V sz coords sampler default f (S d) st
       end) = Some s_ref /\
      SampleLayer.run C V sz coords sampler c st (map (fun i => arg_of (S d) (nth i items root)) o) = Some s_par /\
      forall q g, s_ref q g = s_par q g.
Proof. exact sample_layer_parallel_thm. Qed.
Print Assumptions sample_layer_parallel.

(* the positions handed out in one visit are pairwise different *)
Theorem handed_out_distinct :
  forall (P : pyr) (par cap pcap : nat), (1 <= par)%nat ->
  forall l : list act,
  let items := spec_leaves P in
  let s := VisitPar.run (fun _ => false) (init (length items) par cap pcap true) l in
  pc s = PReturned ->
  NoDup (map (fun i => nth i items root) (map fst (started s))).
Proof. exact handed_out_distinct_thm. Qed.
Print Assumptions handed_out_distinct.

(* SampleLayer.v's row-major leaf list is a rearrangement of the pyramid's leaf list *)
Theorem leaf_args_are_pyramid_leaves :
  forall tile_filter d,
    Permutation (leaf_args d (acc_of tile_filter))
                (map (arg_of d) (spec_leaves (sample_pyramid tile_filter d))).
Proof. exact leaf_args_perm. Qed.
Print Assumptions leaf_args_are_pyramid_leaves.

(* hypotheses satisfiable: the four level-1 leaves, two workers; worker 0 receives items
   0 and 3, worker 1 items 1 and 2; [0; 3; 1; 2] (worker by worker) is an admissible o *)
Example sample_parallel_nonvacuous :
  spec_leaves (sample_pyramid None 1) = [mkPos 1 0%N 0%N; mkPos 1 1%N 0%N; mkPos 1 0%N 1%N; mkPos 1 1%N 1%N] /\
  let s := VisitPar.run (fun _ => false) (init (length (spec_leaves (sample_pyramid None 1))) 2 2 2 true)
             glue_ex_visit_schedule in
  pc s = PReturned /\ started s = [(3, 0); (2, 1); (1, 1); (0, 0)]%nat /\
  Permutation [0; 3; 1; 2]%nat (map fst (started s)).
Proof. split; [vm_compute; reflexivity|]. exact glue_ex_visit. Qed.

(* ------------------------------------------------------------------ *)
(* Builder.toast_base (Model/ToastBaseGlue.v): the options a caller gives reach the sampling core
   unchanged -- the coordinate system (an explicit coordsys= wins, else is_planet decides, a
   panorama uses the sky layout) is the same whether or not a tile filter is given and whatever the
   worker count, so filtered and unfiltered sampling of one request write the same tiles; depth
   and worker count are passed through; the recorded number of levels is the sampled depth.  The
   real method is compared with [toast_base] over every option combination by the correspondence
   run (harness/corr_C06.py, toast_base_glue). *)
From Toasty Require Import Model.ToastBaseGlue Proofs.ToastBaseGlueP.

Theorem toast_base_system_rule :
  forall o, te_planetary (toast_base o) = match tb_coordsys o with Some s => s | None => tb_is_planet o end.
Proof. exact system_rule. Qed.
Print Assumptions toast_base_system_rule.

Theorem toast_base_system_independent_of_route :
  forall o f' par' pano',
  te_planetary (toast_base (mkTB (tb_is_planet o) pano' (tb_coordsys o) f' par' (tb_depth o)))
  = te_planetary (toast_base o).
Proof. exact system_independent_of_route. Qed.
Print Assumptions toast_base_system_independent_of_route.

Theorem toast_base_passes_options_through :
  forall o, te_depth (toast_base o) = tb_depth o /\ te_parallel (toast_base o) = tb_parallel o /\
            te_filtered_core (toast_base o) = tb_filtered o /\ te_tile_levels (toast_base o) = tb_depth o.
Proof. exact passthrough. Qed.
Print Assumptions toast_base_passes_options_through.

(* ------------------------------------------------------------------ *)
(* `toasty tile-healpix` (cli.tile_healpix_impl), tied by TRANSLATION: Generated/CliHealpixSrc.v is
   the function as harness/py2coq.py reads it from toasty/cli.py in /repo's working tree on every
   build; under every valuation of the settings it behaves like the hand-written model
   (Model/CliScript.v), in which --depth is the sampled depth, --parallelism the worker count, the
   sampler is read from --fitspath with --galactic, no option that would change the coordinate system
   or route of Builder.toast_base (theorems above) is given, and the WTML is written afterwards by
   the builder that sampled.  Proofs in Proofs/CliHealpixP.v. *)
From Coq Require Import String.
From Toasty Require Import Model.SrcPrelude Model.CliScript Generated.CliHealpixSrc Proofs.CliHealpixP.
Local Open Scope string_scope.

Theorem src_tile_healpix_impl_is_model :
  forall (is_none : sval unit -> bool) (eq_lit : sval unit -> string -> bool) (is_true : sval unit -> bool),
  run_tree is_none eq_lit is_true src_cli_tile_healpix_impl = tile_healpix_impl_model.
Proof. exact src_tile_healpix_impl_eq. Qed.
Print Assumptions src_tile_healpix_impl_is_model.

Theorem tile_healpix_passes_options_through :
  (exists e1 e2, tile_healpix_impl_model = (true, [e1; e2]) /\
    call_name e1 = "toast_base" /\ call_name e2 = "write_index_rel_wtml" /\
    call_recv e1 = Some hp_builder /\ call_recv e2 = Some hp_builder /\
    hp_builder = SNewP "Builder" [pyramid_at (setting "outdir") [("default_format", SStr "fits")]] []) /\
  (forall e, nth_error (snd tile_healpix_impl_model) 0 = Some e ->
    call_pos e = [SNewP "healpix_fits_file_sampler" [setting "fitspath"] [("force_galactic", setting "galactic")];
                  setting "depth"] /\
    call_kw "parallel" e = Some (setting "parallelism") /\
    call_kw "coordsys" e = None /\ call_kw "is_planet" e = None /\ call_kw "is_pano" e = None /\
    call_kw "tile_filter" e = None).
Proof. split; [exact healpix_calls | exact healpix_plumbing]. Qed.
Print Assumptions tile_healpix_passes_options_through.
