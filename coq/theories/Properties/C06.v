(* C06 — TOAST sampling writes the sampler's values at each tile's own pixel centres.
   Statements only; proofs in Proofs/SampleLayerP.v, model in Model/SampleLayer.v.
   The coordinate function of a tile ([coords], and [coords_half] for the 128-grid of a
   level-1 tile) is a parameter: its geometry belongs to C04/C05.  [sz] is the tile
   size (256 in the code; nothing depends on its value).  [shown st p f] is what a
   reader of file (p, f) sees the right way up (all masked when there is no file). *)
From Coq Require Import List ZArith NArith Bool Permutation.
From Toasty Require Import Model.Quadtree Model.SampleLayer Proofs.SampleLayerP.
Import ListNotations.
Local Open Scope Z_scope.

(* the tiles of a level: 4^d distinct positions *)
Theorem level_tiles :
  forall d : nat,
    NoDup (level_pos d) /\ length (level_pos d) = N.to_nat (4 ^ N.of_nat d) /\
    (forall p, In p (level_pos d) <-> pn p = d /\ (px p < 2 ^ N.of_nat d)%N /\ (py p < 2 ^ N.of_nat d)%N).
Proof. exact level_tiles_l. Qed.
Print Assumptions level_tiles.

(* pixel clause, code as it stands, depth >= 1: display pixel (i, j) of file (d, x, y) is
   the sampler at coords(d, x, y)(i, j), for both parities -- provided the format written has
   the parity of the pio's default format; a tile is absent iff it is completely masked *)
Theorem sample_pixel :
  forall (C V : Type) (sz : Z) (coords : pos -> Z -> Z -> C) (sampler : C -> option V)
         (default : fmt) (override : option fmt) (d : nat) (st st' : store V) (p : pos),
    let f := out_fmt (mkCfg default override true) in
    bottom_up f = bottom_up default ->
    sample_layer C V sz coords sampler default override (S d) st = Some st' ->
    In p (level_pos (S d)) ->
    (forall i j, inr sz i -> inr sz j -> shown V sz st' p f i j = sampler (coords p i j)) /\
    (st' p f = None <-> (forall i j, inr sz i -> inr sz j -> sampler (coords p i j) = None)).
Proof. exact sample_pixel_l. Qed.
Print Assumptions sample_pixel.

Example sample_pixel_nonvacuous :
  (* FITS (bottom-up) as default, 2 x 2 tiles, depth 1: the stored rows are reversed, the display is not *)
  exists st', sample_layer Z Z 2 (fun p i j => Z.of_N (px p) * 100 + Z.of_N (py p) * 10 + 2 * i + j)
                (fun c => Some c) Fits None 1 (empty Z) = Some st' /\
              match st' (mkPos 1 1 0) Fits with
              | Some a => a 0 0 = Some 102 /\ a 1 0 = Some 100 /\ shown Z 2 st' (mkPos 1 1 0) Fits 0 0 = Some 100
              | None => False
              end.
Proof. eexists. split; [vm_compute; reflexivity|]. vm_compute. repeat split. Qed.

(* file-set clause: from an empty directory, files exist only for the 4^d tiles of the level
   (and only with the extension written); together with sample_pixel: one file per unmasked tile *)
Theorem sample_fileset :
  forall (C V : Type) (sz : Z) (coords : pos -> Z -> Z -> C) (sampler : C -> option V)
         (default : fmt) (override : option fmt) (d : nat) (st' : store V) (q : pos) (g : fmt),
    sample_layer C V sz coords sampler default override (S d) (empty V) = Some st' ->
    st' q g <> None ->
    In q (level_pos (S d)) /\ g = out_fmt (mkCfg default override true).
Proof. exact sample_fileset_l. Qed.
Print Assumptions sample_fileset.

Theorem sample_layer_succeeds_below_level0 :
  forall (C V : Type) (sz : Z) (coords : pos -> Z -> Z -> C) (sampler : C -> option V)
         (default : fmt) (override : option fmt) (d : nat) (st : store V),
    exists st', sample_layer C V sz coords sampler default override (S d) st = Some st'.
Proof. exact sample_layer_total. Qed.
Print Assumptions sample_layer_succeeds_below_level0.

(* schedule clause: any order of the leaf callbacks (any distribution over workers) gives the same files *)
Theorem sample_schedule_independent :
  forall (C V : Type) (sz : Z) (coords : pos -> Z -> Z -> C) (sampler : C -> option V)
         (c : cfg) (l l' : list (pos * option pos)) (st s1 s2 : store V),
    Permutation l l' -> NoDup (map fst l) ->
    run C V sz coords sampler c st l = Some s1 ->
    run C V sz coords sampler c st l' = Some s2 ->
    forall q g, s1 q g = s2 q g.
Proof. exact run_order_independent. Qed.
Print Assumptions sample_schedule_independent.

(* filtered / updating mode: exactly the accepted leaves are touched; unmasked samples replace
   what was there *)
Theorem filtered_pixel :
  forall (C V : Type) (sz : Z) (coords : pos -> Z -> Z -> C) (sampler : C -> option V)
         (default : fmt) (acc : pos -> bool) (d : nat) (st st' : store V) (p : pos) (i j : Z),
    sample_layer_filtered C V sz coords sampler default acc (S d) st = Some st' ->
    In p (level_pos (S d)) -> inr sz i -> inr sz j ->
    shown V sz st' p default i j =
    (if chain_b acc p
     then match sampler (coords p i j) with Some v => Some v | None => shown V sz st p default i j end
     else shown V sz st p default i j).
Proof. exact filtered_pixel_l. Qed.
Print Assumptions filtered_pixel.

Theorem filtered_fileset :
  forall (C V : Type) (sz : Z) (coords : pos -> Z -> Z -> C) (sampler : C -> option V)
         (default : fmt) (acc : pos -> bool) (d : nat) (st' : store V) (q : pos) (g : fmt),
    sample_layer_filtered C V sz coords sampler default acc (S d) (empty V) = Some st' ->
    st' q g <> None ->
    In q (level_pos (S d)) /\ chain_b acc q = true /\ g = default.
Proof. exact filtered_fileset_l. Qed.
Print Assumptions filtered_fileset.

(* update mode merges two partial samplers *)
Theorem update_mode_merges :
  forall (C V : Type) (sz : Z) (coords : pos -> Z -> Z -> C) (s1 s2 : C -> option V)
         (default : fmt) (acc1 acc2 : pos -> bool) (d : nat) (st1 st2 : store V) (p : pos) (i j : Z),
    sample_layer_filtered C V sz coords s1 default acc1 (S d) (empty V) = Some st1 ->
    sample_layer_filtered C V sz coords s2 default acc2 (S d) st1 = Some st2 ->
    In p (level_pos (S d)) -> inr sz i -> inr sz j ->
    shown V sz st2 p default i j =
    merge_px (if chain_b acc1 p then s1 (coords p i j) else None)
             (if chain_b acc2 p then s2 (coords p i j) else None).
Proof. exact update_mode_merges_l. Qed.
Print Assumptions update_mode_merges.

Example update_mode_merges_nonvacuous :
  exists st1 st2,
    sample_layer_filtered Z Z 2 (fun p i j => Z.of_N (px p) * 100 + Z.of_N (py p) * 10 + 2 * i + j)
      (fun c => if c <? 100 then Some c else None) Fits (fun _ => true) 1 (empty Z) = Some st1 /\
    sample_layer_filtered Z Z 2 (fun p i j => Z.of_N (px p) * 100 + Z.of_N (py p) * 10 + 2 * i + j)
      (fun c => if 100 <=? c then Some (- c) else None) Fits (fun p => N.eqb (py p) 0) 1 st1 = Some st2 /\
    shown Z 2 st2 (mkPos 1 1 0) Fits 1 1 = Some (-103) /\ shown Z 2 st2 (mkPos 1 0 1) Fits 0 1 = Some 11 /\
    st2 (mkPos 1 1 1) Fits = None.
Proof. eexists; eexists. split; [vm_compute; reflexivity|]. split; [vm_compute; reflexivity|]. vm_compute. repeat split. Qed.

(* ---- where the code as it stands does not satisfy the statement ---- *)

(* depth 0 (documented in docs/cli/tile-allsky.rst): the level-0 leaf has tile = None and the
   callback raises, for every sampler / format / start state  (F6) *)
Theorem sample_depth0_refuted :
  forall (C V : Type) (sz : Z) (coords : pos -> Z -> Z -> C) (sampler : C -> option V)
         (default : fmt) (override : option fmt) (st : store V),
    sample_layer C V sz coords sampler default override 0 st = None.
Proof. exact depth0_raises. Qed.
Print Assumptions sample_depth0_refuted.

(* a format override of the other parity: rows are oriented by the pio's DEFAULT format *)
Theorem format_override_parity_refuted :
  exists (st' : store Z) p i j,
    sample_layer Z Z 2 (fun _ i j => 2 * i + j) (fun c => Some c) Png (Some Fits) 1 (empty Z) = Some st' /\
    In p (level_pos 1) /\ 0 <= i < 2 /\ 0 <= j < 2 /\
    shown Z 2 st' p Fits i j <> Some (2 * i + j).
Proof. exact format_override_parity_refuted_l. Qed.
Print Assumptions format_override_parity_refuted.

(* ---- the full statement for the repaired code (fixes/C06-1.patch, C06-2.patch):
   every depth including 0, every default format and override ---- *)
Theorem sample_pixel_repaired :
  forall (C V : Type) (sz : Z) (coords : pos -> Z -> Z -> C) (sampler : C -> option V)
         (coords_half : pos -> Z -> Z -> C)
         (default : fmt) (override : option fmt) (d : nat) (st : store V) (p : pos),
    let f := out_fmt (mkCfg default override true) in
    let st' := sample_layer_fixed C V sz coords sampler coords_half default override d st in
    In p (level_pos d) ->
    (forall i j, inr sz i -> inr sz j ->
       shown V sz st' p f i j = sampled_t C V sz coords sampler coords_half (tile_of d p) i j) /\
    (st' p f = None <->
     (forall i j, inr sz i -> inr sz j -> sampled_t C V sz coords sampler coords_half (tile_of d p) i j = None)).
Proof. exact sample_pixel_fixed_l. Qed.
Print Assumptions sample_pixel_repaired.

(* what is sampled: the tile's own grid below level 0; at level 0 the 2 x 2 arrangement of the
   level-1 tiles' half-resolution grids (C05: these are the centres of the depth-8 tiles) *)
Theorem repaired_grid :
  forall (C V : Type) (sz : Z) (coords : pos -> Z -> Z -> C) (sampler : C -> option V)
         (coords_half : pos -> Z -> Z -> C) (p : pos) (i j : Z),
    sampled_t C V sz coords sampler coords_half (Some p) i j = sampler (coords p i j) /\
    sampled_t C V sz coords sampler coords_half None i j =
    sampler (coords_half (mkPos 1 (Z.to_N (j / (sz / 2))) (Z.to_N (i / (sz / 2)))) (i mod (sz / 2)) (j mod (sz / 2))).
Proof. exact (fun C V sz coords sampler ch p i j => conj (sampled_level_pos C V sz coords sampler ch p i j) (sampled_level0 C V sz coords sampler ch i j)). Qed.
Print Assumptions repaired_grid.

Example sample_pixel_repaired_nonvacuous :
  (* depth 0, default png, override fits, 4 x 4 tile assembled from 2 x 2 half grids *)
  let st' := sample_layer_fixed Z Z 4 (fun _ _ _ => 0)
               (fun c => Some c) (fun p i j => Z.of_N (px p) * 1000 + Z.of_N (py p) * 100 + 10 * i + j)
               Png (Some Fits) 0 (empty Z) in
  shown Z 4 st' root Fits 0 0 = Some 0 /\ shown Z 4 st' root Fits 0 3 = Some 1001 /\
  shown Z 4 st' root Fits 3 1 = Some 111 /\
  match st' root Fits with Some a => a 0 1 = Some 111 | None => False end.
Proof. vm_compute. repeat split. Qed.
