(* C14 — FITS pyramids carry the leaves' true data range up to the root and the WTML.
   Statements only; model in Model/Range.v (on top of Model/Merge.v), proofs in Proofs/RangeP.v.

   Vocabulary (Model/Range.v):
   [ftile]            a FITS tile file: array + DATAMIN / DATAMAX cards (absent = None);
   [save_fits]        Image.save: explicit range if given, else the array's own finite range;
   [range_callback]   TileMerger.walk_callback on four optional child files (merged pixels by
                      Merge.merge_tiles_fixed, cards by _get_min_max_of_children);
   [range_spec k leaves fuel p]  the tile file at p after a cascade from [fuel] levels below;
   [leaf_vals leaves fuel p]     all finite pixel values of the leaf tiles beneath p;
   [is_min_of o l] / [is_max_of o l]  o = Some m with m in l and m <= (>=) every element of l;
   [leaf_ok k bm t]   a leaf written by toasty: k x k, mode bm, well-typed, not completely
                      masked, cards = its own finite range (save without explicit range);
   [builder_range]    what Builder.cascade copies from the root tile to the ImageSet / WTML. *)
From Coq Require Import List ZArith QArith Bool.
From Toasty Require Import Model.Quadtree Model.Mask Model.Merge Model.Range Proofs.RangeP.
Import ListNotations.
Local Open Scope Z_scope.

(* For every tile size, scalar FITS mode, depth, sparse population and contents
   (NaNs included): the cards of every tile present after the cascade are the minimum
   and maximum over all finite pixels of all leaf tiles beneath it, and a tile is
   absent exactly when there is no finite leaf pixel beneath it. *)
Theorem range_is_leaf_range :
  forall k bm leaves,
    0 < k -> scalar_mode bm = true -> leaves_ok k bm leaves ->
    forall fuel p,
      (forall t, range_spec k leaves fuel p = Some t ->
                 is_min_of (ft_min t) (leaf_vals leaves fuel p) /\
                 is_max_of (ft_max t) (leaf_vals leaves fuel p)) /\
      (range_spec k leaves fuel p = None <-> leaf_vals leaves fuel p = []).
Proof. exact range_is_leaf_range_lemma. Qed.
Print Assumptions range_is_leaf_range.

(* The pair Builder.cascade writes to the ImageSet (DataMin / DataMax of the WTML)
   is the range of the full-resolution leaves, whenever any leaf holds a finite pixel. *)
Theorem root_range_in_wtml :
  forall k bm leaves start,
    0 < k -> scalar_mode bm = true -> leaves_ok k bm leaves ->
    leaf_vals leaves start root <> [] ->
    exists a b, builder_range (range_spec k leaves start root) = Some (a, b) /\
                is_min_of (Some a) (leaf_vals leaves start root) /\
                is_max_of (Some b) (leaf_vals leaves start root).
Proof. exact root_range_lemma. Qed.
Print Assumptions root_range_in_wtml.

(* The mechanism of one callback: the parent's cards are min / max over the cards
   of the present children, falling back to the merged array's own range only when
   no child carries a card. *)
Theorem range_callback_spec :
  forall k cs t,
    range_callback k cs = Some (Some t) ->
    exists m, merge_tiles_fixed Fits k (map (option_map ft_img) cs) = Some (Some m) /\
              is_completely_masked m = false /\ ft_img t = m /\
              ft_min t = match qmin_opt (opt_vals (map (fun c => match c with Some x => ft_min x | None => None end) cs)) with
                         | Some v => Some v | None => qmin_opt (finite_vals m) end /\
              ft_max t = match qmax_opt (opt_vals (map (fun c => match c with Some x => ft_max x | None => None end) cs)) with
                         | Some v => Some v | None => qmax_opt (finite_vals m) end.
Proof. exact range_callback_spec_lemma. Qed.
Print Assumptions range_callback_spec.

(* min / max of a list, as used for the cards *)
Theorem list_min_max :
  forall l, l <> [] -> is_min_of (qmin_opt l) l /\ is_max_of (qmax_opt l) l.
Proof. exact (fun l H => conj (qmin_opt_spec l H) (qmax_opt_spec l H)). Qed.
Print Assumptions list_min_max.

(* The pixel part of this pyramid is exactly the cascade's pyramid of C02
   (Merge.pyramid_spec for a fits pio), so C02's theorems (cascade_spec,
   cascade_order_independent) speak about the same tiles. *)
Theorem range_pixels_are_cascade :
  forall k bm leaves orc,
    0 < k -> scalar_mode bm = true -> leaves_ok k bm leaves ->
    forall fuel p,
      option_map ft_img (range_spec k leaves fuel p) =
      option_map (decode (orc p))
                 (pyramid_spec upd_px_fixed Fits k orc
                               (fun q => option_map (fun t => FExact (ft_img t)) (leaves q)) fuel p).
Proof. exact range_pixels_lemma. Qed.
Print Assumptions range_pixels_are_cascade.

(* --- non-vacuity ----------------------------------------------------------- *)

(* four 1x1 leaves 0, 4, 8, 12: the root's only pixel is the average 6, its own
   range would be (6, 6), the recorded range is the leaves' (0, 12) *)
Example range_not_of_average :
  leaves_ok 1 F32 ex_leaves /\
  ex_root_summary = Some ([6%Q], Some 0%Q, Some 12%Q).
Proof. split; [exact ex_leaves_ok|]. vm_compute. reflexivity. Qed.

Example root_range_nonvacuous :
  builder_range (range_spec 1 ex_leaves 1 root) = Some (0%Q, 12%Q) /\
  leaf_vals ex_leaves 1 root = [0%Q; 4%Q; 8%Q; 12%Q].
Proof. vm_compute. split; reflexivity. Qed.
