(* C10 — Concurrent updates of one tile never lose a contribution.

   Model: Model/Lock.v — any number of updaters of one tile position, each
   running PyramidIO.update_image's protocol (try-acquire of the SoftFileLock,
   read, modify, in-place write with a Partial window, release), arbitrary update
   functions on an abstract tile type, arbitrary initial file (absent or whole),
   arbitrary schedules (lists of actions; disabled actions are no-ops; a failed
   acquisition attempt is a polling step).  Proofs in Proofs/LockP.v. *)
From Coq Require Import List Arith Bool Permutation.
From Toasty Require Import Model.Lock Proofs.LockP.
Import ListNotations.

Section C10.
  Context {T : Type}.
  Variable dflt : T.
  Variable masked : T -> bool.
  Variable fs : list (T -> T).
  (* a completely masked tile is pixel-for-pixel the tile a missing file reads as *)
  Hypothesis masked_is_dflt : forall t, masked t = true -> t = dflt.
  Variable t0 : T.
  Variable file0 : @fstate T.
  Hypothesis file0_content : content dflt file0 = Some t0.

  (* at most one updater is between acquire and release *)
  Theorem lock_mutex :
    forall l u v x y,
    let s := lrun dflt masked fs (linit fs file0) l in
    nth_error (us s) u = Some x -> nth_error (us s) v = Some y ->
    critical x = true -> critical y = true -> u = v.
  Proof. exact (LockP.mutex dflt masked fs masked_is_dflt t0 file0 file0_content). Qed.

  (* a read under the lock never sees a partially written tile *)
  Theorem lock_no_partial_read :
    forall l u,
    let s := lrun dflt masked fs (linit fs file0) l in
    lenabled s (Read u) = true -> file s <> FPartial.
  Proof. exact (LockP.read_sees_whole dflt masked fs masked_is_dflt t0 file0 file0_content). Qed.

  (* when every updater is done: the lock is free, and the tile is the result of
     applying ALL updates one after another in acquisition order (a permutation of
     the updaters, none missing) to the initial tile *)
  Theorem lock_linearizable :
    forall l,
    let s := lrun dflt masked fs (linit fs file0) l in
    all_done s = true ->
    lock s = None /\
    content dflt (file s) = Some (apply_order fs t0 (order s)) /\
    Permutation (order s) (seq 0 (length fs)).
  Proof. exact (LockP.linearizable dflt masked fs masked_is_dflt t0 file0 file0_content). Qed.

  Theorem lock_no_deadlock :
    forall l,
    let s := lrun dflt masked fs (linit fs file0) l in
    all_done s = false -> exists a, lenabled s a = true /\ lpolling s a = false.
  Proof. exact (LockP.lock_no_deadlock dflt masked fs masked_is_dflt t0 file0 file0_content). Qed.

  Theorem lock_measure :
    forall (s : @lstate T) a,
    lenabled s a = true -> lpolling s a = false ->
    lmeasure (us (lstep dflt masked fs s a)) < lmeasure (us s).
  Proof. exact (LockP.lock_measure dflt masked fs). Qed.
End C10.

Print Assumptions lock_mutex.
Print Assumptions lock_no_partial_read.
Print Assumptions lock_linearizable.
Print Assumptions lock_no_deadlock.
Print Assumptions lock_measure.

(* contrast: the same protocol without the lock loses an update
   (tiles = numbers, updater 0 adds 1, updater 1 adds 10) *)
Example no_lock_loses_update :
  let fs := [fun t => t + 1; fun t => t + 10] in
  let st := fun s a => lstep_nolock 0 (fun _ => false) fs s a in
  let s := fold_left st [TryAcq 0; TryAcq 1; Read 0; Read 1; WBegin 0; WEnd 0; WBegin 1; WEnd 1; Release 0; Release 1]
                     (linit fs (FWhole 0)) in
  all_done s = true /\ file s = FWhole 10.
Proof. vm_compute. auto. Qed.

(* the same schedule with the lock: the second acquisition fails until the release *)
Example with_lock_keeps_both :
  let fs := [fun t => t + 1; fun t => t + 10] in
  let s := lrun 0 (fun _ => false) fs (linit fs (FWhole 0))
             [TryAcq 0; TryAcq 1; Read 0; Read 1; WBegin 0; WEnd 0; WBegin 1; WEnd 1; Release 0; Release 1;
              TryAcq 1; Read 1; WBegin 1; WEnd 1; Release 1] in
  all_done s = true /\ file s = FWhole 11 /\ order s = [1; 0].
Proof. vm_compute. auto. Qed.
