(* C19 — An error while processing any tile is reported, never swallowed by parallelism.

   The faithful models of the CURRENT code (Model/VisitPar.v for leaf visit /
   transform / multi-TAN / multi-WCS, Model/WalkPar.v for the walk; a raising
   callback kills its worker process) REFUTE the property: the witnesses below are
   replayed on the implementation by harness/corr_C19.py and are recorded in
   known_findings.json.  What does hold — and is what a repair needs — is
   [crash_visible]: in every reachable state, a raising item was handed out iff
   some worker has exit status 1, so a caller that inspects exit statuses (and
   stops waiting for dead workers) reports every failure.  The full statement
   "every schedule with a raising callback ends in an exception at the caller"
   is not provable for the current code (it is false); it is stated here as the
   theorem to prove once the stages check worker liveness. *)
From Coq Require Import List NArith Arith Bool.
From Toasty Require Import Model.Quadtree Model.Reducer Model.VisitPar Model.WalkPar Proofs.VisitParP.
Import ListNotations.

(* --- refuted: a stage returns normally although a callback raised ------------------ *)
Definition visit_swallow_schedule : list act :=
  [AIsSet 0; APut; AFlush; ARecv 0; APut; AClose; AFlush; AFeederExit; AJoinThread; ASet; AJoin 0].

Theorem c19_visit_returns_normally_refuted :
  let bad := fun i => Nat.eqb i 0 in
  let s := run bad (init 2 1 2 2 true) visit_swallow_schedule in
  pc s = PReturned /\ finished s = [] /\ nrecv s = 1 /\ ws s = [WExited 1].
Proof. vm_compute. auto. Qed.
Print Assumptions c19_visit_returns_normally_refuted.

(* --- refuted: the producer waits forever on a full queue once every worker died ---- *)
Definition visit_hang_schedule : list act :=
  [AIsSet 0; APut; AFlush; ARecv 0; APut; APut].

Theorem c19_visit_hangs_refuted :
  let bad := fun i => Nat.eqb i 0 in
  let s := run bad (init 4 1 2 4 true) visit_hang_schedule in
  pc s = PPut /\ ws s = [WExited 1] /\
  forall a, enabled_b s a = true -> a = AFlush.
Proof.
  vm_compute. repeat split; auto.
  intros a. destruct a as [| | | | | |w|w|w|w|w]; try discriminate; auto;
    destruct w as [|w]; try discriminate; destruct w; discriminate.
Qed.
Print Assumptions c19_visit_hangs_refuted.

(* after the remaining flush nothing at all is enabled: the stage is stuck in put() *)
Theorem c19_visit_hangs_deadlock :
  let bad := fun i => Nat.eqb i 0 in
  let s := run bad (init 4 1 2 4 true) (visit_hang_schedule ++ [AFlush; AFlush]) in
  pc s = PPut /\ enabled_list s = [].
Proof. vm_compute. auto. Qed.
Print Assumptions c19_visit_hangs_deadlock.

(* --- refuted: the walk dispatcher polls forever after the only holder of a tile died - *)
Definition walk_pyr : pyr := mkPyr Generic 1 (fun _ => true) root false.
Definition walk_hang_schedule : list wact :=
  [DPut; FFlushReady; KRecv 0; KCb 0].

Theorem c19_walk_hangs_refuted :
  match winit walk_pyr 2 4 with
  | None => False
  | Some s0 =>
      let s := wrun (fun _ => true) s0 walk_hang_schedule in
      d_pc s = DLoop /\ map fst (wks s) = [KExited 1; KAtGet] /\
      wenabled_list s = [DTimeout; KTimeout 1]
  end.
Proof. vm_compute. auto. Qed.
Print Assumptions c19_walk_hangs_refuted.

(* --- what holds for every schedule: failures are visible in the exit statuses ------- *)
Theorem crash_visible :
  forall bad n par cap pcap (l : list act), 1 <= par ->
  let s := run bad (init n par cap pcap true) l in
  (exists i, i < nrecv s /\ bad i = true) <-> (exists w, nth_error (ws s) w = Some (WExited 1)).
Proof. exact VisitParP.crash_visible. Qed.
Print Assumptions crash_visible.

(* --- the walk, for every pyramid, every set of raising positions and every schedule ---
   (Proofs/WalkParCrash.v, on the invariant of Proofs/WalkParInv.v which is proved for
   arbitrary [bad]).  [crashed_at s p]: the callback of p was started (Start event in
   the log), never returned (no End event) and is not running any more (no worker is
   in KInCb p) — i.e. it raised and killed its worker. *)
From Toasty Require Import Proofs.ReducerP Proofs.WalkParInv Proofs.WalkParCrash.

(* after a raising callback the walk never returns, whatever is scheduled next: the
   dispatcher never receives the report of p, hence never releases an ancestor of p,
   hence never sees the apex; it stays in its polling loop (DSeed/DLoop/DRelease).
   Only positions with bad p = true, and only operations of the walk, can crash. *)
Theorem walk_crash_never_returns :
  forall P par pcap (bad : pos -> bool), wf_pyr P -> 1 <= par -> 1 <= pcap ->
  forall s0, winit P par pcap = Some s0 ->
  forall (l l' : list wact) p,
  crashed_at (wrun bad s0 l) p ->
  bad p = true /\ In p (spec_ops P) /\
  let s' := wrun bad s0 (l ++ l') in
  d_pc s' <> DReturned /\ in_loop (d_pc s') = true /\ crashed_at s' p.
Proof. exact WalkParCrash.walk_crash_never_returns. Qed.
Print Assumptions walk_crash_never_returns.

(* what holds and what a repair needs: in every reachable state a callback has
   raised iff some worker process has (or is about to have) exit status 1 *)
Theorem walk_crash_visible :
  forall P par pcap (bad : pos -> bool), wf_pyr P -> 1 <= par -> 1 <= pcap ->
  forall s0, winit P par pcap = Some s0 ->
  forall l : list wact,
  let s := wrun bad s0 l in
  (exists p, crashed_at s p) <->
  (exists w ev, nth_error (wks s) w = Some (KExiting 1, ev) \/ nth_error (wks s) w = Some (KExited 1, ev)).
Proof. exact WalkParCrash.walk_crash_visible. Qed.
Print Assumptions walk_crash_visible.

(* the hang: [nonpoll bad s l'] counts the steps of l' that are enabled and are not
   polling moves (queue timeouts / flag tests while the flag is clear).  Every
   continuation of every reachable state performs at most [measure] of them (polling
   moves leave the measure unchanged, all others decrease it — for every [bad]) ... *)
Theorem walk_nonpolling_bounded :
  forall P par pcap (bad : pos -> bool), wf_pyr P -> 1 <= par -> 1 <= pcap ->
  forall s0, winit P par pcap = Some s0 ->
  forall l l' : list wact,
  nonpoll bad (wrun bad s0 l) l' <= measure (spec_ops P) par (wrun bad s0 l).
Proof. exact WalkParCrash.walk_nonpolling_bounded. Qed.
Print Assumptions walk_nonpolling_bounded.

(* ... so after a raising callback every schedule consists, from some point on, of
   polling moves and no-ops only, and the walk has not returned: it hangs *)
Theorem walk_crash_eventually_only_polling :
  forall P par pcap (bad : pos -> bool), wf_pyr P -> 1 <= par -> 1 <= pcap ->
  forall s0, winit P par pcap = Some s0 ->
  forall (l l' : list wact) p,
  crashed_at (wrun bad s0 l) p ->
  nonpoll bad (wrun bad s0 l) l' <= measure (spec_ops P) par (wrun bad s0 l) /\
  d_pc (wrun bad s0 (l ++ l')) <> DReturned.
Proof. exact WalkParCrash.walk_crash_eventually_only_polling. Qed.
Print Assumptions walk_crash_eventually_only_polling.

(* the premise is satisfiable: the witness schedule above leaves the root crashed *)
Example walk_crash_nonvacuous :
  wf_pyr walk_pyr /\
  match winit walk_pyr 2 4 with
  | None => False
  | Some s0 => crashed_at (wrun (fun _ => true) s0 walk_hang_schedule) root
  end.
Proof.
  split; [repeat split; try reflexivity; cbn; auto|]. vm_compute winit.
  repeat split.
  - exists 0. vm_compute. auto.
  - intros w Hin. vm_compute in Hin. destruct Hin as [E|[]]. discriminate.
  - intros w ev E. vm_compute in E. destruct w as [|[|[|w]]]; discriminate.
Qed.

(* ------------------------------------------------------------------ *)
(* The serial path -- where the property does hold -- is taken exactly when the worker count
   that reaches a stage is 1, and that count is decided by par_util.resolve_parallelism
   (Model/ParUtil.v; [fork], [slurm], [cpus] stand for the start method, SLURM_NPROCS and
   os.cpu_count()).  A request for serial processing is honoured in every environment, an
   explicit count reaches the stages unchanged, and the result is always a positive count. *)
From Coq Require Import ZArith.
From Toasty Require Import Model.ParUtil Proofs.ParUtilP.

Theorem serial_request_is_honoured :
  forall (fork : bool) (slurm : option (option Z)) (cpus n : Z),
  (n <= 1)%Z ->
  resolve_parallelism fork slurm cpus (Some n) = 1%Z /\ runs_serially fork slurm cpus (Some n) = true.
Proof. exact resolve_serial_request. Qed.
Print Assumptions serial_request_is_honoured.

Theorem explicit_request_is_honoured :
  forall (fork : bool) (slurm : option (option Z)) (cpus n : Z),
  (1 <= n)%Z -> resolve_parallelism fork slurm cpus (Some n) = if fork then n else 1%Z.
Proof. exact resolve_explicit. Qed.
Print Assumptions explicit_request_is_honoured.

Theorem resolved_count_is_positive :
  forall fork slurm cpus req, (1 <= resolve_parallelism fork slurm cpus req)%Z.
Proof. exact resolve_positive. Qed.
Print Assumptions resolved_count_is_positive.

Theorem unspecified_count_follows_the_environment :
  (forall slurm cpus req, resolve_parallelism false slurm cpus req = 1%Z) /\
  (forall cpus n, resolve_parallelism true (Some (Some n)) cpus None = Z.max 1 n) /\
  (forall slurm cpus, (slurm = None \/ slurm = Some None) ->
                      resolve_parallelism true slurm cpus None = Z.max 1 cpus).
Proof. split; [exact resolve_no_fork|split; [exact resolve_default_slurm|exact resolve_default_cpus]]. Qed.
Print Assumptions unspecified_count_follows_the_environment.

Example resolve_runs :
  resolve_parallelism true (Some (Some 4%Z)) 16 (Some 1%Z) = 1%Z /\
  resolve_parallelism true (Some (Some 4%Z)) 16 None = 4%Z /\
  resolve_parallelism true (Some None) 16 None = 16%Z /\
  resolve_parallelism false (Some (Some 4%Z)) 16 (Some 3%Z) = 1%Z /\
  runs_serially true None 16 (Some 0%Z) = true.
Proof. vm_compute. repeat split. Qed.
