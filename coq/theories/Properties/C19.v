(* C19 — An error while processing any tile is reported, never swallowed by parallelism.

   The faithful models of the CURRENT code (Model/VisitPar.v for leaf visit /
   transform / multi-TAN / multi-WCS, Model/WalkPar.v for the walk; a raising
   callback kills its worker process) REFUTE the property: the witnesses below are
   replayed on the implementation by harness/corr_C19.py and are recorded in
   known_findings.json.  What does hold — and is what a repair needs — is
   [crash_visible]: in every reachable state, a raising item was handed out iff
   some worker has exit status 1, so a caller that inspects exit statuses (and
   stops waiting for dead workers) reports every failure.  The full statement
   "every schedule with a raising callback ends in an exception at the caller"
   is not provable for the current code (it is false); it is stated here as the
   theorem to prove once the stages check worker liveness. *)
From Coq Require Import List NArith Arith Bool.
From Toasty Require Import Model.Quadtree Model.Reducer Model.VisitPar Model.WalkPar Proofs.VisitParP.
Import ListNotations.

(* --- refuted: a stage returns normally although a callback raised ------------------ *)
Definition visit_swallow_schedule : list act :=
  [AIsSet 0; APut; AFlush; ARecv 0; APut; AClose; AFlush; AFeederExit; AJoinThread; ASet; AJoin 0].

Theorem c19_visit_returns_normally_refuted :
  let bad := fun i => Nat.eqb i 0 in
  let s := run bad (init 2 1 2 2 true) visit_swallow_schedule in
  pc s = PReturned /\ finished s = [] /\ nrecv s = 1 /\ ws s = [WExited 1].
Proof. vm_compute. auto. Qed.
Print Assumptions c19_visit_returns_normally_refuted.

(* --- refuted: the producer waits forever on a full queue once every worker died ---- *)
Definition visit_hang_schedule : list act :=
  [AIsSet 0; APut; AFlush; ARecv 0; APut; APut].

Theorem c19_visit_hangs_refuted :
  let bad := fun i => Nat.eqb i 0 in
  let s := run bad (init 4 1 2 4 true) visit_hang_schedule in
  pc s = PPut /\ ws s = [WExited 1] /\
  forall a, enabled_b s a = true -> a = AFlush.
Proof.
  vm_compute. repeat split; auto.
  intros a. destruct a as [| | | | | |w|w|w|w]; try discriminate; auto;
    destruct w as [|w]; try discriminate; destruct w; discriminate.
Qed.
Print Assumptions c19_visit_hangs_refuted.

(* after the remaining flush nothing at all is enabled: the stage is stuck in put() *)
Theorem c19_visit_hangs_deadlock :
  let bad := fun i => Nat.eqb i 0 in
  let s := run bad (init 4 1 2 4 true) (visit_hang_schedule ++ [AFlush; AFlush]) in
  pc s = PPut /\ enabled_list s = [].
Proof. vm_compute. auto. Qed.
Print Assumptions c19_visit_hangs_deadlock.

(* --- refuted: the walk dispatcher polls forever after the only holder of a tile died - *)
Definition walk_pyr : pyr := mkPyr Generic 1 (fun _ => true) root false.
Definition walk_hang_schedule : list wact :=
  [DPut; FFlushReady; KRecv 0; KCb 0].

Theorem c19_walk_hangs_refuted :
  match winit walk_pyr 2 4 with
  | None => False
  | Some s0 =>
      let s := wrun (fun _ => true) s0 walk_hang_schedule in
      d_pc s = DLoop /\ map fst (wks s) = [KExited 1; KAtGet] /\
      wenabled_list s = [DTimeout; KTimeout 1]
  end.
Proof. vm_compute. auto. Qed.
Print Assumptions c19_walk_hangs_refuted.

(* --- what holds for every schedule: failures are visible in the exit statuses ------- *)
Theorem crash_visible :
  forall bad n par cap pcap (l : list act), 1 <= par ->
  let s := run bad (init n par cap pcap true) l in
  (exists i, i < nrecv s /\ bad i = true) <-> (exists w, nth_error (ws s) w = Some (WExited 1)).
Proof. exact VisitParP.crash_visible. Qed.
Print Assumptions crash_visible.
