(* C04 — TOAST tiles partition the sphere, nest exactly, and are route-independent.
   Statements only; proofs live in Proofs/ToastTermP.v (term layer) and Geom/ (real layer).

   Term layer (exact, every depth / position / both systems; generic in the carrier of
   points, hence true of the float code as long as `mid` is a function):
     routes_agree, enumeration_yields_exactly, filtered_enumeration_yields_exactly,
     tile_position, vertex_lattice, lattice_refines_*, boundary_gluing, layout_*,
     commutative_equality_decided, hash_image.
   Real layer: see the second half of this file.
   NOT formalised: "areas sum to 4 pi" as a statement about spherical measure (no measure
   theory in this development; its geometric content is tiles_partition below), and the
   float routine toast_tile_area / libm-based _mid (validated numerically by the harness). *)
From Coq Require Import List NArith Arith Bool.
From Coq Require Import Reals.
From Toasty Require Import Model.Quadtree Model.ToastTerm Proofs.ToastTermP Geom.Cone Geom.ToastReal.
Import ListNotations.
Local Open Scope N_scope.

(* The tile reported for position p is the same whichever way it is obtained -- full
   enumeration, filtered enumeration (any filter), create_single_tile, or the point-lookup
   descent (any score oracle) whenever it arrives at p: all four corners, as terms with the
   argument order of every mid call, and the `increasing` flag. *)
Theorem routes_agree :
  forall (P : Type) (base : N -> P) (mid : P -> P -> P) cs p,
  valid p = true -> (1 <= pn p)%nat ->
  (forall depth bottom t, In t (generate_tiles base mid depth bottom cs) -> tpos t = p ->
                          t = tile_at base mid cs p) /\
  (forall depth flt bottom t, In t (generate_tiles_filtered base mid depth flt bottom cs) -> tpos t = p ->
                              t = tile_at base mid cs p) /\
  create_single_tile base mid cs p = Some (tile_at base mid cs p) /\
  (forall Sc (is0 : Sc -> bool) gtb score depth t,
      lookup base mid is0 gtb score cs depth = Some t -> tpos t = p -> t = tile_at base mid cs p).
Proof. exact routes_agree_all. Qed.
Print Assumptions routes_agree.

Theorem enumeration_yields_exactly :
  forall (P : Type) (base : N -> P) (mid : P -> P -> P) depth bottom cs t,
  In t (generate_tiles base mid depth bottom cs) <->
  exists p, t = tile_at base mid cs p /\ valid p = true /\ (1 <= pn p <= depth)%nat /\
            (bottom = true -> pn p = depth).
Proof. exact generate_tiles_iff. Qed.
Print Assumptions enumeration_yields_exactly.

Theorem filtered_enumeration_yields_exactly :
  forall (P : Type) (base : N -> P) (mid : P -> P -> P) depth flt bottom cs t,
  In t (generate_tiles_filtered base mid depth flt bottom cs) <->
  exists p, t = tile_at base mid cs p /\ valid p = true /\ (1 <= pn p <= depth)%nat /\
            (bottom = true -> pn p = depth) /\ accepted base mid flt cs p.
Proof. exact generate_tiles_filtered_iff. Qed.
Print Assumptions filtered_enumeration_yields_exactly.

Theorem tile_position :
  forall (P : Type) (base : N -> P) (mid : P -> P -> P) cs p,
  valid p = true -> (1 <= pn p)%nat -> tpos (tile_at base mid cs p) = p.
Proof. exact tile_at_pos. Qed.
Print Assumptions tile_position.

(* Vertex lattice: the corners of tile (m+1, x, y) are the lattice points (x,y), (x+1,y),
   (x+1,y+1), (x,y+1) up to commutativity of Mid; so neighbours at equal depth share
   corner points, and ... *)
Theorem vertex_lattice :
  forall cs m x y, x < 2 ^ N.of_nat (S m) -> y < 2 ^ N.of_nat (S m) ->
  let t := tile_at1 Base Mid cs m x y in
  nf (c_ul t) = nf (vertex1 cs m x y) /\
  nf (c_ur t) = nf (vertex1 cs m (x + 1) y) /\
  nf (c_lr t) = nf (vertex1 cs m (x + 1) (y + 1)) /\
  nf (c_ll t) = nf (vertex1 cs m x (y + 1)) /\
  incr t = incr_at (S m) x y.
Proof. exact lattice_all. Qed.
Print Assumptions vertex_lattice.

(* ... the lattice of depth n+1 contains that of depth n and the midpoints of its edges
   (and of each cell's diagonal): neighbours at different depths share corner points and
   edge great circles. *)
Theorem lattice_refines_vertices :
  forall cs m i j, vertex1 cs (S m) (2 * i) (2 * j) = vertex1 cs m i j.
Proof. exact vertex1_even_even. Qed.
Print Assumptions lattice_refines_vertices.

Theorem lattice_refines_horizontal_edges :
  forall cs m i j, vertex1 cs (S m) (2 * i + 1) (2 * j) = Mid (vertex1 cs m i j) (vertex1 cs m (i + 1) j).
Proof. exact vertex1_odd_even. Qed.
Print Assumptions lattice_refines_horizontal_edges.

Theorem lattice_refines_vertical_edges :
  forall cs m i j, vertex1 cs (S m) (2 * i) (2 * j + 1) = Mid (vertex1 cs m i j) (vertex1 cs m i (j + 1)).
Proof. exact vertex1_even_odd. Qed.
Print Assumptions lattice_refines_vertical_edges.

Theorem lattice_refines_diagonals :
  forall cs m i j, vertex1 cs (S m) (2 * i + 1) (2 * j + 1) =
  if incr_at (S m) i j then Mid (vertex1 cs m i (j + 1)) (vertex1 cs m (i + 1) j)
  else Mid (vertex1 cs m i j) (vertex1 cs m (i + 1) (j + 1)).
Proof. exact vertex1_odd_odd. Qed.
Print Assumptions lattice_refines_diagonals.

(* The rim of the square folds onto itself about the middle of each side (the four half
   sides are the meridians from the equator down to the south pole). *)
Theorem boundary_gluing :
  forall cs m i, let M := 2 ^ N.of_nat (S m) in i <= M ->
    nf (vertex1 cs m i 0) = nf (vertex1 cs m (M - i) 0) /\
    nf (vertex1 cs m 0 i) = nf (vertex1 cs m 0 (M - i)) /\
    nf (vertex1 cs m i M) = nf (vertex1 cs m (M - i) M) /\
    nf (vertex1 cs m M i) = nf (vertex1 cs m M (M - i)).
Proof. exact boundary_gluing_all. Qed.
Print Assumptions boundary_gluing.

(* [nf] decides equality modulo Mid a b ~ Mid b a *)
Theorem commutative_equality_decided : forall p q, peq p q <-> nf p = nf q.
Proof. exact peq_iff_nf. Qed.
Print Assumptions commutative_equality_decided.

(* the hash algebra used by the correspondence is a homomorphic image of the terms *)
Theorem hash_image : forall cs p, tile_hash (tile_at Base Mid cs p) = tile_at hbase hmid cs p.
Proof. exact hash_tile_at. Qed.
Print Assumptions hash_image.

(* Documented layout at EVERY depth (lattice of depth m+1, c = 2^m): north pole at the centre,
   south pole at the four corners, and the four equator points at the middles of the sides:
   longitude 0 right, 90 top, 180 left, 270 bottom -- shifted by 180 for the planetary system
   (b_eq cs q = Base ((q + 2) mod 4) there). *)
Theorem layout :
  forall cs m, let c := 2 ^ N.of_nat m in
  vertex1 cs m c c = b_north Base cs /\
  vertex1 cs m 0 0 = b_south Base cs /\ vertex1 cs m (2 * c) 0 = b_south Base cs /\
  vertex1 cs m 0 (2 * c) = b_south Base cs /\ vertex1 cs m (2 * c) (2 * c) = b_south Base cs /\
  vertex1 cs m (2 * c) c = b_eq Base cs 0 /\ vertex1 cs m c 0 = b_eq Base cs 1 /\
  vertex1 cs m 0 c = b_eq Base cs 2 /\ vertex1 cs m c (2 * c) = b_eq Base cs 3.
Proof. exact layout_all_depths. Qed.
Print Assumptions layout.

(* ... and the equator on the inscribed diamond: every lattice point on its four sides is built
   from equator vertices only (so has latitude 0: equator_diamond_real below) *)
Theorem equator_on_diamond :
  forall cs m i j, let c := 2 ^ N.of_nat m in
  i <= 2 * c -> j <= 2 * c ->
  (i + j = c \/ i = j + c \/ j = i + c \/ i + j = 3 * c) ->
  equatorial (vertex1 cs m i j) = true.
Proof. exact diamond_is_equator. Qed.
Print Assumptions equator_on_diamond.

(* Documented layout (toast.py docstring), level 1; [Base k]: k = 4*kind + quarter turns,
   kind 0 equator, 1 north pole, 2 south pole.  Rows are j (top = 0), columns i. *)
Example layout_astronomical_nonvacuous :
  (* north pole at the centre, south pole at the four corners *)
  vertex Astro 1 1 1 = Base 4 /\
  map (fun ij => vertex Astro 1 (fst ij) (snd ij)) [(0,0); (2,0); (0,2); (2,2)] = [Base 8; Base 8; Base 8; Base 8] /\
  (* equator on the diamond: lon 0 right, 90 up, 180 left, 270 down *)
  map (fun ij => vertex Astro 1 (fst ij) (snd ij)) [(2,1); (1,0); (0,1); (1,2)] = [Base 0; Base 1; Base 2; Base 3].
Proof. vm_compute. repeat split. Qed.

Example layout_planetary_nonvacuous :
  (* longitude 0 to the left, 90 down, 180 right, 270 up: rotated by a half turn *)
  map (fun ij => vertex Planet 1 (fst ij) (snd ij)) [(2,1); (1,0); (0,1); (1,2)] = [Base 2; Base 3; Base 0; Base 1] /\
  vertex Planet 1 1 1 = Base 6 /\ vertex Planet 1 0 0 = Base 10.
Proof. vm_compute. repeat split. Qed.

Example routes_agree_nonvacuous :
  valid (mkPos 3 5 2) = true /\
  create_single_tile Base Mid Planet (mkPos 3 5 2) = Some (tile_at Base Mid Planet (mkPos 3 5 2)) /\
  existsb (tile_eqb (tile_at Base Mid Planet (mkPos 3 5 2))) (generate_tiles Base Mid 3 true Planet) = true /\
  c_ul (tile_at Base Mid Planet (mkPos 3 5 2)) = Mid (Mid (Base 6) (Base 3)) (Mid (Base 3) (Base 2)).
Proof. vm_compute. repeat split. Qed.

(* ====================================================================================
   Real layer (Coq reals; standard-library real-number axioms appear in Print Assumptions).
   Points are vectors of R^3; det a b p = (a x b) . p is the code's half-space test;
   inT a b c p : p in the closed cone over the triangle; inTs: its interior;
   the real tile of a position is the evaluation of the term tile (real_tile_is_eval),
   with Mid evaluated as the normalised sum.  inU t p: p in one of the tile's two triangles;
   intU: in the interior of one of them (the tile's interior less its open diagonal). *)

Theorem real_tile_is_eval :
  forall cs p, gmap pt vec eval (tile_at Base Mid cs p) = tile_at rbase rmid cs p.
Proof. exact eval_tile_at. Qed.
Print Assumptions real_tile_is_eval.

(* one HTM step, for ANY positive multiples s0 s1 s2 of the edge midpoints *)
Theorem tri_cover_step :
  forall a b c s0 s1 s2, (0 < s0)%R -> (0 < s1)%R -> (0 < s2)%R -> forall p, inT a b c p ->
  inT a (smid s2 a b) (smid s1 c a) p \/ inT b (smid s0 b c) (smid s2 a b) p \/
  inT c (smid s1 c a) (smid s0 b c) p \/ inT (smid s0 b c) (smid s1 c a) (smid s2 a b) p.
Proof. exact tri_cover. Qed.
Print Assumptions tri_cover_step.

Theorem tri_children_inside_step :
  forall a b c s0 s1 s2, (0 < s0)%R -> (0 < s1)%R -> (0 < s2)%R -> (0 < det a b c)%R -> forall p,
  (inT a (smid s2 a b) (smid s1 c a) p -> inT a b c p) /\ (inT b (smid s0 b c) (smid s2 a b) p -> inT a b c p) /\
  (inT c (smid s1 c a) (smid s0 b c) p -> inT a b c p) /\
  (inT (smid s0 b c) (smid s1 c a) (smid s2 a b) p -> inT a b c p).
Proof. exact tri_children_inside. Qed.
Print Assumptions tri_children_inside_step.

Theorem tri_interiors_disjoint_step :
  forall a b c s0 s1 s2, (0 < s0)%R -> (0 < s1)%R -> (0 < s2)%R -> (0 < det a b c)%R -> forall p,
  let w0 := smid s0 b c in let w1 := smid s1 c a in let w2 := smid s2 a b in
  ~ (inTs a w2 w1 p /\ inTs b w0 w2 p) /\ ~ (inTs a w2 w1 p /\ inTs c w1 w0 p) /\
  ~ (inTs b w0 w2 p /\ inTs c w1 w0 p) /\
  ~ (inTs a w2 w1 p /\ inTs w0 w1 w2 p) /\ ~ (inTs b w0 w2 p /\ inTs w0 w1 w2 p) /\
  ~ (inTs c w1 w0 p /\ inTs w0 w1 w2 p).
Proof. exact tri_interiors_disjoint. Qed.
Print Assumptions tri_interiors_disjoint_step.

Theorem orientation_preserved_step :
  forall a b c s0 s1 s2, (0 < s0)%R -> (0 < s1)%R -> (0 < s2)%R -> (0 < det a b c)%R ->
  let w0 := smid s0 b c in let w1 := smid s1 c a in let w2 := smid s2 a b in
  (0 < det a w2 w1 /\ 0 < det b w0 w2 /\ 0 < det c w1 w0 /\ 0 < det w0 w1 w2)%R.
Proof. exact orientation_preserved. Qed.
Print Assumptions orientation_preserved_step.

(* each tile is exactly tiled by its four children: they cover it, lie in it, and have
   pairwise disjoint interiors (wfU: both triangles counter-clockwise; holds for every tile
   of the pyramid, tiles_well_oriented) *)
Theorem tile_children_cover_parent :
  forall (t : gtile vec) p, wfU t -> inU t p ->
  inU (child rmid t 0 0) p \/ inU (child rmid t 1 0) p \/ inU (child rmid t 0 1) p \/ inU (child rmid t 1 1) p.
Proof. exact children_cover. Qed.
Print Assumptions tile_children_cover_parent.

Theorem tile_children_inside_parent :
  forall (t : gtile vec) ix iy p, wfU t -> ix < 2 -> iy < 2 -> inU (child rmid t ix iy) p -> inU t p.
Proof. exact child_inside. Qed.
Print Assumptions tile_children_inside_parent.

Theorem tile_children_interiors_disjoint :
  forall (t : gtile vec) ix iy ix' iy' p, wfU t -> ix < 2 -> iy < 2 -> ix' < 2 -> iy' < 2 ->
  (ix, iy) <> (ix', iy') -> intU (child rmid t ix iy) p -> intU (child rmid t ix' iy') p -> False.
Proof. exact siblings_disjoint. Qed.
Print Assumptions tile_children_interiors_disjoint.

Theorem tiles_well_oriented :
  forall cs m x y, x < 2 ^ N.of_nat (S m) -> y < 2 ^ N.of_nat (S m) -> wfU (tile_at1 rbase rmid cs m x y).
Proof. exact wf_all. Qed.
Print Assumptions tiles_well_oriented.

(* the eight level-1 triangles (four tiles) cover R^3 ... *)
Theorem level1_octants_cover :
  forall cs (p : vec), exists x y, x < 2 /\ y < 2 /\ inU (tile_at1 rbase rmid cs 0 x y) p.
Proof. exact level1_cover. Qed.
Print Assumptions level1_octants_cover.

(* tiles_partition, part 1: at every depth every direction lies in some tile *)
Theorem tiles_partition_cover :
  forall cs m (p : vec), exists x y,
  x < 2 ^ N.of_nat (S m) /\ y < 2 ^ N.of_nat (S m) /\ inU (tile_at1 rbase rmid cs m x y) p.
Proof. exact tiles_cover_all. Qed.
Print Assumptions tiles_partition_cover.

(* tiles_partition, part 2: at every depth distinct tiles have disjoint interiors *)
Theorem tiles_partition_disjoint :
  forall cs m x y x' y' p,
  x < 2 ^ N.of_nat (S m) -> y < 2 ^ N.of_nat (S m) -> x' < 2 ^ N.of_nat (S m) -> y' < 2 ^ N.of_nat (S m) ->
  intU (tile_at1 rbase rmid cs m x y) p -> intU (tile_at1 rbase rmid cs m x' y') p -> x = x' /\ y = y'.
Proof. exact tiles_disjoint_all. Qed.
Print Assumptions tiles_partition_disjoint.

(* nesting: a tile lies in its parent, and every descendant in the tile *)
Theorem nesting :
  forall cs m x y p, x < 2 ^ N.of_nat (S (S m)) -> y < 2 ^ N.of_nat (S (S m)) ->
  inU (tile_at1 rbase rmid cs (S m) x y) p -> inU (tile_at1 rbase rmid cs m (x / 2) (y / 2)) p.
Proof. exact nesting_step. Qed.
Print Assumptions nesting.

Theorem nesting_descendants :
  forall (t : gtile vec) p, wfU t -> forall k x y, inU (desc rmid t k x y) p -> inU t p.
Proof. exact nesting_desc. Qed.
Print Assumptions nesting_descendants.

Example real_layer_nonvacuous :
  (* the direction (1, 2, 3) lies in the level-1 tile (1, 0) of the astronomical system: lon in [0, 90] *)
  inU (tile_at1 rbase rmid Astro 0 1 0) (mkV 1 2 3).
Proof. cbv - [Rplus Rmult Rminus Ropp IZR Rlt Rle Rinv sqrt Rdiv]. right. repeat split; Lra.lra. Qed.

Theorem equator_diamond_real : forall p, equatorial p = true -> vy (eval p) = 0%R.
Proof. exact equatorial_y0. Qed.
Print Assumptions equator_diamond_real.
