(* C04 — TOAST tiles partition the sphere, nest exactly, and are route-independent.
   Statements only; proofs live in Proofs/ToastTermP.v (term layer) and Geom/ (real layer).

   Term layer (exact, every depth / position / both systems; generic in the carrier of
   points, hence true of the float code as long as `mid` is a function):
     routes_agree, enumeration_yields_exactly, filtered_enumeration_yields_exactly,
     tile_position, vertex_lattice, lattice_refines_*, boundary_gluing, layout_*,
     commutative_equality_decided, hash_image.
   Real layer: see the second half of this file.
   NOT formalised: "areas sum to 4 pi" as a statement about spherical measure (no measure
   theory in this development; its geometric content is tiles_partition below), and the
   float routine toast_tile_area / libm-based _mid (validated numerically by the harness). *)
From Coq Require Import List NArith Arith Bool.
From Toasty Require Import Model.Quadtree Model.ToastTerm Proofs.ToastTermP.
Import ListNotations.
Local Open Scope N_scope.

(* The tile reported for position p is the same whichever way it is obtained -- full
   enumeration, filtered enumeration (any filter), create_single_tile, or the point-lookup
   descent (any score oracle) whenever it arrives at p: all four corners, as terms with the
   argument order of every mid call, and the `increasing` flag. *)
Theorem routes_agree :
  forall (P : Type) (base : N -> P) (mid : P -> P -> P) cs p,
  valid p = true -> (1 <= pn p)%nat ->
  (forall depth bottom t, In t (generate_tiles base mid depth bottom cs) -> tpos t = p ->
                          t = tile_at base mid cs p) /\
  (forall depth flt bottom t, In t (generate_tiles_filtered base mid depth flt bottom cs) -> tpos t = p ->
                              t = tile_at base mid cs p) /\
  create_single_tile base mid cs p = Some (tile_at base mid cs p) /\
  (forall Sc (is0 : Sc -> bool) gtb score depth t,
      lookup base mid is0 gtb score cs depth = Some t -> tpos t = p -> t = tile_at base mid cs p).
Proof. exact routes_agree_all. Qed.
Print Assumptions routes_agree.

Theorem enumeration_yields_exactly :
  forall (P : Type) (base : N -> P) (mid : P -> P -> P) depth bottom cs t,
  In t (generate_tiles base mid depth bottom cs) <->
  exists p, t = tile_at base mid cs p /\ valid p = true /\ (1 <= pn p <= depth)%nat /\
            (bottom = true -> pn p = depth).
Proof. exact generate_tiles_iff. Qed.
Print Assumptions enumeration_yields_exactly.

Theorem filtered_enumeration_yields_exactly :
  forall (P : Type) (base : N -> P) (mid : P -> P -> P) depth flt bottom cs t,
  In t (generate_tiles_filtered base mid depth flt bottom cs) <->
  exists p, t = tile_at base mid cs p /\ valid p = true /\ (1 <= pn p <= depth)%nat /\
            (bottom = true -> pn p = depth) /\ accepted base mid flt cs p.
Proof. exact generate_tiles_filtered_iff. Qed.
Print Assumptions filtered_enumeration_yields_exactly.

Theorem tile_position :
  forall (P : Type) (base : N -> P) (mid : P -> P -> P) cs p,
  valid p = true -> (1 <= pn p)%nat -> tpos (tile_at base mid cs p) = p.
Proof. exact tile_at_pos. Qed.
Print Assumptions tile_position.

(* Vertex lattice: the corners of tile (m+1, x, y) are the lattice points (x,y), (x+1,y),
   (x+1,y+1), (x,y+1) up to commutativity of Mid; so neighbours at equal depth share
   corner points, and ... *)
Theorem vertex_lattice :
  forall cs m x y, x < 2 ^ N.of_nat (S m) -> y < 2 ^ N.of_nat (S m) ->
  let t := tile_at1 Base Mid cs m x y in
  nf (c_ul t) = nf (vertex1 cs m x y) /\
  nf (c_ur t) = nf (vertex1 cs m (x + 1) y) /\
  nf (c_lr t) = nf (vertex1 cs m (x + 1) (y + 1)) /\
  nf (c_ll t) = nf (vertex1 cs m x (y + 1)) /\
  incr t = incr_at (S m) x y.
Proof. exact lattice_all. Qed.
Print Assumptions vertex_lattice.

(* ... the lattice of depth n+1 contains that of depth n and the midpoints of its edges
   (and of each cell's diagonal): neighbours at different depths share corner points and
   edge great circles. *)
Theorem lattice_refines_vertices :
  forall cs m i j, vertex1 cs (S m) (2 * i) (2 * j) = vertex1 cs m i j.
Proof. exact vertex1_even_even. Qed.
Print Assumptions lattice_refines_vertices.

Theorem lattice_refines_horizontal_edges :
  forall cs m i j, vertex1 cs (S m) (2 * i + 1) (2 * j) = Mid (vertex1 cs m i j) (vertex1 cs m (i + 1) j).
Proof. exact vertex1_odd_even. Qed.
Print Assumptions lattice_refines_horizontal_edges.

Theorem lattice_refines_vertical_edges :
  forall cs m i j, vertex1 cs (S m) (2 * i) (2 * j + 1) = Mid (vertex1 cs m i j) (vertex1 cs m i (j + 1)).
Proof. exact vertex1_even_odd. Qed.
Print Assumptions lattice_refines_vertical_edges.

Theorem lattice_refines_diagonals :
  forall cs m i j, vertex1 cs (S m) (2 * i + 1) (2 * j + 1) =
  if incr_at (S m) i j then Mid (vertex1 cs m i (j + 1)) (vertex1 cs m (i + 1) j)
  else Mid (vertex1 cs m i j) (vertex1 cs m (i + 1) (j + 1)).
Proof. exact vertex1_odd_odd. Qed.
Print Assumptions lattice_refines_diagonals.

(* The rim of the square folds onto itself about the middle of each side (the four half
   sides are the meridians from the equator down to the south pole). *)
Theorem boundary_gluing :
  forall cs m i, let M := 2 ^ N.of_nat (S m) in i <= M ->
    nf (vertex1 cs m i 0) = nf (vertex1 cs m (M - i) 0) /\
    nf (vertex1 cs m 0 i) = nf (vertex1 cs m 0 (M - i)) /\
    nf (vertex1 cs m i M) = nf (vertex1 cs m (M - i) M) /\
    nf (vertex1 cs m M i) = nf (vertex1 cs m M (M - i)).
Proof. exact boundary_gluing_all. Qed.
Print Assumptions boundary_gluing.

(* [nf] decides equality modulo Mid a b ~ Mid b a *)
Theorem commutative_equality_decided : forall p q, peq p q <-> nf p = nf q.
Proof. exact peq_iff_nf. Qed.
Print Assumptions commutative_equality_decided.

(* the hash algebra used by the correspondence is a homomorphic image of the terms *)
Theorem hash_image : forall cs p, tile_hash (tile_at Base Mid cs p) = tile_at hbase hmid cs p.
Proof. exact hash_tile_at. Qed.
Print Assumptions hash_image.

(* Documented layout (toast.py docstring), level 1; [Base k]: k = 4*kind + quarter turns,
   kind 0 equator, 1 north pole, 2 south pole.  Rows are j (top = 0), columns i. *)
Example layout_astronomical_nonvacuous :
  (* north pole at the centre, south pole at the four corners *)
  vertex Astro 1 1 1 = Base 4 /\
  map (fun ij => vertex Astro 1 (fst ij) (snd ij)) [(0,0); (2,0); (0,2); (2,2)] = [Base 8; Base 8; Base 8; Base 8] /\
  (* equator on the diamond: lon 0 right, 90 up, 180 left, 270 down *)
  map (fun ij => vertex Astro 1 (fst ij) (snd ij)) [(2,1); (1,0); (0,1); (1,2)] = [Base 0; Base 1; Base 2; Base 3].
Proof. vm_compute. repeat split. Qed.

Example layout_planetary_nonvacuous :
  (* longitude 0 to the left, 90 down, 180 right, 270 up: rotated by a half turn *)
  map (fun ij => vertex Planet 1 (fst ij) (snd ij)) [(2,1); (1,0); (0,1); (1,2)] = [Base 2; Base 3; Base 0; Base 1] /\
  vertex Planet 1 1 1 = Base 6 /\ vertex Planet 1 0 0 = Base 10.
Proof. vm_compute. repeat split. Qed.

Example routes_agree_nonvacuous :
  valid (mkPos 3 5 2) = true /\
  create_single_tile Base Mid Planet (mkPos 3 5 2) = Some (tile_at Base Mid Planet (mkPos 3 5 2)) /\
  existsb (tile_eqb (tile_at Base Mid Planet (mkPos 3 5 2))) (generate_tiles Base Mid 3 true Planet) = true /\
  c_ul (tile_at Base Mid Planet (mkPos 3 5 2)) = Mid (Mid (Base 6) (Base 3)) (Mid (Base 3) (Base 2)).
Proof. vm_compute. repeat split. Qed.
