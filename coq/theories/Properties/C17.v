(* C17 — The WTML and the returned data-set description match the files on disk.
   Statements only; proofs in Proofs/PathsP.v and Proofs/AutoTilerP.v; models in
   Model/Paths.v and Model/AutoTiler.v. *)
From Coq Require Import NArith ZArith String List Bool.
From Toasty Require Import Model.Paths Model.AutoTiler Proofs.PathsP Proofs.AutoTilerP.
Import ListNotations.
Local Open Scope N_scope.

(* ---- naming ---- *)

(* str() of distinct non-negative integers differs *)
Theorem decimal_rendering_injective : forall n m, dec n = dec m -> n = m.
Proof. exact dec_inj. Qed.
Print Assumptions decimal_rendering_injective.

(* Substituting (level, x, y) into the URL the Builder records gives, below the
   pyramid's base directory, exactly the path at which tile_path puts that tile
   (default format): every scheme, every format, every position at every depth. *)
Theorem template_expands_to_path :
  forall p level x y,
    join (pio_base p) (expand_pos (builder_url p) level x y) = tile_path p level x y None.
Proof. exact expand_is_tile_path. Qed.
Print Assumptions template_expands_to_path.

(* ... and a tile written with an explicit format is found by the template
   exactly when that format is the pyramid's default one *)
Theorem template_matches_explicit_format_iff_default :
  forall p level x y f,
    join (pio_base p) (expand_pos (builder_url p) level x y) = tile_path p level x y (Some f)
    <-> f = pio_default p.
Proof. exact expand_explicit_iff. Qed.
Print Assumptions template_matches_explicit_format_iff_default.

(* distinct positions give distinct paths, under both on-disk schemes *)
Theorem paths_injective :
  forall p level x y level' x' y' f,
    tile_path p level x y f = tile_path p level' x' y' f ->
    level = level' /\ x = x' /\ y = y'.
Proof. exact tile_path_inj. Qed.
Print Assumptions paths_injective.

(* distinct positions give distinct expanded URLs *)
Theorem urls_injective :
  forall p level x y level' x' y',
    expand_pos (builder_url p) level x y = expand_pos (builder_url p) level' x' y' ->
    level = level' /\ x = x' /\ y = y'.
Proof. exact expand_inj. Qed.
Print Assumptions urls_injective.

(* the recorded file type is the tiles' extension: "." ++ format, the suffix of
   every tile path and of the URL *)
Theorem file_type_is_extension :
  forall p level x y,
    exists stem, tile_path p level x y None = (stem ++ builder_file_type p)%string
                 /\ builder_url p = (scheme_template (pio_scheme p) ++ builder_file_type p)%string.
Proof. exact tile_path_ends_with_file_type. Qed.
Print Assumptions file_type_is_extension.

(* ---- tile levels ---- *)

(* study-type workflows (tile-study, WWTL, pipeline; with or without cascade):
   the recorded TileLevels is the deepest layer holding a tile *)
Theorem tile_levels_is_deepest_study :
  forall w h cascaded, 1 <= w -> 1 <= h ->
    deepest_populated (study_written w h cascaded) (study_recorded_levels w h).
Proof. exact study_levels_deepest. Qed.
Print Assumptions tile_levels_is_deepest_study.

(* all-sky TOAST *)
Theorem tile_levels_is_deepest_toast :
  forall depth cascaded, deepest_populated (toast_written depth cascaded) (toast_recorded_levels depth).
Proof. exact toast_levels_deepest. Qed.
Print Assumptions tile_levels_is_deepest_toast.

(* filtered TOAST and multi-image TAN mosaics (tile_fits): any non-empty base
   layer written at the recorded level, cascaded or not *)
Theorem tile_levels_is_deepest_subset :
  forall L (base : N -> N -> Prop) cascaded,
    (exists x y, base x y) -> deepest_populated (pyramid_written L base cascaded) L.
Proof. exact subset_levels_deepest. Qed.
Print Assumptions tile_levels_is_deepest_subset.

(* the executable file set used by the correspondence is the specified one *)
Theorem study_file_set_executable :
  forall w h cascaded n x y, 1 <= w -> 1 <= h ->
    (study_written_b w h cascaded n x y = true <-> study_written w h cascaded n x y).
Proof. exact study_written_b_spec. Qed.
Print Assumptions study_file_set_executable.

Theorem toast_file_set_executable :
  forall depth cascaded n x y,
    toast_written_b depth cascaded n x y = true <-> toast_written depth cascaded n x y.
Proof. exact toast_written_b_spec. Qed.
Print Assumptions toast_file_set_executable.

Theorem listed_file_set_executable :
  forall L base cascaded n x y,
    list_written_b L base cascaded n x y = true
    <-> pyramid_written L (fun x y => in_base base x y = true) cascaded n x y.
Proof. exact list_written_b_spec. Qed.
Print Assumptions listed_file_set_executable.

(* ---- FitsTiler.tile / tile_fits: returned description vs WTML ---- *)

(* as coded: a call that actually tiles (no directory yet, or override) hands
   back what it wrote *)
Theorem returned_eq_wtml_fresh :
  forall p name tiling hips ov,
    let o := tile_coded p name tiling hips ov NoDir in
    agrees o /\ returns_self o = true /\ builder o = tiling (fresh_builder p name).
Proof. exact coded_fresh_agrees. Qed.
Print Assumptions returned_eq_wtml_fresh.

Theorem returned_eq_wtml_override :
  forall p name tiling hips d,
    let o := tile_coded p name tiling hips true d in
    agrees o /\ returns_self o = true /\ builder o = tiling (fresh_builder p name).
Proof. exact coded_override_agrees. Qed.
Print Assumptions returned_eq_wtml_override.

(* as coded: on reuse the fresh default builder comes back and tile() returns
   None; this agrees with the WTML only if the WTML describes a default builder *)
Theorem returned_on_reuse_as_coded :
  forall p name tiling hips w,
    let o := tile_coded p name tiling hips false (Dir false (Some w)) in
    (builder o = fresh_builder p name /\ returns_self o = false /\ disk_after o = Dir false (Some w))
    /\ (agrees o <-> w = fresh_builder p name).
Proof. exact coded_reuse_full. Qed.
Print Assumptions returned_on_reuse_as_coded.

(* hence the statement over histories is refuted for the code as written:
   two plain calls on a 300 x 300 image *)
Theorem returned_eq_wtml_reuse_refuted :
  exists p name tiling hips h,
    ~ Forall agrees (run (tile_coded p name tiling hips) h NoDir).
Proof. exact coded_reuse_refuted. Qed.
Print Assumptions returned_eq_wtml_reuse_refuted.

(* repaired (builder restored from the existing index_rel.wtml, return self):
   every history of calls — fresh, repeated, repeated with override — from any
   reachable directory state *)
Theorem returned_eq_wtml_all_histories :
  forall p name tiling hips h d,
    plain_disk d ->
    Forall (fun o => agrees o /\ returns_self o = true) (run (tile_fixed p name tiling hips) h d).
Proof. exact fixed_all_histories. Qed.
Print Assumptions returned_eq_wtml_all_histories.

(* ... and with identical calls the description never changes *)
Theorem returned_constant_over_history :
  forall p name tiling hips h d,
    (d = NoDir \/ d = Dir false (Some (tiling (fresh_builder p name)))) ->
    Forall (fun o => builder o = tiling (fresh_builder p name)
                     /\ disk_after o = Dir false (Some (tiling (fresh_builder p name)))
                     /\ returns_self o = true)
           (run (tile_fixed p name tiling hips) h d).
Proof. exact fixed_history_constant. Qed.
Print Assumptions returned_constant_over_history.

(* the repair changes nothing else *)
Theorem repair_is_local :
  forall p name tiling hips ov d,
    (ov = true \/ d = NoDir) ->
    tile_fixed p name tiling hips ov d = tile_coded p name tiling hips ov d.
Proof. exact fixed_eq_coded_elsewhere. Qed.
Print Assumptions repair_is_local.

(* ---- non-vacuity ---- *)

Example template_nonvacuous :
  expand_pos (builder_url (mkPio "out" LsYsYX Fits)) 3 5 7 = "3/7/7_5.fits"%string /\
  tile_path (mkPio "out" LsYsYX Fits) 3 5 7 None = "out/3/7/7_5.fits"%string /\
  expand_pos (builder_url (mkPio "p" LXY Png)) 12 4095 0 = "L12X4095Y0.png"%string /\
  tile_path (mkPio "p" LXY Png) 12 4095 0 None = "p/L12X4095Y0.png"%string.
Proof. vm_compute. repeat split. Qed.

Example levels_nonvacuous :
  study_recorded_levels 300 300 = 1 /\ study_recorded_levels 256 1 = 0 /\ study_recorded_levels 7416 4320 = 5 /\
  study_written_b 300 300 true 1 1 1 = true /\ study_written_b 300 300 true 0 0 0 = true /\
  study_written_b 300 300 false 0 0 0 = false /\ study_written_b 300 300 true 2 0 0 = false /\
  study_written_b 1000 300 true 2 0 0 = false /\ study_written_b 1000 300 true 2 0 1 = true.
Proof. vm_compute. repeat split. Qed.

Example histories_nonvacuous :
  let osc := run (tile_coded witness_pio "out" witness_tiling (fun d => d)) [false; false] NoDir in
  let osf := run (tile_fixed witness_pio "out" witness_tiling (fun d => d)) [false; false; true] NoDir in
  map agrees_b osc = [true; false] /\ map agrees_b osf = [true; true; true] /\
  map (fun o => d_levels (builder o)) osc = [1; 0] /\ map (fun o => d_levels (builder o)) osf = [1; 1; 1].
Proof. vm_compute. repeat split. Qed.

(* ------------------------------------------------------------------ *)
(* Tie by TRANSLATION (besides the correspondence runs): Generated/PathSrc.v is produced by
   harness/py2coq.py from class PyramidIO of toasty/pyramid.py in /repo's working tree on every
   build -- __init__ (scheme dispatch, template, format), tile_path, _tile_path_LsYsYX,
   _tile_path_LXY, get_path_scheme, statement by statement, strings as strings -- and the
   theorems below state that those translated definitions ARE the naming functions the
   theorems above speak about.  [guess] stands for the directory scan that picks a format
   when none is given (an oracle: file-system state).  Proofs in Proofs/PathSrcP.v. *)
From Toasty Require Import Model.SrcPrelude Generated.PathSrc Proofs.PathSrcP.

Theorem src_tile_path_is_model :
  forall (p : pyramid_io) (level x y : N) (format : option fmt),
  src_PyramidIO_tile_path (to_spio p) (mkSP (Z.of_N level) (Z.of_N x) (Z.of_N y)) (option_map ext_of format)
  = Some (tile_path p level x y format).
Proof. exact PathSrcP.src_tile_path_eq. Qed.
Print Assumptions src_tile_path_is_model.

Theorem src_constructor_is_model :
  forall (guess : string -> string -> string) (base : string),
  (forall (s : scheme) (f : fmt),
     src_PyramidIO_init guess base (scheme_name s) (Some (ext_of f)) = Some (to_spio (mkPio base s f))) /\
  (forall (name : string) (fo : option string),
     name <> "L/Y/YX"%string -> name <> "LXY"%string -> src_PyramidIO_init guess base name fo = None) /\
  src_PyramidIO_default_scheme = scheme_name LsYsYX.
Proof.
  intros guess base. split; [|split].
  - exact (PathSrcP.src_init_eq guess base).
  - exact (PathSrcP.src_init_rejects guess base).
  - exact PathSrcP.src_default_scheme.
Qed.
Print Assumptions src_constructor_is_model.

Theorem src_get_path_scheme_is_model :
  forall p : pyramid_io,
  src_PyramidIO_get_path_scheme (to_spio p) = Some (scheme_template (Paths.pio_scheme p)).
Proof. exact PathSrcP.src_get_path_scheme_eq. Qed.
Print Assumptions src_get_path_scheme_is_model.

(* the translated definitions run *)
Example src_paths_run :
  src_PyramidIO_tile_path (mkPIO "out" M_tile_path_LXY "L{1}X{2}Y{3}" "png") (mkSP 3 5 2) None
    = Some "out/L3X5Y2.png"%string /\
  src_PyramidIO_tile_path (mkPIO "out" M_tile_path_LsYsYX "{1}/{3}/{3}_{2}" "png") (mkSP 3 5 2) (Some "fits"%string)
    = Some "out/3/2/2_5.fits"%string /\
  src_PyramidIO_init (fun _ _ => "npy"%string) "out" "LXY" None
    = Some (mkPIO "out" M_tile_path_LXY "L{1}X{2}Y{3}" "npy") /\
  src_PyramidIO_init (fun _ _ => "npy"%string) "out" "XYL" None = None.
Proof. vm_compute. repeat split. Qed.

(* ------------------------------------------------------------------ *)
(* `toasty tile-wwtl` (cli.tile_wwtl_impl), tied by TRANSLATION: Generated/CliWwtlSrc.v is the
   function as harness/py2coq.py reads it from toasty/cli.py in /repo's working tree on every
   build (assigned method calls recorded as events); under every valuation of the settings it
   behaves like the hand-written model (Model/CliScript.v): the layer file is loaded and tiled on
   every path and first, the thumbnail follows the one flag, the name the user gave is set, and
   index_rel.wtml is written LAST, after the name, by the builder that tiled -- so the description
   on disk is of the files just written.  Proofs in Proofs/CliWwtlP.v. *)
From Toasty Require Import Model.CliScript Generated.CliWwtlSrc Proofs.CliWwtlP.
Local Open Scope string_scope.

Theorem src_tile_wwtl_impl_is_model :
  forall (is_none : sval unit -> bool) (eq_lit : sval unit -> string -> bool) (is_true : sval unit -> bool),
  run_tree is_none eq_lit is_true src_cli_tile_wwtl_impl = tile_wwtl_impl_model is_true.
Proof. exact src_tile_wwtl_impl_eq. Qed.
Print Assumptions src_tile_wwtl_impl_is_model.

Theorem tile_wwtl_writes_wtml_last_on_the_tiling_builder :
  forall is_true : sval unit -> bool,
  exists e1 e2 e3 e4, tile_wwtl_impl_model is_true = (true, [e1; e2; e3; e4]) /\
    e1 = SMethod ww_builder "load_from_wwtl" [SName "settings"; setting "wwtl_path"] [("cli_progress", SB true)] /\
    (call_name e2 = "make_placeholder_thumbnail" \/ call_name e2 = "make_thumbnail_from_other") /\
    e3 = SMethod ww_builder "set_name" [setting "name"] [] /\
    e4 = SMethod ww_builder "write_index_rel_wtml" [] [] /\
    call_recv e2 = Some ww_builder.
Proof. exact wwtl_order. Qed.
Print Assumptions tile_wwtl_writes_wtml_last_on_the_tiling_builder.

(* ------------------------------------------------------------------ *)
(* class Builder (toasty/builder.py), straight-line methods, tied by TRANSLATION:
   Generated/BuilderSrc.v is __init__, set_name, prepare_study_tiling, execute_study_tiling and
   tile_base_as_study as harness/py2coq.py (MethodTranslator) reads them from /repo's working tree on
   every build -- attribute stores and calls, in order -- and they ARE the hand-written scripts of
   Model/BuilderScript.v, in which the place written into the WTML shows the builder's own image set,
   the URL is the pyramid's path scheme followed by "." + its default format (the naming theorems
   above say where the files are), and set_name names image set and place alike.
   Proofs in Proofs/BuilderSrcP.v. *)
From Toasty Require Import Model.BuilderScript Generated.BuilderSrc Proofs.BuilderSrcP.
Local Open Scope list_scope.

Theorem src_builder_methods_are_model :
  src_Builder_init = TDone builder_init_model /\
  src_Builder_set_name = TDone builder_set_name_model /\
  src_Builder_prepare_study_tiling = TDone builder_prepare_study_tiling_model /\
  src_Builder_execute_study_tiling = TDone builder_execute_study_tiling_model /\
  src_Builder_tile_base_as_study = TDone builder_tile_base_as_study_model.
Proof. exact src_builder_methods_eq. Qed.
Print Assumptions src_builder_methods_are_model.

Theorem builder_init_wires_the_description :
  final_store is_place "foreground_image_set" builder_init_model None = Some self_imgset /\
  final_store is_imgset "file_type" builder_init_model None
    = Some (add_ (SStr ".") (SCallA "get_default_format" (SName "pio") [] [])) /\
  final_store is_imgset "url" builder_init_model None
    = Some (add_ (SCallA "get_path_scheme" (SName "pio") [] []) (SAttr "file_type" self_imgset)) /\
  final_store is_imgset "name" builder_init_model None = final_store is_place "name" builder_init_model None.
Proof. exact init_wires_description. Qed.
Print Assumptions builder_init_wires_the_description.

Theorem builder_set_name_names_image_set_and_place :
  forall (before : list (sevent unit)) (a1 a2 : option (sval unit)),
  final_store is_imgset "name" (before ++ builder_set_name_model) a1 = Some (SName "name") /\
  final_store is_place "name" (before ++ builder_set_name_model) a2 = Some (SName "name").
Proof. exact set_name_sets_both. Qed.
Print Assumptions builder_set_name_names_image_set_and_place.
