(* C11 — Plate-carree samplers return the source pixel containing each sky point.
   Statements only; proofs live in Proofs/SamplerP.v; the model in Model/Sampler.v.

   [pi] is any positive rational (the arithmetic facts used are those of an
   ordered field; the correspondence instantiates it with the double nearest
   to pi).  [rot] is the frame-rotation oracle (astropy) of the Galactic and
   ecliptic variants; the other four variants ignore it.
   "Normalised longitude" is the value the code computes before indexing:
   congruent to the (rotated) longitude modulo 2 pi — minus pi for the ecliptic
   variant, as coded at samplers.py:291 — and lying in the documented range
   ([-pi, pi) for maps centred on 0, [0, 2 pi) for zero-at-edge maps). *)
From Coq Require Import ZArith QArith Qround.
From Toasty Require Import Model.Sampler Proofs.SamplerP.
Local Open Scope Q_scope.

(* never indexes outside the map: every variant, every map shape >= 1 x 1,
   every rational lon / lat (no range restriction), every rotation *)
Theorem index_in_range :
  forall (pi : Q) (rot : Q -> Q -> Q * Q) v nx ny lon lat,
    (1 <= nx)%Z -> (1 <= ny)%Z ->
    let r := sample pi rot v nx ny lon lat in
    (0 <= fst r < ny)%Z /\ (0 <= snd r < nx)%Z.
Proof. exact sample_in_range. Qed.
Print Assumptions index_in_range.

(* the normalisation: range and congruence *)
Theorem normalised_longitude :
  forall (pi : Q), 0 < pi -> forall k lon,
    (norm_lo pi k <= normalise pi k lon /\ normalise pi k lon < norm_lo pi k + 2 * pi)
    /\ exists j : Z, normalise pi k lon == lon - norm_shift pi k - inject_Z j * (2 * pi).
Proof. exact normalise_spec. Qed.
Print Assumptions normalised_longitude.

(* the returned pixel's closed cell contains the point: rows counted from +pi/2
   downwards, columns from the documented left edge in the documented direction
   (+pi leftwards: sky / Galactic / ecliptic; 2pi leftwards: zero-right;
    -pi rightwards: planet; 0 rightwards: planet zero-left) *)
Theorem cell_contains :
  forall (pi : Q), 0 < pi -> forall (rot : Q -> Q -> Q * Q) v nx ny lon lat,
    (1 <= nx)%Z -> (1 <= ny)%Z ->
    let lb := frame rot v lon lat in
    - (pi / 2) <= snd lb -> snd lb <= pi / 2 ->
    let r := sample pi rot v nx ny lon lat in
    row_cell_contains pi ny (fst r) (snd lb) /\
    col_cell_contains pi v nx (snd r) (normalise pi (norm_of v) (fst lb)).
Proof. exact sample_contains. Qed.
Print Assumptions cell_contains.

(* the four direct variants, stated on the caller's own (lon, lat) *)
Theorem cell_contains_direct :
  forall (pi : Q), 0 < pi -> forall (rot : Q -> Q -> Q * Q) v nx ny lon lat,
    rotates v = false ->
    (1 <= nx)%Z -> (1 <= ny)%Z -> - (pi / 2) <= lat -> lat <= pi / 2 ->
    let r := sample pi rot v nx ny lon lat in
    row_cell_contains pi ny (fst r) lat /\
    col_cell_contains pi v nx (snd r) (normalise pi (norm_of v) lon).
Proof. exact sample_contains_direct. Qed.
Print Assumptions cell_contains_direct.

(* a point strictly inside a cell gets exactly that cell (so "either neighbour"
   is confined to points on a cell boundary) *)
Theorem interior_point_gets_its_cell :
  forall (pi : Q), 0 < pi -> forall v nx ny lon lat (kx ky : Z),
    (0 <= kx < nx)%Z -> (0 <= ky < ny)%Z ->
    (let l := normalise pi (norm_of v) lon in
     match dir_of v with
     | Leftward => left_edge pi v - (inject_Z kx + 1) * cell_w pi nx < l /\ l < left_edge pi v - inject_Z kx * cell_w pi nx
     | Rightward => left_edge pi v + inject_Z kx * cell_w pi nx < l /\ l < left_edge pi v + (inject_Z kx + 1) * cell_w pi nx
     end) ->
    pi / 2 - (inject_Z ky + 1) * cell_h pi ny < lat -> lat < pi / 2 - inject_Z ky * cell_h pi ny ->
    row pi ny lat = ky /\ col pi v nx lon = kx.
Proof. exact interior_cell. Qed.
Print Assumptions interior_point_gets_its_cell.

(* period 2 pi in longitude (exact arithmetic): direct variants unconditionally *)
Theorem periodic :
  forall (pi : Q), 0 < pi -> forall (rot : Q -> Q -> Q * Q) v nx ny lon lat (j : Z),
    rotates v = false ->
    sample pi rot v nx ny (lon + inject_Z j * (2 * pi)) lat = sample pi rot v nx ny lon lat.
Proof. exact sample_periodic_direct. Qed.
Print Assumptions periodic.

(* rotated variants: periodic whenever the rotation is *)
Theorem periodic_rotated :
  forall (pi : Q), 0 < pi -> forall (rot : Q -> Q -> Q * Q) v nx ny lon lat (j : Z),
    (exists i : Z,
        fst (rot (lon + inject_Z j * (2 * pi)) lat) == fst (rot lon lat) + inject_Z i * (2 * pi) /\
        snd (rot (lon + inject_Z j * (2 * pi)) lat) == snd (rot lon lat)) ->
    sample pi rot v nx ny (lon + inject_Z j * (2 * pi)) lat = sample pi rot v nx ny lon lat.
Proof. exact sample_periodic_rotated. Qed.
Print Assumptions periodic_rotated.

(* The call into astropy as written.  The Galactic variant passes the frame
   class to transform_to (samplers.py:243), which current astropy rejects: as
   coded that variant returns nothing at all, for any input — the statement
   "every sampler returns the containing pixel" is refuted for it.  The other
   five variants, and the Galactic one once it passes an instance, are total and
   equal to [sample], to which all theorems above apply. *)
Theorem galactic_as_coded_refuted :
  exists pi rot v nx ny lon lat,
    0 < pi /\ (1 <= nx)%Z /\ (1 <= ny)%Z /\ - (pi / 2) <= lat /\ lat <= pi / 2 /\
    sample_coded pi rot v nx ny lon lat = None.
Proof. exact sample_coded_refuted. Qed.
Print Assumptions galactic_as_coded_refuted.

Theorem as_coded_other_variants_total :
  forall pi rot v nx ny lon lat,
    v <> Galactic -> sample_coded pi rot v nx ny lon lat = Some (sample pi rot v nx ny lon lat).
Proof. exact sample_coded_other. Qed.
Print Assumptions as_coded_other_variants_total.

Theorem repaired_total :
  forall pi rot v nx ny lon lat,
    sample_fixed pi rot v nx ny lon lat = Some (sample pi rot v nx ny lon lat).
Proof. exact sample_fixed_total. Qed.
Print Assumptions repaired_total.

(* hypotheses are satisfiable and the statements have content: pi := 355/113,
   a 5 x 3 map (odd sizes), a point on no boundary; and the seam column *)
Example cell_contains_nonvacuous :
  let pi := 355 # 113 in
  0 < pi /\ - (pi / 2) <= (1 # 5) /\ (1 # 5) <= pi / 2 /\
  sample pi (fun l b => (l, b)) PlateCarree 5 3 (1 # 10) (1 # 5) = (1%Z, 2%Z) /\
  sample pi (fun l b => (l, b)) Planet 5 3 (1 # 10) (1 # 5) = (1%Z, 2%Z) /\
  sample pi (fun l b => (l, b)) PlateCarree 5 3 (13 # 5) (1 # 5) = (1%Z, 0%Z) /\
  sample pi (fun l b => (l, b)) Planet 5 3 (13 # 5) (1 # 5) = (1%Z, 4%Z) /\
  sample pi (fun l b => (l, b)) PlateCarree 4 2 pi (pi / 2) = (0%Z, 3%Z) /\
  sample pi (fun l b => (l, b)) PlateCarree 1 1 (- pi) (- (pi / 2)) = (0%Z, 0%Z).
Proof. vm_compute. repeat split; discriminate. Qed.

Example periodic_nonvacuous :
  let pi := 355 # 113 in
  sample pi (fun l b => (l, b)) ZeroRight 7 3 ((1 # 3) + inject_Z (-5) * (2 * pi)) (1 # 5)
  = sample pi (fun l b => (l, b)) ZeroRight 7 3 (1 # 3) (1 # 5)
  /\ sample pi (fun l b => (l, b)) ZeroRight 7 3 (1 # 3) (1 # 5) = (1%Z, 6%Z).
Proof. vm_compute. split; reflexivity. Qed.

(* ------------------------------------------------------------------ *)
(* `toasty tile-allsky` (cli.tile_allsky_impl), tied by TRANSLATION: Generated/CliAllskySrc.v is the
   decision tree of the function produced from toasty/cli.py in /repo's working tree on every
   build.  Under every valuation of its settings it behaves like the hand-written model
   (Model/CliScript.v), in which the projection name the user gives selects the sampler factory of
   THAT projection (the samplers the theorems above speak about) and its planet / panorama flags,
   and an unknown name dies.  Proofs in Proofs/CliAllskyP.v. *)
From Coq Require Import String List.
From Toasty Require Import Model.SrcPrelude Model.CliScript Generated.CliAllskySrc Proofs.CliAllskyP.

Theorem src_tile_allsky_command_is_model :
  forall (is_none : sval unit -> bool) (eq_lit : sval unit -> string -> bool) (is_true : sval unit -> bool),
  run_tree is_none eq_lit is_true src_cli_tile_allsky_impl = tile_allsky_impl_model eq_lit is_true.
Proof. exact src_tile_allsky_impl_eq. Qed.
Print Assumptions src_tile_allsky_command_is_model.

Theorem projection_selects_its_sampler :
  forall (p fn : string) (pl pa : bool) (is_true : sval unit -> bool),
  In (p, (fn, pl, pa)) projection_table ->
  tile_allsky_impl_model (fun _ s => String.eqb p s) is_true = (true, allsky_calls fn pl pa is_true).
Proof. exact allsky_projection_selects. Qed.
Print Assumptions projection_selects_its_sampler.
