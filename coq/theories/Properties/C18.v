(* C18 — Publishing is crash-safe: index.wtml reaches the store only after all else.
   Statements only; proofs in Proofs/PublishP.v, model in Model/Publish.v.
   [atomic = false] is LocalPipelineIo.put_item as found (writes the destination
   in place), [atomic = true] the repaired store (temporary name + os.replace).
   Vocabulary (PublishP.v): Others files st = every file other than index.wtml is
   Complete; StoreOk files st = (index.wtml present in any state -> Others);
   WorldOk files w = StoreOk for every image and (published -> all files Complete). *)
From Coq Require Import List NArith Arith Bool Permutation.
From Toasty Require Import Model.Publish Proofs.PublishP.
Import ListNotations.

(* for every listing (any order, no duplicates) containing index.wtml: it is
   transferred last and the transfer order is a rearrangement of the listing *)
Theorem index_last :
  forall listing, NoDup listing -> In INDEX listing ->
    exists pre, transfer_order listing = pre ++ [INDEX] /\ ~ In INDEX pre /\
                Permutation (transfer_order listing) listing.
Proof. exact transfer_order_index_last. Qed.
Print Assumptions index_last.

Theorem listing_without_index_is_kept :
  forall listing, ~ In INDEX listing -> transfer_order listing = listing.
Proof. exact transfer_order_no_index. Qed.
Print Assumptions listing_without_index_is_kept.

(* every file is handed to put_item exactly once, index.wtml last *)
Theorem every_file_once :
  forall atomic listing k st, NoDup listing ->
    snd (transfer atomic (transfer_order listing) k NoFault st) = transfer_order listing /\
    Permutation (transfer_order listing) listing /\ NoDup (transfer_order listing) /\
    (In INDEX listing -> exists pre, transfer_order listing = pre ++ [INDEX] /\ ~ In INDEX pre).
Proof. exact image_index_last. Qed.
Print Assumptions every_file_once.

Theorem faulted_transfers_are_a_prefix :
  forall atomic listing k f st,
    exists rest, transfer_order listing = snd (transfer atomic (transfer_order listing) k f st) ++ rest.
Proof. exact image_log_prefix. Qed.
Print Assumptions faulted_transfers_are_a_prefix.

(* one image, every listing, every fault point: the store invariant survives,
   and all files are Complete if the loop completed *)
Theorem crash_invariant :
  forall atomic files listing k f st,
    NoDup listing -> Permutation listing files ->
    (atomic = true \/ st INDEX = Absent) ->
    StoreOk files st ->
    let r := transfer atomic (transfer_order listing) k f st in
    StoreOk files (fst (fst (fst r))) /\
    (snd (fst r) = true -> AllComplete files (fst (fst (fst r)))).
Proof. exact image_crash_invariant. Qed.
Print Assumptions crash_invariant.

(* several approved images, any outer order, a fault anywhere: invariant for every
   image; an image is in published/ only with all its files Complete; a run that
   completes publishes every image; published images stay published *)
Theorem crash_invariant_all_images :
  forall atomic files listing order f w,
    NoDup order ->
    (forall u, In u order -> NoDup (listing u) /\ Permutation (listing u) (files u)) ->
    (forall u, In u order -> w_published w u = false -> atomic = true \/ w_store w u INDEX = Absent) ->
    WorldOk files w ->
    let r := publish atomic order listing f w in
    WorldOk files (fst (fst r)) /\
    (snd (fst r) = true -> forall u, In u order -> w_published (fst (fst r)) u = true) /\
    (forall u, w_published w u = true -> w_published (fst (fst r)) u = true).
Proof. exact publish_safe. Qed.
Print Assumptions crash_invariant_all_images.

(* the code as found, first publish of the approved images *)
Theorem first_run_crash_safe :
  forall files listing order f w,
    NoDup order ->
    (forall u, In u order -> NoDup (listing u) /\ Permutation (listing u) (files u)) ->
    (forall u, In u order -> w_published w u = false -> w_store w u INDEX = Absent) ->
    WorldOk files w ->
    WorldOk files (fst (fst (publish false order listing f w))).
Proof. exact first_run_safe. Qed.
Print Assumptions first_run_crash_safe.

(* re-running publish without a fault completes the job, from any store state
   and with any second listing order *)
Theorem rerun_completes :
  forall atomic files listing order w,
    NoDup order ->
    (forall u, In u order -> NoDup (listing u) /\ Permutation (listing u) (files u)) ->
    (forall u, w_published w u = true -> AllComplete (files u) (w_store w u)) ->
    let r := publish atomic order listing NoFault w in
    snd (fst r) = true /\
    forall u, In u order -> w_published (fst (fst r)) u = true /\
                            AllComplete (files u) (w_store (fst (fst r)) u).
Proof. exact rerun_completes_all. Qed.
Print Assumptions rerun_completes.

Theorem refresh_never_skips_partial :
  forall files w u, WorldOk files w -> refresh_skips w u = true -> Others (files u) (w_store w u).
Proof. exact refresh_skip_sound. Qed.
Print Assumptions refresh_never_skips_partial.

(* fault sequences: any history of faulted publish() runs (repaired store) *)
Theorem fault_sequences_crash_safe :
  forall files rs w,
    (forall r, In r rs -> run_wf files r) -> WorldOk files w -> WorldOk files (run_all true rs w).
Proof. exact run_all_atomic_safe. Qed.
Print Assumptions fault_sequences_crash_safe.

(* the store as found: a fault during the index.wtml transfer followed by a fault
   during the first transfer of the re-run leaves index.wtml next to a partial file,
   and refresh would skip the image *)
Theorem fault_sequences_refuted :
  (forall r, In r wit_runs -> run_wf wit_files r) /\
  WorldOk wit_files clean_world /\
  let w := run_all false wit_runs clean_world in
  present (w_store w 1%N INDEX) = true /\ w_store w 1%N 2%N = Partial /\
  refresh_skips w 1%N = true /\ ~ WorldOk wit_files w.
Proof. exact sequence_refuted. Qed.
Print Assumptions fault_sequences_refuted.

(* non-vacuity *)
Example index_last_nonvacuous :
  transfer_order [3; 0; 1; 2]%N = [3; 2; 1; 0]%N /\ NoDup [3; 0; 1; 2]%N /\ In INDEX [3; 0; 1; 2]%N.
Proof.
  split; [vm_compute; reflexivity|]. split; [|cbn; tauto].
  repeat constructor; cbn; intuition discriminate.
Qed.

Example crash_invariant_nonvacuous :
  let r := transfer false (transfer_order [3; 0; 1; 2]%N) 0 (During 4) empty_store in
  snd r = [3; 2; 1; 0]%N /\ fst (fst (fst r)) INDEX = Partial /\ fst (fst (fst r)) 3%N = Complete /\
  snd (fst r) = false /\ store_ok [3; 0; 1; 2]%N (fst (fst (fst r))) = true.
Proof. vm_compute. repeat split; reflexivity. Qed.

Example all_images_nonvacuous :
  let files := fun u : imgid => if N.eqb u 7 then [0; 1]%N else [0; 1; 2]%N in
  let r := publish false [7; 8]%N (listing_fun [(7, [0; 1]); (8, [2; 0; 1])]%N) (After 3) clean_world in
  snd r = [(7, 1); (7, 0); (8, 2)]%N /\ w_published (fst (fst r)) 7%N = true /\
  w_published (fst (fst r)) 8%N = false /\ w_store (fst (fst r)) 8%N 2%N = Complete /\
  w_store (fst (fst r)) 8%N INDEX = Absent.
Proof. vm_compute. repeat split; reflexivity. Qed.

Example fault_sequences_nonvacuous :
  let w := run_all true wit_runs clean_world in
  store_ok (wit_files 1%N) (w_store w 1%N) = true /\ w_store w 1%N 1%N = Complete /\
  w_store w 1%N INDEX = Absent.
Proof. vm_compute. repeat split; reflexivity. Qed.

(* ------------------------------------------------------------------ *)
(* Housekeeping (Model/Housekeeping.v): refresh also skips an image whose store folder holds
   skip.flag, which `toasty pipeline ignore-rejects` writes for every directory it lists in
   rejects/.  For every history of faulted publish runs and ignore-rejects calls in which the
   listings hold rejected images only, an image that is not rejected is skipped by refresh only
   when all its other files are complete in the store.  The listing hypothesis is what the code
   must provide (rejects/ and approved/ are different directories; the correspondence run
   executes the real ignore_rejects and refresh_impl on histories with both directories
   populated); it is needed (second theorem).  Proofs in Proofs/HousekeepingP.v. *)
From Toasty Require Import Model.Housekeeping Proofs.HousekeepingP.

Theorem housekeeping_never_makes_refresh_skip_a_partial_image :
  forall (files : imgid -> list name) (rejected : imgid -> bool) (ops : list hop) (h : hworld) (u : imgid),
  (forall r, In r (runs_of ops) -> run_wf files r) -> WorldOk files (h_w h) ->
  ignores_only rejected ops -> rejected u = false -> h_flag h u = false ->
  refresh_skips_full (hrun true ops h) u = true ->
  Others (files u) (w_store (h_w (hrun true ops h)) u).
Proof. exact housekeeping_never_skips_partial. Qed.
Print Assumptions housekeeping_never_makes_refresh_skip_a_partial_image.

Theorem housekeeping_flags_rejected_images_only :
  forall (atomic : bool) (rejected : imgid -> bool) (ops : list hop) (h : hworld),
  ignores_only rejected ops ->
  (forall u, rejected u = false -> h_flag (hrun atomic ops h) u = h_flag h u) /\
  h_w (hrun atomic ops h) = run_all atomic (runs_of ops) (h_w h).
Proof. intros a rj ops h H. split; [exact (flags_only_on_rejected a rj ops h H) | exact (hrun_world a ops h)]. Qed.
Print Assumptions housekeeping_flags_rejected_images_only.

Theorem housekeeping_listing_hypothesis_is_needed :
  let h := hrun true wit_h_ops clean_hworld in
  refresh_skips_full h 1%N = true /\ w_store (h_w h) 1%N 2%N = Absent /\ w_store (h_w h) 1%N INDEX = Absent /\
  w_published (h_w h) 1%N = false.
Proof. exact housekeeping_hypothesis_needed. Qed.
Print Assumptions housekeeping_listing_hypothesis_is_needed.
