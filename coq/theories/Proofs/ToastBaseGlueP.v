(* Proofs about Model/ToastBaseGlue.v. *)
From Coq Require Import ZArith Bool.
From Toasty Require Import Model.ToastBaseGlue.

(* the coordinate system that reaches the core does not depend on whether a filter is given, nor
   on the worker count, nor on is_pano: filtered and unfiltered sampling of one request work on
   the same tiles *)
Lemma system_independent_of_route o f' par' pano' :
  te_planetary (toast_base (mkTB (tb_is_planet o) pano' (tb_coordsys o) f' par' (tb_depth o)))
  = te_planetary (toast_base o).
Proof. reflexivity. Qed.

(* an explicit coordsys= wins; otherwise is_planet decides; a panorama uses the sky layout *)
Lemma system_rule o :
  te_planetary (toast_base o) = match tb_coordsys o with Some s => s | None => tb_is_planet o end.
Proof. reflexivity. Qed.

Lemma panorama_uses_sky_layout o :
  tb_is_planet o = false -> tb_coordsys o = None -> te_planetary (toast_base o) = false.
Proof. intros H1 H2. rewrite system_rule, H2. exact H1. Qed.

(* depth, worker count and the choice of core function are passed through unchanged, and the
   recorded number of levels is the sampled depth *)
Lemma passthrough o :
  te_depth (toast_base o) = tb_depth o /\ te_parallel (toast_base o) = tb_parallel o /\
  te_filtered_core (toast_base o) = tb_filtered o /\ te_tile_levels (toast_base o) = tb_depth o.
Proof. repeat split. Qed.
