(* C19 for the parallel cascade walk (Model/WalkPar.v): what the CURRENT code does
   when a callback raises, for every [bad : pos -> bool] and every schedule.
   The worker process dies (exit status 1), its position is never reported to the
   dispatcher, so no ancestor of it is ever released and the dispatcher never sees
   the apex: the walk never returns (it polls forever).  The failure is visible in
   the workers' exit statuses.  Built on the invariant of Proofs/WalkParInv.v, which
   is proved for arbitrary [bad]. *)
From Coq Require Import List NArith Arith Bool Lia Permutation.
From Toasty Require Import Model.Quadtree Model.Reducer Model.WalkPar
     Proofs.QuadtreeP Proofs.ReducerP Proofs.EnumP Proofs.CountsP
     Proofs.WalkParDefs Proofs.WalkParAux Proofs.WalkParPrep Proofs.WalkParInv Proofs.WalkParP.
Import ListNotations.

(* worker process ended (or is ending) with exit status 1 *)
Definition is1 (x : wpc * bool) : bool :=
  match fst x with KExiting 1 | KExited 1 => true | _ => false end.
Definition code1 (s : wstate) : Prop :=
  exists w x, nth_error (wks s) w = Some x /\ is1 x = true.

(* the callback of p was started, is not running any more and never returned *)
Definition crashed_at (s : wstate) (p : pos) : Prop :=
  (exists w, In (false, p, w) (cblog s)) /\
  (forall w, ~ In (true, p, w) (cblog s)) /\
  (forall w ev, nth_error (wks s) w <> Some (KInCb p, ev)).

(* ---- list facts ------------------------------------------------------------------- *)

Lemma code1_set_nth (l : list (wpc * bool)) w old x :
  nth_error l w = Some old -> is1 old = is1 x ->
  ((exists w' y, nth_error (set_nth l w x) w' = Some y /\ is1 y = true) <->
   (exists w' y, nth_error l w' = Some y /\ is1 y = true)).
Proof.
  intros Ho Hi. pose proof (nth_error_lt _ _ _ Ho) as Hlt. split; intros (w' & y & Hy & H1).
  - destruct (Nat.eq_dec w' w) as [->|Hne].
    + rewrite nth_error_set_nth_eq in Hy by exact Hlt. injection Hy as <-.
      exists w, old. split; [exact Ho|congruence].
    + rewrite nth_error_set_nth_neq in Hy by assumption. eauto.
  - destruct (Nat.eq_dec w' w) as [->|Hne].
    + exists w, x. split; [apply nth_error_set_nth_eq; exact Hlt|]. rewrite Ho in Hy. injection Hy as <-. congruence.
    + exists w', y. split; [|exact H1]. rewrite nth_error_set_nth_neq by assumption. exact Hy.
Qed.

Lemma cnt_flat_zero {T} (f : T -> list pos) (l : list T) q :
  cnt q (flat_map f l) = 0 <-> forall w x, nth_error l w = Some x -> cnt q (f x) = 0.
Proof.
  induction l as [|a l IH]; cbn [flat_map].
  - split; [intros _ w x H; destruct w; discriminate|reflexivity].
  - rewrite cnt_app. split.
    + intros H [|w] x Hx; cbn [nth_error] in Hx.
      * injection Hx as <-. lia.
      * apply (proj1 IH ltac:(lia) w x Hx).
    + intros H. pose proof (H 0 a eq_refl) as H0.
      assert (Hl : cnt q (flat_map f l) = 0) by (apply IH; intros w x Hx; apply (H (S w) x Hx)). lia.
Qed.

(* ---- effect of one step on the crash count and on the exit statuses ---------------- *)

Section Effect.
  Variable bad : pos -> bool.
  Notation step := (wstep bad).

  Lemma ncr_same s s' : wks s' = wks s -> cblog s' = cblog s ->
    (forall q, n_cr s' q = n_cr s q) /\ (code1 s' <-> code1 s).
  Proof.
    intros E1 E2. split.
    - intros q. unfold n_cr, n_st, n_cb, n_en. rewrite E1, E2. reflexivity.
    - unfold code1. rewrite E1. reflexivity.
  Qed.

  Lemma ncr_wk s s' w old x :
    nth_error (wks s) w = Some old -> wks s' = set_nth (wks s) w x -> cblog s' = cblog s ->
    cbpos old = cbpos x -> is1 old = is1 x ->
    (forall q, n_cr s' q = n_cr s q) /\ (code1 s' <-> code1 s).
  Proof.
    intros Ho E1 E2 Hc Hi. split.
    - intros q. unfold n_cr, n_st, n_cb, n_en. rewrite E1, E2.
      pose proof (cnt_flat_set_nth cbpos (wks s) w old x q Ho) as A. rewrite Hc in A. lia.
    - unfold code1. rewrite E1. apply (code1_set_nth _ _ old); assumption.
  Qed.

  Definition step_effect (s s' : wstate) : Prop :=
    ((forall q, n_cr s' q = n_cr s q) /\ (code1 s' <-> code1 s)) \/
    (exists p, bad p = true /\ (forall q, n_cr s' q = n_cr s q + cnt q [p]) /\ code1 s').

  Lemma crash_step O ap dep par pcap s a :
    Inv bad O ap dep par pcap s -> wenabled s a = true -> step_effect s (step s a).
  Proof.
    intros H En. unfold wstep. rewrite En. cbn [negb]. unfold step_effect.
    destruct a; unfold wenabled, wk_get in En; unfold wk_get.
    - (* DPut *)
      destruct (d_pc s) as [l| |p| | | |k| |] eqn:Epc; try discriminate.
      + destruct l as [|p l]; [discriminate|]. left.
        pose proof (i_wks _ _ _ _ _ _ _ H) as Hw. unfold wks_ok in Hw. rewrite Epc in Hw. destruct Hw as [_ Hw].
        destruct l as [|p' l]; [|apply ncr_same; reflexivity]. split.
        * intros q. unfold n_cr, n_st, n_cb, n_en, upd. cbn [wks cblog]. rewrite Hw.
          unfold start_workers. rewrite flat_map_repeat_nil by reflexivity. reflexivity.
        * unfold code1, upd. cbn [wks]. rewrite Hw. split; intros (w & x & Hx & H1).
          -- apply nth_error_In, repeat_spec in Hx. subst x. discriminate.
          -- destruct w; discriminate.
      + left. apply ncr_same; reflexivity.
    - (* DRecv *)
      left. apply ncr_same; destruct (dq_pipe s) as [|p rest]; try reflexivity; cbv zeta;
        (destruct (pos_eqb p (s_apex s)); [reflexivity|]);
        (destruct (parent p) as [[[pp ix] iy]|]; [|reflexivity]);
        destruct (N.eqb _ 15); reflexivity.
    - left. apply ncr_same; reflexivity.
    - left. apply ncr_same; reflexivity.
    - left. apply ncr_same; reflexivity.
    - left. apply ncr_same; reflexivity.
    - left. apply ncr_same; reflexivity.
    - left. apply ncr_same; destruct (rq_buf s); reflexivity.
    - left. apply ncr_same; reflexivity.
    - left. apply ncr_same; destruct (nth_buf (dq_bufs s) w); reflexivity.
    - (* KRecv *)
      destruct (nth_error (wks s) w) as [[[] ev]|] eqn:Ew; try discriminate.
      destruct (rq_pipe s) as [|p rest] eqn:Ep; [discriminate|]. left. split.
      + intros q. unfold n_cr, n_st, n_cb, n_en, upd. cbn [wks cblog].
        rewrite starts_cons_s, ends_cons_s, (cnt_cons q p (starts _)).
        pose proof (cnt_flat_set_nth cbpos (wks s) w _ (KInCb p, ev) q Ew) as A.
        cbn [cbpos fst] in A. rewrite cnt_nil in A. lia.
      + unfold code1, upd. cbn [wks]. apply (code1_set_nth _ _ (KAtGet, ev)); auto.
    - (* KTimeout *)
      destruct (nth_error (wks s) w) as [[[] ev]|] eqn:Ew; try discriminate.
      left. apply (ncr_wk s _ w (KAtGet, ev) (KAtFlag, ev)); auto.
    - (* KIsSet *)
      destruct (nth_error (wks s) w) as [[[] ev]|] eqn:Ew; try discriminate.
      left. apply (ncr_wk s _ w (KAtFlag, ev) (if wflag s then (leave ev 0, ev) else (KAtGet, ev))); auto;
        destruct (wflag s), ev; reflexivity.
    - (* KCb *)
      destruct (nth_error (wks s) w) as [[[| |p| | |] ev]|] eqn:Ew; try discriminate.
      pose proof (nth_error_lt _ _ _ Ew) as Hlt.
      destruct (bad p) eqn:Ebad.
      + right. exists p. split; [exact Ebad|]. split.
        * intros q. pose proof (i_q _ _ _ _ _ _ _ H q) as [C1 C2 C3 C4 C5 C6 C7 C8].
          unfold n_cr, n_st, n_cb, n_en, set_wk, upd in *. cbn [wks cblog].
          pose proof (cnt_flat_set_nth cbpos (wks s) w _ (leave ev 1, ev) q Ew) as A.
          destruct ev; cbn [leave cbpos fst] in *; rewrite cnt_nil in A; lia.
        * exists w, (leave ev 1, ev). unfold set_wk, upd. cbn [wks]. split.
          -- apply nth_error_set_nth_eq. exact Hlt.
          -- destruct ev; reflexivity.
      + left. split.
        * intros q. unfold n_cr, n_st, n_cb, n_en, upd. cbn [wks cblog].
          rewrite starts_cons_e, ends_cons_e, (cnt_cons q p (ends _)).
          pose proof (cnt_flat_set_nth cbpos (wks s) w _ (KAtPut p, ev) q Ew) as A.
          cbn [cbpos fst] in A. rewrite cnt_nil in A. lia.
        * unfold code1, upd. cbn [wks]. apply (code1_set_nth _ _ (KInCb p, ev)); auto.
    - (* KPut *)
      destruct (nth_error (wks s) w) as [[[| | |p| |] ev]|] eqn:Ew; try discriminate.
      left. apply (ncr_wk s _ w (KAtPut p, ev) (KAtGet, true)); auto.
    - (* KExit *)
      destruct (nth_error (wks s) w) as [[[] ev]|] eqn:Ew; try discriminate.
      left. apply (ncr_wk s _ w (KExiting code, ev) (KExited code, ev)); auto.
    - (* KCTimeout *)
      destruct (nth_error (wks s) w) as [[[] ev]|] eqn:Ew; try discriminate.
      left. apply (ncr_wk s _ w (KAtGet, ev) (KAtFlag, ev)); auto.
  Qed.
End Effect.

(* ---- crashed positions, in terms of the counts -------------------------------------- *)

Lemma crashed_iff bad O ap dep par pcap s p :
  Inv bad O ap dep par pcap s -> (crashed_at s p <-> n_cr s p >= 1).
Proof.
  intros H. pose proof (i_q _ _ _ _ _ _ _ H p) as [C1 C2 C3 C4 C5 C6 C7 C8].
  assert (Hst : (exists w, In (false, p, w) (cblog s)) <-> n_st s p >= 1).
  { rewrite <- in_starts. unfold n_st. apply cnt_in. }
  assert (Hen : (forall w, ~ In (true, p, w) (cblog s)) <-> n_en s p = 0).
  { unfold n_en. rewrite <- cnt_notin, in_ends. split.
    - intros Hn (w & Hw). exact (Hn w Hw).
    - intros Hn w Hw. apply Hn. eauto. }
  assert (Hcb : (forall w ev, nth_error (wks s) w <> Some (KInCb p, ev)) <-> n_cb s p = 0).
  { unfold n_cb. rewrite cnt_flat_zero. split.
    - intros Hn w [st ev] Hx. unfold cbpos. cbn [fst]. destruct st; try reflexivity.
      destruct (pos_eq_dec p p0) as [->|Hne]; [exfalso; exact (Hn w ev Hx)|apply cnt_one_diff; exact Hne].
    - intros Hz w ev Hx. specialize (Hz w _ Hx). cbn [cbpos fst] in Hz. rewrite cnt_one_same in Hz. discriminate. }
  unfold crashed_at. rewrite Hst, Hen, Hcb. unfold n_cr. lia.
Qed.

Lemma code1_iff s :
  code1 s <-> exists w ev, nth_error (wks s) w = Some (KExiting 1, ev) \/ nth_error (wks s) w = Some (KExited 1, ev).
Proof.
  unfold code1. split.
  - intros (w & [st ev] & Hx & H1). exists w, ev. unfold is1 in H1. cbn [fst] in H1.
    destruct st as [| | | |c|c]; try discriminate; destruct c as [|[|c]]; try discriminate; auto.
  - intros (w & ev & [Hx|Hx]); eexists w, _; (split; [exact Hx|reflexivity]).
Qed.

(* ---- over all runs, for an abstract operation set ------------------------------------ *)

(* number of steps of a schedule that are enabled and not polling moves *)
Fixpoint nonpoll (bad : pos -> bool) (s : wstate) (l : list wact) : nat :=
  match l with
  | [] => 0
  | a :: l' => (if wenabled s a && negb (wpolling s a) then 1 else 0) + nonpoll bad (wstep bad s a) l'
  end.

Lemma nonpoll_cons bad s a l :
  nonpoll bad s (a :: l) =
  (if wenabled s a && negb (wpolling s a) then 1 else 0) + nonpoll bad (wstep bad s a) l.
Proof. reflexivity. Qed.

Section Runs.
  Variable bad : pos -> bool.
  Variable O : list pos.
  Variable ap : pos.
  Variable dep par pcap : nat.
  Variable R0 : list (pos * N).
  Hypothesis Hpar : 1 <= par.
  Hypothesis Hpcap : 1 <= pcap.
  Hypothesis O_nodup : NoDup O.
  Hypothesis O_apex : In ap O.
  Hypothesis O_level : forall p, In p O -> S (pn p) <= dep.
  Hypothesis O_above : forall p, In p O -> pn ap <= pn p.
  Hypothesis O_parent : forall p, In p O -> p <> ap ->
    exists pp ix iy, parent p = Some (pp, ix, iy) /\ In pp O.
  Hypothesis O_child : forall p, In p O -> S (pn p) < dep -> exists c, In c (children p) /\ In c O.
  Hypothesis R0_spec : forall p, In p O -> S (pn p) < dep ->
    rdy_get R0 p = bit4 (negb (memb (c0 p) O)) (negb (memb (c1 p) O))
                        (negb (memb (c2 p) O)) (negb (memb (c3 p) O)).

  Notation INV := (Inv bad O ap dep par pcap).
  Notation step := (wstep bad).
  Notation run := (wrun bad).
  Notation I0 := (init0 O ap dep par pcap R0).

  Lemma Istep s a : INV s -> INV (step s a).
  Proof. apply (inv_step bad O ap dep par pcap R0); assumption. Qed.

  Lemma Irun l : INV (run I0 l).
  Proof. apply (inv_reachable bad O ap dep par pcap R0); assumption. Qed.

  Lemma effect_any s a : INV s -> step_effect bad s (step s a).
  Proof.
    intros H. destruct (wenabled s a) eqn:En; [eapply crash_step; eauto|].
    unfold wstep. rewrite En. left. split; [reflexivity|reflexivity].
  Qed.

  Lemma ncr_mono_run l : forall s, INV s -> forall q, n_cr s q <= n_cr (run s l) q.
  Proof.
    induction l as [|a l IH]; intros s H q; [cbn; lia|]. cbn [wrun fold_left].
    specialize (IH (step s a) (Istep s a H) q). unfold wrun in IH.
    destruct (effect_any s a H) as [[E _]|(p & _ & E & _)]; rewrite E in IH; lia.
  Qed.

  (* the failure is visible in the exit statuses, and only failures are *)
  Definition vis (s : wstate) : Prop := (exists q, n_cr s q >= 1) <-> code1 s.

  Lemma vis_step s a : INV s -> vis s -> vis (step s a).
  Proof.
    intros H V. unfold vis in *. destruct (effect_any s a H) as [[E C]|(p & _ & E & C)].
    - rewrite C, <- V. split; intros (q & Hq); exists q; rewrite ?E in *; exact Hq.
    - split; [intros _; exact C|]. intros _. exists p. rewrite E, cnt_one_same. lia.
  Qed.

  Lemma vis_init : vis I0.
  Proof.
    unfold vis. split.
    - intros (q & Hq). exfalso. unfold n_cr, n_st, init0 in Hq. destruct (seeds O dep); cbn in Hq; lia.
    - intros (w & x & Hx & H1). exfalso. unfold init0 in Hx. destruct (seeds O dep); cbn [wks] in Hx.
      + apply nth_error_In, repeat_spec in Hx. subst x. discriminate.
      + destruct w; discriminate.
  Qed.

  Lemma vis_run l : forall s, INV s -> vis s -> vis (run s l).
  Proof.
    induction l as [|a l IH]; intros s H V; [exact V|]. cbn [wrun fold_left].
    apply IH; [apply Istep; exact H|apply vis_step; assumption].
  Qed.

  (* once a callback has raised the dispatcher stays in its loop for ever *)
  Lemma crashed_in_loop s p : INV s -> n_cr s p >= 1 -> in_loop (d_pc s) = true.
  Proof.
    intros H Hc. destruct (in_loop (d_pc s)) eqn:El; [reflexivity|exfalso].
    pose proof (i_q _ _ _ _ _ _ _ H p) as [C1 C2 C3 C4 C5 C6 C7 C8]. unfold n_cr in Hc.
    assert (HpO : In p O) by (apply C4; lia).
    pose proof (i_past _ _ _ _ _ _ _ H El p HpO) as Ha. unfold acked in Ha. lia.
  Qed.

  Lemma crashed_forever s p l :
    INV s -> n_cr s p >= 1 -> in_loop (d_pc (run s l)) = true /\ n_cr (run s l) p >= 1.
  Proof.
    intros H Hc. pose proof (ncr_mono_run l s H p) as Hm.
    split; [|lia]. apply (crashed_in_loop _ p).
    - apply (inv_run bad O ap dep par pcap R0); assumption.
    - lia.
  Qed.

  (* every schedule performs at most [measure] non-polling steps *)
  Lemma nonpoll_bound l : forall s, INV s -> nonpoll bad s l + measure O par (run s l) <= measure O par s.
  Proof.
    induction l as [|a l IH]; intros s H; [cbn; lia|]. rewrite nonpoll_cons. cbn [wrun fold_left].
    specialize (IH (step s a) (Istep s a H)). unfold wrun in IH.
    destruct (wenabled s a) eqn:En.
    - destruct (wpolling s a) eqn:Ep; cbn [andb negb].
      + rewrite (measure_polling bad O ap dep par pcap R0 Hpar Hpcap O_apex O_level O_above
                   O_parent O_child R0_spec s a En Ep) in IH. lia.
      + pose proof (measure_decreases bad O ap dep par pcap R0 Hpar Hpcap O_apex O_level O_above
                      O_parent O_child R0_spec s a H En Ep). lia.
    - cbn [andb]. assert (E : step s a = s) by (unfold wstep; rewrite En; reflexivity).
      rewrite E in IH |- *. lia.
  Qed.
End Runs.

(* ---- for every well-formed pyramid ------------------------------------------------------ *)

Section WalkCrash.
  Variable P : pyr.
  Variables par pcap : nat.
  Variable bad : pos -> bool.
  Hypothesis Hwf : wf_pyr P.
  Hypothesis Hpar : 1 <= par.
  Hypothesis Hpcap : 1 <= pcap.
  Variable s0 : wstate.
  Hypothesis Hinit : winit P par pcap = Some s0.

  Notation run := (wrun bad).

  Lemma run_app s l l' : run s (l ++ l') = run (run s l) l'.
  Proof. unfold wrun. apply fold_left_app. Qed.

  Lemma lvl p : In p (spec_ops P) -> S (pn p) <= depth P.
  Proof. intros H. pose proof (spec_ops_scope P p Hwf H) as (_ & _ & A). clear - A. lia. Qed.
  Lemma abv p : In p (spec_ops P) -> pn (apex P) <= pn p.
  Proof. intros H. pose proof (spec_ops_scope P p Hwf H) as (_ & _ & A). clear - A. lia. Qed.

  Lemma empty_not_crashed ap R p : ~ crashed_at (s_empty ap par pcap R) p.
  Proof. intros ((w & Hw) & _). destruct Hw. Qed.

  Section NE.
    Variable R : list (pos * N).
    Hypothesis HR : forall p, In p (spec_ops P) -> S (pn p) < depth P ->
         rdy_get R p = bit4 (negb (memb (c0 p) (spec_ops P))) (negb (memb (c1 p) (spec_ops P)))
                            (negb (memb (c2 p) (spec_ops P))) (negb (memb (c3 p) (spec_ops P))).
    Hypothesis Hne : spec_ops P <> [].
    Let Hap : In (apex P) (spec_ops P) := proj1 (ops_closure P Hwf) Hne.
    Let Hparent := proj1 (proj2 (ops_closure P Hwf)).
    Let Hchild := proj2 (proj2 (ops_closure P Hwf)).
    Notation I0 := (init0 (spec_ops P) (apex P) (depth P) par pcap R).
    Notation INV := (Inv bad (spec_ops P) (apex P) (depth P) par pcap).

    Lemma ne_inv_bad l : INV (run I0 l).
    Proof.
      apply (Irun bad (spec_ops P) (apex P) (depth P) par pcap R Hpar Hpcap (ops_nodup P) Hap
               lvl abv Hparent Hchild HR).
    Qed.

    Lemma ne_forever l l' p :
      crashed_at (run I0 l) p ->
      bad p = true /\ In p (spec_ops P) /\
      in_loop (d_pc (run I0 (l ++ l'))) = true /\ crashed_at (run I0 (l ++ l')) p.
    Proof.
      intros Hc. pose proof (ne_inv_bad l) as H. apply (crashed_iff _ _ _ _ _ _ _ _ H) in Hc.
      pose proof (i_q _ _ _ _ _ _ _ H p) as [C1 C2 C3 C4 C5 C6 C7 C8].
      split; [apply C8; exact Hc|]. split; [apply C4; unfold n_cr in Hc; lia|].
      rewrite run_app.
      destruct (crashed_forever bad (spec_ops P) (apex P) (depth P) par pcap R Hpar Hpcap Hap
                  lvl abv Hparent Hchild HR (run I0 l) p l' H Hc) as [A B].
      split; [exact A|]. rewrite <- run_app in *.
      apply (crashed_iff _ _ _ _ _ _ _ _ (ne_inv_bad (l ++ l'))). exact B.
    Qed.

    Lemma ne_visible l :
      (exists p, crashed_at (run I0 l) p) <-> code1 (run I0 l).
    Proof.
      pose proof (vis_run bad (spec_ops P) (apex P) (depth P) par pcap R Hpar Hpcap Hap
                    lvl abv Hparent Hchild HR l I0
                    (ne_inv_bad []) (vis_init bad (spec_ops P) (apex P) (depth P) par pcap R Hpar Hpcap lvl abv Hparent Hchild HR)) as V.
      unfold vis in V. rewrite <- V. split; intros (p & Hp); exists p;
        apply (crashed_iff _ _ _ _ _ _ _ _ (ne_inv_bad l)); exact Hp.
    Qed.
  End NE.

  (* 1. after a raising callback the walk never returns, whatever happens next *)
  Theorem walk_crash_never_returns l l' p :
    crashed_at (run s0 l) p ->
    bad p = true /\ In p (spec_ops P) /\
    let s' := run s0 (l ++ l') in
    d_pc s' <> DReturned /\ in_loop (d_pc s') = true /\ crashed_at s' p.
  Proof.
    destruct (s0_cases P par pcap Hwf Hpar Hpcap s0 Hinit) as [(EO & R & ->)|(Hne & R & HR & ->)].
    - rewrite empty_run. intros Hc. exfalso. exact (empty_not_crashed _ _ _ Hc).
    - intros Hc. destruct (ne_forever R HR Hne l l' p Hc) as (A & B & C & D).
      split; [exact A|]. split; [exact B|]. cbv zeta. split; [|split; assumption].
      intros E. rewrite E in C. discriminate.
  Qed.

  (* 3. the hang: every continuation performs only boundedly many non-polling steps
     (all further steps are queue timeouts, flag tests or no-ops) and never returns *)
  Theorem walk_nonpolling_bounded l l' :
    nonpoll bad (run s0 l) l' <= measure (spec_ops P) par (run s0 l).
  Proof.
    destruct (s0_cases P par pcap Hwf Hpar Hpcap s0 Hinit) as [(EO & R & ->)|(Hne & R & HR & ->)].
    - rewrite empty_run. induction l' as [|a l' IH]; [cbn; lia|]. rewrite nonpoll_cons.
      rewrite empty_disabled. cbn [andb]. unfold wstep at 1. rewrite empty_disabled. cbn [negb]. exact IH.
    - pose proof (nonpoll_bound bad (spec_ops P) (apex P) (depth P) par pcap R Hpar Hpcap
                    (proj1 (ops_closure P Hwf) Hne) lvl abv (proj1 (proj2 (ops_closure P Hwf)))
                    (proj2 (proj2 (ops_closure P Hwf))) HR l' _ (ne_inv_bad R HR Hne l)). lia.
  Qed.

  Theorem walk_crash_eventually_only_polling l l' p :
    crashed_at (run s0 l) p ->
    nonpoll bad (run s0 l) l' <= measure (spec_ops P) par (run s0 l) /\
    d_pc (run s0 (l ++ l')) <> DReturned.
  Proof.
    intros Hc. split; [apply walk_nonpolling_bounded|].
    destruct (walk_crash_never_returns l l' p Hc) as (_ & _ & A & _). exact A.
  Qed.

  (* 2. a callback has raised iff some worker process has exit status 1 *)
  Theorem walk_crash_visible l :
    let s := run s0 l in
    (exists p, crashed_at s p) <->
    (exists w ev, nth_error (wks s) w = Some (KExiting 1, ev) \/ nth_error (wks s) w = Some (KExited 1, ev)).
  Proof.
    cbv zeta. rewrite <- code1_iff.
    destruct (s0_cases P par pcap Hwf Hpar Hpcap s0 Hinit) as [(EO & R & ->)|(Hne & R & HR & ->)].
    - rewrite empty_run. split.
      + intros (p & Hc). exfalso. exact (empty_not_crashed _ _ _ Hc).
      + intros (w & x & Hx & _). destruct w; discriminate.
    - apply (ne_visible R HR Hne l).
  Qed.
End WalkCrash.
