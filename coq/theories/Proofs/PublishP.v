(* Proofs about Model/Publish.v (property C18) *)
From Coq Require Import List NArith Arith Bool Lia Permutation.
From Toasty Require Import Model.Publish.
Import ListNotations.

(* ------------------------------------------------------------------------ *)
(* the property's vocabulary *)

(* every file of the image other than index.wtml is complete in the store *)
Definition Others (files : list name) (st : store) : Prop :=
  forall x, In x files -> x <> INDEX -> st x = Complete.

Definition AllComplete (files : list name) (st : store) : Prop :=
  forall x, In x files -> st x = Complete.

(* index.wtml in the store, in any state => every other file complete *)
Definition StoreOk (files : list name) (st : store) : Prop :=
  present (st INDEX) = true -> Others files st.

Lemma others_complete_iff files st : others_complete files st = true <-> Others files st.
Proof.
  unfold others_complete, Others. rewrite forallb_forall. split.
  - intros H x Hx Hn. specialize (H x Hx). apply orb_true_iff in H. destruct H as [H|H].
    + apply N.eqb_eq in H. contradiction.
    + destruct (st x); try discriminate; reflexivity.
  - intros H x Hx. destruct (N.eqb x INDEX) eqn:E; [reflexivity|].
    apply N.eqb_neq in E. rewrite (H x Hx E). reflexivity.
Qed.

Lemma all_complete_iff files st : all_complete files st = true <-> AllComplete files st.
Proof.
  unfold all_complete, AllComplete. rewrite forallb_forall. split.
  - intros H x Hx. specialize (H x Hx). destruct (st x); try discriminate; reflexivity.
  - intros H x Hx. rewrite (H x Hx). reflexivity.
Qed.

Lemma store_ok_iff files st : store_ok files st = true <-> StoreOk files st.
Proof.
  unfold store_ok, StoreOk. rewrite orb_true_iff, others_complete_iff, negb_true_iff. split.
  - intros [H|H] Hp; [congruence|exact H].
  - intros H. destruct (present (st INDEX)); [right; apply H; reflexivity|left; reflexivity].
Qed.

(* ------------------------------------------------------------------------ *)
(* transfer order *)

Lemma index_of_app_here x a b : ~ In x a -> index_of x (a ++ x :: b) = Some (length a).
Proof.
  induction a as [|y a IH]; intros Hn; cbn [app index_of length].
  - rewrite N.eqb_refl. reflexivity.
  - destruct (N.eqb y x) eqn:E.
    + apply N.eqb_eq in E. exfalso. apply Hn. left. exact E.
    + rewrite IH by (intros H; apply Hn; right; exact H). reflexivity.
Qed.

Lemma index_of_none x l : ~ In x l -> index_of x l = None.
Proof.
  induction l as [|y l IH]; intros Hn; cbn [index_of]; [reflexivity|].
  destruct (N.eqb y x) eqn:E.
  - apply N.eqb_eq in E. exfalso. apply Hn. left. exact E.
  - rewrite IH by (intros H; apply Hn; right; exact H). reflexivity.
Qed.

Lemma set_nth_app_here {A} (a : list A) y r v : set_nth (length a) v (a ++ y :: r) = a ++ v :: r.
Proof. induction a as [|z a IH]; cbn [app length set_nth]; [reflexivity|]. rewrite IH. reflexivity. Qed.

Lemma last_snoc {A} (l : list A) z d : last (l ++ [z]) d = z.
Proof. apply last_last. Qed.

(* without index.wtml the listing is used as it is *)
Lemma transfer_order_no_index listing : ~ In INDEX listing -> transfer_order listing = listing.
Proof. intros H. unfold transfer_order. rewrite index_of_none by exact H. reflexivity. Qed.

(* with index.wtml: it goes last, nothing is lost or duplicated *)
Lemma transfer_order_index_last listing :
  NoDup listing -> In INDEX listing ->
  exists pre, transfer_order listing = pre ++ [INDEX] /\ ~ In INDEX pre /\
              Permutation (transfer_order listing) listing.
Proof.
  intros Hnd Hin. destruct (in_split _ _ Hin) as [a [b ->]].
  pose proof (NoDup_remove_2 _ _ _ Hnd) as Hni.
  assert (Ha : ~ In INDEX a) by (intros H; apply Hni; apply in_or_app; left; exact H).
  assert (Hb : ~ In INDEX b) by (intros H; apply Hni; apply in_or_app; right; exact H).
  unfold transfer_order. rewrite index_of_app_here by exact Ha.
  destruct b as [|b0 b1] using rev_ind.
  - (* already last *)
    replace (length (a ++ [INDEX]) - 1) with (length a) by (rewrite app_length; cbn; lia).
    rewrite last_snoc, !set_nth_app_here.
    exists a. split; [reflexivity|]. split; [exact Ha|apply Permutation_refl].
  - clear IHb1.
    assert (E : a ++ INDEX :: b1 ++ [b0] = (a ++ INDEX :: b1) ++ [b0])
      by (rewrite <- app_assoc; reflexivity).
    rewrite E, last_snoc.
    replace (length ((a ++ INDEX :: b1) ++ [b0]) - 1) with (length (a ++ INDEX :: b1))
      by (rewrite (app_length (a ++ INDEX :: b1)); cbn; lia).
    rewrite (set_nth_app_here (a ++ INDEX :: b1) b0 [] INDEX).
    rewrite <- app_assoc. cbn [app]. rewrite set_nth_app_here.
    exists (a ++ b0 :: b1). split; [rewrite <- app_assoc; reflexivity|]. split.
    + intros H. apply in_app_or in H. destruct H as [H|[H|H]].
      * exact (Ha H).
      * apply Hb. apply in_or_app. right. left. exact H.
      * apply Hb. apply in_or_app. left. exact H.
    + (* a ++ b0 :: b1 ++ [INDEX]  ~  a ++ INDEX :: b1 ++ [b0] *)
      rewrite <- E. apply Permutation_app_head.
      change (b0 :: b1 ++ [INDEX]) with ((b0 :: b1) ++ [INDEX]).
      eapply Permutation_trans; [apply Permutation_app_comm|]. cbn [app].
      apply perm_skip. apply Permutation_cons_append.
Qed.

Lemma transfer_order_perm listing : NoDup listing -> Permutation (transfer_order listing) listing.
Proof.
  intros Hnd. destruct (in_dec N.eq_dec INDEX listing) as [Hin|Hn].
  - destruct (transfer_order_index_last listing Hnd Hin) as [pre [_ [_ Hp]]]. exact Hp.
  - rewrite transfer_order_no_index by exact Hn. apply Permutation_refl.
Qed.

(* ------------------------------------------------------------------------ *)
(* the put_item loop *)

Lemma upd_same st x s : upd st x s x = s.
Proof. unfold upd. rewrite N.eqb_refl. reflexivity. Qed.

Lemma upd_other st x s y : y <> x -> upd st x s y = st y.
Proof. intros H. unfold upd. apply N.eqb_neq in H. rewrite H. reflexivity. Qed.

(* files not in the list are not touched *)
Lemma transfer_frame atomic fs : forall k f st y,
  ~ In y fs -> fst (fst (fst (transfer atomic fs k f st))) y = st y.
Proof.
  induction fs as [|x r IH]; intros k f st y Hn; cbn [transfer]; [reflexivity|].
  assert (Hyx : y <> x) by (intros ->; apply Hn; left; reflexivity).
  assert (Hyr : ~ In y r) by (intros H; apply Hn; right; exact H).
  destruct (is_before f (S k)); [reflexivity|].
  destruct (is_during f (S k)).
  - cbn [fst]. destruct atomic; [reflexivity|apply upd_other; exact Hyx].
  - destruct (is_after f (S k)); [cbn [fst]; apply upd_other; exact Hyx|].
    specialize (IH (S k) f (upd st x Complete) y Hyr).
    destruct (transfer atomic r (S k) f (upd st x Complete)) as [[[st2 k2] ok] log].
    cbn [fst] in *. rewrite IH. apply upd_other; exact Hyx.
Qed.

(* a completed loop leaves every listed file complete; what was complete and
   is listed later stays complete under either store *)
Lemma transfer_ok_complete atomic fs : forall k f st,
  snd (fst (transfer atomic fs k f st)) = true ->
  forall x, In x fs -> fst (fst (fst (transfer atomic fs k f st))) x = Complete.
Proof.
  induction fs as [|x r IH]; intros k f st Hok y Hy; [destruct Hy|].
  cbn [transfer] in *.
  destruct (is_before f (S k)); [discriminate|].
  destruct (is_during f (S k)); [discriminate|].
  destruct (is_after f (S k)); [discriminate|].
  specialize (IH (S k) f (upd st x Complete)).
  pose proof (transfer_frame atomic r (S k) f (upd st x Complete) y) as Hfr.
  destruct (transfer atomic r (S k) f (upd st x Complete)) as [[[st2 k2] ok] log].
  cbn [fst snd] in *. destruct (in_dec N.eq_dec y r) as [Hr|Hr].
  - apply IH; assumption.
  - destruct Hy as [->|Hy]; [|contradiction]. rewrite Hfr by exact Hr. apply upd_same.
Qed.

(* with the atomic store a complete file never stops being complete *)
Lemma transfer_atomic_keeps fs : forall k f st y,
  st y = Complete -> fst (fst (fst (transfer true fs k f st))) y = Complete.
Proof.
  induction fs as [|x r IH]; intros k f st y Hy; cbn [transfer]; [exact Hy|].
  destruct (is_before f (S k)); [exact Hy|].
  destruct (is_during f (S k)); [exact Hy|].
  assert (Hu : upd st x Complete y = Complete).
  { unfold upd. destruct (N.eqb y x); [reflexivity|exact Hy]. }
  destruct (is_after f (S k)); [exact Hu|].
  specialize (IH (S k) f (upd st x Complete) y Hu).
  destruct (transfer true r (S k) f (upd st x Complete)) as [[[st2 k2] ok] log]. exact IH.
Qed.

(* without a fault the loop completes *)
Lemma transfer_nofault atomic fs : forall k st,
  snd (fst (transfer atomic fs k NoFault st)) = true /\
  snd (transfer atomic fs k NoFault st) = fs.
Proof.
  induction fs as [|x r IH]; intros k st; cbn [transfer]; [split; reflexivity|].
  cbn [is_before is_during is_after].
  specialize (IH (S k) (upd st x Complete)).
  destruct (transfer atomic r (S k) NoFault (upd st x Complete)) as [[[st2 k2] ok] log].
  cbn [fst snd] in *. destruct IH as [-> ->]. split; reflexivity.
Qed.

(* the files are handed to put_item in list order: the log is a prefix of the
   list, the whole list when the loop completed *)
Lemma transfer_log_prefix atomic fs : forall k f st,
  exists rest, fs = snd (transfer atomic fs k f st) ++ rest /\
    (snd (fst (transfer atomic fs k f st)) = true -> rest = []).
Proof.
  induction fs as [|x r IH]; intros k f st; cbn [transfer].
  - exists []. split; reflexivity.
  - destruct (is_before f (S k)); [exists r; split; [reflexivity|discriminate]|].
    destruct (is_during f (S k)); [exists r; split; [reflexivity|discriminate]|].
    destruct (is_after f (S k)); [exists r; split; [reflexivity|discriminate]|].
    specialize (IH (S k) f (upd st x Complete)).
    destruct (transfer atomic r (S k) f (upd st x Complete)) as [[[st2 k2] ok] log].
    cbn [fst snd] in *. destruct IH as [rest [E H]]. exists rest. split; [rewrite E at 1; reflexivity|exact H].
Qed.

Lemma transfer_app atomic a b k f st :
  transfer atomic (a ++ b) k f st =
  let '(st1, k1, ok1, log1) := transfer atomic a k f st in
  if ok1 then let '(st2, k2, ok2, log2) := transfer atomic b k1 f st1 in (st2, k2, ok2, log1 ++ log2)
  else (st1, k1, false, log1).
Proof.
  revert k st. induction a as [|x r IH]; intros k st; cbn [app transfer].
  - destruct (transfer atomic b k f st) as [[[st2 k2] ok2] log2]. reflexivity.
  - destruct (is_before f (S k)); [reflexivity|].
    destruct (is_during f (S k)); [reflexivity|].
    destruct (is_after f (S k)); [reflexivity|].
    rewrite IH. destruct (transfer atomic r (S k) f (upd st x Complete)) as [[[st1 k1] ok1] log1].
    destruct ok1; [|reflexivity].
    destruct (transfer atomic b k1 f st1) as [[[st2 k2] ok2] log2]. reflexivity.
Qed.

(* ------------------------------------------------------------------------ *)
(* one image: the crash invariant *)

(* The invariant survives one put_item loop in transfer order -- under any
   fault -- provided the store is atomic or index.wtml is not yet there. *)
Lemma image_crash_invariant atomic files listing k f st :
  NoDup listing -> Permutation listing files ->
  (atomic = true \/ st INDEX = Absent) ->
  StoreOk files st ->
  let r := transfer atomic (transfer_order listing) k f st in
  StoreOk files (fst (fst (fst r))) /\
  (snd (fst r) = true -> AllComplete files (fst (fst (fst r)))).
Proof.
  intros Hnd Hperm Hpre Hok r.
  assert (Hall : snd (fst r) = true -> AllComplete files (fst (fst (fst r)))).
  { intros Hc x Hx. apply (transfer_ok_complete atomic _ k f st Hc).
    apply Permutation_in with (l := listing); [apply Permutation_sym, transfer_order_perm; exact Hnd|].
    apply Permutation_in with (l := files); [apply Permutation_sym; exact Hperm|exact Hx]. }
  split; [|exact Hall].
  (* case: the store is atomic and index.wtml is already there *)
  destruct (present (st INDEX)) eqn:Hp0.
  - destruct Hpre as [->|Habs]; [|rewrite Habs in Hp0; discriminate].
    intros _ x Hx Hn. apply transfer_atomic_keeps. apply Hok; assumption.
  - (* index.wtml absent at the start *)
    assert (Hst0 : st INDEX = Absent) by (destruct (st INDEX); try discriminate; reflexivity).
    destruct (in_dec N.eq_dec INDEX listing) as [Hin|Hnin].
    + destruct (transfer_order_index_last listing Hnd Hin) as [pre [Eo [Hnp Hpo]]].
      subst r. rewrite Eo in *. rewrite transfer_app in *.
      pose proof (transfer_frame atomic pre k f st INDEX Hnp) as Hfr.
      pose proof (transfer_ok_complete atomic pre k f st) as Hpc.
      destruct (transfer atomic pre k f st) as [[[st1 k1] ok1] log1]. cbn [fst snd] in *.
      destruct ok1.
      * (* every other file done; now index.wtml itself *)
        assert (Hoth : Others files st1).
        { intros x Hx Hn. apply Hpc; [reflexivity|].
          assert (Hx' : In x (pre ++ [INDEX])).
          { apply Permutation_in with (l := listing); [apply Permutation_sym; exact Hpo|].
            apply Permutation_in with (l := files); [apply Permutation_sym; exact Hperm|exact Hx]. }
          apply in_app_or in Hx'. destruct Hx' as [H|[H|[]]]; [exact H|congruence]. }
        pose proof (transfer_frame atomic [INDEX] k1 f st1) as Hfr2.
        destruct (transfer atomic [INDEX] k1 f st1) as [[[st2 k2] ok2] log2]. cbn [fst snd] in *.
        intros _ x Hx Hn. rewrite Hfr2; [apply Hoth; assumption|].
        intros [H|[]]. congruence.
      * (* stopped among the other files: index.wtml still absent *)
        cbn [fst]. intros Hp. rewrite Hfr, Hst0 in Hp. discriminate.
    + subst r. rewrite transfer_order_no_index in * by exact Hnin.
      intros Hp. rewrite (transfer_frame atomic listing k f st INDEX Hnin), Hst0 in Hp. discriminate.
Qed.

(* index.wtml is the last file handed to put_item, every file once *)
Lemma image_index_last atomic listing k st :
  NoDup listing ->
  snd (transfer atomic (transfer_order listing) k NoFault st) = transfer_order listing /\
  Permutation (transfer_order listing) listing /\ NoDup (transfer_order listing) /\
  (In INDEX listing -> exists pre, transfer_order listing = pre ++ [INDEX] /\ ~ In INDEX pre).
Proof.
  intros Hnd. split; [apply transfer_nofault|]. split; [apply transfer_order_perm; exact Hnd|].
  split.
  - eapply Permutation_NoDup; [apply Permutation_sym, transfer_order_perm; exact Hnd|exact Hnd].
  - intros Hin. destruct (transfer_order_index_last listing Hnd Hin) as [pre [E [Hn _]]].
    exists pre. auto.
Qed.

(* under a fault the files handed over are a prefix of that order; in
   particular index.wtml is handed over only after every other file was put *)
Lemma image_log_prefix atomic listing k f st :
  exists rest, transfer_order listing = snd (transfer atomic (transfer_order listing) k f st) ++ rest.
Proof.
  destruct (transfer_log_prefix atomic (transfer_order listing) k f st) as [rest [E _]].
  exists rest. exact E.
Qed.

(* ------------------------------------------------------------------------ *)
(* several images *)

Record WorldOk (files : imgid -> list name) (w : world) : Prop := {
  wo_store : forall u, StoreOk (files u) (w_store w u);
  wo_pub : forall u, w_published w u = true -> AllComplete (files u) (w_store w u) }.

Lemma set_store_same w u st : w_store (set_store w u st) u = st.
Proof. cbn. rewrite N.eqb_refl. reflexivity. Qed.

Lemma set_store_other w u st v : v <> u -> w_store (set_store w u st) v = w_store w v.
Proof. intros H. cbn. apply N.eqb_neq in H. rewrite H. reflexivity. Qed.

Lemma publish_loop_safe atomic files listing : forall outer k f w,
  NoDup outer ->
  (forall u, In u outer -> NoDup (listing u) /\ Permutation (listing u) (files u)) ->
  (forall u, In u outer -> atomic = true \/ w_store w u INDEX = Absent) ->
  (forall u, In u outer -> w_published w u = false) ->
  WorldOk files w ->
  let r := publish_loop atomic outer listing k f w in
  WorldOk files (fst (fst r)) /\
  (snd (fst r) = true -> forall u, In u outer -> w_published (fst (fst r)) u = true) /\
  (forall u, w_published w u = true -> w_published (fst (fst r)) u = true) /\
  (forall u, ~ In u outer -> w_store (fst (fst r)) u = w_store w u /\
                             w_published (fst (fst r)) u = w_published w u).
Proof.
  induction outer as [|u rest IH]; intros k f w Hnd Hl Hpre Hunp Hw; cbn [publish_loop].
  - cbn [fst snd]. split; [exact Hw|]. split; [intros _ u []|]. split; [auto|].
    intros u _; split; reflexivity.
  - destruct (Hl u (or_introl eq_refl)) as [Hlu Hpu].
    pose proof (image_crash_invariant atomic (files u) (listing u) k f (w_store w u)
                  Hlu Hpu (Hpre u (or_introl eq_refl)) (wo_store _ _ Hw u)) as Hinv.
    destruct (transfer atomic (transfer_order (listing u)) k f (w_store w u)) as [[[st' k'] ok] log].
    cbn [fst snd] in Hinv. destruct Hinv as [Hso Hac].
    inversion Hnd as [|? ? Hnu Hnr]; subst.
    destruct ok.
    + (* image u done: renamed, go on *)
      set (w1 := set_published (set_store w u st') u).
      assert (Hw1 : WorldOk files w1).
      { split.
        - intros v. destruct (N.eq_dec v u) as [->|Hv].
          + unfold w1. cbn [w_store set_published]. rewrite set_store_same. exact Hso.
          + unfold w1. cbn [w_store set_published]. rewrite set_store_other by exact Hv. apply Hw.
        - intros v. unfold w1. cbn [w_published set_published w_store set_store].
          destruct (N.eqb v u) eqn:E.
          + apply N.eqb_eq in E. subst v. intros _. apply Hac. reflexivity.
          + intros Hp. apply Hw. exact Hp. }
      assert (Hpre1 : forall v, In v rest -> atomic = true \/ w_store w1 v INDEX = Absent).
      { intros v Hv. assert (v <> u) by (intros ->; contradiction).
        unfold w1. cbn [w_store set_published]. rewrite set_store_other by assumption.
        apply Hpre. right. exact Hv. }
      assert (Hunp1 : forall v, In v rest -> w_published w1 v = false).
      { intros v Hv. assert (Hvu : v <> u) by (intros ->; contradiction).
        unfold w1. cbn. apply N.eqb_neq in Hvu. rewrite Hvu. apply Hunp. right. exact Hv. }
      specialize (IH k' f w1 Hnr (fun v Hv => Hl v (or_intror Hv)) Hpre1 Hunp1 Hw1).
      destruct (publish_loop atomic rest listing k' f w1) as [[w2 ok2] log2].
      cbn [fst snd] in *. destruct IH as [Hw2 [Hall [Hmono Hframe]]].
      split; [exact Hw2|]. split; [|split].
      * intros Hok v [<-|Hv]; [|apply Hall; assumption].
        apply Hmono. unfold w1. cbn. rewrite N.eqb_refl. reflexivity.
      * intros v Hp. apply Hmono. unfold w1. cbn. destruct (N.eqb v u); [reflexivity|exact Hp].
      * intros v Hv. assert (v <> u) by (intros ->; apply Hv; left; reflexivity).
        destruct (Hframe v) as [F1 F2]; [intros H'; apply Hv; right; exact H'|].
        rewrite F1, F2. unfold w1. cbn. apply N.eqb_neq in H. rewrite H. split; reflexivity.
    + (* fault while publishing u: it stays in approved/, later images untouched *)
      cbn [fst snd]. split; [|split; [discriminate|split]].
      * split.
        -- intros v. destruct (N.eq_dec v u) as [->|Hv].
           ++ rewrite set_store_same. exact Hso.
           ++ rewrite set_store_other by exact Hv. apply Hw.
        -- intros v Hp. cbn [w_published set_store] in Hp. destruct (N.eq_dec v u) as [->|Hv].
           ++ rewrite (Hunp u (or_introl eq_refl)) in Hp. discriminate.
           ++ rewrite set_store_other by exact Hv. apply Hw. exact Hp.
      * intros v Hp. exact Hp.
      * intros v Hv. assert (v <> u) by (intros ->; apply Hv; left; reflexivity).
        rewrite set_store_other by assumption. split; reflexivity.
Qed.

(* one publish() invocation *)
Lemma publish_safe atomic files listing order f w :
  NoDup order ->
  (forall u, In u order -> NoDup (listing u) /\ Permutation (listing u) (files u)) ->
  (forall u, In u order -> w_published w u = false -> atomic = true \/ w_store w u INDEX = Absent) ->
  WorldOk files w ->
  let r := publish atomic order listing f w in
  WorldOk files (fst (fst r)) /\
  (snd (fst r) = true -> forall u, In u order -> w_published (fst (fst r)) u = true) /\
  (forall u, w_published w u = true -> w_published (fst (fst r)) u = true).
Proof.
  intros Hnd Hl Hpre Hw. unfold publish.
  set (outer := filter (fun u => negb (w_published w u)) order).
  assert (Hin : forall u, In u outer <-> In u order /\ w_published w u = false).
  { intros u. unfold outer. rewrite filter_In, negb_true_iff. reflexivity. }
  pose proof (publish_loop_safe atomic files listing outer 0 f w
                (NoDup_filter _ Hnd)
                (fun u Hu => Hl u (proj1 (proj1 (Hin u) Hu)))
                (fun u Hu => Hpre u (proj1 (proj1 (Hin u) Hu)) (proj2 (proj1 (Hin u) Hu)))
                (fun u Hu => proj2 (proj1 (Hin u) Hu)) Hw) as H.
  cbn zeta in H. destruct H as [H1 [H2 [H3 _]]].
  split; [exact H1|]. split; [|exact H3].
  intros Hok u Hu. destruct (w_published w u) eqn:Hp.
  - apply H3. exact Hp.
  - apply H2; [exact Hok|]. apply Hin. auto.
Qed.

(* refresh never skips an image whose other files are incomplete *)
Lemma refresh_skip_sound files w u :
  WorldOk files w -> refresh_skips w u = true -> Others (files u) (w_store w u).
Proof. intros Hw Hs. exact (wo_store _ _ Hw u Hs). Qed.

(* a fault-free publish() completes the job whatever the earlier faults left *)
Lemma publish_loop_nofault atomic files listing : forall outer k w,
  NoDup outer ->
  (forall u, In u outer -> NoDup (listing u) /\ Permutation (listing u) (files u)) ->
  let r := publish_loop atomic outer listing k NoFault w in
  snd (fst r) = true /\
  (forall u, In u outer -> w_published (fst (fst r)) u = true /\
                           AllComplete (files u) (w_store (fst (fst r)) u)) /\
  (forall u, ~ In u outer -> w_store (fst (fst r)) u = w_store w u /\
                             w_published (fst (fst r)) u = w_published w u) /\
  snd r = flat_map (fun u => map (fun x => (u, x)) (transfer_order (listing u))) outer.
Proof.
  induction outer as [|u rest IH]; intros k w Hnd Hl; cbn [publish_loop flat_map].
  - cbn [fst snd]. split; [reflexivity|]. split; [intros u []|]. split; [|reflexivity].
    intros u _. split; reflexivity.
  - destruct (Hl u (or_introl eq_refl)) as [Hlu Hpu].
    pose proof (transfer_nofault atomic (transfer_order (listing u)) k (w_store w u)) as Hnf.
    pose proof (transfer_ok_complete atomic (transfer_order (listing u)) k NoFault (w_store w u)) as Hc.
    destruct (transfer atomic (transfer_order (listing u)) k NoFault (w_store w u)) as [[[st' k'] ok] log].
    cbn [fst snd] in *. destruct Hnf as [-> ->].
    inversion Hnd as [|? ? Hnu Hnr]; subst.
    set (w1 := set_published (set_store w u st') u).
    specialize (IH k' w1 Hnr (fun v Hv => Hl v (or_intror Hv))).
    destruct (publish_loop atomic rest listing k' NoFault w1) as [[w2 ok2] log2].
    cbn [fst snd] in *. destruct IH as [Hok [Hall [Hframe Hlog]]].
    split; [exact Hok|]. split; [|split].
    + intros v [<-|Hv]; [|apply Hall; exact Hv].
      destruct (Hframe u Hnu) as [F1 F2]. rewrite F1, F2. unfold w1. cbn. rewrite N.eqb_refl.
      split; [reflexivity|]. intros x Hx. apply Hc; [reflexivity|].
      apply Permutation_in with (l := listing u); [apply Permutation_sym, transfer_order_perm; exact Hlu|].
      apply Permutation_in with (l := files u); [apply Permutation_sym; exact Hpu|exact Hx].
    + intros v Hv. assert (Hvu : v <> u) by (intros ->; apply Hv; left; reflexivity).
      destruct (Hframe v) as [F1 F2]; [intros H'; apply Hv; right; exact H'|].
      rewrite F1, F2. unfold w1. cbn. apply N.eqb_neq in Hvu. rewrite Hvu. split; reflexivity.
    + rewrite Hlog. reflexivity.
Qed.

Lemma rerun_completes_all atomic files listing order w :
  NoDup order ->
  (forall u, In u order -> NoDup (listing u) /\ Permutation (listing u) (files u)) ->
  (forall u, w_published w u = true -> AllComplete (files u) (w_store w u)) ->
  let r := publish atomic order listing NoFault w in
  snd (fst r) = true /\
  forall u, In u order -> w_published (fst (fst r)) u = true /\
                          AllComplete (files u) (w_store (fst (fst r)) u).
Proof.
  intros Hnd Hl Hpub. unfold publish.
  set (outer := filter (fun u => negb (w_published w u)) order).
  assert (Hin : forall u, In u outer <-> In u order /\ w_published w u = false).
  { intros u. unfold outer. rewrite filter_In, negb_true_iff. reflexivity. }
  pose proof (publish_loop_nofault atomic files listing outer 0 w (NoDup_filter _ Hnd)
                (fun u Hu => Hl u (proj1 (proj1 (Hin u) Hu)))) as H.
  cbn zeta in H. destruct H as [H1 [H2 [H3 _]]]. split; [exact H1|].
  intros u Hu. destruct (w_published w u) eqn:Hp.
  - destruct (H3 u) as [F1 F2]; [intros H'; apply Hin in H'; destruct H'; congruence|].
    rewrite F1, F2. split; [exact Hp|apply Hpub; exact Hp].
  - apply H2. apply Hin. auto.
Qed.

(* histories of publish() invocations with the atomic store: any number of
   faulted runs, any listing orders *)
Definition run_wf (files : imgid -> list name) (r : run) : Prop :=
  NoDup (r_order r) /\
  forall u, In u (r_order r) ->
    NoDup (listing_fun (r_listing r) u) /\ Permutation (listing_fun (r_listing r) u) (files u).

Lemma run_all_atomic_safe files : forall rs w,
  (forall r, In r rs -> run_wf files r) -> WorldOk files w -> WorldOk files (run_all true rs w).
Proof.
  induction rs as [|r rs IH]; intros w Hwf Hw; cbn [run_all]; [exact Hw|].
  apply IH; [intros r' Hr'; apply Hwf; right; exact Hr'|].
  destruct (Hwf r (or_introl eq_refl)) as [Hnd Hl].
  exact (proj1 (publish_safe true files (listing_fun (r_listing r)) (r_order r) (r_fault r) w
                  Hnd Hl (fun _ _ _ => or_introl eq_refl) Hw)).
Qed.

Lemma clean_world_ok files : WorldOk files clean_world.
Proof. split; [intros u Hp; discriminate|intros u Hp; discriminate]. Qed.

(* the first (possibly faulted) run from a store that has no index.wtml for the
   approved images, with the store as found (writes in place) *)
Lemma first_run_safe files listing order f w :
  NoDup order ->
  (forall u, In u order -> NoDup (listing u) /\ Permutation (listing u) (files u)) ->
  (forall u, In u order -> w_published w u = false -> w_store w u INDEX = Absent) ->
  WorldOk files w ->
  WorldOk files (fst (fst (publish false order listing f w))).
Proof.
  intros Hnd Hl Habs Hw.
  exact (proj1 (publish_safe false files listing order f w Hnd Hl
                  (fun u Hu Hp => or_intror (Habs u Hu Hp)) Hw)).
Qed.

(* ... but not a second faulted run: in-place writes under an index.wtml that
   an earlier run already put *)
Definition wit_files (u : imgid) : list name := if N.eqb u 1 then [0; 1; 2]%N else [].
Definition wit_runs : list run :=
  [ mkRun [1%N] [(1%N, [1; 0; 2]%N)] (During 3);
    mkRun [1%N] [(1%N, [2; 0; 1]%N)] (During 1) ].

Lemma sequence_refuted :
  (forall r, In r wit_runs -> run_wf wit_files r) /\
  WorldOk wit_files clean_world /\
  let w := run_all false wit_runs clean_world in
  present (w_store w 1%N INDEX) = true /\ w_store w 1%N 2%N = Partial /\
  refresh_skips w 1%N = true /\ ~ WorldOk wit_files w.
Proof.
  split; [|split; [apply clean_world_ok|]].
  - intros r [<-|[<-|[]]]; (split; [repeat constructor; cbn; tauto|]);
      intros u [<-|[]]; cbn; (split; [repeat constructor; cbn; intuition discriminate|]).
    + apply perm_swap.
    + eapply perm_trans; [apply perm_swap|]. apply perm_skip. apply perm_swap.
  - cbn zeta. split; [vm_compute; reflexivity|]. split; [vm_compute; reflexivity|].
    split; [vm_compute; reflexivity|].
    intros [Hs _]. specialize (Hs 1%N). assert (Hp : present (w_store (run_all false wit_runs clean_world) 1%N INDEX) = true)
      by (vm_compute; reflexivity).
    specialize (Hs Hp 2%N).
    assert (E : w_store (run_all false wit_runs clean_world) 1%N 2%N = Partial) by (vm_compute; reflexivity).
    rewrite E in Hs. assert (Partial = Complete) by (apply Hs; [cbn; tauto|discriminate]). discriminate.
Qed.
