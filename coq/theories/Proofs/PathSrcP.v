(* The tile naming of class PyramidIO as TRANSLATED from toasty/pyramid.py on every build
   (Generated/PathSrc.v; harness/py2coq.py) agrees with the hand-written model (Model/Paths.v):
   the constructor's scheme dispatch and template, tile_path for both schemes, get_path_scheme.
   An argument order swapped in a format call, a template that no longer matches the path
   function it is paired with, or a changed separator alters the generated definitions and a
   lemma below no longer checks. *)
From Coq Require Import ZArith NArith String Ascii DecimalString DecimalN DecimalZ Bool.
From Toasty Require Import Model.SrcPrelude Model.Paths.
From Toasty Require Import Generated.PathSrc.
Local Open Scope string_scope.

(* the scheme names PyramidIO accepts *)
Definition scheme_name (s : scheme) : string :=
  match s with LsYsYX => "L/Y/YX" | LXY => "LXY" end.

Definition method_of (s : scheme) : src_method :=
  match s with LsYsYX => M_tile_path_LsYsYX | LXY => M_tile_path_LXY end.

Definition to_spio (p : pyramid_io) : spio :=
  mkPIO (Paths.pio_base p) (method_of (Paths.pio_scheme p)) (scheme_template (Paths.pio_scheme p)) (ext_of (Paths.pio_default p)).

Lemma src_str_dec (n : N) : src_str (Z.of_N n) = dec n.
Proof. destruct n as [|p]; reflexivity. Qed.

Lemma src_or_ext (format : option fmt) (d : fmt) :
  src_or (option_map ext_of format) (ext_of d) = ext_of (match format with Some g => g | None => d end).
Proof. destruct format as [[| | |]|]; reflexivity. Qed.

Lemma append_assoc (a b c : string) : (a ++ b) ++ c = a ++ (b ++ c).
Proof. induction a as [|ch a IH]; cbn [append]; [reflexivity|]. rewrite IH. reflexivity. Qed.

Lemma append_cons (ch : ascii) (a b : string) : String ch a ++ b = String ch (a ++ b).
Proof. reflexivity. Qed.

Section WithFileSystem.
  Variable guess : string -> string -> string.

  (* tile_path: the same string, both schemes, explicit or default format *)
  Lemma src_tile_path_eq (p : pyramid_io) (level x y : N) (format : option fmt) :
    src_PyramidIO_tile_path (to_spio p) (mkSP (Z.of_N level) (Z.of_N x) (Z.of_N y)) (option_map ext_of format)
    = Some (tile_path p level x y format).
  Proof.
    unfold src_PyramidIO_tile_path, tile_path, to_spio. cbn [sn sx sy PathSrc.pio_tile_path].
    rewrite !src_str_dec.
    destruct (Paths.pio_scheme p); cbn [method_of];
      unfold src_PyramidIO_tile_path_LsYsYX, src_PyramidIO_tile_path_LXY;
      cbn [PathSrc.pio_base_dir PathSrc.pio_default_format]; rewrite src_or_ext;
      unfold rel_path, src_join, join; f_equal;
      repeat (rewrite ?append_assoc, ?append_cons; cbn [append]); reflexivity.
  Qed.

  Lemma src_get_path_scheme_eq (p : pyramid_io) :
    src_PyramidIO_get_path_scheme (to_spio p) = Some (scheme_template (Paths.pio_scheme p)).
  Proof. reflexivity. Qed.

  (* the constructor: exactly the two scheme names are accepted, each paired with its own path
     function and template; an explicit format is kept, a missing one is the directory guess *)
  Lemma src_init_eq (base : string) (s : scheme) (f : fmt) :
    src_PyramidIO_init guess base (scheme_name s) (Some (ext_of f)) = Some (to_spio (mkPio base s f)).
  Proof. destruct s; reflexivity. Qed.

  Lemma src_init_guess (base : string) (s : scheme) :
    exists pat, src_PyramidIO_init guess base (scheme_name s) None =
                Some (mkPIO base (method_of s) (scheme_template s) (guess base pat)).
  Proof. destruct s; eexists; reflexivity. Qed.

  Lemma src_init_rejects (base name : string) (fo : option string) :
    name <> "L/Y/YX" -> name <> "LXY" -> src_PyramidIO_init guess base name fo = None.
  Proof.
    intros H1 H2. unfold src_PyramidIO_init.
    destruct (String.eqb_spec name "L/Y/YX") as [E|_]; [contradiction|].
    destruct (String.eqb_spec name "LXY") as [E|_]; [contradiction|]. reflexivity.
  Qed.

  Lemma src_default_scheme : src_PyramidIO_default_scheme = scheme_name LsYsYX.
  Proof. reflexivity. Qed.
End WithFileSystem.
