(* Proofs about Model/Mask.v (property C15; reused by MergeP.v). *)
From Coq Require Import List ZArith QArith Bool Lia.
Ltac Zify.zify_post_hook ::= Z.to_euclidean_division_equations.
From Toasty Require Import Model.Quadtree Proofs.QuadtreeP Model.Mask.
Import ListNotations.
Local Open Scope Z_scope.

(* ------------------------------------------------------------------ *)
(* slices                                                               *)

Lemma adjust_pos len step v : 0 <= len -> 0 < step -> 0 <= adjust len step v <= len.
Proof.
  intros Hl Hs. unfold adjust.
  destruct (v <? 0) eqn:E1.
  - destruct (v + len <? 0) eqn:E2.
    + destruct (step <? 0) eqn:E3; lia.
    + lia.
  - destruct (len <=? v) eqn:E2.
    + destruct (step <? 0) eqn:E3; lia.
    + lia.
Qed.

Lemma adjust_neg len step v : 0 <= len -> step < 0 -> -1 <= adjust len step v <= len - 1.
Proof.
  intros Hl Hs. unfold adjust.
  destruct (v <? 0) eqn:E1.
  - destruct (v + len <? 0) eqn:E2.
    + destruct (step <? 0) eqn:E3; lia.
    + lia.
  - destruct (len <=? v) eqn:E2.
    + destruct (step <? 0) eqn:E3; lia.
    + lia.
Qed.

(* count formula: the last selected index stays on the near side of stop *)
Lemma count_pos_bound a b k r :
  0 < k -> a < b -> 0 <= r < (b - a - 1) / k + 1 -> a <= a + r * k <= b - 1.
Proof. intros Hk Hab Hr. nia. Qed.

Lemma count_neg_bound a b k r :
  0 < k -> b < a -> 0 <= r < (a - b - 1) / k + 1 -> b + 1 <= a - r * k <= a.
Proof. intros Hk Hab Hr. nia. Qed.

Lemma slice_view_props len s v :
  0 <= len -> slice_view len s = Some v ->
  v_step v <> 0 /\ 0 <= v_count v /\
  (forall r, 0 <= r < v_count v -> 0 <= view_at v r < len).
Proof.
  intros Hl. unfold slice_view.
  set (step := match s_step s with None => 1 | Some k => k end).
  destruct (step =? 0) eqn:E0; [discriminate|].
  assert (Hs0 : step <> 0) by lia.
  destruct (step <? 0) eqn:Es.
  - (* negative step *)
    assert (Hneg : step < 0) by lia.
    set (start := match s_start s with None => len - 1 | Some v0 => adjust len step v0 end).
    set (stop := match s_stop s with None => -1 | Some v0 => adjust len step v0 end).
    assert (Hst : -1 <= start <= len - 1).
    { unfold start. destruct (s_start s); [apply adjust_neg; lia | lia]. }
    assert (Hsp : -1 <= stop <= len - 1).
    { unfold stop. destruct (s_stop s); [apply adjust_neg; lia | lia]. }
    destruct (stop <? start) eqn:E1; intros H; injection H as <-;
      unfold view_at; cbn [v_first v_step v_count].
    + split; [exact Hs0|]. split.
      * assert (0 <= (start - stop - 1) / - step) by (apply Z.div_pos; lia). lia.
      * intros r Hr.
        pose proof (count_neg_bound start stop (- step) r ltac:(lia) ltac:(lia) Hr) as Hb.
        replace (start + r * step) with (start - r * - step) by ring. lia.
    + split; [exact Hs0|]. split; [lia|]. intros r Hr; lia.
  - (* positive step *)
    assert (Hpos : 0 < step) by lia.
    set (start := match s_start s with None => 0 | Some v0 => adjust len step v0 end).
    set (stop := match s_stop s with None => len | Some v0 => adjust len step v0 end).
    assert (Hst : 0 <= start <= len).
    { unfold start. destruct (s_start s); [apply adjust_pos; lia | lia]. }
    assert (Hsp : 0 <= stop <= len).
    { unfold stop. destruct (s_stop s); [apply adjust_pos; lia | lia]. }
    destruct (start <? stop) eqn:E1; intros H; injection H as <-;
      unfold view_at; cbn [v_first v_step v_count].
    + split; [exact Hs0|]. split.
      * assert (0 <= (stop - start - 1) / step) by (apply Z.div_pos; lia). lia.
      * intros r Hr.
        pose proof (count_pos_bound start stop step r ltac:(lia) ltac:(lia) Hr) as Hb. lia.
    + split; [exact Hs0|]. split; [lia|]. intros r Hr; lia.
Qed.

Lemma view_inv_some v i q :
  v_step v <> 0 -> view_inv v i = Some q -> 0 <= q < v_count v /\ i = view_at v q.
Proof.
  intros Hs. unfold view_inv, view_at.
  destruct ((((i - v_first v) / v_step v * v_step v =? i - v_first v)
             && (0 <=? (i - v_first v) / v_step v))
            && ((i - v_first v) / v_step v <? v_count v)) eqn:E; [|discriminate].
  intros H; injection H as <-.
  rewrite !andb_true_iff in E. destruct E as [[E1 E2] E3].
  apply Z.eqb_eq in E1. apply Z.leb_le in E2. apply Z.ltb_lt in E3.
  split; [lia|]. rewrite E1. ring.
Qed.

Lemma view_inv_at v q :
  v_step v <> 0 -> 0 <= q < v_count v -> view_inv v (view_at v q) = Some q.
Proof.
  intros Hs Hq. unfold view_inv, view_at.
  replace (v_first v + q * v_step v - v_first v) with (q * v_step v) by ring.
  rewrite Z.div_mul by exact Hs.
  rewrite Z.eqb_refl.
  destruct (0 <=? q) eqn:E1; [|lia].
  destruct (q <? v_count v) eqn:E2; [|lia].
  reflexivity.
Qed.

Lemma view_inv_none v i :
  v_step v <> 0 -> view_inv v i = None ->
  forall q, 0 <= q < v_count v -> i <> view_at v q.
Proof.
  intros Hs Hn q Hq ->. rewrite view_inv_at in Hn by assumption. discriminate.
Qed.

Lemma view_at_inj v p q : v_step v <> 0 -> view_at v p = view_at v q -> p = q.
Proof. unfold view_at. intros Hs H. nia. Qed.

(* [selects]: in bounds, and a position is selected at most once *)
Lemma selects_in_bounds len s p i : 0 <= len -> selects len s p i -> 0 <= i < len.
Proof.
  intros Hl (v & Hv & Hp & ->).
  destruct (slice_view_props len s v Hl Hv) as (_ & _ & Hb). apply Hb; exact Hp.
Qed.

Lemma selects_inj len s p p' i : 0 <= len -> selects len s p i -> selects len s p' i -> p = p'.
Proof.
  intros Hl (v & Hv & Hp & ->) (v' & Hv' & Hp' & E).
  rewrite Hv in Hv'. injection Hv' as <-.
  destruct (slice_view_props len s v Hl Hv) as (Hs & _ & _).
  symmetry. eapply view_at_inj; eauto.
Qed.

Lemma selects_fun len s p i i' : selects len s p i -> selects len s p i' -> i = i'.
Proof.
  intros (v & Hv & Hp & ->) (v' & Hv' & Hp' & ->).
  rewrite Hv in Hv'. injection Hv' as <-. reflexivity.
Qed.

(* the normalisation on the forms the callers use *)
Lemma slice_view_range len a b :
  0 <= a <= b -> b <= len ->
  slice_view len (mkSlice (Some a) (Some b) None) = Some (mkView a 1 (b - a)).
Proof.
  intros Ha Hb. unfold slice_view; cbn [s_start s_stop s_step].
  cbn [Z.eqb]. change (1 <? 0) with false. cbv iota.
  assert (E1 : adjust len 1 a = a).
  { unfold adjust. destruct (a <? 0) eqn:X; [lia|].
    destruct (len <=? a) eqn:Y; [|reflexivity]. change (1 <? 0) with false. cbv iota. lia. }
  assert (E2 : adjust len 1 b = b).
  { unfold adjust. destruct (b <? 0) eqn:X; [lia|].
    destruct (len <=? b) eqn:Y; [|reflexivity]. change (1 <? 0) with false. cbv iota. lia. }
  rewrite E1, E2.
  destruct (a <? b) eqn:E; f_equal; f_equal.
  - rewrite Z.div_1_r. lia.
  - lia.
Qed.

Lemma slice_view_head len k :
  0 <= k <= len -> slice_view len (mkSlice None (Some k) None) = Some (mkView 0 1 k).
Proof.
  intros Hk. unfold slice_view; cbn [s_start s_stop s_step].
  cbn [Z.eqb]. change (1 <? 0) with false. cbv iota.
  assert (E2 : adjust len 1 k = k).
  { unfold adjust. destruct (k <? 0) eqn:X; [lia|].
    destruct (len <=? k) eqn:Y; [|reflexivity]. change (1 <? 0) with false. cbv iota. lia. }
  rewrite E2.
  destruct (0 <? k) eqn:E; f_equal; f_equal.
  - rewrite Z.div_1_r. lia.
  - lia.
Qed.

Lemma slice_view_tail len k :
  0 <= k <= len -> slice_view len (mkSlice (Some k) None None) = Some (mkView k 1 (len - k)).
Proof.
  intros Hk. unfold slice_view; cbn [s_start s_stop s_step].
  cbn [Z.eqb]. change (1 <? 0) with false. cbv iota.
  assert (E2 : adjust len 1 k = k).
  { unfold adjust. destruct (k <? 0) eqn:X; [lia|].
    destruct (len <=? k) eqn:Y; [|reflexivity]. change (1 <? 0) with false. cbv iota. lia. }
  rewrite E2.
  destruct (k <? len) eqn:E; f_equal; f_equal.
  - rewrite Z.div_1_r. lia.
  - lia.
Qed.

Lemma slice_view_full len :
  0 <= len -> slice_view len full_slice = Some (mkView 0 1 len).
Proof.
  intros Hl. unfold slice_view, full_slice; cbn [s_start s_stop s_step].
  cbn [Z.eqb]. change (1 <? 0) with false. cbv iota.
  destruct (0 <? len) eqn:E; f_equal; f_equal.
  - rewrite Z.div_1_r. lia.
  - lia.
Qed.

(* a[::-1] : every index, last first *)
Lemma slice_view_reversed len :
  0 <= len -> slice_view len (mkSlice None None (Some (-1))) = Some (mkView (len - 1) (-1) len).
Proof.
  intros Hl. unfold slice_view; cbn [s_start s_stop s_step].
  change (-1 =? 0) with false. change (-1 <? 0) with true. cbv iota.
  destruct (-1 <? len - 1) eqn:E; f_equal; f_equal.
  - change (- -1) with 1. rewrite Z.div_1_r. lia.
  - lia.
Qed.

(* slice(hi, lo, -1) with -1 <= lo' : the study.py reversed row indexer
   (stop None when it would be -1) *)
Lemma slice_view_down len hi lo :
  0 <= lo <= hi -> hi < len ->
  slice_view len (mkSlice (Some hi) (Some lo) (Some (-1))) = Some (mkView hi (-1) (hi - lo)).
Proof.
  intros H1 H2. unfold slice_view; cbn [s_start s_stop s_step].
  change (-1 =? 0) with false. change (-1 <? 0) with true. cbv iota.
  assert (E1 : adjust len (-1) hi = hi).
  { unfold adjust. destruct (hi <? 0) eqn:X; [lia|]. destruct (len <=? hi) eqn:Y; [lia|reflexivity]. }
  assert (E2 : adjust len (-1) lo = lo).
  { unfold adjust. destruct (lo <? 0) eqn:X; [lia|]. destruct (len <=? lo) eqn:Y; [lia|reflexivity]. }
  rewrite E1, E2.
  destruct (lo <? hi) eqn:E; f_equal; f_equal.
  - change (- -1) with 1. rewrite Z.div_1_r. lia.
  - lia.
Qed.

(* ------------------------------------------------------------------ *)
(* zrange, all_px                                                       *)

Lemma in_zrange n r : In r (zrange n) <-> 0 <= r < n.
Proof.
  unfold zrange. rewrite in_map_iff. split.
  - intros (k & <- & Hk). apply in_seq in Hk. lia.
  - intros Hr. exists (Z.to_nat r). split; [lia|]. apply in_seq. lia.
Qed.

Lemma all_px_spec im f :
  all_px im f = true <-> (forall r c, 0 <= r < ih im -> 0 <= c < iw im -> f (ipx im r c) = true).
Proof.
  unfold all_px. rewrite forallb_forall. split.
  - intros H r c Hr Hc. specialize (H r (proj2 (in_zrange _ _) Hr)).
    rewrite forallb_forall in H. apply H. apply in_zrange; exact Hc.
  - intros H r Hr. apply forallb_forall. intros c Hc.
    apply H; apply in_zrange; assumption.
Qed.

Lemma all_px_false im f :
  all_px im f = false -> exists r c, 0 <= r < ih im /\ 0 <= c < iw im /\ f (ipx im r c) = false.
Proof.
  unfold all_px. intros H.
  assert (Hex : existsb (fun r => negb (forallb (fun c => f (ipx im r c)) (zrange (iw im)))) (zrange (ih im)) = true).
  { revert H. generalize (zrange (ih im)). induction l as [|a l IH]; cbn [forallb existsb]; [discriminate|].
    destruct (forallb (fun c => f (ipx im a c)) (zrange (iw im))); cbn [andb negb orb]; auto. }
  apply existsb_exists in Hex. destruct Hex as (r & Hr & Hn).
  apply negb_true_iff in Hn.
  assert (Hex2 : existsb (fun c => negb (f (ipx im r c))) (zrange (iw im)) = true).
  { revert Hn. generalize (zrange (iw im)). induction l as [|a l IH]; cbn [forallb existsb]; [discriminate|].
    destruct (f (ipx im r a)); cbn [andb negb orb]; auto. }
  apply existsb_exists in Hex2. destruct Hex2 as (c & Hc & Hf).
  apply negb_true_iff in Hf.
  exists r, c. rewrite in_zrange in Hr, Hc. auto.
Qed.

(* ------------------------------------------------------------------ *)
(* rects                                                                *)

Lemma rects_some src buf iy ix by_ bx vy vx wy wx :
  rects src buf iy ix by_ bx = Some (vy, vx, wy, wx) ->
  slice_view (ih src) iy = Some vy /\ slice_view (iw src) ix = Some vx /\
  slice_view (ih buf) by_ = Some wy /\ slice_view (iw buf) bx = Some wx /\
  v_count vy = v_count wy /\ v_count vx = v_count wx /\
  imode buf = maskable (imode src).
Proof.
  unfold rects.
  destruct (slice_view (ih src) iy) as [a|]; [|discriminate].
  destruct (slice_view (iw src) ix) as [b|]; [|discriminate].
  destruct (slice_view (ih buf) by_) as [c|]; [|discriminate].
  destruct (slice_view (iw buf) bx) as [d|]; [|discriminate].
  destruct ((v_count a =? v_count c) && (v_count b =? v_count d)
            && mode_eqb (imode buf) (maskable (imode src))) eqn:E; [|discriminate].
  intros H; injection H as <- <- <- <-.
  rewrite !andb_true_iff in E. destruct E as [[E1 E2] E3].
  apply Z.eqb_eq in E1. apply Z.eqb_eq in E2.
  repeat split; try assumption; try reflexivity.
  destruct (imode buf), (maskable (imode src)); try discriminate; reflexivity.
Qed.

Lemma mode_eqb_refl m : mode_eqb m m = true.
Proof. destruct m; reflexivity. Qed.

(* when the four indexers resolve: exactly the documented contract *)
Lemma rects_defined src buf iy ix by_ bx vy vx wy wx :
  slice_view (ih src) iy = Some vy -> slice_view (iw src) ix = Some vx ->
  slice_view (ih buf) by_ = Some wy -> slice_view (iw buf) bx = Some wx ->
  v_count vy = v_count wy -> v_count vx = v_count wx ->
  imode buf = maskable (imode src) ->
  rects src buf iy ix by_ bx = Some (vy, vx, wy, wx).
Proof.
  intros H1 H2 H3 H4 E1 E2 E3. unfold rects. rewrite H1, H2, H3, H4.
  rewrite E1, E2, E3, !Z.eqb_refl, mode_eqb_refl. reflexivity.
Qed.

(* in_rect in terms of the resolved views *)
Lemma in_rect_views buf by_ bx wy wx r c :
  0 <= ih buf -> 0 <= iw buf ->
  slice_view (ih buf) by_ = Some wy -> slice_view (iw buf) bx = Some wx ->
  (in_rect buf by_ bx r c <-> exists p q, view_inv wy r = Some p /\ view_inv wx c = Some q).
Proof.
  intros Hh Hw Hy Hx.
  destruct (slice_view_props _ _ _ Hh Hy) as (Sy & _ & _).
  destruct (slice_view_props _ _ _ Hw Hx) as (Sx & _ & _).
  split.
  - intros (p & q & (v1 & E1 & Hp & ->) & (v2 & E2 & Hq & ->)).
    rewrite Hy in E1; injection E1 as <-. rewrite Hx in E2; injection E2 as <-.
    exists p, q. split; apply view_inv_at; assumption.
  - intros (p & q & H1 & H2).
    apply view_inv_some in H1; [|exact Sy]. apply view_inv_some in H2; [|exact Sx].
    destruct H1 as [Hp ->], H2 as [Hq ->].
    exists p, q. split; [exists wy | exists wx]; auto.
Qed.

(* ------------------------------------------------------------------ *)
(* fill                                                                 *)

Lemma masked_px_undefined m :
  undef_px (masked_px m) = true /\ px_ok (maskable m) (masked_px m) = true /\
  (nan_all (masked_px m) = true \/ alpha0 (masked_px m) = true \/ is_int_mode m = true).
Proof. destruct m; cbn; auto. Qed.

Lemma fill_px_ok m s : px_ok m s = true -> px_ok (maskable m) (fill_px m s) = true.
Proof. destruct m, s; cbn; intros; try discriminate; reflexivity. Qed.

(* a copied pixel is defined exactly when its source is; an RGB source is
   always defined (alpha 255) *)
Lemma fill_px_defined m s : px_ok m s = true -> undef_px (fill_px m s) = undef_px s.
Proof. destruct m, s; cbn; intros; try discriminate; reflexivity. Qed.

Lemma fill_spec_lemma src buf iy ix by_ bx out :
  0 <= ih src -> 0 <= iw src -> 0 <= ih buf -> 0 <= iw buf ->
  fill_into src buf iy ix by_ bx = Some out ->
  ih out = ih buf /\ iw out = iw buf /\ imode out = maskable (imode src) /\
  (forall p q r c sr sc,
      selects (ih buf) by_ p r -> selects (iw buf) bx q c ->
      selects (ih src) iy p sr -> selects (iw src) ix q sc ->
      ipx out r c = fill_px (imode src) (ipx src sr sc)) /\
  (forall r c, ~ in_rect buf by_ bx r c -> ipx out r c = masked_px (imode src)).
Proof.
  intros Hsh Hsw Hbh Hbw. unfold fill_into.
  destruct (rects src buf iy ix by_ bx) as [[[[vy vx] wy] wx]|] eqn:ER; [|discriminate].
  intros H; injection H as <-. cbn [ih iw imode ipx].
  destruct (rects_some _ _ _ _ _ _ _ _ _ _ ER) as (Ey & Ex & Fy & Fx & Cy & Cx & Em).
  destruct (slice_view_props _ _ _ Hbh Fy) as (Sy & _ & _).
  destruct (slice_view_props _ _ _ Hbw Fx) as (Sx & _ & _).
  repeat split; try assumption.
  - intros p q r c sr sc (v1 & E1 & Hp & ->) (v2 & E2 & Hq & ->) (v3 & E3 & Hp' & ->) (v4 & E4 & Hq' & ->).
    rewrite Fy in E1; injection E1 as <-. rewrite Fx in E2; injection E2 as <-.
    rewrite Ey in E3; injection E3 as <-. rewrite Ex in E4; injection E4 as <-.
    rewrite (view_inv_at wy p Sy Hp), (view_inv_at wx q Sx Hq). reflexivity.
  - intros r c Hn.
    destruct (view_inv wy r) as [p|] eqn:E1; [|reflexivity].
    destruct (view_inv wx c) as [q|] eqn:E2; [|reflexivity].
    exfalso. apply Hn. apply (in_rect_views buf by_ bx wy wx r c Hbh Hbw Fy Fx).
    exists p, q; auto.
Qed.

(* every addressed buffer pixel has a source pixel (rectangles agree in size) *)
Lemma rect_has_source src buf iy ix by_ bx vy vx wy wx p q r c :
  rects src buf iy ix by_ bx = Some (vy, vx, wy, wx) ->
  selects (ih buf) by_ p r -> selects (iw buf) bx q c ->
  exists sr sc, selects (ih src) iy p sr /\ selects (iw src) ix q sc.
Proof.
  intros ER (v1 & E1 & Hp & ->) (v2 & E2 & Hq & ->).
  destruct (rects_some _ _ _ _ _ _ _ _ _ _ ER) as (Ey & Ex & Fy & Fx & Cy & Cx & Em).
  rewrite Fy in E1; injection E1 as <-. rewrite Fx in E2; injection E2 as <-.
  exists (view_at vy p), (view_at vx q). split.
  - exists vy. repeat split; try assumption; lia.
  - exists vx. repeat split; try assumption; lia.
Qed.

Lemma fill_ok_lemma src buf iy ix by_ bx out :
  img_ok src -> fill_into src buf iy ix by_ bx = Some out -> img_ok out.
Proof.
  intros Hs. unfold fill_into.
  destruct (rects src buf iy ix by_ bx) as [[[[vy vx] wy] wx]|] eqn:ER; [|discriminate].
  intros H; injection H as <-. intros r c; cbn [imode ipx].
  destruct (rects_some _ _ _ _ _ _ _ _ _ _ ER) as (_ & _ & _ & _ & _ & _ & ->).
  destruct (view_inv wy r); [destruct (view_inv wx c)|].
  - apply fill_px_ok. apply Hs.
  - apply masked_px_undefined.
  - apply masked_px_undefined.
Qed.

(* ------------------------------------------------------------------ *)
(* update                                                               *)

Lemma update_shape src buf iy ix by_ bx out :
  update_into src buf iy ix by_ bx = Some out ->
  ih out = ih buf /\ iw out = iw buf /\ imode out = imode buf /\ imode buf = maskable (imode src).
Proof.
  unfold update_into, update_into_gen.
  destruct (rects src buf iy ix by_ bx) as [[[[vy vx] wy] wx]|] eqn:ER; [|discriminate].
  intros H; injection H as <-. cbn [ih iw imode].
  destruct (rects_some _ _ _ _ _ _ _ _ _ _ ER) as (_ & _ & _ & _ & _ & _ & E). auto.
Qed.

Lemma update_frame_lemma src buf iy ix by_ bx out :
  0 <= ih buf -> 0 <= iw buf ->
  update_into src buf iy ix by_ bx = Some out ->
  forall r c, ~ in_rect buf by_ bx r c -> ipx out r c = ipx buf r c.
Proof.
  intros Hbh Hbw. unfold update_into, update_into_gen.
  destruct (rects src buf iy ix by_ bx) as [[[[vy vx] wy] wx]|] eqn:ER; [|discriminate].
  intros H; injection H as <-. cbn [ipx]. intros r c Hn.
  destruct (rects_some _ _ _ _ _ _ _ _ _ _ ER) as (Ey & Ex & Fy & Fx & Cy & Cx & Em).
  destruct (view_inv wy r) as [p|] eqn:E1; [|reflexivity].
  destruct (view_inv wx c) as [q|] eqn:E2; [|reflexivity].
  exfalso. apply Hn. apply (in_rect_views buf by_ bx wy wx r c Hbh Hbw Fy Fx).
  exists p, q; auto.
Qed.

(* the addressed pixels: new value = upd_px (source pixel) (old value) *)
Lemma update_rect_gen u src buf iy ix by_ bx out :
  0 <= ih buf -> 0 <= iw buf ->
  update_into_gen u src buf iy ix by_ bx = Some out ->
  forall p q r c sr sc,
    selects (ih buf) by_ p r -> selects (iw buf) bx q c ->
    selects (ih src) iy p sr -> selects (iw src) ix q sc ->
    ipx out r c = u (imode src) (ipx src sr sc) (ipx buf r c).
Proof.
  intros Hbh Hbw. unfold update_into_gen.
  destruct (rects src buf iy ix by_ bx) as [[[[vy vx] wy] wx]|] eqn:ER; [|discriminate].
  intros H; injection H as <-. cbn [ipx].
  destruct (rects_some _ _ _ _ _ _ _ _ _ _ ER) as (Ey & Ex & Fy & Fx & Cy & Cx & Em).
  destruct (slice_view_props _ _ _ Hbh Fy) as (Sy & _ & _).
  destruct (slice_view_props _ _ _ Hbw Fx) as (Sx & _ & _).
  intros p q r c sr sc (v1 & E1 & Hp & ->) (v2 & E2 & Hq & ->) (v3 & E3 & Hp' & ->) (v4 & E4 & Hq' & ->).
  rewrite Fy in E1; injection E1 as <-. rewrite Fx in E2; injection E2 as <-.
  rewrite Ey in E3; injection E3 as <-. rewrite Ex in E4; injection E4 as <-.
  rewrite (view_inv_at wy p Sy Hp), (view_inv_at wx q Sx Hq). reflexivity.
Qed.

Lemma update_rect_lemma src buf iy ix by_ bx out :
  0 <= ih buf -> 0 <= iw buf ->
  update_into src buf iy ix by_ bx = Some out ->
  forall p q r c sr sc,
    selects (ih buf) by_ p r -> selects (iw buf) bx q c ->
    selects (ih src) iy p sr -> selects (iw src) ix q sc ->
    ipx out r c = upd_px (imode src) (ipx src sr sc) (ipx buf r c).
Proof. exact (update_rect_gen upd_px src buf iy ix by_ bx out). Qed.

(* pixel-level facts about upd_px *)
Lemma upd_px_invalid m s o :
  src_valid m s = false -> nonneg_px o -> upd_px m s o = o.
Proof.
  destruct m; cbn [upd_px]; intros Hv Hn; try (rewrite Hv; reflexivity);
    destruct s; try reflexivity; destruct o; try reflexivity;
    cbn [src_valid] in Hv; apply negb_false_iff in Hv; apply Z.eqb_eq in Hv; subst;
    cbn [nonneg_px] in Hn; f_equal; lia.
Qed.

Lemma upd_px_valid m s o :
  is_int_mode m = false -> src_valid m s = true -> upd_px m s o = fill_px m s.
Proof. destruct m; cbn [is_int_mode upd_px]; intros Hi Hv; try discriminate; rewrite Hv; reflexivity. Qed.

Lemma upd_px_int m a b :
  is_int_mode m = true -> upd_px m (PxI a) (PxI b) = PxI (Z.max b a).
Proof. destruct m; cbn; intros; try discriminate; reflexivity. Qed.

Lemma upd_px_old_undefined m s o :
  px_ok m s = true -> px_ok (maskable m) o = true -> undef_px o = true -> nonneg_px s ->
  (src_valid m s = true -> upd_px m s o = fill_px m s) /\
  (src_valid m s = false -> undef_px (upd_px m s o) = true).
Proof.
  intros Hs Ho Hu Hn.
  destruct (is_int_mode m) eqn:Ei.
  - (* integers *)
    destruct m; try discriminate; destruct s; try discriminate; destruct o; try discriminate;
      cbn [undef_px] in Hu; apply Z.eqb_eq in Hu; subst; cbn [nonneg_px] in Hn;
      cbn [upd_px fill_px src_valid undef_px]; (split; intros H; [f_equal; lia|]);
      apply negb_false_iff in H; apply Z.eqb_eq in H; subst; reflexivity.
  - split; intros H.
    + apply upd_px_valid; assumption.
    + rewrite upd_px_invalid; auto. destruct o; cbn; auto.
      destruct m; try discriminate; destruct s; discriminate.
Qed.

Lemma upd_px_ok m s o :
  px_ok m s = true -> px_ok (maskable m) o = true -> px_ok (maskable m) (upd_px m s o) = true.
Proof.
  intros Hs Ho. destruct m; cbn [upd_px];
    try (destruct (src_valid _ s); [apply (fill_px_ok _ s Hs)|exact Ho]);
    destruct s; try exact Ho; destruct o; try exact Ho; reflexivity.
Qed.

Lemma update_ok_lemma src buf iy ix by_ bx out :
  img_ok src -> img_ok buf -> update_into src buf iy ix by_ bx = Some out -> img_ok out.
Proof.
  intros Hs Hb. unfold update_into, update_into_gen.
  destruct (rects src buf iy ix by_ bx) as [[[[vy vx] wy] wx]|] eqn:ER; [|discriminate].
  intros H; injection H as <-. intros r c; cbn [imode ipx].
  destruct (rects_some _ _ _ _ _ _ _ _ _ _ ER) as (_ & _ & _ & _ & _ & _ & Em).
  pose proof (Hb r c) as Hbrc. rewrite Em in Hbrc |- *.
  destruct (view_inv wy r); [destruct (view_inv wx c)|]; try exact Hbrc.
  apply upd_px_ok; [apply Hs | exact Hbrc].
Qed.

(* the statement-level update theorems *)
Section Update.
  Variables (src buf out : img) (iy ix by_ bx : slice).
  Hypothesis Hbh : 0 <= ih buf.
  Hypothesis Hbw : 0 <= iw buf.
  Hypothesis Hupd : update_into src buf iy ix by_ bx = Some out.

  Variables (p q r c sr sc : Z).
  Hypothesis Hr : selects (ih buf) by_ p r.
  Hypothesis Hc : selects (iw buf) bx q c.
  Hypothesis Hsr : selects (ih src) iy p sr.
  Hypothesis Hsc : selects (iw src) ix q sc.

  Lemma update_undefined_src_lemma :
    src_valid (imode src) (ipx src sr sc) = false -> nonneg_px (ipx buf r c) ->
    ipx out r c = ipx buf r c.
  Proof.
    intros Hv Hn. rewrite (update_rect_lemma _ _ _ _ _ _ _ Hbh Hbw Hupd p q r c sr sc Hr Hc Hsr Hsc).
    apply upd_px_invalid; assumption.
  Qed.

  Lemma update_defined_wins_lemma :
    is_int_mode (imode src) = false -> src_valid (imode src) (ipx src sr sc) = true ->
    ipx out r c = fill_px (imode src) (ipx src sr sc).
  Proof.
    intros Hi Hv. rewrite (update_rect_lemma _ _ _ _ _ _ _ Hbh Hbw Hupd p q r c sr sc Hr Hc Hsr Hsc).
    apply upd_px_valid; assumption.
  Qed.

  Lemma update_int_max_lemma a b :
    is_int_mode (imode src) = true -> ipx src sr sc = PxI a -> ipx buf r c = PxI b ->
    ipx out r c = PxI (Z.max b a).
  Proof.
    intros Hi Ha Hb. rewrite (update_rect_lemma _ _ _ _ _ _ _ Hbh Hbw Hupd p q r c sr sc Hr Hc Hsr Hsc).
    rewrite Ha, Hb. apply upd_px_int; assumption.
  Qed.

  Lemma update_fills_undefined_lemma :
    img_ok src -> img_ok buf ->
    undef_px (ipx buf r c) = true -> nonneg_px (ipx src sr sc) ->
    (src_valid (imode src) (ipx src sr sc) = true -> ipx out r c = fill_px (imode src) (ipx src sr sc)) /\
    (src_valid (imode src) (ipx src sr sc) = false -> undef_px (ipx out r c) = true).
  Proof.
    intros Hs Hb Hu Hn.
    rewrite (update_rect_lemma _ _ _ _ _ _ _ Hbh Hbw Hupd p q r c sr sc Hr Hc Hsr Hsc).
    destruct (update_shape _ _ _ _ _ _ _ Hupd) as (_ & _ & _ & Em).
    apply upd_px_old_undefined; auto.
    - pose proof (Hb r c) as H. rewrite Em in H. exact H.
  Qed.
End Update.

(* integer modes: the two notions of "undefined source" coincide with zero *)
Lemma src_valid_int m v : is_int_mode m = true -> src_valid m (PxI v) = negb (v =? 0).
Proof. destruct m; cbn; intros; try discriminate; reflexivity. Qed.

(* for well-typed pixels update's test is "defined", except F16x3 where it is
   "no channel NaN" (also what undef_px says) *)
Lemma src_valid_defined m s : px_ok m s = true -> src_valid m s = negb (undef_px s).
Proof.
  destruct m, s; cbn; intros H; try discriminate; try reflexivity;
    repeat match goal with |- context [match ?x with _ => _ end] => destruct x end; reflexivity.
Qed.

(* ------------------------------------------------------------------ *)
(* clear, is_completely_masked                                          *)

Lemma clear_spec_lemma im :
  ih (clear im) = ih im /\ iw (clear im) = iw im /\ imode (clear im) = imode im /\
  (forall r c, ipx (clear im) r c = clear_px (imode im)) /\
  img_ok (clear im) /\
  (imode im <> RGB -> forall r c, undef_px (ipx (clear im) r c) = true).
Proof.
  unfold clear; cbn [ih iw imode ipx]. repeat split.
  - intros r c; cbn [imode ipx]. destruct (imode im); reflexivity.
  - intros H r c. destruct (imode im); try reflexivity. congruence.
Qed.

Lemma nan_all_scalar m p :
  m = F32 \/ m = F64 -> px_ok m p = true -> nan_all p = undef_px p.
Proof. intros [->| ->]; destruct p as [[v|]| | | |]; cbn; intros; try discriminate; reflexivity. Qed.

Lemma alpha0_rgba p : px_ok RGBA p = true -> alpha0 p = undef_px p.
Proof. destruct p; cbn; intros; try discriminate; reflexivity. Qed.

Lemma completely_masked_spec_lemma im :
  img_ok im ->
  (is_completely_masked im = true <->
   (imode im = RGBA \/ imode im = F32 \/ imode im = F64 \/ imode im = F16x3) /\
   forall r c, 0 <= r < ih im -> 0 <= c < iw im ->
               match imode im with
               | F16x3 => nan_all (ipx im r c) = true     (* every channel NaN *)
               | _ => undef_px (ipx im r c) = true
               end).
Proof.
  intros Hok. unfold is_completely_masked.
  destruct (imode im) eqn:Em.
  - split; [discriminate|]. intros [[H|[H|[H|H]]] _]; discriminate.
  - rewrite all_px_spec. split.
    + intros H. split; [auto|]. intros r c Hr Hc. rewrite <- alpha0_rgba; [apply H; assumption|].
      rewrite <- Em. apply Hok.
    + intros [_ H] r c Hr Hc. rewrite alpha0_rgba; [apply H; assumption|]. rewrite <- Em. apply Hok.
  - rewrite all_px_spec. split.
    + intros H. split; [auto|]. intros r c Hr Hc.
      rewrite <- (nan_all_scalar F32); [apply H; assumption|auto|]. rewrite <- Em. apply Hok.
    + intros [_ H] r c Hr Hc. rewrite (nan_all_scalar F32); [apply H; assumption|auto|].
      rewrite <- Em. apply Hok.
  - rewrite all_px_spec. split.
    + intros H. split; [auto|]. intros r c Hr Hc.
      rewrite <- (nan_all_scalar F64); [apply H; assumption|auto|]. rewrite <- Em. apply Hok.
    + intros [_ H] r c Hr Hc. rewrite (nan_all_scalar F64); [apply H; assumption|auto|].
      rewrite <- Em. apply Hok.
  - rewrite all_px_spec. split.
    + intros H. split; [auto 6|]. intros r c Hr Hc. exact (H r c Hr Hc).
    + intros [_ H] r c Hr Hc. exact (H r c Hr Hc).
  - split; [discriminate|]. intros [[H|[H|[H|H]]] _]; discriminate.
  - split; [discriminate|]. intros [[H|[H|[H|H]]] _]; discriminate.
  - split; [discriminate|]. intros [[H|[H|[H|H]]] _]; discriminate.
Qed.

Lemma never_masked_lemma im :
  imode im = RGB \/ is_int_mode (imode im) = true -> is_completely_masked im = false.
Proof. unfold is_completely_masked. destruct (imode im); cbn; intros [H|H]; try discriminate; reflexivity. Qed.

(* a cleared maskable buffer is completely masked when its mode can say so *)
Lemma clear_masked_lemma m h w junk :
  is_completely_masked (clear (make_maskable_buffer m h w junk)) =
  negb (is_int_mode m).
Proof.
  unfold is_completely_masked, clear, make_maskable_buffer; cbn [imode ih iw ipx].
  destruct m; cbn [maskable is_int_mode negb]; try reflexivity;
    apply all_px_spec; intros; reflexivity.
Qed.

(* ------------------------------------------------------------------ *)
(* store                                                                *)

Lemma fmt_eqb_eq a b : fmt_eqb a b = true <-> a = b.
Proof. destruct a, b; cbn; split; intros; try discriminate; reflexivity. Qed.

Lemma st_set_same st p f v : st_set st p f v p f = v.
Proof. unfold st_set. rewrite pos_eqb_refl. destruct f; reflexivity. Qed.

Lemma st_set_other st p f v p' f' :
  pos_eqb p' p && fmt_eqb f' f = false -> st_set st p f v p' f' = st p' f'.
Proof. unfold st_set. intros ->. reflexivity. Qed.

Lemma write_image_at dflt st p im f st' :
  write_image dflt st p im f = Some st' ->
  forall p' f',
    st' p' f' = if pos_eqb p' p && fmt_eqb f' (or_default dflt f)
                then (if is_completely_masked im then None else encode (or_default dflt f) im)
                else st p' f'.
Proof.
  unfold write_image. intros H p' f'.
  destruct (is_completely_masked im).
  - injection H as <-. unfold st_set. reflexivity.
  - destruct (encode (or_default dflt f) im) as [d|]; [|discriminate].
    injection H as <-. unfold st_set. reflexivity.
Qed.

Lemma store_history_lemma dflt ops : forall st st' rs,
  run_ops dflt st ops = Some (st', rs) ->
  forall p f,
    st' p f = match last_write dflt p f ops with
              | None => st p f
              | Some im => if is_completely_masked im then None else encode f im
              end.
Proof.
  induction ops as [|o ops IH]; intros st st' rs H p f.
  - injection H as <- <-. reflexivity.
  - destruct o as [p0 im0 f0 | p0 d0 mm0 f0]; cbn [run_ops last_write] in *.
    + destruct (write_image dflt st p0 im0 f0) as [st1|] eqn:EW; [|discriminate].
      rewrite (IH _ _ _ H p f).
      destruct (last_write dflt p f ops) as [x|]; [reflexivity|].
      rewrite (write_image_at _ _ _ _ _ _ EW p f).
      destruct (pos_eqb p p0 && fmt_eqb f (or_default dflt f0)) eqn:E; [|reflexivity].
      apply andb_true_iff in E. destruct E as [_ E]. apply fmt_eqb_eq in E. subst f. reflexivity.
    + destruct (run_ops dflt st ops) as [[st1 rs1]|] eqn:ER; [|discriminate].
      injection H as <- <-. apply (IH _ _ _ ER).
Qed.

Lemma run_ops_total dflt ops : forall st,
  Forall (writable dflt) ops -> exists st' rs, run_ops dflt st ops = Some (st', rs).
Proof.
  induction ops as [|o ops IH]; intros st HF.
  - exists st, []. reflexivity.
  - inversion HF as [|o' l' Ho Hl]; subst.
    destruct o as [p0 im0 f0 | p0 d0 mm0 f0]; cbn [run_ops].
    + cbn [writable] in Ho. unfold write_image.
      destruct (is_completely_masked im0) eqn:Em.
      * apply IH; assumption.
      * destruct Ho as [Ho|Ho]; [discriminate|].
        destruct (encode (or_default dflt f0) im0); [apply IH; assumption | congruence].
    + destruct (IH st Hl) as (st' & rs & E). rewrite E. eauto.
Qed.

(* reads do not change the store, and each returns what read_image gives on the
   store left by the operations before it *)
Lemma run_ops_app dflt a : forall b st st' rs,
  run_ops dflt st (a ++ b) = Some (st', rs) ->
  exists st1 rs1 rs2, run_ops dflt st a = Some (st1, rs1) /\
                      run_ops dflt st1 b = Some (st', rs2) /\ rs = rs1 ++ rs2.
Proof.
  induction a as [|o a IH]; intros b st st' rs H.
  - exists st, [], rs. cbn. auto.
  - destruct o as [p0 im0 f0 | p0 d0 mm0 f0]; cbn [app run_ops] in *.
    + destruct (write_image dflt st p0 im0 f0) as [st1|]; [|discriminate].
      apply IH; exact H.
    + destruct (run_ops dflt st (a ++ b)) as [[st2 rs2]|] eqn:E; [|discriminate].
      injection H as <- <-.
      destruct (IH _ _ _ _ E) as (s1 & r1 & r2 & E1 & E2 & ->).
      rewrite E1. exists s1, (read_image dflt st p0 d0 mm0 f0 :: r1), r2. auto.
Qed.

Lemma read_history_lemma dflt pre p d mm f post st st' rs :
  run_ops dflt st (pre ++ ORead p d mm f :: post) = Some (st', rs) ->
  exists st1 rs1 rs2,
    run_ops dflt st pre = Some (st1, rs1) /\
    rs = rs1 ++ read_image dflt st1 p d mm f :: rs2 /\
    st1 p (or_default dflt f) =
      match last_write dflt p (or_default dflt f) pre with
      | None => st p (or_default dflt f)
      | Some im => if is_completely_masked im then None else encode (or_default dflt f) im
      end.
Proof.
  intros H. destruct (run_ops_app _ _ _ _ _ _ H) as (s1 & r1 & r2 & E1 & E2 & ->).
  cbn [run_ops] in E2. destruct (run_ops dflt s1 post) as [[s2 r3]|]; [|discriminate].
  injection E2 as <- <-.
  exists s1, r1, r3. repeat split; auto.
  apply (store_history_lemma _ _ _ _ _ E1).
Qed.

Lemma read_default_lemma dflt st p f :
  st p (or_default dflt f) = None ->
  read_image dflt st p DNone None f = RAbsent /\
  (forall mm, read_image dflt st p DNone mm f = RAbsent) /\
  (forall mm, read_image dflt st p DOther mm f = RError) /\
  read_image dflt st p DMasked None f = RError /\
  (forall m, exists im,
      read_image dflt st p DMasked (Some m) f = RImg im /\
      ih im = 256 /\ iw im = 256 /\ imode im = maskable m /\
      (forall r c, ipx im r c = masked_px m /\ undef_px (ipx im r c) = true) /\
      is_completely_masked im = negb (is_int_mode m)).
Proof.
  intros H. unfold read_image. rewrite H. repeat split.
  intros m. eexists. split; [reflexivity|]. cbn [clear make_maskable_buffer ih iw imode ipx].
  repeat split.
  - destruct m; reflexivity.
  - destruct m; reflexivity.
  - apply (clear_masked_lemma m 256 256).
Qed.

Lemma read_present_lemma dflt st p d mm f im :
  st p (or_default dflt f) = Some (FExact im) -> read_image dflt st p d mm f = RImg im.
Proof. intros H. unfold read_image. rewrite H. reflexivity. Qed.

Lemma roundtrip_lemma dflt st p im f :
  holds (or_default dflt f) (imode im) = true -> is_completely_masked im = false ->
  exists st', write_image dflt st p im f = Some st' /\
              (forall d mm, read_image dflt st' p d mm f = RImg im) /\
              (forall p' f', pos_eqb p' p && fmt_eqb f' (or_default dflt f) = false -> st' p' f' = st p' f').
Proof.
  intros Hh Hm. unfold write_image, encode. rewrite Hm, Hh.
  eexists. split; [reflexivity|]. split.
  - intros d mm. apply read_present_lemma. apply st_set_same.
  - intros p' f' E. apply st_set_other; exact E.
Qed.

Lemma write_masked_lemma dflt st p im f :
  is_completely_masked im = true ->
  exists st', write_image dflt st p im f = Some st' /\
              st' p (or_default dflt f) = None /\
              (forall mm, read_image dflt st' p DNone mm f = RAbsent) /\
              (forall p' f', pos_eqb p' p && fmt_eqb f' (or_default dflt f) = false -> st' p' f' = st p' f').
Proof.
  intros Hm. unfold write_image. rewrite Hm. eexists. split; [reflexivity|].
  assert (E : st_set st p (or_default dflt f) None p (or_default dflt f) = None) by apply st_set_same.
  repeat split.
  - exact E.
  - intros mm. unfold read_image. rewrite E. reflexivity.
  - intros p' f' E'. apply st_set_other; exact E'.
Qed.

Lemma holds_table :
  forall f m, holds f m = true <->
    match f with
    | Png => m = RGB \/ m = RGBA
    | Jpg => False
    | Npy => True
    | Fits => m <> F16x3
    end.
Proof.
  intros f m; destruct f, m; cbn; split; intros H; try discriminate; try tauto; try congruence;
    try (destruct H as [H|H]; discriminate).
Qed.

(* ------------------------------------------------------------------ *)
(* packaged statements for Properties/C15.v                             *)

Lemma slice_selects_sound_lemma :
  forall len s p p' i i', 0 <= len ->
    selects len s p i ->
    0 <= i < len /\ (selects len s p' i -> p = p') /\ (selects len s p i' -> i = i').
Proof.
  intros len s p p' i i' Hl H. split; [|split].
  - exact (selects_in_bounds len s p i Hl H).
  - intros H'. exact (selects_inj len s p p' i Hl H H').
  - intros H'. exact (selects_fun len s p i i' H H').
Qed.

Lemma slice_forms_lemma :
  forall len, 0 <= len ->
    (forall a b, 0 <= a <= b -> b <= len ->
       slice_view len (mkSlice (Some a) (Some b) None) = Some (mkView a 1 (b - a))) /\
    (forall k, 0 <= k <= len -> slice_view len (mkSlice None (Some k) None) = Some (mkView 0 1 k)) /\
    (forall k, 0 <= k <= len -> slice_view len (mkSlice (Some k) None None) = Some (mkView k 1 (len - k))) /\
    slice_view len full_slice = Some (mkView 0 1 len) /\
    slice_view len (mkSlice None None (Some (-1))) = Some (mkView (len - 1) (-1) len) /\
    (forall hi lo, 0 <= lo <= hi -> hi < len ->
       slice_view len (mkSlice (Some hi) (Some lo) (Some (-1))) = Some (mkView hi (-1) (hi - lo))).
Proof.
  intros len Hl. repeat split.
  - intros a b; apply slice_view_range.
  - intros k; apply slice_view_head.
  - intros k; apply slice_view_tail.
  - apply slice_view_full; exact Hl.
  - apply slice_view_reversed; exact Hl.
  - intros hi lo; apply slice_view_down.
Qed.

Lemma fill_values_lemma :
  (forall m, undef_px (masked_px m) = true /\ px_ok (maskable m) (masked_px m) = true /\
             (nan_all (masked_px m) = true \/ alpha0 (masked_px m) = true \/ is_int_mode m = true)) /\
  (forall m s, px_ok m s = true ->
               undef_px (fill_px m s) = undef_px s /\ px_ok (maskable m) (fill_px m s) = true).
Proof.
  split; [exact masked_px_undefined|].
  intros m s H. split; [exact (fill_px_defined m s H) | exact (fill_px_ok m s H)].
Qed.

Lemma fill_defined_lemma :
  forall src buf iy ix by_ bx vy vx wy wx,
    slice_view (ih src) iy = Some vy -> slice_view (iw src) ix = Some vx ->
    slice_view (ih buf) by_ = Some wy -> slice_view (iw buf) bx = Some wx ->
    v_count vy = v_count wy -> v_count vx = v_count wx ->
    imode buf = maskable (imode src) ->
    (exists out, fill_into src buf iy ix by_ bx = Some out) /\
    (exists out, update_into src buf iy ix by_ bx = Some out) /\
    (forall p q r c, selects (ih buf) by_ p r -> selects (iw buf) bx q c ->
                     exists sr sc, selects (ih src) iy p sr /\ selects (iw src) ix q sc).
Proof.
  intros src buf iy ix by_ bx vy vx wy wx H1 H2 H3 H4 C1 C2 Em.
  pose proof (rects_defined src buf iy ix by_ bx vy vx wy wx H1 H2 H3 H4 C1 C2 Em) as ER.
  split; [|split].
  - unfold fill_into. rewrite ER. eexists; reflexivity.
  - unfold update_into, update_into_gen. rewrite ER. eexists; reflexivity.
  - intros p q r c Hr Hc. exact (rect_has_source src buf iy ix by_ bx vy vx wy wx p q r c ER Hr Hc).
Qed.

Lemma update_frame_full :
  forall src buf iy ix by_ bx out,
    0 <= ih buf -> 0 <= iw buf ->
    update_into src buf iy ix by_ bx = Some out ->
    ih out = ih buf /\ iw out = iw buf /\ imode out = imode buf /\
    forall r c, ~ in_rect buf by_ bx r c -> ipx out r c = ipx buf r c.
Proof.
  intros src buf iy ix by_ bx out Hh Hw H.
  destruct (update_shape src buf iy ix by_ bx out H) as (A & B & C & _).
  repeat split; auto. exact (update_frame_lemma src buf iy ix by_ bx out Hh Hw H).
Qed.

Lemma buffers_stay_well_typed_lemma :
  forall src buf iy ix by_ bx out,
    img_ok src ->
    (fill_into src buf iy ix by_ bx = Some out -> img_ok out) /\
    (img_ok buf -> update_into src buf iy ix by_ bx = Some out -> img_ok out).
Proof.
  intros src buf iy ix by_ bx out Hs. split.
  - exact (fill_ok_lemma src buf iy ix by_ bx out Hs).
  - intros Hb. exact (update_ok_lemma src buf iy ix by_ bx out Hs Hb).
Qed.

(* concrete states for the non-vacuity examples *)
Definition ex_src : img :=
  mkImg 3 2 RGBA (fun r c => PxC (10 * r + c) 7 7 (if (r =? 1) then 0 else 200)).
Definition ex_buf : img := mkImg 5 4 RGBA (fun r c => PxC 1 2 3 (if (c =? 0) then 0 else 9)).
(* reversed rows: buffer rows 3,2,1 receive source rows 0,1,2 *)
Definition ex_by : slice := mkSlice (Some 3) (Some 0) (Some (-1)).
Definition ex_bx : slice := mkSlice (Some (-3)) (Some 3) None.
Definition ex_rows (o : option img) : option (list (list pixel)) :=
  match o with
  | Some out => Some (map (fun r => map (fun c => ipx out r c) (zrange (iw out))) (zrange (ih out)))
  | None => None
  end.
Definition ex_hist : list op :=
  [ OWrite root (mkImg 1 1 F32 (fun _ _ => PxF (Some 2%Q))) None;
    ORead root DNone None None;
    OWrite root (mkImg 1 1 F32 (fun _ _ => PxF None)) None;
    ORead root DNone None None;
    ORead root DMasked (Some RGB) (Some Png) ].
Definition ex_hist_result :=
  match run_ops Fits (fun _ _ => Some (FLossy 1 1)) ex_hist with
  | Some (st', [RImg a; RAbsent; RLossy 1 1]) =>
      match st' root Fits with None => Some (ipx a 0 0) | Some _ => None end
  | _ => None
  end.

Lemma selects_example : selects 5 ex_by 2 1 /\ selects 4 ex_bx 1 2 /\ in_rect ex_buf ex_by ex_bx 1 2.
Proof.
  assert (A : selects 5 ex_by 2 1).
  { eexists. split; [vm_compute; reflexivity|]. cbn. split; [split|]; reflexivity || discriminate. }
  assert (B : selects 4 ex_bx 1 2).
  { eexists. split; [vm_compute; reflexivity|]. cbn. split; [split|]; reflexivity || discriminate. }
  split; [exact A|]. split; [exact B|]. exists 2, 1. split; assumption.
Qed.

Lemma int_zero_tile_example :
  forall st, exists st',
    write_image Npy st root (mkImg 2 2 U8 (fun _ _ => PxI 0)) None = Some st' /\
    st' root Npy <> None.
Proof. intros st. eexists. split; [reflexivity|]. unfold st_set. cbn. discriminate. Qed.

(* the repaired integer rule (finding C02-1) coincides with the coded one on
   non-negative data, and never loses a non-zero value to a zero *)
Lemma upd_px_fixed_agrees m s o :
  nonneg_px s -> nonneg_px o -> upd_px_fixed m s o = upd_px m s o.
Proof.
  intros Hs Ho. destruct m; cbn [upd_px_fixed upd_px]; try reflexivity;
    destruct s; try reflexivity; destruct o; try reflexivity; cbn [nonneg_px] in *;
    destruct (v0 =? 0) eqn:E1; cbn [orb];
    try (f_equal; lia);
    destruct (v =? 0) eqn:E2; cbn [negb andb]; try (f_equal; lia);
    destruct (v0 <? v) eqn:E3; f_equal; lia.
Qed.

Lemma upd_px_fixed_zero m a b :
  is_int_mode m = true ->
  upd_px_fixed m (PxI a) (PxI 0) = PxI a /\ upd_px_fixed m (PxI 0) (PxI b) = PxI b.
Proof.
  intros Hm. destruct m; try discriminate; cbn [upd_px_fixed]; split; try reflexivity;
    destruct (b =? 0) eqn:E; cbn [orb negb andb Z.eqb]; try reflexivity; f_equal; lia.
Qed.

Lemma update_fixed_agrees_lemma :
  (forall m s o, nonneg_px s -> nonneg_px o -> upd_px_fixed m s o = upd_px m s o) /\
  (forall m a b, is_int_mode m = true ->
                 upd_px_fixed m (PxI a) (PxI 0) = PxI a /\ upd_px_fixed m (PxI 0) (PxI b) = PxI b).
Proof. split; [exact upd_px_fixed_agrees | exact upd_px_fixed_zero]. Qed.

(* The code in /repo carries the repaired integer rule (upd_px_fixed, commit a186b8b); on
   non-negative data -- the data the C15 statement speaks about -- a whole update with it gives
   exactly the image the np.maximum rule gives, so the update theorems above hold of it. *)
Lemma update_fixed_agrees_img src buf iy ix by_ bx :
  (forall r c, nonneg_px (ipx src r c)) -> (forall r c, nonneg_px (ipx buf r c)) ->
  match update_into_fixed src buf iy ix by_ bx, update_into src buf iy ix by_ bx with
  | Some o', Some o => ih o' = ih o /\ iw o' = iw o /\ imode o' = imode o /\
                       forall r c, ipx o' r c = ipx o r c
  | None, None => True
  | _, _ => False
  end.
Proof.
  intros Hs Hb. unfold update_into_fixed, update_into, update_into_gen.
  destruct (rects src buf iy ix by_ bx) as [[[[vy vx] wy] wx]|]; [|exact I].
  repeat split. intros r c. cbn [ipx].
  destruct (view_inv wy r); [destruct (view_inv wx c)|]; try reflexivity.
  apply upd_px_fixed_agrees; [apply Hs|apply Hb].
Qed.

(* ... and in general (signed data included) its integer rule is: a zero buffer pixel takes the
   source, a zero source leaves the buffer alone, two non-zero values keep the larger *)
Lemma update_int_fixed_lemma src buf out iy ix by_ bx :
  0 <= ih buf -> 0 <= iw buf ->
  update_into_fixed src buf iy ix by_ bx = Some out ->
  forall p q r c sr sc,
    selects (ih buf) by_ p r -> selects (iw buf) bx q c ->
    selects (ih src) iy p sr -> selects (iw src) ix q sc ->
    forall a b, is_int_mode (imode src) = true -> ipx src sr sc = PxI a -> ipx buf r c = PxI b ->
                ipx out r c = PxI (if (b =? 0) || (negb (a =? 0) && (b <? a)) then a else b).
Proof.
  intros Hbh Hbw Hupd p q r c sr sc Hr Hc Hsr Hsc a b Hi Ha Hb.
  unfold update_into_fixed in Hupd.
  rewrite (update_rect_gen upd_px_fixed _ _ _ _ _ _ _ Hbh Hbw Hupd p q r c sr sc Hr Hc Hsr Hsc).
  rewrite Ha, Hb. destruct (imode src); try discriminate; cbn [upd_px_fixed];
    destruct ((b =? 0) || (negb (a =? 0) && (b <? a))); reflexivity.
Qed.
