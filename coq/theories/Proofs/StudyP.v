(* Proofs about Model/Study.v (property C08). *)
From Coq Require Import ZArith List Bool Lia.
Ltac Zify.zify_post_hook ::= Z.to_euclidean_division_equations.
From Toasty Require Import Model.Study.
Import ListNotations.
Local Open Scope Z_scope.

(* ------------------------------------------------------------------ *)
(* next_highest_power_of_2 *)

Lemma np2_loop_spec fuel : forall p n,
  0 < p -> n <= p * 2 ^ Z.of_nat fuel ->
  exists k, 0 <= k <= Z.of_nat fuel /\ np2_loop fuel p n = Some (p * 2 ^ k) /\
            n <= p * 2 ^ k /\ (0 < k -> p * 2 ^ (k - 1) < n).
Proof.
  induction fuel as [|f IH]; intros p n Hp Hn.
  - cbn [np2_loop]. change (Z.of_nat 0) with 0 in *. rewrite Z.pow_0_r in Hn.
    destruct (p <? n) eqn:E.
    + apply Z.ltb_lt in E. lia.
    + apply Z.ltb_ge in E. exists 0. rewrite Z.pow_0_r, Z.mul_1_r. repeat split; lia.
  - cbn [np2_loop]. destruct (p <? n) eqn:E.
    + apply Z.ltb_lt in E.
      rewrite Nat2Z.inj_succ, Z.pow_succ_r in Hn by lia.
      destruct (IH (2 * p) n ltac:(lia) ltac:(lia)) as (k & Hk & Hl & Hle & Hmin).
      exists (k + 1).
      assert (E2 : p * 2 ^ (k + 1) = 2 * p * 2 ^ k).
      { rewrite Z.pow_add_r by lia. change (2 ^ 1) with 2. lia. }
      rewrite E2. repeat split; try lia; try assumption.
      intros _. replace (k + 1 - 1) with k by lia.
      destruct (Z.eq_dec k 0) as [->|Hk0].
      * rewrite Z.pow_0_r. lia.
      * specialize (Hmin ltac:(lia)).
        replace k with (k - 1 + 1) at 1 by lia.
        rewrite Z.pow_add_r by lia. change (2 ^ 1) with 2. lia.
    + apply Z.ltb_ge in E. exists 0. rewrite Z.pow_0_r, Z.mul_1_r. repeat split; lia.
Qed.

Lemma le_pow2_log2_up n : n <= 2 ^ Z.log2_up n.
Proof.
  destruct (Z_le_gt_dec n 1) as [H|H].
  - pose proof (Z.pow_pos_nonneg 2 (Z.log2_up n) ltac:(lia) (Z.log2_up_nonneg n)). lia.
  - apply Z.log2_up_spec. lia.
Qed.

(* the loop terminates within its fuel, returns 256 * 2^k, and k is minimal *)
Lemma next_pow2_spec n :
  exists k, 0 <= k /\ next_pow2 n = Some (256 * 2 ^ k) /\ n <= 256 * 2 ^ k /\
            (0 < k -> 256 * 2 ^ (k - 1) < n).
Proof.
  unfold next_pow2.
  pose proof (Z.log2_up_nonneg n) as Hl. pose proof (le_pow2_log2_up n) as Hn.
  assert (H2 : 0 < 2 ^ Z.log2_up n) by (apply Z.pow_pos_nonneg; lia).
  destruct (np2_loop_spec (Z.to_nat (Z.log2_up n)) 256 n ltac:(lia)) as (k & Hk & E & Hle & Hmin).
  { rewrite Z2Nat.id by lia. lia. }
  exists k. repeat split; try lia; assumption.
Qed.

Lemma next_pow2_total n : exists p, next_pow2 n = Some p.
Proof. destruct (next_pow2_spec n) as (k & _ & E & _). eauto. Qed.

Lemma pow2_256 k : 0 <= k -> 256 * 2 ^ k = 2 ^ (8 + k).
Proof. intros. rewrite Z.pow_add_r by lia. reflexivity. Qed.

(* minimality among all powers of two that are >= 256 and >= n *)
Lemma next_pow2_minimal n p :
  next_pow2 n = Some p ->
  (exists e, 0 <= e /\ p = 2 ^ e) /\ 256 <= p /\ n <= p /\
  (forall j, 0 <= j -> 256 <= 2 ^ j -> n <= 2 ^ j -> p <= 2 ^ j).
Proof.
  destruct (next_pow2_spec n) as (k & Hk & E & Hle & Hmin). rewrite E. intros H. assert (Ep : p = 256 * 2 ^ k) by congruence. subst p. clear H.
  assert (Hp : 0 < 2 ^ k) by (apply Z.pow_pos_nonneg; lia).
  split; [exists (8 + k); split; [lia | apply pow2_256; lia]|].
  split; [lia|]. split; [assumption|].
  intros j Hj H256 Hnj.
  destruct (Z.eq_dec k 0) as [->|Hk0]; [rewrite Z.pow_0_r; lia|].
  specialize (Hmin ltac:(lia)). rewrite pow2_256 in Hmin |- * by lia.
  assert (Hlt : 2 ^ (8 + (k - 1)) < 2 ^ j) by lia.
  apply Z.pow_lt_mono_r_iff in Hlt; try lia.
  apply Z.pow_le_mono_r; lia.
Qed.

(* ------------------------------------------------------------------ *)
(* StudyTiling.__init__ *)

Lemma study_tiling_spec w h :
  1 <= w -> 1 <= h ->
  exists k, 0 <= k /\
    study_tiling w h =
      Some (mkTiling w h (256 * 2 ^ k) (2 ^ k) k ((256 * 2 ^ k - w) / 2) ((256 * 2 ^ k - h) / 2)) /\
    Z.max w h <= 256 * 2 ^ k /\ (0 < k -> 256 * 2 ^ (k - 1) < Z.max w h).
Proof.
  intros Hw Hh. unfold study_tiling.
  destruct (w <=? 0) eqn:Ew; [apply Z.leb_le in Ew; lia|].
  destruct (h <=? 0) eqn:Eh; [apply Z.leb_le in Eh; lia|].
  destruct (next_pow2_spec w) as (kw & Hkw & E1 & Hle1 & Hmin1).
  destruct (next_pow2_spec h) as (kh & Hkh & E2 & Hle2 & Hmin2).
  rewrite E1, E2.
  assert (Hmono : forall a b, 0 <= a <= b -> 2 ^ a <= 2 ^ b) by (intros; apply Z.pow_le_mono_r; lia).
  assert (Hpos : forall a, 0 <= a -> 0 < 2 ^ a) by (intros; apply Z.pow_pos_nonneg; lia).
  exists (Z.max kw kh). split; [lia|].
  assert (Emax : Z.max (256 * 2 ^ kw) (256 * 2 ^ kh) = 256 * 2 ^ Z.max kw kh).
  { destruct (Z.max_spec kw kh) as [[Hlt ->]|[Hge ->]].
    - pose proof (Hmono kw kh ltac:(lia)). lia.
    - pose proof (Hmono kh kw ltac:(lia)). lia. }
  rewrite Emax.
  assert (Ediv : 256 * 2 ^ Z.max kw kh / 256 = 2 ^ Z.max kw kh).
  { rewrite Z.mul_comm. apply Z.div_mul. lia. }
  rewrite Ediv, Z.log2_pow2 by lia.
  split; [reflexivity|].
  pose proof (Hmono kw (Z.max kw kh) ltac:(lia)). pose proof (Hmono kh (Z.max kw kh) ltac:(lia)).
  split; [lia|].
  intros Hk.
  destruct (Z.max_spec kw kh) as [[Hlt ->]|[Hge ->]].
  - specialize (Hmin2 ltac:(lia)). lia.
  - specialize (Hmin1 ltac:(lia)). lia.
Qed.

Lemma study_tiling_guard w h : (w <= 0 \/ h <= 0) -> study_tiling w h = None.
Proof.
  intros H. unfold study_tiling.
  destruct (w <=? 0) eqn:Ew; [reflexivity|]. apply Z.leb_gt in Ew.
  destruct (h <=? 0) eqn:Eh; [reflexivity|]. apply Z.leb_gt in Eh. lia.
Qed.

(* p2n is the least power of two that is >= 256 and >= max(w, h) *)
Lemma p2n_minimal w h t :
  study_tiling w h = Some t ->
  t_width t = w /\ t_height t = h /\ 0 <= t_levels t /\
  t_p2n t = 2 ^ (8 + t_levels t) /\ t_tile_size t = 2 ^ t_levels t /\
  t_p2n t = 256 * t_tile_size t /\
  256 <= t_p2n t /\ Z.max w h <= t_p2n t /\
  (forall j, 0 <= j -> 256 <= 2 ^ j -> Z.max w h <= 2 ^ j -> t_p2n t <= 2 ^ j) /\
  (256 < t_p2n t -> t_p2n t / 2 < Z.max w h).
Proof.
  intros E.
  assert (Hwh : 1 <= w /\ 1 <= h).
  { destruct (Z_le_gt_dec w 0); [rewrite study_tiling_guard in E by lia; discriminate|].
    destruct (Z_le_gt_dec h 0); [rewrite study_tiling_guard in E by lia; discriminate|]. lia. }
  destruct (study_tiling_spec w h) as (k & Hk & E' & Hmax & Hmin); try lia.
  rewrite E' in E. match type of E with Some ?a = Some _ => assert (Et : t = a) by congruence end. subst t. clear E. cbn [t_width t_height t_levels t_p2n t_tile_size].
  assert (Hp : 0 < 2 ^ k) by (apply Z.pow_pos_nonneg; lia).
  repeat split; try lia.
  - apply pow2_256; lia.
  - intros j Hj H256 Hmj.
    destruct (Z.eq_dec k 0) as [->|Hk0]; [rewrite Z.pow_0_r; lia|].
    specialize (Hmin ltac:(lia)). rewrite pow2_256 in Hmin |- * by lia.
    assert (Hlt : 2 ^ (8 + (k - 1)) < 2 ^ j) by lia.
    apply Z.pow_lt_mono_r_iff in Hlt; try lia.
    apply Z.pow_le_mono_r; lia.
  - intros Hbig.
    destruct (Z.eq_dec k 0) as [->|Hk0]; [rewrite Z.pow_0_r in Hbig; lia|].
    specialize (Hmin ltac:(lia)).
    replace k with (k - 1 + 1) at 1 by lia.
    rewrite Z.pow_add_r by lia. change (2 ^ 1) with 2.
    assert (0 < 2 ^ (k - 1)) by (apply Z.pow_pos_nonneg; lia). lia.
Qed.

(* offsets: floor((p2n - w) / 2); the image lies inside the square and the
   right/bottom margin exceeds the left/top one by at most one pixel *)
Lemma offsets_centred w h t :
  study_tiling w h = Some t ->
  t_gx0 t = (t_p2n t - w) / 2 /\ t_gy0 t = (t_p2n t - h) / 2 /\
  0 <= t_gx0 t /\ 0 <= t_gy0 t /\
  t_gx0 t + w <= t_p2n t /\ t_gy0 t + h <= t_p2n t /\
  (let right := t_p2n t - (t_gx0 t + w) in right = t_gx0 t \/ right = t_gx0 t + 1) /\
  (let bottom := t_p2n t - (t_gy0 t + h) in bottom = t_gy0 t \/ bottom = t_gy0 t + 1).
Proof.
  intros E. pose proof (p2n_minimal w h t E) as (Hw & Hh & _ & _ & _ & _ & _ & Hmax & _).
  assert (Hwh : 1 <= w /\ 1 <= h).
  { destruct (Z_le_gt_dec w 0); [rewrite study_tiling_guard in E by lia; discriminate|].
    destruct (Z_le_gt_dec h 0); [rewrite study_tiling_guard in E by lia; discriminate|]. lia. }
  destruct (study_tiling_spec w h) as (k & Hk & E' & _); try lia.
  rewrite E' in E. match type of E with Some ?a = Some _ => assert (Et : t = a) by congruence end. subst t. clear E. cbn [t_gx0 t_gy0 t_p2n] in *. cbv zeta. lia.
Qed.

Lemma study_tiling_wf w h t : study_tiling w h = Some t -> wf t /\ 1 <= t_width t /\ 1 <= t_height t.
Proof.
  intros E. pose proof (p2n_minimal w h t E) as (Hw & Hh & Hl & Hp & Hts & Hp' & _).
  pose proof (offsets_centred w h t E) as (_ & _ & Hx & Hy & Hxw & Hyh & _).
  assert (Hwh : 1 <= w /\ 1 <= h).
  { destruct (Z_le_gt_dec w 0); [rewrite study_tiling_guard in E by lia; discriminate|].
    destruct (Z_le_gt_dec h 0); [rewrite study_tiling_guard in E by lia; discriminate|]. lia. }
  unfold wf. rewrite Hw, Hh. repeat split; try lia.
Qed.

(* ------------------------------------------------------------------ *)
(* compute_for_subimage *)

Definition legal_subimage (t : tiling) (ix iy sw sh : Z) : Prop :=
  0 <= sw /\ 0 <= sh /\ 0 <= ix /\ 0 <= iy /\ ix + sw <= t_width t /\ iy + sh <= t_height t.

Lemma subimage_spec w h t ix iy sw sh :
  study_tiling w h = Some t ->
  (legal_subimage t ix iy sw sh ->
   compute_for_subimage t ix iy sw sh =
     Some (mkTiling sw sh (t_p2n t) (t_tile_size t) (t_levels t) (t_gx0 t + ix) (t_gy0 t + iy))) /\
  (~ legal_subimage t ix iy sw sh -> compute_for_subimage t ix iy sw sh = None).
Proof.
  intros E. pose proof (p2n_minimal w h t E) as (Hw & Hh & _).
  unfold legal_subimage, compute_for_subimage. rewrite Hw, Hh, E.
  destruct (sw <? 0) eqn:E1; destruct (w <? sw) eqn:E2;
  destruct (sh <? 0) eqn:E3; destruct (h <? sh) eqn:E4;
  destruct (ix <? 0) eqn:E5; destruct (w <? ix + sw) eqn:E6;
  destruct (iy <? 0) eqn:E7; destruct (h <? iy + sh) eqn:E8;
  cbn [orb]; split; intros H; try reflexivity; lia.
Qed.

Lemma subimage_wf w h t ix iy sw sh s :
  study_tiling w h = Some t ->
  compute_for_subimage t ix iy sw sh = Some s ->
  legal_subimage t ix iy sw sh /\ wf s /\
  t_width s = sw /\ t_height s = sh /\ t_p2n s = t_p2n t /\ t_levels s = t_levels t /\
  t_tile_size s = t_tile_size t /\ t_gx0 s = t_gx0 t + ix /\ t_gy0 s = t_gy0 t + iy.
Proof.
  intros E Es. destruct (subimage_spec w h t ix iy sw sh E) as [Hyes Hno].
  assert (Hl : legal_subimage t ix iy sw sh).
  { assert (D : legal_subimage t ix iy sw sh \/ ~ legal_subimage t ix iy sw sh) by (unfold legal_subimage; lia).
    destruct D as [D|D]; [exact D|]. rewrite (Hno D) in Es. discriminate. }
  rewrite (Hyes Hl) in Es. injection Es as <-.
  destruct (study_tiling_wf w h t E) as [(W1 & W2 & W3 & W4 & W5 & W6 & W7 & W8 & W9) _].
  unfold legal_subimage in Hl.
  split; [exact Hl|]. unfold wf; cbn [t_width t_height t_p2n t_levels t_tile_size t_gx0 t_gy0].
  repeat split; try lia; try assumption.
Qed.

(* ------------------------------------------------------------------ *)
(* ranges and list helpers *)

Lemma in_zrange n : forall lo z, In z (zrange lo n) <-> lo <= z < lo + Z.of_nat n.
Proof.
  induction n as [|n IH]; intros lo z; cbn [zrange In].
  - lia.
  - rewrite IH. lia.
Qed.

Lemma length_zrange n : forall lo, length (zrange lo n) = n.
Proof. induction n; intros; cbn [zrange length]; auto. Qed.

Lemma NoDup_zrange n : forall lo, NoDup (zrange lo n).
Proof.
  induction n as [|n IH]; intros lo; cbn [zrange]; constructor.
  - rewrite in_zrange. lia.
  - apply IH.
Qed.

Lemma in_py_range a b z : In z (py_range a b) <-> a <= z < b.
Proof. unfold py_range. rewrite in_zrange. lia. Qed.

Lemma NoDup_app_intro {A} (l1 l2 : list A) :
  NoDup l1 -> NoDup l2 -> (forall a, In a l1 -> In a l2 -> False) -> NoDup (l1 ++ l2).
Proof.
  induction l1 as [|a l1 IH]; intros H1 H2 Hd; cbn [app]; [assumption|].
  inversion H1; subst. constructor.
  - rewrite in_app_iff. intros [H|H]; [contradiction|]. apply (Hd a); [left; reflexivity|assumption].
  - apply IH; try assumption. intros b Hb1 Hb2. apply (Hd b); [right; assumption|assumption].
Qed.

Lemma NoDup_map_inj {A B} (f : A -> B) l :
  (forall a b, In a l -> In b l -> f a = f b -> a = b) -> NoDup l -> NoDup (map f l).
Proof.
  induction l as [|a l IH]; intros Hinj Hnd; cbn [map]; constructor; inversion Hnd; subst.
  - rewrite in_map_iff. intros (b & Hb & Hin).
    assert (b = a) by (apply Hinj; [right; assumption|left; reflexivity|assumption]). subst. contradiction.
  - apply IH; [|assumption]. intros; apply Hinj; try (right; assumption); assumption.
Qed.

Lemma NoDup_grid {A} (f : Z -> Z -> A) xs ys :
  NoDup xs -> NoDup ys ->
  (forall x y x' y', f x y = f x' y' -> x = x' /\ y = y') ->
  NoDup (flat_map (fun y => map (fun x => f x y) xs) ys).
Proof.
  intros Hx Hy Hinj. induction ys as [|y ys IH]; cbn [flat_map]; [constructor|].
  inversion Hy; subst. apply NoDup_app_intro.
  - apply NoDup_map_inj; [|assumption]. intros a b _ _ E. apply Hinj in E. tauto.
  - apply IH; assumption.
  - intros a Ha1 Ha2. rewrite in_map_iff in Ha1. destruct Ha1 as (x & <- & _).
    rewrite in_flat_map in Ha2. destruct Ha2 as (y' & Hy' & Ha2).
    rewrite in_map_iff in Ha2. destruct Ha2 as (x' & E & _).
    apply Hinj in E. destruct E as [_ ->]. contradiction.
Qed.

Lemma length_grid {A} (f : Z -> Z -> A) xs ys :
  length (flat_map (fun y => map (fun x => f x y) xs) ys) = (length ys * length xs)%nat.
Proof.
  induction ys as [|y ys IH]; cbn [flat_map length]; [reflexivity|].
  rewrite app_length, map_length, IH. lia.
Qed.

Lemma filter_none {A} (P : A -> bool) l :
  (forall c, In c l -> P c = false) -> filter P l = [].
Proof.
  induction l as [|c l IH]; intros H; [reflexivity|].
  cbn [filter]. rewrite (H c (or_introl eq_refl)). apply IH. intros; apply H; right; assumption.
Qed.

Lemma filter_unique_length {A} (P : A -> bool) l a :
  NoDup l -> In a l -> P a = true ->
  (forall b, In b l -> P b = true -> b = a) ->
  length (filter P l) = 1%nat.
Proof.
  induction l as [|b l IH]; intros Hnd Hin Pa Hu; [destruct Hin|].
  inversion Hnd; subst. cbn [filter].
  assert (Hnone : ~ In a l -> forall c, In c l -> P c = false).
  { intros Hna c Hc. destruct (P c) eqn:E; [|reflexivity].
    assert (c = a) by (apply Hu; [right; assumption|assumption]). subst. contradiction. }
  destruct Hin as [->|Hin].
  - rewrite Pa. cbn [length]. f_equal.
    rewrite (filter_none P l (Hnone H1)). reflexivity.
  - destruct (P b) eqn:Pb.
    + assert (b = a) by (apply Hu; [left; reflexivity|assumption]). subst. contradiction.
    + apply IH; try assumption. intros; apply Hu; [right; assumption|assumption].
Qed.

(* ------------------------------------------------------------------ *)
(* the tuples *)

Definition in_tile_range (t : tiling) (itx ity : Z) : Prop :=
  tile_start_tx t <= itx <= tile_end_tx t /\ tile_start_ty t <= ity <= tile_end_ty t.

Lemma in_generate t u :
  In u (generate_populated_positions t) <->
  exists itx ity, in_tile_range t itx ity /\ u = tuple_at t itx ity.
Proof.
  unfold generate_populated_positions, in_tile_range. rewrite in_flat_map. split.
  - intros (ity & Hy & H). rewrite in_map_iff in H. destruct H as (itx & <- & Hx).
    rewrite in_py_range in Hx, Hy. exists itx, ity. split; [lia|reflexivity].
  - intros (itx & ity & H & ->). exists ity. rewrite in_py_range. split; [lia|].
    rewrite in_map_iff. exists itx. rewrite in_py_range. split; [reflexivity|lia].
Qed.

Lemma tuple_at_inj t x y x' y' : tuple_at t x y = tuple_at t x' y' -> x = x' /\ y = y'.
Proof.
  intros E. split.
  - change x with (u_x (tuple_at t x y)). rewrite E. reflexivity.
  - change y with (u_y (tuple_at t x y)). rewrite E. reflexivity.
Qed.

Lemma generate_NoDup t : NoDup (generate_populated_positions t).
Proof.
  unfold generate_populated_positions.
  apply (NoDup_grid (tuple_at t)); try apply NoDup_zrange. apply tuple_at_inj.
Qed.

(* tuples are determined by their tile position: no tile is yielded twice *)
Lemma generate_pos_unique t u v :
  In u (generate_populated_positions t) -> In v (generate_populated_positions t) ->
  u_x u = u_x v -> u_y u = u_y v -> u = v.
Proof.
  rewrite !in_generate. intros (x & y & _ & ->) (x' & y' & _ & ->). cbn [tuple_at u_x u_y].
  intros -> ->. reflexivity.
Qed.

Lemma range_count_nonneg t :
  wf t -> 0 <= tile_end_tx t + 1 - tile_start_tx t /\ 0 <= tile_end_ty t + 1 - tile_start_ty t.
Proof.
  intros (_ & _ & _ & Hx & Hy & Hw & Hh & _).
  unfold tile_end_tx, tile_end_ty, tile_start_tx, tile_start_ty, img_gx1, img_gy1. lia.
Qed.

(* the number of tuples equals the reported count *)
Lemma generate_length t :
  wf t -> Z.of_nat (length (generate_populated_positions t)) = count_populated_positions t.
Proof.
  intros Hwf. destruct (range_count_nonneg t Hwf) as [Hx Hy].
  unfold generate_populated_positions, count_populated_positions.
  rewrite (length_grid (tuple_at t)). unfold py_range. rewrite !length_zrange.
  rewrite Nat2Z.inj_mul, !Z2Nat.id by lia. lia.
Qed.

(* rectangles lie inside the image and inside the tile; the tile exists *)
Lemma tuple_bounds t itx ity :
  wf t -> in_tile_range t itx ity ->
  let u := tuple_at t itx ity in
  u_n u = t_levels t /\ u_x u = itx /\ u_y u = ity /\
  0 <= itx < t_tile_size t /\ 0 <= ity < t_tile_size t /\
  0 <= u_w u <= 256 /\ 0 <= u_h u <= 256 /\
  0 <= u_ix u /\ u_ix u + u_w u <= t_width t /\
  0 <= u_iy u /\ u_iy u + u_h u <= t_height t /\
  0 <= u_tx u <= 255 /\ u_tx u + u_w u <= 256 /\
  0 <= u_ty u <= 255 /\ u_ty u + u_h u <= 256 /\
  (1 <= t_width t -> 1 <= u_w u) /\ (1 <= t_height t -> 1 <= u_h u).
Proof.
  intros (Hl & Hp & Hts & Hx & Hy & Hw & Hh & Hxw & Hyh) [Rx Ry]. cbv zeta.
  unfold tuple_at; cbn [u_n u_x u_y u_w u_h u_ix u_iy u_tx u_ty].
  unfold tile_end_tx, tile_end_ty, tile_start_tx, tile_start_ty, img_gx1, img_gy1 in *.
  rewrite Hts. set (P := 2 ^ t_levels t) in *.
  repeat split; try lia.
Qed.

(* a tuple's rectangle contains exactly the image pixels that fall in its tile *)
Lemma covers_tuple_at t itx ity x y :
  covers (tuple_at t itx ity) x y = true <->
  0 <= x < t_width t /\ 0 <= y < t_height t /\
  itx = (x + t_gx0 t) / 256 /\ ity = (y + t_gy0 t) / 256.
Proof.
  unfold covers, tuple_at, img_gx1, img_gy1; cbn [u_w u_h u_ix u_iy].
  rewrite !andb_true_iff, !Z.leb_le, !Z.ltb_lt. lia.
Qed.

(* the tile of an image pixel is one of the enumerated tiles *)
Lemma pixel_tile_in_range t x y :
  wf t -> 0 <= x < t_width t -> 0 <= y < t_height t ->
  in_tile_range t ((x + t_gx0 t) / 256) ((y + t_gy0 t) / 256).
Proof.
  intros (_ & _ & _ & Hx & Hy & _) Hxr Hyr.
  unfold in_tile_range, tile_end_tx, tile_end_ty, tile_start_tx, tile_start_ty, img_gx1, img_gy1. lia.
Qed.

(* cover: every image pixel lies in the rectangle of some tuple *)
Lemma tuples_cover t x y :
  wf t -> 0 <= x < t_width t -> 0 <= y < t_height t ->
  exists u, In u (generate_populated_positions t) /\ covers u x y = true.
Proof.
  intros Hwf Hx Hy. exists (tuple_at t ((x + t_gx0 t) / 256) ((y + t_gy0 t) / 256)). split.
  - apply in_generate. exists ((x + t_gx0 t) / 256), ((y + t_gy0 t) / 256).
    split; [apply pixel_tile_in_range; assumption|reflexivity].
  - apply covers_tuple_at. lia.
Qed.

(* disjoint: two tuples covering the same pixel are the same tuple *)
Lemma tuples_disjoint t u v x y :
  In u (generate_populated_positions t) -> In v (generate_populated_positions t) ->
  covers u x y = true -> covers v x y = true -> u = v.
Proof.
  rewrite !in_generate. intros (a & b & _ & ->) (a' & b' & _ & ->).
  rewrite !covers_tuple_at. intros (_ & _ & -> & ->) (_ & _ & -> & ->). reflexivity.
Qed.

(* exactly one tuple (counted with multiplicity in the generated sequence) covers a pixel *)
Lemma tuples_cover_exactly_once t x y :
  wf t -> 0 <= x < t_width t -> 0 <= y < t_height t ->
  length (filter (fun u => covers u x y) (generate_populated_positions t)) = 1%nat.
Proof.
  intros Hwf Hx Hy. destruct (tuples_cover t x y Hwf Hx Hy) as (u & Hin & Hc).
  apply (filter_unique_length _ _ u); try assumption; [apply generate_NoDup|].
  intros v Hv Hcv. apply (tuples_disjoint t v u x y); assumption.
Qed.

(* distinct entries of the generated sequence have disjoint rectangles *)
Lemma tuples_pairwise_disjoint t i j u v x y :
  nth_error (generate_populated_positions t) i = Some u ->
  nth_error (generate_populated_positions t) j = Some v ->
  covers u x y = true -> covers v x y = true -> i = j.
Proof.
  intros Hi Hj Hu Hv.
  assert (u = v) by (apply (tuples_disjoint t u v x y); eauto using nth_error_In). subst v.
  pose proof (generate_NoDup t) as Hnd. rewrite NoDup_nth_error in Hnd. apply Hnd.
  - apply nth_error_Some. rewrite Hi. discriminate.
  - rewrite Hi, Hj. reflexivity.
Qed.

(* no pixel outside the image is covered *)
Lemma covers_inside t u x y :
  In u (generate_populated_positions t) -> covers u x y = true ->
  0 <= x < t_width t /\ 0 <= y < t_height t.
Proof.
  rewrite in_generate. intros (a & b & _ & ->). rewrite covers_tuple_at. lia.
Qed.

Lemma tuple4_eq (a b c d a' b' c' d' : Z) :
  a = a' -> b = b' -> c = c' -> d = d' -> (a, b, c, d) = (a', b', c', d').
Proof. intros; subst; reflexivity. Qed.

(* the slot a tuple gives a pixel is the one image_to_tile computes, and it lies in the tile *)
Lemma tuple_slot_agrees t u x y :
  In u (generate_populated_positions t) -> covers u x y = true ->
  image_to_tile t x y = slot_of u x y /\
  0 <= u_tx u + (x - u_ix u) < 256 /\ 0 <= u_ty u + (y - u_iy u) < 256.
Proof.
  rewrite in_generate. intros (a & b & _ & ->). rewrite covers_tuple_at.
  intros (Hx & Hy & -> & ->).
  unfold image_to_tile, slot_of, tuple_at; cbn [u_x u_y u_ix u_iy u_tx u_ty].
  split; [apply tuple4_eq; lia|lia].
Qed.

(* distinct image pixels get distinct slots *)
Lemma image_to_tile_inj t x y x' y' :
  image_to_tile t x y = image_to_tile t x' y' -> x = x' /\ y = y'.
Proof.
  unfold image_to_tile. intros E. injection E as E1 E2 E3 E4. lia.
Qed.

(* image_to_tile is the global-pixel decomposition *)
Lemma image_to_tile_global t x y tx ty sx sy :
  image_to_tile t x y = (tx, ty, sx, sy) <->
  (x + t_gx0 t = 256 * tx + sx /\ 0 <= sx < 256 /\ y + t_gy0 t = 256 * ty + sy /\ 0 <= sy < 256).
Proof.
  unfold image_to_tile. split.
  - intros E. injection E as <- <- <- <-. lia.
  - intros (E1 & H1 & E2 & H2). apply tuple4_eq; lia.
Qed.

(* position of the i-th generated tuple (row-major over the tile range) *)
Lemma nth_error_zrange n : forall lo i, (i < n)%nat -> nth_error (zrange lo n) i = Some (lo + Z.of_nat i).
Proof.
  induction n as [|n IH]; intros lo i Hi; [lia|].
  destruct i as [|i]; cbn [zrange nth_error]; [f_equal; lia|].
  rewrite IH by lia. f_equal. lia.
Qed.

Lemma nth_error_grid {A} (f : Z -> Z -> A) xs : forall ys i x y,
  nth_error ys (i / length xs) = Some y -> nth_error xs (i mod length xs) = Some x ->
  nth_error (flat_map (fun y => map (fun x => f x y) xs) ys) i = Some (f x y).
Proof.
  intros ys. induction ys as [|y0 ys IH]; intros i x y Hy Hx.
  - destruct (i / length xs)%nat; discriminate.
  - cbn [flat_map].
    assert (Hlen : length xs <> 0%nat) by (intros E; rewrite E in Hx; destruct xs; [destruct (i mod 0)%nat|]; discriminate).
    destruct (Nat.lt_ge_cases i (length xs)) as [Hlt|Hge].
    + rewrite nth_error_app1 by (rewrite map_length; assumption).
      rewrite Nat.div_small in Hy by assumption. rewrite Nat.mod_small in Hx by assumption.
      cbn [nth_error] in Hy. injection Hy as <-.
      rewrite nth_error_map, Hx. reflexivity.
    + rewrite nth_error_app2 by (rewrite map_length; assumption). rewrite map_length.
      assert (Ediv : (i / length xs = S ((i - length xs) / length xs))%nat).
      { replace i with ((i - length xs) + 1 * length xs)%nat at 1 by lia.
        rewrite Nat.div_add by assumption. lia. }
      assert (Emod : (i mod length xs = (i - length xs) mod length xs)%nat).
      { replace i with ((i - length xs) + 1 * length xs)%nat at 1 by lia.
        rewrite Nat.mod_add by assumption. reflexivity. }
      rewrite Ediv in Hy. cbn [nth_error] in Hy. rewrite Emod in Hx.
      apply IH; assumption.
Qed.

Lemma generate_nth_spec t i :
  wf t -> 0 <= i < count_populated_positions t ->
  nth_error (generate_populated_positions t) (Z.to_nat i) = Some (generate_nth t i).
Proof.
  intros Hwf Hi. destruct (range_count_nonneg t Hwf) as [Hx Hy].
  unfold count_populated_positions in Hi. unfold generate_nth, generate_populated_positions.
  set (nc := tile_end_tx t + 1 - tile_start_tx t) in *.
  set (nr := tile_end_ty t + 1 - tile_start_ty t) in *.
  assert (Hnc : 0 < nc) by nia.
  assert (Hq : 0 <= i / nc < nr).
  { split; [apply Z.div_pos; lia|]. apply Z.div_lt_upper_bound; lia. }
  assert (Hr : 0 <= i mod nc < nc) by (apply Z.mod_pos_bound; lia).
  apply (nth_error_grid (tuple_at t)); unfold py_range; rewrite length_zrange.
  - fold nr. fold nc.
    assert (E : (Z.to_nat i / Z.to_nat nc)%nat = Z.to_nat (i / nc)).
    { rewrite Z2Nat.inj_div by lia. reflexivity. }
    rewrite E, nth_error_zrange by lia. rewrite Z2Nat.id by lia. reflexivity.
  - fold nc.
    assert (E : (Z.to_nat i mod Z.to_nat nc)%nat = Z.to_nat (i mod nc)).
    { rewrite Z2Nat.inj_mod by lia. reflexivity. }
    rewrite E, nth_error_zrange by lia. rewrite Z2Nat.id by lia. reflexivity.
Qed.

(* ------------------------------------------------------------------ *)
(* slices, fill, store: tile_image *)

Lemma adj_up_id len v : 0 <= v <= len -> adj_up len v = v.
Proof.
  intros H. unfold adj_up.
  destruct (v <? 0) eqn:E1; [apply Z.ltb_lt in E1; lia|].
  destruct (len <=? v) eqn:E2; [apply Z.leb_le in E2; lia|reflexivity].
Qed.

Lemma adj_down_id len v : 0 <= v < len -> adj_down len v = v.
Proof.
  intros H. unfold adj_down.
  destruct (v <? 0) eqn:E1; [apply Z.ltb_lt in E1; lia|].
  destruct (len <=? v) eqn:E2; [apply Z.leb_le in E2; lia|reflexivity].
Qed.

Lemma slice_run_up len a b :
  0 <= a <= b -> b <= len -> slice_run (mkSlice (Some a) (Some b) 1) len = mkRun a (b - a) 1.
Proof.
  intros H1 H2. unfold slice_run; cbn [s_step s_start s_stop]. change (0 <? 1) with true. cbv iota.
  rewrite !adj_up_id by lia. f_equal. lia.
Qed.

Lemma slice_run_down_some len a b :
  0 <= b <= a -> a < len -> slice_run (mkSlice (Some a) (Some b) (-1)) len = mkRun a (a - b) (-1).
Proof.
  intros H1 H2. unfold slice_run; cbn [s_step s_start s_stop]. change (0 <? -1) with false. cbv iota.
  rewrite !adj_down_id by lia. f_equal. lia.
Qed.

Lemma slice_run_down_none len a :
  0 <= a < len -> slice_run (mkSlice (Some a) None (-1)) len = mkRun a (a + 1) (-1).
Proof.
  intros H. unfold slice_run; cbn [s_step s_start s_stop]. change (0 <? -1) with false. cbv iota.
  rewrite !adj_down_id by lia. f_equal. lia.
Qed.

(* why study.py:349-350 replaces a stop of -1 by None: as a slice end, -1 means
   "the last element", and the selection is empty *)
Lemma slice_stop_minus_one_selects_nothing len a :
  0 <= a < len -> r_count (slice_run (mkSlice (Some a) (Some (-1)) (-1)) len) = 0.
Proof.
  intros H. unfold slice_run; cbn [s_step s_start s_stop r_count]. change (0 <? -1) with false. cbv iota.
  rewrite adj_down_id by lia. unfold adj_down. change (-1 <? 0) with true. cbv iota. cbn [r_count].
  destruct (-1 + len <? 0) eqn:E; [apply Z.ltb_lt in E|apply Z.ltb_ge in E]; lia.
Qed.

(* the placement a tuple with in-range rectangles produces *)
Definition placement_of (inv : bool) (u : tup) : placement :=
  mkPlacement (u_n u) (u_x u) (u_y u)
    (mkRun (u_iy u) (u_h u) 1) (mkRun (u_ix u) (u_w u) 1)
    (if inv then mkRun (255 - u_ty u) (u_h u) (-1) else mkRun (u_ty u) (u_h u) 1)
    (mkRun (u_tx u) (u_w u) 1).

Lemma place_tuple_bounds t inv u :
  0 <= u_w u -> 0 <= u_h u ->
  0 <= u_ix u -> u_ix u + u_w u <= t_width t ->
  0 <= u_iy u -> u_iy u + u_h u <= t_height t ->
  0 <= u_tx u <= 255 -> u_tx u + u_w u <= 256 ->
  0 <= u_ty u <= 255 -> u_ty u + u_h u <= 256 ->
  place_tuple t inv u = Some (placement_of inv u).
Proof.
  intros. unfold place_tuple, placement_of.
  rewrite !slice_run_up by lia.
  assert (Eby : slice_run (by_slice inv u) 256 =
                if inv then mkRun (255 - u_ty u) (u_h u) (-1) else mkRun (u_ty u) (u_h u) 1).
  { unfold by_slice. destruct inv.
    - destruct (255 - u_ty u - u_h u =? -1) eqn:E.
      + apply Z.eqb_eq in E. rewrite slice_run_down_none by lia. f_equal. lia.
      + apply Z.eqb_neq in E. rewrite slice_run_down_some by lia. f_equal. lia.
    - rewrite slice_run_up by lia. f_equal. lia. }
  rewrite Eby.
  replace (u_iy u + u_h u - u_iy u) with (u_h u) by lia.
  replace (u_ix u + u_w u - u_ix u) with (u_w u) by lia.
  replace (u_tx u + u_w u - u_tx u) with (u_w u) by lia.
  assert (Ec : r_count (if inv then mkRun (255 - u_ty u) (u_h u) (-1) else mkRun (u_ty u) (u_h u) 1) = u_h u)
    by (destruct inv; reflexivity).
  cbn [r_count]. rewrite Ec, !Z.eqb_refl. reflexivity.
Qed.

Lemma place_tuple_generated t inv u :
  wf t -> In u (generate_populated_positions t) -> place_tuple t inv u = Some (placement_of inv u).
Proof.
  intros Hwf Hin. apply in_generate in Hin. destruct Hin as (a & b & Hr & ->).
  pose proof (tuple_bounds t a b Hwf Hr) as Hb. cbv zeta in Hb.
  apply place_tuple_bounds; lia.
Qed.

Lemma map_opt_map {A B} (f : A -> option B) (g : A -> B) l :
  (forall a, In a l -> f a = Some (g a)) -> map_opt f l = Some (map g l).
Proof.
  induction l as [|a l IH]; intros H; cbn [map_opt map]; [reflexivity|].
  rewrite (H a (or_introl eq_refl)), IH by (intros; apply H; right; assumption). reflexivity.
Qed.

(* tile_image never hits the shape-mismatch error; it performs one fill per tuple *)
Lemma tile_image_placements_ok t inv :
  wf t -> tile_image_placements t inv = Some (map (placement_of inv) (generate_populated_positions t)).
Proof.
  intros Hwf. unfold tile_image_placements. apply map_opt_map.
  intros u Hu. apply place_tuple_generated; assumption.
Qed.

Lemma run_find_up a n i :
  run_find (mkRun a n 1) i = if (a <=? i) && (i <? a + n) then Some (i - a) else None.
Proof.
  unfold run_find; cbn [r_first r_step r_count].
  destruct ((0 <=? (i - a) * 1) && ((i - a) * 1 <? n)) eqn:E1;
  destruct ((a <=? i) && (i <? a + n)) eqn:E2;
  rewrite ?andb_true_iff, ?andb_false_iff, ?Z.leb_le, ?Z.ltb_lt, ?Z.leb_gt, ?Z.ltb_ge in *;
  try reflexivity; try (f_equal; lia); exfalso; lia.
Qed.

Lemma run_find_down a n i :
  run_find (mkRun a n (-1)) i = if (i <=? a) && (a - n <? i) then Some (a - i) else None.
Proof.
  unfold run_find; cbn [r_first r_step r_count].
  destruct ((0 <=? (i - a) * -1) && ((i - a) * -1 <? n)) eqn:E1;
  destruct ((i <=? a) && (a - n <? i)) eqn:E2;
  rewrite ?andb_true_iff, ?andb_false_iff, ?Z.leb_le, ?Z.ltb_lt, ?Z.leb_gt, ?Z.ltb_ge in *;
  try reflexivity; try (f_equal; lia); exfalso; lia.
Qed.

(* run_find inverts run_nth on the run *)
Lemma run_find_spec r i k :
  (r_step r = 1 \/ r_step r = -1) ->
  (run_find r i = Some k <-> 0 <= k < r_count r /\ run_nth r k = i).
Proof.
  intros Hs. unfold run_find, run_nth.
  destruct ((0 <=? (i - r_first r) * r_step r) && ((i - r_first r) * r_step r <? r_count r)) eqn:E;
  rewrite ?andb_true_iff, ?andb_false_iff, ?Z.leb_le, ?Z.ltb_lt, ?Z.leb_gt, ?Z.ltb_ge in E.
  - split.
    + intros H. assert (Ek : k = (i - r_first r) * r_step r) by congruence.
      destruct Hs as [Hs | Hs]; rewrite Hs in *; lia.
    + intros [H1 H2]. f_equal. destruct Hs as [Hs | Hs]; rewrite Hs in *; lia.
  - split; [discriminate|]. intros [H1 H2]. exfalso. destruct Hs as [Hs | Hs]; rewrite Hs in *; lia.
Qed.

Definition in_tuple_tile_rect (u : tup) (r c : Z) : bool :=
  (u_ty u <=? r) && (r <? u_ty u + u_h u) && (u_tx u <=? c) && (c <? u_tx u + u_w u).

(* per-tile meaning, display orientation, both parities: display pixel (r, c) of
   the tile holds image pixel (iy + r - ty, ix + c - tx) inside the tuple's
   rectangle and nothing elsewhere *)
Lemma placement_src_display inv u r c :
  placement_src (placement_of inv u) (display_row inv r) c =
  if in_tuple_tile_rect u r c
  then Some (u_iy u + (r - u_ty u), u_ix u + (c - u_tx u)) else None.
Proof.
  unfold placement_src, placement_of, in_tuple_tile_rect, display_row; cbn [p_by p_bx p_iy p_ix].
  rewrite run_find_up.
  assert (Erow : run_find (if inv then mkRun (255 - u_ty u) (u_h u) (-1) else mkRun (u_ty u) (u_h u) 1)
                          (if inv then 255 - r else r) =
                 if (u_ty u <=? r) && (r <? u_ty u + u_h u) then Some (r - u_ty u) else None).
  { destruct inv.
    - rewrite run_find_down.
      destruct ((255 - r <=? 255 - u_ty u) && (255 - u_ty u - u_h u <? 255 - r)) eqn:E1;
      destruct ((u_ty u <=? r) && (r <? u_ty u + u_h u)) eqn:E2;
      rewrite ?andb_true_iff, ?andb_false_iff, ?Z.leb_le, ?Z.ltb_lt, ?Z.leb_gt, ?Z.ltb_ge in *;
      try reflexivity; try (f_equal; lia); exfalso; lia.
    - apply run_find_up. }
  rewrite Erow.
  destruct ((u_ty u <=? r) && (r <? u_ty u + u_h u)) eqn:E1; cbn [andb]; [|reflexivity].
  destruct ((u_tx u <=? c) && (c <? u_tx u + u_w u)) eqn:E2.
  - unfold run_nth; cbn [r_first r_step]. f_equal. f_equal; lia.
  - reflexivity.
Qed.

(* in storage orientation a bottom-up tile holds the rows reversed *)
Lemma placement_src_storage_flip u r c :
  placement_src (placement_of true u) r c = placement_src (placement_of false u) (255 - r) c.
Proof.
  pose proof (placement_src_display true u (255 - r) c) as H1.
  pose proof (placement_src_display false u (255 - r) c) as H2.
  unfold display_row in *. replace (255 - (255 - r)) with r in H1 by lia.
  rewrite H1, H2. reflexivity.
Qed.

Section PixelProofs.
  Context {V : Type}.
  Implicit Types (img b : @pixels V) (s : @store V).

  Lemma completely_masked_spec b :
    completely_masked b = true ->
    forall r c, 0 <= r < 256 -> 0 <= c < 256 -> b r c = None.
  Proof.
    unfold completely_masked. intros H r c Hr Hc.
    rewrite forallb_forall in H. specialize (H r ltac:(apply in_zrange; lia)).
    rewrite forallb_forall in H. specialize (H c ltac:(apply in_zrange; lia)).
    destruct (b r c); [discriminate|reflexivity].
  Qed.

  Lemma same_pos_true n x y n' x' y' : same_pos n x y n' x' y' = true <-> n = n' /\ x = x' /\ y = y'.
  Proof. unfold same_pos. rewrite !andb_true_iff, !Z.eqb_eq. tauto. Qed.

  Lemma run_tile_image_other m img pls : forall s n x y,
    (forall p, In p pls -> same_pos (p_n p) (p_x p) (p_y p) n x y = false) ->
    run_tile_image m img pls s n x y = s n x y.
  Proof.
    unfold run_tile_image. induction pls as [|p pls IH]; intros s n x y H; cbn [fold_left]; [reflexivity|].
    rewrite IH by (intros; apply H; right; assumption).
    unfold write_image. rewrite (H p (or_introl eq_refl)). reflexivity.
  Qed.

  Definition written m img (p : placement) : option (@pixels V) :=
    if m && completely_masked (fill_buffer img p) then None else Some (fill_buffer img p).

  Lemma run_tile_image_at m img pls : forall s p,
    In p pls ->
    (forall q, In q pls -> same_pos (p_n q) (p_x q) (p_y q) (p_n p) (p_x p) (p_y p) = true -> q = p) ->
    run_tile_image m img pls s (p_n p) (p_x p) (p_y p) = written m img p.
  Proof.
    induction pls as [|a pls IH]; intros s p Hin Hu; [destruct Hin|].
    change (run_tile_image m img (a :: pls) s)
      with (run_tile_image m img pls (write_image m s (p_n a) (p_x a) (p_y a) (fill_buffer img a))).
    destruct (existsb (fun q => same_pos (p_n q) (p_x q) (p_y q) (p_n p) (p_x p) (p_y p)) pls) eqn:Ex.
    - apply existsb_exists in Ex. destruct Ex as (q & Hq & Hsame).
      assert (q = p) by (apply Hu; [right; assumption|assumption]). subst q.
      apply IH; [assumption|]. intros; apply Hu; [right; assumption|assumption].
    - assert (Hnone : forall q, In q pls -> same_pos (p_n q) (p_x q) (p_y q) (p_n p) (p_x p) (p_y p) = false).
      { intros q Hq. destruct (same_pos (p_n q) (p_x q) (p_y q) (p_n p) (p_x p) (p_y p)) eqn:E; [|reflexivity].
        assert (existsb (fun q => same_pos (p_n q) (p_x q) (p_y q) (p_n p) (p_x p) (p_y p)) pls = true)
          by (apply existsb_exists; eauto). congruence. }
      rewrite run_tile_image_other by assumption.
      destruct Hin as [->|Hin].
      + unfold write_image, written.
        assert (E : same_pos (p_n p) (p_x p) (p_y p) (p_n p) (p_x p) (p_y p) = true) by (apply same_pos_true; auto).
        rewrite E. reflexivity.
      + assert (existsb (fun q => same_pos (p_n q) (p_x q) (p_y q) (p_n p) (p_x p) (p_y p)) pls = true).
        { apply existsb_exists. exists p. split; [assumption|apply same_pos_true; auto]. }
        congruence.
  Qed.

  (* a fully masked buffer is not written (or its file is removed); reading the
     missing file back with default="masked" returns the same pixels *)
  Lemma read_written m img p s r c :
    0 <= r < 256 -> 0 <= c < 256 -> s (p_n p) (p_x p) (p_y p) = written m img p ->
    read_image_masked s (p_n p) (p_x p) (p_y p) r c = fill_buffer img p r c.
  Proof.
    intros Hr Hc E. unfold read_image_masked. rewrite E. unfold written.
    destruct (m && completely_masked (fill_buffer img p)) eqn:Em; [|reflexivity].
    apply andb_true_iff in Em. destruct Em as [_ Em].
    symmetry. apply completely_masked_spec; assumption.
  Qed.

  (* reassembly: the written deepest-level tiles, placed side by side in display
     orientation, are the image at (gx0, gy0) and undefined everywhere else,
     for top-down (inv = false) and bottom-up (inv = true) tile formats *)
  Lemma reassembly_wf m t inv img :
    wf t ->
    exists s, tile_image m t inv img = Some s /\
              forall R C, mosaic_display t inv s R C = expected_mosaic t img R C.
  Proof.
    intros Hwf. unfold tile_image. rewrite (tile_image_placements_ok t inv Hwf).
    eexists; split; [reflexivity|]. intros R C.
    set (pls := map (placement_of inv) (generate_populated_positions t)).
    unfold mosaic_display, expected_mosaic.
    set (tx := C / 256). set (ty := R / 256). set (r := R mod 256). set (c := C mod 256).
    assert (Hr : 0 <= r < 256) by (subst r; lia). assert (Hc : 0 <= c < 256) by (subst c; lia).
    assert (Hdr : 0 <= display_row inv r < 256) by (unfold display_row; destruct inv; lia).
    assert (D : in_tile_range t tx ty \/ ~ in_tile_range t tx ty) by (unfold in_tile_range; lia).
    destruct D as [Hin|Hout].
    - set (u := tuple_at t tx ty). set (p := placement_of inv u).
      assert (Hu : In u (generate_populated_positions t)) by (apply in_generate; eauto).
      assert (Hp : In p pls) by (apply in_map; assumption).
      assert (Epos : p_n p = t_levels t /\ p_x p = tx /\ p_y p = ty) by (cbn; auto).
      destruct Epos as (En & Ex & Ey).
      assert (Hst : run_tile_image m img pls empty_store (p_n p) (p_x p) (p_y p) = written m img p).
      { apply run_tile_image_at; [assumption|]. intros q Hq Hsame.
        apply in_map_iff in Hq. destruct Hq as (v & <- & Hv).
        apply same_pos_true in Hsame. destruct Hsame as (_ & Hx & Hy).
        cbn [placement_of p_x p_y] in Hx, Hy. rewrite Ex in Hx. rewrite Ey in Hy.
        subst p. f_equal. apply (generate_pos_unique t); try assumption; subst u; cbn [tuple_at u_x u_y]; assumption. }
      rewrite <- En, <- Ex, <- Ey.
      rewrite (read_written m img p _ _ _ Hdr Hc Hst).
      unfold fill_buffer. subst p. rewrite placement_src_display.
      pose proof (tuple_bounds t tx ty Hwf Hin) as Hb. cbv zeta in Hb. fold u in Hb.
      assert (Ecover : in_tuple_tile_rect u r c = in_image t R C).
      { unfold in_tuple_tile_rect, in_image. subst u.
        unfold tuple_at, img_gx1, img_gy1; cbn [u_w u_h u_tx u_ty].
        subst tx ty r c.
        destruct Hwf as (_ & _ & _ & Hx0 & Hy0 & Hw0 & Hh0 & _).
        apply eq_true_iff_eq. rewrite !andb_true_iff, !Z.leb_le, !Z.ltb_lt. lia. }
      rewrite Ecover. destruct (in_image t R C) eqn:Ei; [|reflexivity].
      unfold in_image in Ei. rewrite !andb_true_iff, !Z.leb_le, !Z.ltb_lt in Ei.
      assert (E1 : u_iy u + (r - u_ty u) = R - t_gy0 t).
      { subst u r ty. unfold tuple_at; cbn [u_iy u_ty]. lia. }
      assert (E2 : u_ix u + (c - u_tx u) = C - t_gx0 t).
      { subst u c tx. unfold tuple_at; cbn [u_ix u_tx]. lia. }
      rewrite E1, E2. reflexivity.
    - assert (Hnone : run_tile_image m img pls empty_store (t_levels t) tx ty = None).
      { rewrite run_tile_image_other; [reflexivity|]. intros p Hp.
        apply in_map_iff in Hp. destruct Hp as (v & <- & Hv).
        apply in_generate in Hv. destruct Hv as (a & b & Hab & ->).
        cbn [placement_of tuple_at p_n p_x p_y u_n u_x u_y].
        destruct (same_pos (t_levels t) a b (t_levels t) tx ty) eqn:E; [|reflexivity].
        apply same_pos_true in E. destruct E as (_ & -> & ->). contradiction. }
      unfold read_image_masked. rewrite Hnone.
      assert (Ei : in_image t R C = false).
      { destruct (in_image t R C) eqn:Ei; [|reflexivity]. exfalso. apply Hout.
        unfold in_image in Ei. rewrite !andb_true_iff, !Z.leb_le, !Z.ltb_lt in Ei.
        unfold in_tile_range, tile_start_tx, tile_start_ty, tile_end_tx, tile_end_ty, img_gx1, img_gy1.
        subst tx ty. lia. }
      rewrite Ei. reflexivity.
  Qed.

  (* which tile files exist afterwards: exactly the generated positions whose
     rectangle holds at least one defined pixel (for maskable modes); every
     generated position for the modes without a mask representation *)
  Lemma tile_files m t inv img s n x y :
    wf t -> tile_image m t inv img = Some s ->
    (s n x y <> None <->
     exists u, In u (generate_populated_positions t) /\ n = u_n u /\ x = u_x u /\ y = u_y u /\
               (m && completely_masked (fill_buffer img (placement_of inv u))) = false).
  Proof.
    intros Hwf. unfold tile_image. rewrite (tile_image_placements_ok t inv Hwf).
    intros E. injection E as <-.
    set (pls := map (placement_of inv) (generate_populated_positions t)).
    destruct (existsb (fun q => same_pos (p_n q) (p_x q) (p_y q) n x y) pls) eqn:Ex.
    - apply existsb_exists in Ex. destruct Ex as (p & Hp & Hsame).
      apply same_pos_true in Hsame. destruct Hsame as (<- & <- & <-).
      assert (Hst : run_tile_image m img pls empty_store (p_n p) (p_x p) (p_y p) = written m img p).
      { apply run_tile_image_at; [assumption|]. intros q Hq Hsame.
        apply in_map_iff in Hq. destruct Hq as (v & <- & Hv).
        apply in_map_iff in Hp. destruct Hp as (u & <- & Hu).
        apply same_pos_true in Hsame. destruct Hsame as (_ & Hx & Hy).
        cbn [placement_of p_x p_y] in Hx, Hy.
        f_equal. apply (generate_pos_unique t); assumption. }
      rewrite Hst. apply in_map_iff in Hp. destruct Hp as (u & <- & Hu). unfold written.
      split.
      + intros H. exists u. repeat split; try assumption; try reflexivity.
        destruct (m && completely_masked (fill_buffer img (placement_of inv u))); [congruence|reflexivity].
      + intros (v & Hv & _ & Hx & Hy & Hm).
        cbn [placement_of p_x p_y] in Hx, Hy.
        assert (u = v) by (apply (generate_pos_unique t); assumption). subst v.
        rewrite Hm. discriminate.
    - assert (Hnone : forall q, In q pls -> same_pos (p_n q) (p_x q) (p_y q) n x y = false).
      { intros q Hq. destruct (same_pos (p_n q) (p_x q) (p_y q) n x y) eqn:E; [|reflexivity].
        assert (existsb (fun q => same_pos (p_n q) (p_x q) (p_y q) n x y) pls = true)
          by (apply existsb_exists; eauto). congruence. }
      rewrite run_tile_image_other by assumption. unfold empty_store. split; [congruence|].
      intros (u & Hu & -> & -> & -> & _). exfalso.
      specialize (Hnone (placement_of inv u) ltac:(apply in_map; assumption)).
      cbn [placement_of p_n p_x p_y] in Hnone.
      assert (same_pos (u_n u) (u_x u) (u_y u) (u_n u) (u_x u) (u_y u) = true) by (apply same_pos_true; auto).
      congruence.
  Qed.
End PixelProofs.

(* ------------------------------------------------------------------ *)
(* sub-images *)

(* a sub-image pixel gets the slot of the parent pixel it is a copy of *)
Lemma subimage_slots w h t ix iy sw sh s x y :
  study_tiling w h = Some t -> compute_for_subimage t ix iy sw sh = Some s ->
  image_to_tile s x y = image_to_tile t (ix + x) (iy + y).
Proof.
  intros E Es. destruct (subimage_wf w h t ix iy sw sh s E Es) as (_ & _ & _ & _ & _ & _ & _ & Hx & Hy).
  unfold image_to_tile. rewrite Hx, Hy. apply tuple4_eq; f_equal; lia.
Qed.

(* tiling the sub-image reproduces it at the place it has in the parent's mosaic *)
Lemma subimage_mosaic {V} w h t ix iy sw sh s (img : @pixels V) R C :
  study_tiling w h = Some t -> compute_for_subimage t ix iy sw sh = Some s ->
  let sub := fun y x => img (iy + y) (ix + x) in
  expected_mosaic s sub R C = if in_image s R C then expected_mosaic t img R C else None.
Proof.
  intros E Es. destruct (subimage_wf w h t ix iy sw sh s E Es) as (Hl & _ & Hw & Hh & _ & _ & _ & Hx & Hy).
  cbv zeta. unfold expected_mosaic. destruct (in_image s R C) eqn:Ei; [|reflexivity].
  unfold in_image in Ei. rewrite !andb_true_iff, !Z.leb_le, !Z.ltb_lt in Ei. unfold legal_subimage in Hl.
  assert (Et : in_image t R C = true).
  { unfold in_image. rewrite !andb_true_iff, !Z.leb_le, !Z.ltb_lt. lia. }
  rewrite Et, Hx, Hy. f_equal; lia.
Qed.

(* ------------------------------------------------------------------ *)
(* Property-level statements (C08), over every tiling the code can construct:
   StudyTiling(w, h) or StudyTiling(w, h).compute_for_subimage(ix, iy, sw, sh) *)

Inductive constructed : tiling -> Prop :=
| c_study w h t : study_tiling w h = Some t -> constructed t
| c_sub w h p ix iy sw sh t :
    study_tiling w h = Some p -> compute_for_subimage p ix iy sw sh = Some t -> constructed t.

Lemma constructed_wf t : constructed t -> wf t.
Proof.
  intros [w h t' E | w h p ix iy sw sh t' E Es].
  - apply (study_tiling_wf w h t' E).
  - apply (subimage_wf w h p ix iy sw sh t' E Es).
Qed.

(* the constructor succeeds exactly on positive sizes *)
Lemma study_tiling_total w h : (1 <= w /\ 1 <= h) <-> exists t, study_tiling w h = Some t.
Proof.
  split.
  - intros [Hw Hh]. destruct (study_tiling_spec w h Hw Hh) as (k & _ & E & _). eauto.
  - intros (t & E).
    destruct (Z_le_gt_dec w 0); [rewrite study_tiling_guard in E by lia; discriminate|].
    destruct (Z_le_gt_dec h 0); [rewrite study_tiling_guard in E by lia; discriminate|]. lia.
Qed.

(* compute_for_subimage succeeds exactly on the rectangles inside the image *)
Lemma subimage_total w h t ix iy sw sh :
  study_tiling w h = Some t ->
  (legal_subimage t ix iy sw sh <-> exists s, compute_for_subimage t ix iy sw sh = Some s).
Proof.
  intros E. destruct (subimage_spec w h t ix iy sw sh E) as [Hyes Hno]. split.
  - intros Hl. rewrite (Hyes Hl). eauto.
  - intros (s & Es). apply (subimage_wf w h t ix iy sw sh s E Es).
Qed.

Lemma c08_count t :
  constructed t -> Z.of_nat (length (generate_populated_positions t)) = count_populated_positions t.
Proof. intros H. apply generate_length, constructed_wf, H. Qed.

Lemma c08_tuple_bounds t u :
  constructed t -> In u (generate_populated_positions t) ->
  u_n u = t_levels t /\ 0 <= u_x u < t_tile_size t /\ 0 <= u_y u < t_tile_size t /\
  0 <= u_ix u /\ u_ix u + u_w u <= t_width t /\ 0 <= u_iy u /\ u_iy u + u_h u <= t_height t /\
  0 <= u_tx u /\ u_tx u + u_w u <= 256 /\ 0 <= u_ty u /\ u_ty u + u_h u <= 256 /\
  0 <= u_w u /\ 0 <= u_h u /\ (1 <= t_width t -> 1 <= u_w u) /\ (1 <= t_height t -> 1 <= u_h u).
Proof.
  intros Hc Hin. apply in_generate in Hin. destruct Hin as (a & b & Hr & ->).
  pose proof (tuple_bounds t a b (constructed_wf t Hc) Hr) as Hb. cbv zeta in Hb.
  destruct Hb as (H1 & H2 & H3 & H4 & H5 & H6 & H7 & H8 & H9 & H10 & H11 & H12 & H13 & H14 & H15 & H16 & H17).
  rewrite H2, H3. repeat split; try lia; assumption.
Qed.

Lemma c08_exactly_once t x y :
  constructed t -> 0 <= x < t_width t -> 0 <= y < t_height t ->
  length (filter (fun u => covers u x y) (generate_populated_positions t)) = 1%nat.
Proof. intros H. apply tuples_cover_exactly_once, constructed_wf, H. Qed.

Lemma c08_covered_pixels t u x y :
  constructed t -> In u (generate_populated_positions t) -> covers u x y = true ->
  0 <= x < t_width t /\ 0 <= y < t_height t /\
  image_to_tile t x y = slot_of u x y /\
  0 <= u_tx u + (x - u_ix u) < 256 /\ 0 <= u_ty u + (y - u_iy u) < 256.
Proof.
  intros _ Hin Hc. destruct (covers_inside t u x y Hin Hc) as [Hx Hy].
  destruct (tuple_slot_agrees t u x y Hin Hc) as (E & H1 & H2). tauto.
Qed.

Lemma c08_reassembly {V} t (m inv : bool) (img : @pixels V) :
  constructed t ->
  exists s, tile_image m t inv img = Some s /\
            forall R C, mosaic_display t inv s R C = expected_mosaic t img R C.
Proof. intros H. apply reassembly_wf, constructed_wf, H. Qed.

Lemma c08_tile_files {V} t (m inv : bool) (img : @pixels V) s n x y :
  constructed t -> tile_image m t inv img = Some s ->
  (s n x y <> None <->
   exists u, In u (generate_populated_positions t) /\ n = u_n u /\ x = u_x u /\ y = u_y u /\
             (m && completely_masked (fill_buffer img (placement_of inv u))) = false).
Proof. intros H. apply tile_files, constructed_wf, H. Qed.

(* sub-image: same geometry as the parent, and its tiles reproduce the
   sub-image where the parent's mosaic has those pixels *)
Lemma c08_subimage {V} w h t ix iy sw sh s (m inv : bool) (img : @pixels V) :
  study_tiling w h = Some t -> compute_for_subimage t ix iy sw sh = Some s ->
  t_p2n s = t_p2n t /\ t_levels s = t_levels t /\ t_tile_size s = t_tile_size t /\
  (forall x y, image_to_tile s x y = image_to_tile t (ix + x) (iy + y)) /\
  exists st, tile_image m s inv (fun y x => img (iy + y) (ix + x)) = Some st /\
    forall R C, mosaic_display s inv st R C =
                if in_image s R C then expected_mosaic t img R C else None.
Proof.
  intros E Es. destruct (subimage_wf w h t ix iy sw sh s E Es) as (_ & Hwf & _ & _ & Hp & Hl & Hts & _).
  repeat split; try assumption.
  - intros x y. apply (subimage_slots w h t ix iy sw sh s x y E Es).
  - destruct (reassembly_wf m s inv (fun y x => img (iy + y) (ix + x)) Hwf) as (st & Est & Hm).
    exists st. split; [assumption|]. intros R C. rewrite Hm.
    apply (subimage_mosaic w h t ix iy sw sh s img R C E Es).
Qed.
