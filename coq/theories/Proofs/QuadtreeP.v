(* Proofs about Model/Quadtree.v *)
From Coq Require Import List NArith ZArith Arith Bool Lia.
Ltac Zify.zify_post_hook ::= Z.to_euclidean_division_equations.
From Toasty Require Import Model.Quadtree.
Import ListNotations.
Local Open Scope N_scope.

Lemma pos_eqb_eq a b : pos_eqb a b = true <-> a = b.
Proof.
  destruct a as [n x y], b as [n' x' y']; unfold pos_eqb; cbn [pn px py].
  rewrite !andb_true_iff, Nat.eqb_eq, !N.eqb_eq. split.
  - intros [[-> ->] ->]; reflexivity.
  - intros H; injection H as -> -> ->; auto.
Qed.

Lemma pos_eqb_refl a : pos_eqb a a = true.
Proof. apply pos_eqb_eq; reflexivity. Qed.

Lemma pos_eq_dec (a b : pos) : {a = b} + {a <> b}.
Proof. decide equality; try apply N.eq_dec; apply Nat.eq_dec. Defined.

Lemma div2_lemma x b : b < 2 -> (2 * x + b) / 2 = x /\ (2 * x + b) mod 2 = b.
Proof. intros Hb. lia. Qed.

(* every child's parent is the position itself, with the child's index *)
Lemma parent_of_child p c :
  In c (children p) ->
  exists ix iy, parent c = Some (p, ix, iy) /\ ix < 2 /\ iy < 2 /\
                c = mkPos (S (pn p)) (2 * px p + ix) (2 * py p + iy).
Proof.
  destruct p as [n x y]. unfold children; cbn [pn px py In].
  assert (H0 : forall z, (2 * z) / 2 = z /\ (2 * z) mod 2 = 0) by (intros; lia).
  intros [<-|[<-|[<-|[<-|[]]]]]; unfold parent; cbn [pn px py].
  - exists 0, 0. rewrite !N.add_0_r.
    destruct (H0 x) as [-> ->], (H0 y) as [-> ->]. repeat split; lia.
  - exists 1, 0. rewrite !N.add_0_r.
    destruct (div2_lemma x 1 ltac:(lia)) as [-> ->], (H0 y) as [-> ->]. repeat split; lia.
  - exists 0, 1. rewrite !N.add_0_r.
    destruct (div2_lemma y 1 ltac:(lia)) as [-> ->], (H0 x) as [-> ->]. repeat split; lia.
  - exists 1, 1.
    destruct (div2_lemma y 1 ltac:(lia)) as [-> ->], (div2_lemma x 1 ltac:(lia)) as [-> ->]. repeat split; lia.
Qed.

(* conversely a position of depth >= 1 is one of its parent's children *)
Lemma child_of_parent c q ix iy :
  parent c = Some (q, ix, iy) -> In c (children q).
Proof.
  destruct c as [n x y]. unfold parent; cbn [pn px py]. destruct n as [|n]; [discriminate|].
  intros H; injection H as <- <- <-. unfold children; cbn [pn px py In].
  pose proof (N.div_mod x 2 ltac:(lia)) as Hx. pose proof (N.div_mod y 2 ltac:(lia)) as Hy.
  pose proof (N.mod_lt x 2 ltac:(lia)) as Hx2. pose proof (N.mod_lt y 2 ltac:(lia)) as Hy2.
  assert (x mod 2 = 0 \/ x mod 2 = 1) as [Ex|Ex] by lia;
  assert (y mod 2 = 0 \/ y mod 2 = 1) as [Ey|Ey] by lia;
  rewrite Ex in Hx; rewrite Ey in Hy.
  - left. f_equal; lia.
  - right; right; left. f_equal; lia.
  - right; left. f_equal; lia.
  - right; right; right; left. f_equal; lia.
Qed.

Lemma parent_pos_child p c : In c (children p) -> parent_pos c = p.
Proof.
  intros H. destruct (parent_of_child _ _ H) as (ix & iy & Hp & _).
  unfold parent_pos. rewrite Hp. reflexivity.
Qed.

Lemma children_level p c : In c (children p) -> pn c = S (pn p).
Proof.
  unfold children; cbn [In]. intros [<-|[<-|[<-|[<-|[]]]]]; reflexivity.
Qed.

Lemma parent_children_iff p c :
  In c (children p) <-> (exists ix iy, parent c = Some (p, ix, iy)).
Proof.
  split.
  - intros H. destruct (parent_of_child _ _ H) as (ix & iy & Hp & _). eauto.
  - intros (ix & iy & H). eapply child_of_parent; eauto.
Qed.
