(* Proofs about Model/SampleLayer.v (property C06). *)
From Coq Require Import List ZArith NArith Bool Lia Permutation.
Ltac Zify.zify_post_hook ::= Z.to_euclidean_division_equations.
From Toasty Require Import Model.Quadtree Model.SampleLayer Proofs.QuadtreeP.
Import ListNotations.
Local Open Scope Z_scope.

(* ------------------------------------------------------------ enumerations *)

Lemma zseq_In k : forall n s, In k (zseq s n) <-> s <= k < s + Z.of_nat n.
Proof.
  induction n as [|n IH]; intros s; cbn [zseq In].
  - lia.
  - rewrite IH. lia.
Qed.

Lemma zseq_NoDup : forall n s, NoDup (zseq s n).
Proof.
  induction n as [|n IH]; intros s; cbn [zseq]; constructor.
  - rewrite zseq_In. lia.
  - apply IH.
Qed.

Lemma zseq_length : forall n s, length (zseq s n) = n.
Proof. induction n as [|n IH]; intros s; cbn [zseq length]; [reflexivity | rewrite IH; reflexivity]. Qed.

Lemma NoDup_app_disjoint {A} (l1 l2 : list A) :
  NoDup l1 -> NoDup l2 -> (forall x, In x l1 -> In x l2 -> False) -> NoDup (l1 ++ l2).
Proof.
  induction l1 as [|a l1 IH]; intros N1 N2 D; [exact N2|].
  inversion N1; subst. cbn [app]. constructor.
  - rewrite in_app_iff. intros [H|H]; [contradiction|]. apply (D a); [left; reflexivity|exact H].
  - apply IH; auto. intros x H1' H2'. apply (D x); [right; exact H1'|exact H2'].
Qed.

Lemma NoDup_flat_map {A B} (f : A -> list B) (l : list A) :
  NoDup l -> (forall a, NoDup (f a)) ->
  (forall a1 a2 b, In a1 l -> In a2 l -> In b (f a1) -> In b (f a2) -> a1 = a2) ->
  NoDup (flat_map f l).
Proof.
  induction l as [|a l IH]; intros N Nf D; [constructor|].
  inversion N; subst. cbn [flat_map]. apply NoDup_app_disjoint.
  - apply Nf.
  - apply IH; auto. intros a1 a2 b H1' H2'. apply D; right; assumption.
  - intros b Hb Hb'. apply in_flat_map in Hb'. destruct Hb' as (a' & Ha' & Hb').
    assert (a = a') by (apply (D a a' b); [left; reflexivity|right; exact Ha'|exact Hb|exact Hb']).
    subst a'. contradiction.
Qed.

Lemma level_pos_spec d p :
  In p (level_pos d) <->
  pn p = d /\ (px p < 2 ^ N.of_nat d)%N /\ (py p < 2 ^ N.of_nat d)%N.
Proof.
  unfold level_pos. rewrite in_flat_map. split.
  - intros (y & Hy & Hp). apply in_map_iff in Hp. destruct Hp as (x & <- & Hx).
    apply zseq_In in Hy, Hx. cbn [pn px py]. rewrite N_nat_Z in Hy, Hx. split; [reflexivity|]. lia.
  - intros (Hn & Hx & Hy). exists (Z.of_N (py p)). split.
    + apply zseq_In. rewrite N_nat_Z. lia.
    + apply in_map_iff. exists (Z.of_N (px p)). split.
      * destruct p as [n x y]; cbn [pn px py] in *. subst n. rewrite !N2Z.id. reflexivity.
      * apply zseq_In. rewrite N_nat_Z. lia.
Qed.

Lemma map_pos_NoDup d y n : NoDup (map (fun x => mkPos d (Z.to_N x) (Z.to_N y)) (zseq 0 n)).
Proof.
  assert (G : forall n s, 0 <= s -> NoDup (map (fun x => mkPos d (Z.to_N x) (Z.to_N y)) (zseq s n))).
  { induction n0 as [|n0 IH]; intros s Hs; cbn [zseq map]; constructor.
    - rewrite in_map_iff. intros (x & E & Hx). apply zseq_In in Hx. injection E as E. lia.
    - apply IH. lia. }
  apply G. lia.
Qed.

Lemma level_pos_NoDup d : NoDup (level_pos d).
Proof.
  unfold level_pos. apply NoDup_flat_map.
  - apply zseq_NoDup.
  - intros y. apply map_pos_NoDup.
  - intros y1 y2 b H1 H2 B1 B2. apply zseq_In in H1, H2.
    apply in_map_iff in B1, B2. destruct B1 as (x1 & <- & _), B2 as (x2 & E & _).
    injection E as _ E. lia.
Qed.

Lemma flat_map_length_const {A B} (f : A -> list B) (l : list A) (k : nat) :
  (forall a, length (f a) = k) -> length (flat_map f l) = (length l * k)%nat.
Proof.
  intros H. induction l as [|a l IH]; [reflexivity|].
  cbn [flat_map length]. rewrite app_length, H, IH. lia.
Qed.

Lemma level_pos_length d : length (level_pos d) = N.to_nat (4 ^ N.of_nat d).
Proof.
  unfold level_pos. rewrite (flat_map_length_const _ _ (N.to_nat (2 ^ N.of_nat d))).
  - rewrite zseq_length. rewrite <- N2Nat.inj_mul. f_equal.
    rewrite <- N.pow_mul_l. reflexivity.
  - intros a. rewrite map_length, zseq_length. reflexivity.
Qed.

Lemma chain_b_spec acc p : chain_b acc p = true <-> forall k, (k < pn p)%nat -> acc (ancestor k p) = true.
Proof.
  unfold chain_b. rewrite forallb_forall. split.
  - intros H k Hk. apply H. apply in_seq. lia.
  - intros H k Hk. apply in_seq in Hk. apply H. lia.
Qed.

Lemma chain_b_true p : chain_b (fun _ => true) p = true.
Proof. apply chain_b_spec. reflexivity. Qed.

Lemma filter_all {A} (f : A -> bool) (l : list A) : (forall a, f a = true) -> filter f l = l.
Proof. intros H. induction l as [|a l IH]; [reflexivity|]. cbn. rewrite H, IH. reflexivity. Qed.

Lemma fmt_eqb_refl f : fmt_eqb f f = true.
Proof. destruct f; reflexivity. Qed.

Lemma fmt_eqb_eq f g : fmt_eqb f g = true <-> f = g.
Proof. destruct f, g; cbn; split; congruence. Qed.

(* leaves of a level >= 1 *)
Lemma leaf_args_S d acc :
  leaf_args (S d) acc = map (fun p => (p, Some p)) (filter (chain_b acc) (level_pos (S d))).
Proof. reflexivity. Qed.

Lemma leaf_args_fst d acc : map fst (leaf_args (S d) acc) = filter (chain_b acc) (level_pos (S d)).
Proof. rewrite leaf_args_S, map_map. cbn [fst]. apply map_id. Qed.

Lemma leaf_args_NoDup d acc : NoDup (map fst (leaf_args (S d) acc)).
Proof. rewrite leaf_args_fst. apply NoDup_filter. apply level_pos_NoDup. Qed.

Lemma leaf_args_In d acc p t :
  In (p, t) (leaf_args (S d) acc) <-> t = Some p /\ In p (level_pos (S d)) /\ chain_b acc p = true.
Proof.
  rewrite leaf_args_S, in_map_iff. split.
  - intros (q & E & Hq). injection E as <- <-. apply filter_In in Hq. tauto.
  - intros (-> & H1 & H2). exists p. split; [reflexivity|]. apply filter_In. tauto.
Qed.


(* ------------------------------------------------------------------ images *)

Section Img.
  Variable V : Type.
  Variable sz : Z.

  Local Notation img := (img V).
  Local Notation store := (store V).
  Local Notation flip := (flip V sz).
  Local Notation all_masked := (all_masked V sz).
  Local Notation display := (display V sz).
  Local Notation write_image := (write_image V sz).
  Local Notation read_or_masked := (read_or_masked V).

  Definition inr (i : Z) : Prop := 0 <= i < sz.

  Lemma flip_flip (a : img) i j : flip (flip a) i j = a i j.
  Proof. unfold SampleLayer.flip. f_equal. lia. Qed.

  Lemma flip_inr i : inr i -> inr (sz - 1 - i).
  Proof. unfold inr. lia. Qed.

  Lemma all_masked_spec (a : img) :
    all_masked a = true <-> forall i j, inr i -> inr j -> a i j = None.
  Proof.
    unfold SampleLayer.all_masked, inr. rewrite forallb_forall. split.
    - intros H i j Hi Hj. specialize (H i). rewrite forallb_forall in H.
      assert (Hi' : In i (zseq 0 (Z.to_nat sz))) by (apply zseq_In; lia).
      assert (Hj' : In j (zseq 0 (Z.to_nat sz))) by (apply zseq_In; lia).
      specialize (H Hi' j Hj'). destruct (a i j); [discriminate|reflexivity].
    - intros H i Hi. apply forallb_forall. intros j Hj. apply zseq_In in Hi, Hj.
      rewrite H; [reflexivity| |]; lia.
  Qed.

  (* what a reader sees of the file (p, f): the decoded array the right way up,
     all masked when there is no file *)
  Definition shown (st : store) (p : pos) (f : fmt) : img := display f (read_or_masked st p f).

  Lemma set_file_same (st : store) p f v : set_file V st p f v p f = v.
  Proof. unfold set_file. rewrite pos_eqb_refl, fmt_eqb_refl. reflexivity. Qed.

  Lemma set_file_other_pos (st : store) p f v q g : q <> p -> set_file V st p f v q g = st q g.
  Proof.
    intros H. unfold set_file. destruct (pos_eqb q p) eqn:E; [|reflexivity].
    apply pos_eqb_eq in E. contradiction.
  Qed.

  Lemma set_file_other_fmt (st : store) p f v q g : g <> f -> set_file V st p f v q g = st q g.
  Proof.
    intros H. unfold set_file. destruct (fmt_eqb g f) eqn:E; [|rewrite andb_false_r; reflexivity].
    apply fmt_eqb_eq in E. contradiction.
  Qed.

  (* writing then reading back: pixelwise the image written, also when the
     write was suppressed because everything is masked *)
  Lemma write_read (st : store) p f (a : img) i j :
    inr i -> inr j -> read_or_masked (write_image st p f a) p f i j = a i j.
  Proof.
    intros Hi Hj. unfold SampleLayer.write_image, SampleLayer.read_or_masked. rewrite set_file_same.
    destruct (all_masked a) eqn:E; [|reflexivity].
    unfold masked. symmetry. apply (proj1 (all_masked_spec a) E); assumption.
  Qed.

  Lemma write_absent_iff (st : store) p f (a : img) :
    write_image st p f a p f = None <-> forall i j, inr i -> inr j -> a i j = None.
  Proof.
    unfold SampleLayer.write_image. rewrite set_file_same. rewrite <- all_masked_spec.
    destruct (all_masked a); split; congruence.
  Qed.

  Lemma shown_ext (st st2 : store) p f : st p f = st2 p f -> shown st p f = shown st2 p f.
  Proof. intros H. unfold shown, SampleLayer.read_or_masked. rewrite H. reflexivity. Qed.

  Lemma shown_write (st : store) p f (a : img) i j :
    inr i -> inr j -> shown (write_image st p f a) p f i j = display f a i j.
  Proof.
    intros Hi Hj. unfold shown, SampleLayer.display. destruct (bottom_up f).
    - unfold SampleLayer.flip. apply write_read; [apply flip_inr; exact Hi|exact Hj].
    - apply write_read; assumption.
  Qed.

  Lemma display_oriented f (a : img) i j :
    display f (if bottom_up f then flip a else a) i j = a i j.
  Proof.
    unfold SampleLayer.display. destruct (bottom_up f); [apply flip_flip|reflexivity].
  Qed.

End Img.

Section SL.
  Variables C V : Type.
  Variable sz : Z.
  Variable coords : pos -> Z -> Z -> C.
  Variable sampler : C -> option V.

  Local Notation img := (img V).
  Local Notation store := (store V).
  Local Notation flip := (flip V sz).
  Local Notation all_masked := (all_masked V sz).
  Local Notation display := (display V sz).
  Local Notation write_image := (write_image V sz).
  Local Notation read_or_masked := (read_or_masked V).
  Local Notation visit_one := (visit_one C V sz coords sampler).
  Local Notation run := (run C V sz coords sampler).
  Local Notation sampled := (sampled C V coords sampler).
  Local Notation inr := (inr sz).
  Local Notation shown := (shown V sz).

  (* ---- one visit *)

  Lemma visit_one_other_pos c (st : store) p tp q g : q <> p -> visit_one c st p tp q g = st q g.
  Proof.
    intros H. unfold SampleLayer.visit_one.
    destruct (c_clobber c); unfold SampleLayer.write_image; apply set_file_other_pos; exact H.
  Qed.

  Lemma visit_one_local c (st st2 : store) p tp g :
    (forall g', st p g' = st2 p g') -> visit_one c st p tp p g = visit_one c st2 p tp p g.
  Proof.
    intros H. unfold SampleLayer.visit_one, SampleLayer.write_image, SampleLayer.read_or_masked, set_file.
    rewrite !H. destruct (c_clobber c); rewrite ?H; reflexivity.
  Qed.

  (* ---- a whole pass over distinct positions *)

  Lemma run_spec c : forall l (st st' : store),
    NoDup (map fst l) -> run c st l = Some st' ->
    (forall p tp, In (p, Some tp) l -> forall g, st' p g = visit_one c st p tp p g) /\
    (forall q, ~ In q (map fst l) -> forall g, st' q g = st q g).
  Proof.
    induction l as [|[p t] l IH]; intros st st' N H.
    - injection H as <-. split; [intros p tp []|reflexivity].
    - cbn [map fst] in N. inversion N as [|? ? Hnin N']; subst.
      cbn [SampleLayer.run] in H. destruct t as [tp|]; cbn [visit_callback] in H; [|discriminate].
      destruct (IH _ _ N' H) as [IH1 IH2]. split.
      + intros q tq [E|Hin] g.
        * injection E as <- <-. rewrite IH2 by exact Hnin. reflexivity.
        * rewrite (IH1 q tq Hin g).
          assert (q <> p). { intros ->. apply Hnin. apply in_map_iff. exists (p, Some tq). split; [reflexivity|exact Hin]. }
          apply visit_one_local. intros g'. apply visit_one_other_pos. assumption.
      + intros q Hq g. cbn [map fst In] in Hq.
        rewrite IH2 by tauto. apply visit_one_other_pos. intros ->. tauto.
  Qed.

  Lemma run_total c : forall l (st : store),
    (forall p t, In (p, t) l -> t <> None) -> exists st', run c st l = Some st'.
  Proof.
    induction l as [|[p t] l IH]; intros st H; [eexists; reflexivity|].
    cbn [SampleLayer.run]. destruct t as [tp|]; [|exfalso; apply (H p None); [left; reflexivity|reflexivity]].
    cbn [visit_callback]. apply IH. intros q t Hin. apply (H q t). right. exact Hin.
  Qed.

  (* ---- sample_layer (clobbering), depth >= 1 *)

  Lemma sample_layer_tile default override d (st st' : store) p :
    sample_layer C V sz coords sampler default override (S d) st = Some st' ->
    In p (level_pos (S d)) ->
    forall g, st' p g = visit_one (mkCfg default override true) st p p p g.
  Proof.
    unfold SampleLayer.sample_layer. intros H Hp g.
    destruct (run_spec _ _ _ _ (leaf_args_NoDup d _) H) as [H1 _].
    apply H1. apply leaf_args_In. split; [reflexivity|]. split; [exact Hp|apply chain_b_true].
  Qed.

  (* C06 pixel clause: display pixel (i, j) of file (d, x, y) is the sampler at
     coords(d, x, y)(i, j) -- whenever the format written has the parity of the
     pio's default format (always so without a format override) *)
  Lemma sample_pixel_l default override d (st st' : store) p :
    let f := out_fmt (mkCfg default override true) in
    bottom_up f = bottom_up default ->
    sample_layer C V sz coords sampler default override (S d) st = Some st' ->
    In p (level_pos (S d)) ->
    (forall i j, inr i -> inr j -> shown st' p f i j = sampler (coords p i j)) /\
    (st' p f = None <-> forall i j, inr i -> inr j -> sampler (coords p i j) = None).
  Proof.
    intros f Hpar H Hp.
    pose proof (sample_layer_tile default override d st st' p H Hp) as Ht.
    unfold SampleLayer.visit_one in Ht. cbn [c_clobber c_default] in Ht. fold f in Ht.
    split.
    - intros i j Hi Hj. unfold shown, SampleLayer.display, SampleLayer.read_or_masked.
      rewrite (Ht f). fold (read_or_masked (write_image st p f
         (if bottom_up default then flip (sampled p) else sampled p)) p f).
      rewrite Hpar. destruct (bottom_up default).
      + unfold SampleLayer.flip at 1. rewrite write_read by (auto using flip_inr).
        unfold SampleLayer.flip, SampleLayer.sampled.
        replace (sz - 1 - (sz - 1 - i)) with i by lia. reflexivity.
      + rewrite write_read by assumption. reflexivity.
    - rewrite (Ht f), write_absent_iff. destruct (bottom_up default).
      + split; intros Hm i j Hi Hj.
        * specialize (Hm (sz - 1 - i) j (flip_inr sz i Hi) Hj). unfold SampleLayer.flip, SampleLayer.sampled in Hm.
          replace (sz - 1 - (sz - 1 - i)) with i in Hm by lia. exact Hm.
        * unfold SampleLayer.flip, SampleLayer.sampled. apply Hm; auto using flip_inr.
      + reflexivity.
  Qed.

  (* C06 file-set clause, from an empty directory: files exist only for the
     4^d positions of the level, only in the format written *)
  Lemma sample_fileset_l default override d (st' : store) q g :
    sample_layer C V sz coords sampler default override (S d) (empty V) = Some st' ->
    st' q g <> None ->
    In q (level_pos (S d)) /\ g = out_fmt (mkCfg default override true).
  Proof.
    intros H Hne. unfold SampleLayer.sample_layer in H.
    destruct (run_spec _ _ _ _ (leaf_args_NoDup d _) H) as [H1 H2].
    destruct (in_dec pos_eq_dec q (level_pos (S d))) as [Hin|Hnin].
    - split; [exact Hin|].
      assert (Hq : In (q, Some q) (leaf_args (S d) (fun _ => true))).
      { apply leaf_args_In. split; [reflexivity|]. split; [exact Hin|apply chain_b_true]. }
      rewrite (H1 q q Hq g) in Hne. unfold SampleLayer.visit_one in Hne. cbn [c_clobber] in Hne.
      destruct (fmt_eqb g (out_fmt (mkCfg default override true))) eqn:E; [apply fmt_eqb_eq; exact E|].
      exfalso. apply Hne. unfold SampleLayer.write_image. rewrite set_file_other_fmt; [reflexivity|].
      intros ->. rewrite fmt_eqb_refl in E. discriminate.
    - exfalso. apply Hne. rewrite H2; [reflexivity|]. rewrite leaf_args_fst.
      rewrite filter_all by (intros; apply chain_b_true). exact Hnin.
  Qed.

  (* it never fails at depth >= 1 *)
  Lemma sample_layer_total default override d (st : store) :
    exists st', sample_layer C V sz coords sampler default override (S d) st = Some st'.
  Proof.
    unfold SampleLayer.sample_layer. apply run_total. intros p t Hin.
    apply leaf_args_In in Hin. destruct Hin as [-> _]. discriminate.
  Qed.

  (* the result does not depend on the order in which the leaves are visited
     (which worker takes which tile, C03) *)
  Lemma run_order_independent c l l' (st s1 s2 : store) :
    Permutation l l' -> NoDup (map fst l) ->
    run c st l = Some s1 -> run c st l' = Some s2 ->
    forall q g, s1 q g = s2 q g.
  Proof.
    intros P N R1 R2 q g.
    assert (N' : NoDup (map fst l')) by (eapply Permutation_NoDup; [apply Permutation_map; exact P|exact N]).
    destruct (run_spec c l st s1 N R1) as [A1 A2]. destruct (run_spec c l' st s2 N' R2) as [B1 B2].
    destruct (in_dec pos_eq_dec q (map fst l)) as [Hin|Hnin].
    - apply in_map_iff in Hin. destruct Hin as ([q' t] & E & Hin). cbn [fst] in E. subst q'.
      destruct t as [tq|].
      + rewrite (A1 q tq Hin g). rewrite (B1 q tq (Permutation_in _ P Hin) g). reflexivity.
      + (* a None tile makes the run fail *)
        exfalso. clear - R1 Hin. revert st R1. induction l as [|[p t] l IH]; intros st R1; [contradiction|].
        cbn [SampleLayer.run] in R1. destruct Hin as [E|Hin].
        * injection E as -> ->. discriminate.
        * destruct t; cbn [visit_callback] in R1; [eapply IH; eauto|discriminate].
    - rewrite (A2 q Hnin g). rewrite B2; [reflexivity|].
      intros H. apply Hnin. eapply Permutation_in; [apply Permutation_sym, Permutation_map; exact P|exact H].
  Qed.

  (* ---- depth 0 as coded: the callback raises *)
  Lemma depth0_raises default override (st : store) :
    sample_layer C V sz coords sampler default override 0 st = None.
  Proof. reflexivity. Qed.

  Lemma depth0_filtered_raises default acc (st : store) :
    sample_layer_filtered C V sz coords sampler default acc 0 st = None.
  Proof. reflexivity. Qed.

  (* ---- sample_layer_filtered (updating), depth >= 1 *)

  Lemma filtered_tile default acc d (st st' : store) p :
    sample_layer_filtered C V sz coords sampler default acc (S d) st = Some st' ->
    In p (level_pos (S d)) ->
    forall g, st' p g = if chain_b acc p then visit_one (mkCfg default None false) st p p p g else st p g.
  Proof.
    unfold SampleLayer.sample_layer_filtered. intros H Hp g.
    destruct (run_spec _ _ _ _ (leaf_args_NoDup d _) H) as [H1 H2].
    destruct (chain_b acc p) eqn:E.
    - apply H1. apply leaf_args_In. tauto.
    - apply H2. rewrite leaf_args_fst, filter_In. rewrite E. intros [_ ?]; discriminate.
  Qed.

  Lemma filtered_total default acc d (st : store) :
    exists st', sample_layer_filtered C V sz coords sampler default acc (S d) st = Some st'.
  Proof.
    unfold SampleLayer.sample_layer_filtered. apply run_total. intros p t Hin.
    apply leaf_args_In in Hin. destruct Hin as [-> _]. discriminate.
  Qed.

  (* one updating pass: on accepted leaves the unmasked samples replace what was
     there; everything else is untouched *)
  Lemma filtered_pixel_l default acc d (st st' : store) p i j :
    sample_layer_filtered C V sz coords sampler default acc (S d) st = Some st' ->
    In p (level_pos (S d)) -> inr i -> inr j ->
    shown st' p default i j =
    if chain_b acc p then
      match sampler (coords p i j) with Some v => Some v | None => shown st p default i j end
    else shown st p default i j.
  Proof.
    intros H Hp Hi Hj. pose proof (filtered_tile default acc d st st' p H Hp default) as Ht.
    unfold shown, SampleLayer.display.
    destruct (chain_b acc p); [|unfold SampleLayer.read_or_masked; rewrite Ht; reflexivity].
    unfold SampleLayer.visit_one in Ht. cbn [c_clobber c_default] in Ht.
    unfold SampleLayer.read_or_masked at 1 2. rewrite Ht.
    fold (read_or_masked (write_image st p default
            (update_into V (if bottom_up default then flip (sampled p) else sampled p)
               (read_or_masked st p default))) p default).
    destruct (bottom_up default).
    - unfold SampleLayer.flip at 1. rewrite write_read by (auto using flip_inr).
      unfold update_into, SampleLayer.flip, SampleLayer.sampled.
      replace (sz - 1 - (sz - 1 - i)) with i by lia. reflexivity.
    - rewrite write_read by assumption. reflexivity.
  Qed.

  (* from an empty directory an updating pass leaves files only for accepted
     leaves, in the pio's default format *)
  Lemma filtered_fileset_l default acc d (st' : store) q g :
    sample_layer_filtered C V sz coords sampler default acc (S d) (empty V) = Some st' ->
    st' q g <> None ->
    In q (level_pos (S d)) /\ chain_b acc q = true /\ g = default.
  Proof.
    intros H Hne.
    destruct (in_dec pos_eq_dec q (level_pos (S d))) as [Hin|Hnin].
    - rewrite (filtered_tile default acc d _ st' q H Hin g) in Hne.
      destruct (chain_b acc q); [|exfalso; apply Hne; reflexivity].
      split; [exact Hin|]. split; [reflexivity|].
      destruct (fmt_eqb g default) eqn:E; [apply fmt_eqb_eq; exact E|].
      exfalso. apply Hne. unfold SampleLayer.visit_one. cbn [c_clobber c_default].
      unfold SampleLayer.write_image. rewrite set_file_other_fmt; [reflexivity|].
      intros ->. rewrite fmt_eqb_refl in E. discriminate.
    - exfalso. apply Hne. unfold SampleLayer.sample_layer_filtered in H.
      destruct (run_spec _ _ _ _ (leaf_args_NoDup d _) H) as [_ H2].
      rewrite H2; [reflexivity|]. rewrite leaf_args_fst, filter_In. tauto.
  Qed.

End SL.

Lemma level_tiles_l d :
  NoDup (level_pos d) /\ length (level_pos d) = N.to_nat (4 ^ N.of_nat d) /\
  (forall p, In p (level_pos d) <-> pn p = d /\ (px p < 2 ^ N.of_nat d)%N /\ (py p < 2 ^ N.of_nat d)%N).
Proof.
  split; [apply level_pos_NoDup|]. split; [apply level_pos_length|]. intros p. apply level_pos_spec.
Qed.

(* ---- two successive updating passes with different (partial) samplers merge *)

Definition merge_px {V} (old new : option V) : option V :=
  match new with Some v => Some v | None => old end.

Lemma update_mode_merges_l (C V : Type) (sz : Z) (coords : pos -> Z -> Z -> C)
      (s1 s2 : C -> option V) (default : fmt) (acc1 acc2 : pos -> bool) (d : nat)
      (st1 st2 : store V) p i j :
  sample_layer_filtered C V sz coords s1 default acc1 (S d) (empty V) = Some st1 ->
  sample_layer_filtered C V sz coords s2 default acc2 (S d) st1 = Some st2 ->
  In p (level_pos (S d)) -> inr sz i -> inr sz j ->
  shown V sz st2 p default i j =
  merge_px (if chain_b acc1 p then s1 (coords p i j) else None)
           (if chain_b acc2 p then s2 (coords p i j) else None).
Proof.
  intros H1 H2 Hp Hi Hj.
  rewrite (fun pf => filtered_pixel_l C V sz coords s2 default acc2 d st1 st2 p i j pf Hp Hi Hj) by exact H2.
  rewrite (fun pf => filtered_pixel_l C V sz coords s1 default acc1 d (empty V) st1 p i j pf Hp Hi Hj) by exact H1.
  assert (E : shown V sz (empty V) p default i j = None).
  { unfold shown, display, read_or_masked, empty, masked, flip. destruct (bottom_up default); reflexivity. }
  rewrite E. unfold merge_px.
  destruct (chain_b acc2 p), (chain_b acc1 p); try reflexivity;
    destruct (s2 (coords p i j)), (s1 (coords p i j)); reflexivity.
Qed.

(* ---- the format override breaks the parity rule (finding) ---- *)

(* default png (top-down), override fits (bottom-up): the FITS tile holds the
   rows in display order, i.e. upside down for a FITS reader *)
Lemma format_override_parity_refuted_l :
  exists (st' : store Z) p i j,
    sample_layer Z Z 2 (fun _ i j => 2 * i + j) (fun c => Some c) Png (Some Fits) 1 (empty Z) = Some st' /\
    In p (level_pos 1) /\ 0 <= i < 2 /\ 0 <= j < 2 /\
    shown Z 2 st' p Fits i j <> Some (2 * i + j).
Proof.
  eexists. exists (mkPos 1 0 0), 0, 0. split; [vm_compute; reflexivity|].
  split; [vm_compute; tauto|]. split; [lia|]. split; [lia|]. vm_compute. discriminate.
Qed.

(* ---- repaired behaviour ---- *)

Section Fixed.
  Variables C V : Type.
  Variable sz : Z.
  Variable coords : pos -> Z -> Z -> C.
  Variable sampler : C -> option V.
  Variable coords_half : pos -> Z -> Z -> C.

  Local Notation store := (store V).
  Local Notation visit_fixed := (visit_fixed C V sz coords sampler coords_half).
  Local Notation run_fixed := (run_fixed C V sz coords sampler coords_half).
  Local Notation sampled_t := (sampled_t C V sz coords sampler coords_half).

  Lemma visit_fixed_other_pos c (st : store) p t q g : q <> p -> visit_fixed c st p t q g = st q g.
  Proof.
    intros H. unfold SampleLayer.visit_fixed.
    destruct (c_clobber c); unfold write_image; apply set_file_other_pos; exact H.
  Qed.

  Lemma visit_fixed_local c (st st2 : store) p t g :
    (forall g', st p g' = st2 p g') -> visit_fixed c st p t p g = visit_fixed c st2 p t p g.
  Proof.
    intros H. unfold SampleLayer.visit_fixed, write_image, read_or_masked, set_file.
    rewrite !H. destruct (c_clobber c); rewrite ?H; reflexivity.
  Qed.

  Lemma run_fixed_spec c : forall l (st : store),
    NoDup (map fst l) ->
    (forall p t, In (p, t) l -> forall g, run_fixed c st l p g = visit_fixed c st p t p g) /\
    (forall q, ~ In q (map fst l) -> forall g, run_fixed c st l q g = st q g).
  Proof.
    induction l as [|[p t] l IH]; intros st N.
    - split; [intros p t []|reflexivity].
    - cbn [map fst] in N. inversion N as [|? ? Hnin N']; subst.
      cbn [SampleLayer.run_fixed]. destruct (IH (visit_fixed c st p t) N') as [IH1 IH2]. split.
      + intros q tq [E|Hin] g.
        * injection E as <- <-. rewrite IH2 by exact Hnin. reflexivity.
        * rewrite (IH1 q tq Hin g).
          assert (q <> p). { intros ->. apply Hnin. apply in_map_iff. exists (p, tq). split; [reflexivity|exact Hin]. }
          apply visit_fixed_local. intros g'. apply visit_fixed_other_pos. assumption.
      + intros q Hq g. cbn [map fst In] in Hq.
        rewrite IH2 by tauto. apply visit_fixed_other_pos. intros ->. tauto.
  Qed.

  Lemma leaf_args_fixed_NoDup d acc : NoDup (map fst (leaf_args d acc)).
  Proof.
    destruct d as [|d]; [cbn; constructor; [intros []|constructor]|apply leaf_args_NoDup].
  Qed.

  (* the tile argument of a leaf, all depths *)
  Definition tile_of (d : nat) (p : pos) : option pos := match d with O => None | _ => Some p end.

  Lemma leaf_args_fixed_In d p :
    In p (level_pos d) -> In (p, tile_of d p) (leaf_args d (fun _ => true)).
  Proof.
    destruct d as [|d]; intros H.
    - apply level_pos_spec in H. destruct H as (Hn & Hx & Hy). destruct p as [n x y]; cbn [pn px py] in *.
      subst n. change (2 ^ N.of_nat 0)%N with 1%N in Hx, Hy.
      assert (x = 0 /\ y = 0)%N as [-> ->] by lia. left. reflexivity.
    - apply leaf_args_In.
      split; [reflexivity|]. split; [exact H|apply chain_b_true].
  Qed.

  (* C06 for the repaired code: every depth including 0, every format and
     override: display pixel (i, j) = sampler at the tile's own pixel centre *)
  Lemma sample_pixel_fixed_l default override d (st : store) p :
    let f := out_fmt (mkCfg default override true) in
    let st' := sample_layer_fixed C V sz coords sampler coords_half default override d st in
    In p (level_pos d) ->
    (forall i j, inr sz i -> inr sz j -> shown V sz st' p f i j = sampled_t (tile_of d p) i j) /\
    (st' p f = None <-> forall i j, inr sz i -> inr sz j -> sampled_t (tile_of d p) i j = None).
  Proof.
    intros f st' Hp. unfold st', SampleLayer.sample_layer_fixed.
    destruct (run_fixed_spec (mkCfg default override true) _ st (leaf_args_fixed_NoDup d (fun _ => true))) as [H1 _].
    pose proof (H1 p (tile_of d p) (leaf_args_fixed_In d p Hp)) as Ht.
    unfold SampleLayer.visit_fixed in Ht. cbn [c_clobber] in Ht. fold f in Ht.
    split.
    - intros i j Hi Hj. rewrite (shown_ext V sz _ _ p f (Ht f)).
      rewrite shown_write by assumption. apply display_oriented.
    - rewrite (Ht f), write_absent_iff. destruct (bottom_up f).
      + split; intros Hm i j Hi Hj.
        * specialize (Hm (sz - 1 - i) j (flip_inr sz i Hi) Hj). unfold flip in Hm.
          replace (sz - 1 - (sz - 1 - i)) with i in Hm by lia. exact Hm.
        * unfold flip. apply Hm; auto using flip_inr.
      + reflexivity.
  Qed.

  (* at depth 0 the sampled grid is the 2 x 2 arrangement of the level-1 half grids *)
  Lemma sampled_level0 i j :
    sampled_t None i j =
    sampler (coords_half (mkPos 1 (Z.to_N (j / (sz / 2))) (Z.to_N (i / (sz / 2)))) (i mod (sz / 2)) (j mod (sz / 2))).
  Proof. reflexivity. Qed.

  Lemma sampled_level_pos p i j : sampled_t (Some p) i j = sampler (coords p i j).
  Proof. reflexivity. Qed.

End Fixed.
