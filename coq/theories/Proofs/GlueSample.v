(* Composition of C06 (TOAST sampling), C03 (parallel leaf visit) and C13 (leaf list).

   C06's [run_order_independent] says that the sampler callbacks give the same store
   in every order of a duplicate-free leaf list.  Here:
     - the leaf list SampleLayer.v uses ([leaf_args d acc], row-major) is a
       permutation of what Pyramid.visit_leaves enumerates for the pyramids
       sample_layer / sample_layer_filtered build ([spec_leaves P], which is the
       serial visit list by C13's visit_serial_spec);
     - in every returned run of the producer/queue/worker LTS of C03
       (Model/VisitPar.v) over these items, the items handed to the workers are
       each leaf exactly once;
   hence the store after the parallel visit is the store after the serial visit
   and the store of [sample_layer].

   Items of VisitPar.v are indices into the item list; item i is [nth i items].

   Modelling assumption that remains: the effect on the store of the callbacks a
   run hands out is that of executing them one after another in SOME order (any
   order: [o] below ranges over all arrangements of the handed-out items, which
   includes the receive order and every interleaving of the workers' own
   sequences).  This is justified by the callbacks touching pairwise disjoint
   files — [visit_one] reads and writes only the files of its own position
   (SampleLayerP.visit_one_other_pos / visit_one_local) and the handed-out
   positions are pairwise different ([handed_out_distinct]) — but Model/VisitPar.v
   does not carry the store, so overlapping callbacks are not represented. *)
From Coq Require Import List ZArith NArith Arith Bool Lia Permutation.
From Toasty Require Import Model.Quadtree Model.Reducer Model.VisitPar Model.SampleLayer.
From Toasty Require Import Proofs.QuadtreeP Proofs.ReducerP Proofs.EnumP Proofs.CountsP
     Proofs.VisitParP Proofs.SampleLayerP.
Import ListNotations.

(* ---- the pyramids of sample_layer (toast.py:664) and sample_layer_filtered (711) --- *)

Definition sample_pyramid (tile_filter : option (pos -> bool)) (d : nat) : pyr :=
  match tile_filter with
  | None => mkPyr Toast d (fun _ => true) root false
  | Some f => mkPyr ToastFiltered d f root false
  end.

Definition acc_of (tile_filter : option (pos -> bool)) : pos -> bool :=
  match tile_filter with None => fun _ => true | Some f => f end.

Lemma sample_pyramid_wf tf d : wf_pyr (sample_pyramid tf d).
Proof.
  destruct tf; cbn [sample_pyramid];
    (split; [reflexivity|split; [cbn [apex pn root depth]; lia|reflexivity]]).
Qed.

(* what visit_leaves passes for a leaf: (pos, tile), tile None at level 0 *)
Definition arg_of (d : nat) (p : pos) : pos * option pos := (p, tile_of d p).

Lemma valid_level_pos d q : In q (level_pos d) <-> pn q = d /\ valid q = true.
Proof.
  rewrite level_pos_spec. unfold valid. rewrite andb_true_iff, !N.ltb_lt.
  split; [intros (-> & H1 & H2)|intros (<- & H1 & H2)]; auto.
Qed.

Lemma sample_leaves_in tf d q :
  In q (spec_leaves (sample_pyramid tf d)) <-> In q (level_pos d) /\ chain_b (acc_of tf) q = true.
Proof.
  rewrite spec_leaves_in, valid_level_pos, chain_b_spec. unfold in_tree.
  assert (Ea : apex (sample_pyramid tf d) = root) by (destruct tf; reflexivity).
  assert (Ed : depth (sample_pyramid tf d) = d) by (destruct tf; reflexivity).
  assert (Er : apex_reachable (sample_pyramid tf d) = true) by (destruct tf; reflexivity).
  assert (Es : sub_levels (sample_pyramid tf d) = S d).
  { unfold sub_levels. rewrite Ea, Ed. cbn [pn root]. lia. }
  rewrite Ea, Ed, Er, Es. split.
  - intros [[_ (m & Hm & Hn & Ha & Hacc)] Hd]. cbn [pn root] in Hn.
    assert (m = d) by lia. subst m.
    split; [split; [exact Hd|]|].
    + apply (valid_desc d q root); [cbn [pn root]; lia|exact Ha|reflexivity].
    + intros i Hi. destruct tf as [f|]; [|reflexivity]. cbn [acc_of].
      specialize (Hacc i ltac:(lia)). cbn [sample_pyramid in_filter kd ufilt] in Hacc.
      rewrite ancestor_pn in Hacc. destruct (Nat.eqb_spec (pn q - i) 0); [lia|exact Hacc].
  - intros [[Hd Hv] Hc]. split; [split; [reflexivity|]|exact Hd].
    exists d. split; [lia|]. split; [cbn [pn root]; lia|]. split.
    + rewrite <- Hd. apply ancestor_root. exact Hv.
    + intros i Hi. destruct tf as [f|]; [|reflexivity].
      cbn [sample_pyramid in_filter kd ufilt]. rewrite ancestor_pn.
      destruct (Nat.eqb_spec (pn q - i) 0) as [E|E]; [reflexivity|]. cbn [orb].
      apply (Hc i). lia.
Qed.

Lemma leaf_args_as_map d acc :
  leaf_args d acc = map (arg_of d) (filter (chain_b acc) (level_pos d)).
Proof.
  destruct d as [|d].
  - reflexivity.
  - rewrite leaf_args_S. apply map_ext. intros p. reflexivity.
Qed.

(* SampleLayer.v's leaf list is a rearrangement of the pyramid's leaf list *)
Lemma leaf_args_perm tf d :
  Permutation (leaf_args d (acc_of tf)) (map (arg_of d) (spec_leaves (sample_pyramid tf d))).
Proof.
  rewrite leaf_args_as_map. apply Permutation_map. apply NoDup_Permutation.
  - apply NoDup_filter. apply level_pos_NoDup.
  - apply spec_NoDup.
  - intros q. rewrite filter_In, sample_leaves_in. tauto.
Qed.

Lemma map_fst_arg_of d l : map fst (map (arg_of d) l) = l.
Proof. rewrite map_map. cbn [arg_of fst]. apply map_id. Qed.

(* ---- items of a returned run ---------------------------------------------------- *)

Lemma map_nth_seq {T} (l : list T) dflt : map (fun i => nth i l dflt) (seq 0 (length l)) = l.
Proof.
  induction l as [|a l IH]; [reflexivity|]. cbn [length seq map nth]. f_equal.
  rewrite <- seq_shift, map_map. exact IH.
Qed.

Section Items.
  Context {T : Type}.
  Variable items : list T.
  Variable dflt : T.
  Variables par cap pcap : nat.
  Hypothesis Hpar : 1 <= par.
  Variable l : list act.
  Let s := VisitPar.run (fun _ => false) (init (length items) par cap pcap true) l.
  Hypothesis Hret : pc s = PReturned.

  (* the items handed to the workers, in receive order, are the item list itself *)
  Lemma handed_out_eq :
    map (fun i => nth i items dflt) (rev (map fst (started s))) = items.
  Proof.
    destruct (VisitParP.visit_terminal (length items) par cap pcap l Hpar Hret) as (_ & E & _).
    fold s in E. rewrite E, rev_involutive. apply map_nth_seq.
  Qed.

  Lemma handed_out_perm o :
    Permutation o (map fst (started s)) -> Permutation (map (fun i => nth i items dflt) o) items.
  Proof.
    intros Ho. pose proof handed_out_eq as E.
    apply (Permutation_trans (l' := map (fun i => nth i items dflt) (rev (map fst (started s)))));
      [|rewrite E; apply Permutation_refl].
    apply Permutation_map. eapply Permutation_trans; [exact Ho|apply Permutation_rev].
  Qed.

  (* every item's callback completed before the return *)
  Lemma all_finished : map (fun i => nth i items dflt) (rev (finished s)) = items.
  Proof.
    destruct (VisitParP.visit_terminal (length items) par cap pcap l Hpar Hret) as (_ & _ & E & _).
    fold s in E. rewrite E, rev_involutive. apply map_nth_seq.
  Qed.
End Items.

(* ---- composition ------------------------------------------------------------------ *)

Section Sample.
  Variables C V : Type.
  Variable sz : Z.
  Variable coords : pos -> Z -> Z -> C.
  Variable sampler : C -> option V.
  Variable c : cfg.
  Variable P : pyr.
  Hypothesis Hwf : wf_pyr P.
  Variable st : store V.
  Variables par cap pcap : nat.
  Hypothesis Hpar : 1 <= par.

  Notation srun := (SampleLayer.run C V sz coords sampler c).
  Notation item := (fun i => arg_of (depth P) (nth i (spec_leaves P) root)).

  Lemma sample_parallel_eq_serial_lemma (l : list act) :
    let s := VisitPar.run (fun _ => false) (init (length (spec_leaves P)) par cap pcap true) l in
    pc s = PReturned ->
    visit_serial P = Some (spec_leaves P) /\
    map (fun i => nth i (spec_leaves P) root) (rev (map fst (started s))) = spec_leaves P /\
    map (fun i => nth i (spec_leaves P) root) (rev (finished s)) = spec_leaves P /\
    NoDup (spec_leaves P) /\
    forall o, Permutation o (map fst (started s)) ->
      Permutation (map item o) (map (arg_of (depth P)) (spec_leaves P)) /\
      forall s_ser s_par,
        srun st (map (arg_of (depth P)) (spec_leaves P)) = Some s_ser ->
        srun st (map item o) = Some s_par ->
        forall q g, s_ser q g = s_par q g.
  Proof.
    intros s Hret. split; [apply visit_serial_spec; exact Hwf|].
    split; [apply (handed_out_eq (spec_leaves P) root par cap pcap Hpar l Hret)|].
    split; [apply (all_finished (spec_leaves P) root par cap pcap Hpar l Hret)|].
    split; [apply spec_NoDup|].
    intros o Ho.
    assert (Hperm : Permutation (map item o) (map (arg_of (depth P)) (spec_leaves P))).
    { rewrite <- (map_map (fun i => nth i (spec_leaves P) root) (arg_of (depth P))).
      apply Permutation_map. apply (handed_out_perm (spec_leaves P) root par cap pcap Hpar l Hret o Ho). }
    split; [exact Hperm|]. intros s_ser s_par H1 H2.
    apply (run_order_independent C V sz coords sampler c (map (arg_of (depth P)) (spec_leaves P)) (map item o)
             st s_ser s_par (Permutation_sym Hperm)); auto.
    rewrite map_fst_arg_of. apply spec_NoDup.
  Qed.
End Sample.

Theorem sample_parallel_eq_serial_thm :
  forall (C V : Type) (sz : Z) (coords : pos -> Z -> Z -> C) (sampler : C -> option V) (c : cfg)
         (P : pyr) (st : store V) (par cap pcap : nat),
    wf_pyr P -> 1 <= par ->
    forall l : list act,
    let items := spec_leaves P in
    let s := VisitPar.run (fun _ => false) (init (length items) par cap pcap true) l in
    pc s = PReturned ->
    visit_serial P = Some items /\
    map (fun i => nth i items root) (rev (map fst (started s))) = items /\
    map (fun i => nth i items root) (rev (finished s)) = items /\
    NoDup items /\
    forall o, Permutation o (map fst (started s)) ->
      Permutation (map (fun i => arg_of (depth P) (nth i items root)) o) (map (arg_of (depth P)) items) /\
      forall s_ser s_par,
        SampleLayer.run C V sz coords sampler c st (map (arg_of (depth P)) items) = Some s_ser ->
        SampleLayer.run C V sz coords sampler c st (map (fun i => arg_of (depth P) (nth i items root)) o) = Some s_par ->
        forall q g, s_ser q g = s_par q g.
Proof.
  intros C V sz coords sampler c P st par cap pcap Hwf Hpar l.
  exact (sample_parallel_eq_serial_lemma C V sz coords sampler c P Hwf st par cap pcap Hpar l).
Qed.

(* sample_layer (no filter, clobbering, optional format override) and
   sample_layer_filtered (filter, updating): the store after ANY returned parallel
   visit, the callbacks taking effect in any order [o] of the handed-out items,
   is the store the model of C06 computes, for every depth >= 1 (at depth 0 the
   callback as coded raises, C06 sample_depth0_refuted) *)
Theorem sample_layer_parallel_thm :
  forall (C V : Type) (sz : Z) (coords : pos -> Z -> Z -> C) (sampler : C -> option V)
         (default : fmt) (override : option fmt) (tile_filter : option (pos -> bool))
         (d : nat) (st : store V) (par cap pcap : nat),
    1 <= par ->
    let P := sample_pyramid tile_filter (S d) in
    let c := match tile_filter with
             | None => mkCfg default override true
             | Some _ => mkCfg default None false
             end in
    let items := spec_leaves P in
    forall l : list act,
    let s := VisitPar.run (fun _ => false) (init (length items) par cap pcap true) l in
    pc s = PReturned ->
    forall o, Permutation o (map fst (started s)) ->
    exists s_ref s_par,
      (match tile_filter with
       | None => sample_layer C V sz coords sampler default override (S d) st
       | Some f => sample_layer_filtered C V sz coords sampler default f (S d) st
       end) = Some s_ref /\
      SampleLayer.run C V sz coords sampler c st (map (fun i => arg_of (S d) (nth i items root)) o) = Some s_par /\
      forall q g, s_ref q g = s_par q g.
Proof.
  intros C V sz coords sampler default override tf d st par cap pcap Hpar P c items l s Hret o Ho.
  pose proof (sample_pyramid_wf tf (S d)) as Hwf. fold P in Hwf.
  assert (Hd : depth P = S d) by (unfold P; destruct tf; reflexivity).
  destruct (sample_parallel_eq_serial_lemma C V sz coords sampler c P Hwf st par cap pcap Hpar l Hret)
    as (_ & _ & _ & Hnd & Hall).
  destruct (Hall o Ho) as [Hperm _]. rewrite Hd in Hperm. fold items in Hperm.
  pose proof (leaf_args_perm tf (S d)) as Hla. fold P in Hla. fold items in Hla.
  assert (Eref : (match tf with
                  | None => sample_layer C V sz coords sampler default override (S d) st
                  | Some f => sample_layer_filtered C V sz coords sampler default f (S d) st
                  end) = SampleLayer.run C V sz coords sampler c st (leaf_args (S d) (acc_of tf))).
  { unfold c. destruct tf; reflexivity. }
  rewrite Eref.
  destruct (run_total C V sz coords sampler c (leaf_args (S d) (acc_of tf)) st) as (s_ref & E1).
  { intros p t Hin. apply leaf_args_In in Hin. destruct Hin as (-> & _). discriminate. }
  destruct (run_total C V sz coords sampler c (map (fun i => arg_of (S d) (nth i items root)) o) st) as (s_par & E2).
  { intros p t Hin. apply (Permutation_in _ Hperm) in Hin. apply in_map_iff in Hin.
    destruct Hin as (q & E & _). injection E as <- <-. discriminate. }
  exists s_ref, s_par. split; [exact E1|]. split; [exact E2|].
  apply (run_order_independent C V sz coords sampler c (leaf_args (S d) (acc_of tf))
           (map (fun i => arg_of (S d) (nth i items root)) o) st s_ref s_par); auto.
  - eapply Permutation_trans; [exact Hla|apply Permutation_sym; exact Hperm].
  - apply leaf_args_NoDup.
Qed.

(* the handed-out positions are pairwise different: the callbacks of one visit
   touch pairwise disjoint sets of files *)
Theorem handed_out_distinct_thm :
  forall (P : pyr) (par cap pcap : nat), 1 <= par ->
  forall l : list act,
  let items := spec_leaves P in
  let s := VisitPar.run (fun _ => false) (init (length items) par cap pcap true) l in
  pc s = PReturned ->
  NoDup (map (fun i => nth i items root) (map fst (started s))).
Proof.
  intros P par cap pcap Hpar l items s Hret.
  pose proof (handed_out_eq items root par cap pcap Hpar l Hret) as E. fold s in E.
  apply (Permutation_NoDup (l := items)); [|apply spec_NoDup].
  apply (Permutation_trans (l' := map (fun i => nth i items root) (rev (map fst (started s)))));
    [rewrite E; apply Permutation_refl|].
  apply Permutation_map. apply Permutation_sym, Permutation_rev.
Qed.

(* ---- a concrete instance (for the non-vacuity example of Properties/C06.v) ---------- *)

(* the four level-1 leaves, two workers, queue and pipe capacity 2: worker 0 gets
   items 0 and 3, worker 1 items 1 and 2 *)
Definition glue_ex_visit_schedule : list act :=
  [AIsSet 0; AIsSet 1; APut; AFlush; ARecv 0; APut; AFlush; ARecv 1; AIsSet 0; AIsSet 1; APut; AFlush; ARecv 1;
   APut; AFlush; ARecv 0; AClose; AFeederExit; AJoinThread; ASet; AIsSet 0; ATimeout 0; AIsSet 1; ATimeout 1;
   AJoin 0; AJoin 1].

Lemma glue_ex_visit :
  let s := VisitPar.run (fun _ => false) (init (length (spec_leaves (sample_pyramid None 1))) 2 2 2 true)
             glue_ex_visit_schedule in
  pc s = PReturned /\ started s = [(3, 0); (2, 1); (1, 1); (0, 0)] /\
  Permutation [0; 3; 1; 2] (map fst (started s)).
Proof.
  cbv zeta.
  assert (E : started (VisitPar.run (fun _ => false) (init (length (spec_leaves (sample_pyramid None 1))) 2 2 2 true)
                         glue_ex_visit_schedule) = [(3, 0); (2, 1); (1, 1); (0, 0)]) by (vm_compute; reflexivity).
  split; [vm_compute; reflexivity|]. split; [exact E|]. rewrite E. cbn [map fst].
  apply NoDup_Permutation.
  - repeat constructor; cbn [In]; intuition discriminate.
  - repeat constructor; cbn [In]; intuition discriminate.
  - intros x. cbn [In]. tauto.
Qed.
