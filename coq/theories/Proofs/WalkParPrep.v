(* Proofs for C01 (Pyramid._walk_parallel), preparation pass: what [prep] computes
   (total, readiness prefill, seeds) in terms of [spec_ops], and the closure
   properties of the set of operations (apex, parents, children). *)
From Coq Require Import List NArith ZArith Arith Bool Lia.
From Toasty Require Import Model.Quadtree Model.Reducer Model.WalkPar
     Proofs.QuadtreeP Proofs.ReducerP Proofs.EnumP Proofs.CountsP Proofs.WalkParDefs.
Import ListNotations.
Ltac Zify.zify_post_hook ::= Z.to_euclidean_division_equations.

(* ---- rdy_get on lists ------------------------------------------------------------ *)

Lemma rdy_get_cons a l q :
  rdy_get (a :: l) q = if pos_eqb (fst a) q then snd a else rdy_get l q.
Proof.
  unfold rdy_get. cbn [find]. destruct (pos_eqb (fst a) q); [destruct a; reflexivity|reflexivity].
Qed.

Lemma rdy_get_notin l q : ~ In q (map fst l) -> rdy_get l q = 0%N.
Proof.
  induction l as [|a l IH]; intros H; [reflexivity|].
  rewrite rdy_get_cons. cbn [map In] in H.
  destruct (pos_eqb (fst a) q) eqn:E.
  - apply pos_eqb_eq in E. tauto.
  - apply IH. tauto.
Qed.

Lemma rdy_get_app_r l l' q : ~ In q (map fst l) -> rdy_get (l ++ l') q = rdy_get l' q.
Proof.
  induction l as [|a l IH]; intros H; [reflexivity|].
  cbn [app]. rewrite rdy_get_cons. cbn [map In] in H.
  destruct (pos_eqb (fst a) q) eqn:E.
  - apply pos_eqb_eq in E. tauto.
  - apply IH. tauto.
Qed.

Lemma rdy_get_app_l l l' q : ~ In q (map fst l') -> rdy_get (l ++ l') q = rdy_get l q.
Proof.
  intros H. induction l as [|a l IH].
  - cbn [app]. rewrite (rdy_get_notin l' q H). reflexivity.
  - cbn [app]. rewrite !rdy_get_cons, IH. reflexivity.
Qed.

(* ---- prep_readiness / prep_seeds on lists ---------------------------------------- *)

Lemma prep_readiness_app l l' :
  prep_readiness (l ++ l') = prep_readiness l ++ prep_readiness l'.
Proof. unfold prep_readiness. apply flat_map_app. Qed.

Lemma prep_readiness_one p leaf t :
  prep_readiness [(p, leaf, t)] =
  if leaf then [] else if N.eqb (bits_of t) 0%N then [] else [(p, bits_of t)].
Proof. unfold prep_readiness. cbn [flat_map]. apply app_nil_r. Qed.

Lemma prep_seeds_app dep l l' :
  prep_seeds dep (l ++ l') = prep_seeds dep l ++ prep_seeds dep l'.
Proof. unfold prep_seeds. apply flat_map_app. Qed.

Lemma prep_seeds_one dep p leaf t :
  prep_seeds dep [(p, leaf, t)] =
  if Nat.eqb (S (pn p)) dep && live_of leaf t then [p] else [].
Proof. unfold prep_seeds. cbn [flat_map]. apply app_nil_r. Qed.

Lemma prep_readiness_dom (log : list logent) q :
  In q (map fst (prep_readiness log)) -> In q (map (fun e : logent => fst (fst e)) log).
Proof.
  induction log as [|e log IH]; [intros []|].
  change (e :: log) with ([e] ++ log).
  rewrite prep_readiness_app, !map_app, !in_app_iff.
  intros [H|H]; [left|right; apply IH; exact H].
  destruct e as [[p leaf] t]. rewrite prep_readiness_one in H.
  destruct leaf; [destruct H|].
  destruct (N.eqb (bits_of t) 0%N); [destruct H|].
  cbn [map fst In] in *. exact H.
Qed.

Lemma bits_of_bit4 (a b c e : bool * N) :
  bits_of (a, b, c, e) = bit4 (negb (fst a)) (negb (fst b)) (negb (fst c)) (negb (fst e)).
Proof.
  unfold bits_of, bit4. destruct (fst a), (fst b), (fst c), (fst e); reflexivity.
Qed.

(* ---- the log of the operations reducer over one accepted subtree ----------------- *)

Section Prep.
  Variable acc : pos -> bool.
  Variable D : nat.

  (* the readiness word that _walk_parallel prefills for q: bit i set iff child i
     of q is not live (so that nobody will ever report it) *)
  Definition rdy_spec (q : pos) : N :=
    bit4 (negb (glive acc D (c0 q))) (negb (glive acc D (c1 q)))
         (negb (glive acc D (c2 q))) (negb (glive acc D (c3 q))).

  Lemma readiness_dom k p q :
    In q (map fst (prep_readiness (tree_log f_ops (false, 0%N) k acc p))) -> In q (pwalk k acc p).
  Proof.
    intros H. apply prep_readiness_dom in H.
    rewrite <- (TL_pos acc f_ops (false, 0%N) k p). exact H.
  Qed.

  Lemma seeds_eq k : forall p, (pn p + k = S D)%nat ->
    prep_seeds D (tree_log f_ops (false, 0%N) k acc p) =
    filter (fun q => Nat.eqb (S (pn q)) D) (filter (gops acc D) (pwalk k acc p)).
  Proof.
    induction k as [|k IH]; intros p Hk; [reflexivity|].
    cbn [tree_log]. rewrite filter_pwalk_S. destruct (acc p) eqn:Ea; [|reflexivity].
    rewrite !prep_seeds_app, !filter_app, !IH by (cbn [pn c0 c1 c2 c3]; lia).
    do 4 f_equal.
    rewrite prep_seeds_one. unfold live_of.
    rewrite !(TR_ops acc D) by (cbn [pn c0 c1 c2 c3]; lia). cbn [fst].
    unfold gops. rewrite (glive_top acc D (S k) p Hk), live_S, Ea. cbn [andb]. unfold gleaf.
    destruct (Nat.eqb_spec k 0) as [->|Hk0].
    - replace (Nat.eqb (pn p) D) with true by (symmetry; apply Nat.eqb_eq; lia).
      replace (Nat.eqb (S (pn p)) D) with false by (symmetry; apply Nat.eqb_neq; lia).
      reflexivity.
    - replace (Nat.eqb (pn p) D) with false by (symmetry; apply Nat.eqb_neq; lia).
      cbn [negb orb]. rewrite andb_true_r.
      destruct (live k acc (c0 p) || live k acc (c1 p) || live k acc (c2 p) || live k acc (c3 p));
        [|rewrite andb_false_r; reflexivity].
      rewrite andb_true_r. cbn [filter].
      destruct (Nat.eqb (S (pn p)) D); reflexivity.
  Qed.

  Lemma readiness_get k : forall p q,
    (pn p + k = S D)%nat -> In q (pwalk k acc p) -> pn q <> D ->
    rdy_get (prep_readiness (tree_log f_ops (false, 0%N) k acc p)) q = rdy_spec q.
  Proof.
    induction k as [|k IH]; intros p q Hk Hq Hn; [destruct Hq|].
    cbn [tree_log]. rewrite pwalk_S in Hq. destruct (acc p) eqn:Ea; [|destruct Hq].
    rewrite !prep_readiness_app.
    destruct (c_distinct p) as (D01 & D02 & D03 & D12 & D13 & D23).
    assert (Hd : forall a b, pn a = pn b -> a <> b -> In q (pwalk k acc a) ->
                 ~ In q (map fst (prep_readiness (tree_log f_ops (false, 0%N) k acc b)))).
    { intros a b Hab Hne Ha Hb. apply readiness_dom in Hb. apply Hne.
      eapply pwalk_disjoint; eauto. }
    assert (Hlast : forall leaf t, q <> p -> ~ In q (map fst (prep_readiness [(p, leaf, t)]))).
    { intros leaf t Hne H. apply prep_readiness_dom in H. cbn [map fst In] in H.
      destruct H as [H|[]]. congruence. }
    assert (Hlev : forall c, In c (children p) -> In q (pwalk k acc c) -> q <> p).
    { intros c Hc Hin ->. apply pwalk_in_top in Hin. rewrite (children_level _ _ Hc) in Hin. lia. }
    assert (I0 : In (c0 p) (children p)) by (apply children_cases; auto).
    assert (I1 : In (c1 p) (children p)) by (apply children_cases; auto).
    assert (I2 : In (c2 p) (children p)) by (apply children_cases; auto).
    assert (I3 : In (c3 p) (children p)) by (apply children_cases; auto 6).
    rewrite !in_app_iff in Hq. cbn [In] in Hq.
    destruct Hq as [Hq|[Hq|[Hq|[Hq|[Hq|[]]]]]].
    - rewrite rdy_get_app_l; [apply IH; [cbn [pn c0]; lia|exact Hq|exact Hn]|].
      rewrite !map_app, !in_app_iff. intros [H|[H|[H|H]]]; revert H.
      + apply (Hd (c0 p)); auto.
      + apply (Hd (c0 p)); auto.
      + apply (Hd (c0 p)); auto.
      + apply Hlast. apply (Hlev (c0 p)); assumption.
    - rewrite rdy_get_app_r by (apply (Hd (c1 p)); auto).
      rewrite rdy_get_app_l; [apply IH; [cbn [pn c1]; lia|exact Hq|exact Hn]|].
      rewrite !map_app, !in_app_iff. intros [H|[H|H]]; revert H.
      + apply (Hd (c1 p)); auto.
      + apply (Hd (c1 p)); auto.
      + apply Hlast. apply (Hlev (c1 p)); assumption.
    - rewrite rdy_get_app_r by (apply (Hd (c2 p)); auto).
      rewrite rdy_get_app_r by (apply (Hd (c2 p)); auto).
      rewrite rdy_get_app_l; [apply IH; [cbn [pn c2]; lia|exact Hq|exact Hn]|].
      rewrite !map_app, !in_app_iff. intros [H|H]; revert H.
      + apply (Hd (c2 p)); auto.
      + apply Hlast. apply (Hlev (c2 p)); assumption.
    - rewrite rdy_get_app_r by (apply (Hd (c3 p)); auto).
      rewrite rdy_get_app_r by (apply (Hd (c3 p)); auto).
      rewrite rdy_get_app_r by (apply (Hd (c3 p)); auto).
      rewrite rdy_get_app_l; [apply IH; [cbn [pn c3]; lia|exact Hq|exact Hn]|].
      apply Hlast. apply (Hlev (c3 p)); assumption.
    - subst q.
      assert (Hp : forall c, In c (children p) ->
                   ~ In p (map fst (prep_readiness (tree_log f_ops (false, 0%N) k acc c)))).
      { intros c Hc H. apply readiness_dom in H. apply pwalk_in_top in H.
        rewrite (children_level _ _ Hc) in H. lia. }
      rewrite !rdy_get_app_r by (apply Hp; assumption).
      rewrite prep_readiness_one.
      destruct (Nat.eqb_spec k 0) as [->|Hk0]; [lia|].
      rewrite !(TR_ops acc D) by (cbn [pn c0 c1 c2 c3]; lia).
      rewrite bits_of_bit4. cbn [fst].
      unfold rdy_spec.
      rewrite (glive_top acc D k (c0 p)), (glive_top acc D k (c1 p)),
              (glive_top acc D k (c2 p)), (glive_top acc D k (c3 p))
        by (cbn [pn c0 c1 c2 c3]; lia).
      set (w := bit4 _ _ _ _).
      destruct (N.eqb_spec w 0%N) as [E|E].
      + rewrite E. reflexivity.
      + rewrite rdy_get_cons. cbn [fst snd]. rewrite pos_eqb_refl. reflexivity.
  Qed.

  (* ---- the set of operations of the subtree (K, ap) ------------------------------ *)

  Variable K : nat.
  Variable ap : pos.
  Hypothesis HK : (pn ap + K = S D)%nat.

  Definition ops_of : list pos := filter (gops acc D) (pwalk K acc ap).

  Lemma ops_of_in q :
    In q ops_of <-> In q (pwalk K acc ap) /\ glive acc D q = true /\ pn q <> D.
  Proof.
    unfold ops_of, gops, gleaf.
    rewrite filter_In, andb_true_iff, negb_true_iff, Nat.eqb_neq. tauto.
  Qed.

  Lemma glive_acc q : glive acc D q = true -> acc q = true /\ (pn q <= D)%nat.
  Proof.
    unfold glive. destruct (S D - pn q)%nat as [|k] eqn:E; [discriminate|].
    rewrite live_S, andb_true_iff. intros [H _]. split; [exact H|lia].
  Qed.

  Lemma child_memb q c :
    In q (pwalk K acc ap) -> In c (children q) -> (S (pn q) < D)%nat ->
    memb c ops_of = glive acc D c.
  Proof.
    intros Hq Hc Hlt. pose proof (children_level _ _ Hc) as Hl.
    destruct (glive acc D c) eqn:Eg.
    - apply memb_in, ops_of_in. split; [|split; [exact Eg|lia]].
      apply (pwalk_child_in K acc ap q c Hq Hc); [apply glive_acc; exact Eg|lia].
    - apply memb_false. intros H. apply ops_of_in in H. destruct H as (_ & H & _). congruence.
  Qed.

  Lemma ops_parent q :
    In q ops_of -> q <> ap ->
    exists pp ix iy, parent q = Some (pp, ix, iy) /\ In pp ops_of.
  Proof.
    intros Hq Hne. apply ops_of_in in Hq. destruct Hq as (Hin & Hg & Hn).
    pose proof (glive_acc q Hg) as [_ Hle].
    apply pwalk_in in Hin. destruct Hin as (m & Hm & Hpn & Ha & Hacc).
    destruct m as [|m]; [cbn [ancestor] in Ha; congruence|].
    exists (parent_pos q), (px q mod 2)%N, (py q mod 2)%N. split.
    { unfold parent_pos, parent. destruct (pn q) as [|n] eqn:En; [lia|reflexivity]. }
    pose proof (parent_pos_pn q) as Hpp.
    assert (Hc : In q (children (parent_pos q))) by (apply child_parent_pos; lia).
    apply ops_of_in. split; [|split].
    - apply pwalk_in. exists m. split; [lia|]. split; [lia|]. split.
      + exact Ha.
      + intros i Hi. apply (Hacc (S i)). lia.
    - unfold glive. replace (S D - pn (parent_pos q))%nat with (S (S D - pn q)) by lia.
      rewrite live_S.
      apply andb_true_iff. split; [apply (Hacc 1%nat); lia|].
      unfold glive in Hg.
      apply children_cases in Hc. destruct Hc as [E|[E|[E|E]]]; rewrite <- E, Hg;
        rewrite ?orb_true_r; reflexivity.
    - lia.
  Qed.

  Lemma ops_child q :
    In q ops_of -> (S (pn q) < D)%nat -> exists c, In c (children q) /\ In c ops_of.
  Proof.
    intros Hq Hlt. pose proof Hq as Hq'. apply ops_of_in in Hq'. destruct Hq' as (Hin & Hg & Hn).
    unfold glive in Hg. replace (S D - pn q)%nat with (S (D - pn q)) in Hg by lia.
    rewrite live_S in Hg. apply andb_true_iff in Hg. destruct Hg as [_ Hg].
    destruct (Nat.eqb_spec (D - pn q) 0) as [E|_]; [lia|]. cbn [orb] in Hg.
    assert (Hc : forall c, In c (children q) -> live (D - pn q) acc c = true ->
                 exists c, In c (children q) /\ In c ops_of).
    { intros c Hc Hl. exists c. split; [exact Hc|]. apply memb_in.
      rewrite (child_memb q c Hin Hc Hlt). unfold glive.
      rewrite (children_level _ _ Hc). replace (S D - S (pn q))%nat with (D - pn q)%nat by lia.
      exact Hl. }
    rewrite !orb_true_iff in Hg. destruct Hg as [[[H|H]|H]|H].
    - apply (Hc (c0 q)); [apply children_cases; auto|exact H].
    - apply (Hc (c1 q)); [apply children_cases; auto|exact H].
    - apply (Hc (c2 q)); [apply children_cases; auto|exact H].
    - apply (Hc (c3 q)); [apply children_cases; auto 6|exact H].
  Qed.

  Lemma ops_apex_from n : forall q, In q ops_of -> (pn q - pn ap = n)%nat -> In ap ops_of.
  Proof.
    induction n as [|n IH]; intros q Hq Hd.
    - pose proof Hq as Hq'. apply ops_of_in in Hq'. destruct Hq' as (Hin & _).
      apply pwalk_in_top in Hin. destruct Hin as (_ & Ha & _).
      rewrite Hd in Ha. cbn [ancestor] in Ha. subst q. exact Hq.
    - assert (Hne : q <> ap) by (intros ->; lia).
      destruct (ops_parent q Hq Hne) as (pp & ix & iy & Hp & Hpp).
      apply (IH pp Hpp).
      unfold parent in Hp. destruct (pn q) as [|m] eqn:En; [discriminate|].
      injection Hp as <- _ _. cbn [pn]. lia.
  Qed.

  Lemma ops_apex : ops_of <> [] -> In ap ops_of.
  Proof.
    intros H. destruct ops_of as [|q l] eqn:E; [congruence|].
    rewrite <- E. apply (ops_apex_from (pn q - pn ap) q); [rewrite E; left; reflexivity|reflexivity].
  Qed.
End Prep.

(* ---- the two theorems --------------------------------------------------------------- *)

(* what the preparation pass computes *)
Theorem prep_facts P : wf_pyr P ->
  exists pr, prep P = Some pr /\
    p_total pr = N.of_nat (length (spec_ops P)) /\
    p_seeds pr = filter (fun q => Nat.eqb (S (pn q)) (depth P)) (spec_ops P) /\
    (forall p, In p (spec_ops P) -> (S (pn p) < depth P)%nat ->
       rdy_get (p_rdy pr) p =
       bit4 (negb (memb (c0 p) (spec_ops P))) (negb (memb (c1 p) (spec_ops P)))
            (negb (memb (c2 p) (spec_ops P))) (negb (memb (c3 p) (spec_ops P)))).
Proof.
  intros Hwf. pose proof (spec_ops_eq P Hwf) as Eo. pose proof (wf_levels P Hwf) as HK.
  unfold prep. rewrite (riter_refines f_ops (false, 0%N) P Hwf).
  destruct (apex_reachable P) eqn:Er.
  - rewrite (TR_ops (in_filter P) (depth P)) by exact HK.
    eexists. split; [reflexivity|]. cbn [p_total p_rdy p_seeds]. rewrite Eo.
    split; [reflexivity|]. split; [apply seeds_eq; exact HK|].
    intros p Hp Hlt.
    fold (ops_of (in_filter P) (depth P) (sub_levels P) (apex P)) in *.
    pose proof Hp as Hp'. apply ops_of_in in Hp'. destruct Hp' as (Hin & _ & _).
    rewrite (readiness_get (in_filter P) (depth P) (sub_levels P) (apex P) p HK Hin) by lia.
    unfold rdy_spec.
    rewrite !(child_memb (in_filter P) (depth P) (sub_levels P) (apex P) HK p)
      by (try exact Hin; try exact Hlt; apply children_cases; auto 6).
    reflexivity.
  - eexists. split; [reflexivity|]. cbn [p_total p_rdy p_seeds]. rewrite Eo.
    split; [reflexivity|]. split; [reflexivity|]. intros p [].
Qed.

(* closure of the set of operations *)
Theorem ops_closure P : wf_pyr P ->
  (spec_ops P <> [] -> In (apex P) (spec_ops P)) /\
  (forall p, In p (spec_ops P) -> p <> apex P ->
     exists pp ix iy, parent p = Some (pp, ix, iy) /\ In pp (spec_ops P)) /\
  (forall p, In p (spec_ops P) -> (S (pn p) < depth P)%nat ->
     exists c, In c (children p) /\ In c (spec_ops P)).
Proof.
  intros Hwf. pose proof (spec_ops_eq P Hwf) as Eo. pose proof (wf_levels P Hwf) as HK.
  rewrite Eo. destruct (apex_reachable P).
  - fold (ops_of (in_filter P) (depth P) (sub_levels P) (apex P)).
    split; [apply ops_apex; exact HK|]. split.
    + apply ops_parent; exact HK.
    + apply ops_child; exact HK.
  - split; [congruence|]. split; intros p [].
Qed.

Print Assumptions prep_facts.
Print Assumptions ops_closure.
