(* Proofs about Model/Merge.v (property C02). *)
From Coq Require Import List ZArith QArith Qreduction Bool Lia.
Ltac Zify.zify_post_hook ::= Z.to_euclidean_division_equations.
From Toasty Require Import Model.Quadtree Proofs.QuadtreeP Model.Mask Proofs.MaskP Model.Merge.
Import ListNotations.
Local Open Scope Z_scope.

(* ------------------------------------------------------------------ *)
(* averaging                                                            *)

Lemma iavg_swap a b c d : iavg a b c d = iavg c d a b.
Proof. unfold iavg. f_equal. lia. Qed.

Lemma favg_swap x y z w : favg [x; y; z; w] = favg [z; w; x; y].
Proof.
  destruct x as [x|], y as [y|], z as [z|], w as [w|]; unfold favg; cbn [fdefined flat_map app length qsum fold_right];
    try reflexivity; f_equal; apply Qred_complete; unfold Qdiv; ring.
Qed.

Lemma avg4_swap_rows a b c d : avg4 a b c d = avg4 c d a b.
Proof.
  destruct a, b, c, d; cbn [avg4]; try reflexivity.
  - rewrite favg_swap. reflexivity.
  - rewrite (favg_swap r), (favg_swap g), (favg_swap b0). reflexivity.
  - rewrite iavg_swap. reflexivity.
  - rewrite (iavg_swap r), (iavg_swap g), (iavg_swap b0). reflexivity.
  - rewrite (iavg_swap r), (iavg_swap g), (iavg_swap b0), (iavg_swap a). reflexivity.
Qed.

(* np.nanmean: NaN exactly when every entry is NaN, else the mean of the others *)
Lemma fdefined_nil l : fdefined l = [] <-> (forall v, In v l -> v = None).
Proof.
  induction l as [|[q|] l IH]; cbn [fdefined flat_map app].
  - split; [intros _ v []| reflexivity].
  - split; [discriminate|]. intros H. specialize (H (Some q) (or_introl eq_refl)). discriminate.
  - fold (fdefined l). rewrite IH. split.
    + intros H v [<-|Hv]; auto.
    + intros H v Hv. apply H. right; exact Hv.
Qed.

Lemma favg_spec l :
  (favg l = None <-> forall v, In v l -> v = None) /\
  (forall q, favg l = Some q ->
             fdefined l <> [] /\
             (q == qsum (fdefined l) / inject_Z (Z.of_nat (length (fdefined l))))%Q) /\
  (forall q, In (Some q) l -> favg l <> None).
Proof.
  unfold favg. destruct (fdefined l) as [|d ds] eqn:E.
  - split; [|split].
    + split; [intros _; apply fdefined_nil; exact E | reflexivity].
    + intros q H; discriminate.
    + intros q Hq. pose proof (proj1 (fdefined_nil l) E _ Hq) as X. discriminate.
  - split; [|split].
    + split; [discriminate|]. intros H. apply (proj2 (fdefined_nil l)) in H. congruence.
    + intros q H. split; [discriminate|].
      assert (Hq : Qred (qsum (d :: ds) / inject_Z (Z.of_nat (length (d :: ds)))) = q).
      { exact (f_equal (fun o => match o with Some x => x | None => q end) H). }
      rewrite <- Hq. apply Qred_correct.
    + intros q Hq. discriminate.
Qed.

Lemma iavg_spec a b c d :
  4 * iavg a b c d + Z.rem (a + b + c + d) 4 = a + b + c + d /\
  Z.abs (Z.rem (a + b + c + d) 4) < 4 /\
  (0 <= a + b + c + d -> 0 <= Z.rem (a + b + c + d) 4) /\
  (a + b + c + d <= 0 -> Z.rem (a + b + c + d) 4 <= 0).
Proof.
  unfold iavg. pose proof (Z.quot_rem' (a + b + c + d) 4) as H.
  pose proof (Z.rem_bound_abs (a + b + c + d) 4 ltac:(lia)) as Hb.
  split; [lia|]. split; [lia|]. split; intros Hs.
  - apply Z.rem_nonneg; lia.
  - apply Z.rem_nonpos; lia.
Qed.

(* ------------------------------------------------------------------ *)
(* unit-step views and the quadrant slices                              *)

Lemma view_inv_unit o n R :
  view_inv (mkView o 1 n) R = if (o <=? R) && (R <? o + n) then Some (R - o) else None.
Proof.
  unfold view_inv; cbn [v_first v_step v_count].
  rewrite Z.div_1_r, Z.mul_1_r, Z.eqb_refl. cbn [andb].
  destruct (0 <=? R - o) eqn:E1, (R - o <? n) eqn:E2, (o <=? R) eqn:E3, (R <? o + n) eqn:E4;
    cbn [andb]; try reflexivity; lia.
Qed.

Lemma sl_lo_view k : 0 < k -> slice_view (2 * k) (sl_lo k) = Some (mkView 0 1 k).
Proof. intros Hk. unfold sl_lo. apply slice_view_head. lia. Qed.

Lemma sl_hi_view k : 0 < k -> slice_view (2 * k) (sl_hi k) = Some (mkView k 1 k).
Proof.
  intros Hk. unfold sl_hi. rewrite slice_view_tail by lia. do 2 f_equal. lia.
Qed.

Definition inq (oy ox k R C : Z) : bool :=
  (oy <=? R) && (R <? oy + k) && ((ox <=? C) && (C <? ox + k)).

Lemma inq_true oy ox k R C : oy <= R < oy + k -> ox <= C < ox + k -> inq oy ox k R C = true.
Proof.
  intros H1 H2. unfold inq.
  destruct (oy <=? R) eqn:E1; [|lia]. destruct (R <? oy + k) eqn:E2; [|lia].
  destruct (ox <=? C) eqn:E3; [|lia]. destruct (C <? ox + k) eqn:E4; [|lia]. reflexivity.
Qed.

Lemma inq_false oy ox k R C : ~ (oy <= R < oy + k /\ ox <= C < ox + k) -> inq oy ox k R C = false.
Proof.
  intros H. unfold inq.
  destruct (oy <=? R) eqn:E1; [|reflexivity]. destruct (R <? oy + k) eqn:E2; [|reflexivity].
  destruct (ox <=? C) eqn:E3; [|reflexivity]. destruct (C <? ox + k) eqn:E4; [|reflexivity].
  exfalso; apply H; lia.
Qed.

(* one update of a k x k child into a quadrant of the 2k x 2k buffer *)
Lemma update_quadrant u c b k oy ox by_ bx b' :
  0 < k -> ih b = 2 * k -> iw b = 2 * k ->
  slice_view (2 * k) by_ = Some (mkView oy 1 k) -> slice_view (2 * k) bx = Some (mkView ox 1 k) ->
  0 <= ih c -> 0 <= iw c ->
  update_into_gen u c b full_slice full_slice by_ bx = Some b' ->
  ih c = k /\ iw c = k /\ imode b = maskable (imode c) /\
  ih b' = 2 * k /\ iw b' = 2 * k /\ imode b' = imode b /\
  forall R C, ipx b' R C =
              if inq oy ox k R C then u (imode c) (ipx c (R - oy) (C - ox)) (ipx b R C) else ipx b R C.
Proof.
  intros Hk Hh Hw Sy Sx Hch Hcw. unfold update_into_gen.
  destruct (rects c b full_slice full_slice by_ bx) as [[[[vy vx] wy] wx]|] eqn:ER; [|discriminate].
  intros H; injection H as <-. cbn [ih iw imode ipx].
  destruct (rects_some _ _ _ _ _ _ _ _ _ _ ER) as (Ey & Ex & Fy & Fx & Cy & Cx & Em).
  rewrite slice_view_full in Ey by exact Hch. rewrite slice_view_full in Ex by exact Hcw.
  injection Ey as <-. injection Ex as <-.
  rewrite Hh, Sy in Fy. rewrite Hw, Sx in Fx. injection Fy as <-. injection Fx as <-.
  cbn [v_count] in Cy, Cx.
  repeat split; try assumption.
  intros R C. rewrite !view_inv_unit. unfold inq.
  destruct ((oy <=? R) && (R <? oy + k)); cbn [andb]; [|reflexivity].
  destruct ((ox <=? C) && (C <? ox + k)); [|reflexivity].
  unfold view_at; cbn [v_first v_step]. f_equal. f_equal; ring.
Qed.

(* ------------------------------------------------------------------ *)
(* the buffer after the four updates                                    *)

(* entries: offsets of the quadrant, the slices, the optional child *)
Definition entry := ((Z * Z) * ((slice * slice) * option img))%type.

Definition qpx (u : mode -> pixel -> pixel -> pixel) (k R C : Z) (old : pixel) (e : entry) : pixel :=
  match e with
  | ((oy, ox), (_, Some c)) => if inq oy ox k R C then u (imode c) (ipx c (R - oy) (C - ox)) old else old
  | (_, (_, None)) => old
  end.

Definition entry_ok (k : Z) (e : entry) : Prop :=
  match e with
  | ((oy, ox), ((sy, sx), oc)) =>
      slice_view (2 * k) sy = Some (mkView oy 1 k) /\ slice_view (2 * k) sx = Some (mkView ox 1 k) /\
      match oc with Some c => 0 <= ih c /\ 0 <= iw c | None => True end
  end.

Lemma update_all_px u k : forall (l : list entry) b bf,
  0 < k -> ih b = 2 * k -> iw b = 2 * k ->
  Forall (entry_ok k) l ->
  update_all u b (map snd l) = Some bf ->
  ih bf = 2 * k /\ iw bf = 2 * k /\ imode bf = imode b /\
  (forall e c, In e l -> snd (snd e) = Some c -> ih c = k /\ iw c = k /\ imode b = maskable (imode c)) /\
  forall R C, ipx bf R C = fold_left (qpx u k R C) l (ipx b R C).
Proof.
  induction l as [|e l IH]; intros b bf Hk Hh Hw HF H.
  - cbn in H. injection H as <-. split; [exact Hh|]. split; [exact Hw|]. split; [reflexivity|].
    split; [intros e0 c0 []|]. intros; reflexivity.
  - inversion HF as [|e' l' He Hl]; subst.
    destruct e as [[oy ox] [[sy sx] oc]]. cbn [map snd update_all] in H.
    destruct oc as [c|].
    + destruct (update_into_gen u c b full_slice full_slice sy sx) as [b1|] eqn:EU; [|discriminate].
      cbn [entry_ok] in He. destruct He as (Sy & Sx & Hch & Hcw).
      destruct (update_quadrant u c b k oy ox sy sx b1 Hk Hh Hw Sy Sx Hch Hcw EU)
        as (A1 & A2 & A3 & A4 & A5 & A6 & A7).
      destruct (IH b1 bf Hk A4 A5 Hl H) as (B1 & B2 & B3 & B4 & B5).
      split; [exact B1|]. split; [exact B2|]. split; [congruence|]. split.
      * intros e0 c' [<-|Hin] Hc'.
        -- cbn in Hc'. injection Hc' as <-. auto.
        -- rewrite <- A6. apply (B4 e0 c' Hin Hc').
      * intros R C. rewrite B5. cbn [fold_left qpx]. rewrite A7. reflexivity.
    + destruct (IH b bf Hk Hh Hw Hl H) as (B1 & B2 & B3 & B4 & B5).
      split; [exact B1|]. split; [exact B2|]. split; [exact B3|]. split.
      * intros e0 c' [<-|Hin] Hc'; [discriminate|]. apply (B4 e0 c' Hin Hc').
      * intros R C. rewrite B5. reflexivity.
Qed.

Lemma masked_px_maskable m : masked_px (maskable m) = masked_px m.
Proof. destruct m; reflexivity. Qed.

Lemma maskable_masked_eq m m' : maskable m = maskable m' -> masked_px m = masked_px m'.
Proof. intros H. rewrite <- (masked_px_maskable m), <- (masked_px_maskable m'), H. reflexivity. Qed.

Lemma maskable_idem m : maskable (maskable m) = maskable m.
Proof. destruct m; reflexivity. Qed.

Lemma half_lo k R : 0 <= R < k -> R / k = 0 /\ R mod k = R.
Proof. intros H. split; [apply Z.div_small | apply Z.mod_small]; lia. Qed.

Lemma half_hi k R : 0 < k -> k <= R < 2 * k -> R / k = 1 /\ R mod k = R - k.
Proof.
  intros Hk H. split.
  - symmetry. apply (Z.div_unique R k 1 (R - k)); lia.
  - symmetry. apply (Z.mod_unique R k 1 (R - k)); lia.
Qed.

Definition offsets (bu : bool) (k : Z) : list (Z * Z) :=
  if bu then [(k, 0); (k, k); (0, 0); (0, k)] else [(0, 0); (0, k); (k, 0); (k, k)].

Lemma first_present_in cs c : first_present cs = Some c -> In (Some c) cs.
Proof.
  induction cs as [|[x|] cs IH]; cbn [first_present]; intros H; try discriminate.
  - injection H as <-. left; reflexivity.
  - right; auto.
Qed.

Lemma first_present_none cs : first_present cs = None -> forall c, In c cs -> c = None.
Proof.
  induction cs as [|[x|] cs IH]; cbn [first_present]; intros H c Hc; try discriminate.
  - destruct Hc.
  - destruct Hc as [<-|Hc]; auto.
Qed.

Definition dims_ok (cs : list (option img)) : Prop :=
  forall ch, In (Some ch) cs -> 0 <= ih ch /\ 0 <= iw ch.

Definition b_init (m0 : mode) (k : Z) : img :=
  clear (make_maskable_buffer m0 (2 * k) (2 * k) (fun _ _ => masked_px m0)).

Lemma four_entries u k m0 o0 o1 o2 o3 s0 s1 s2 s3 c0 c1 c2 c3 bf :
  0 < k -> dims_ok [c0; c1; c2; c3] ->
  slice_view (2 * k) (fst s0) = Some (mkView (fst o0) 1 k) -> slice_view (2 * k) (snd s0) = Some (mkView (snd o0) 1 k) ->
  slice_view (2 * k) (fst s1) = Some (mkView (fst o1) 1 k) -> slice_view (2 * k) (snd s1) = Some (mkView (snd o1) 1 k) ->
  slice_view (2 * k) (fst s2) = Some (mkView (fst o2) 1 k) -> slice_view (2 * k) (snd s2) = Some (mkView (snd o2) 1 k) ->
  slice_view (2 * k) (fst s3) = Some (mkView (fst o3) 1 k) -> slice_view (2 * k) (snd s3) = Some (mkView (snd o3) 1 k) ->
  update_all u (b_init m0 k) [(s0, c0); (s1, c1); (s2, c2); (s3, c3)] = Some bf ->
  ih bf = 2 * k /\ iw bf = 2 * k /\ imode bf = maskable m0 /\
  (forall ch, In (Some ch) [c0; c1; c2; c3] ->
              ih ch = k /\ iw ch = k /\ maskable (imode ch) = maskable m0) /\
  forall R C, ipx bf R C =
              fold_left (qpx u k R C) [(o0, (s0, c0)); (o1, (s1, c1)); (o2, (s2, c2)); (o3, (s3, c3))]
                        (masked_px m0).
Proof.
  intros Hk Hd A0 B0 A1 B1 A2 B2 A3 B3 H.
  set (l := [(o0, (s0, c0)); (o1, (s1, c1)); (o2, (s2, c2)); (o3, (s3, c3))] : list entry).
  assert (D : forall oc, In oc [c0; c1; c2; c3] ->
                         match oc with Some c => 0 <= ih c /\ 0 <= iw c | None => True end).
  { intros [c|] Hin; [apply Hd; exact Hin | exact I]. }
  assert (HF : Forall (entry_ok k) l).
  { unfold l. destruct o0, o1, o2, o3, s0, s1, s2, s3; cbn [fst snd] in *.
    repeat constructor; cbn [entry_ok]; repeat split; try assumption; apply D; cbn; auto. }
  change [(s0, c0); (s1, c1); (s2, c2); (s3, c3)] with (map snd l) in H.
  destruct (update_all_px u k l (b_init m0 k) bf Hk eq_refl eq_refl HF H) as (X1 & X2 & X3 & X4 & X5).
  split; [exact X1|]. split; [exact X2|]. split; [rewrite X3; reflexivity|]. split.
  - intros ch Hin.
    assert (exists e, In e l /\ snd (snd e) = Some ch) as (e & He & Hs).
    { unfold l. cbn [In] in Hin. destruct Hin as [E|[E|[E|[E|[]]]]]; subst.
      - exists (o0, (s0, Some ch)). split; [cbn [In]; auto|reflexivity].
      - exists (o1, (s1, Some ch)). split; [cbn [In]; auto|reflexivity].
      - exists (o2, (s2, Some ch)). split; [cbn [In]; auto|reflexivity].
      - exists (o3, (s3, Some ch)). split; [cbn [In]; auto 6|reflexivity]. }
    destruct (X4 e ch He Hs) as (Y1 & Y2 & Y3). repeat split; auto.
  - intros R C. rewrite X5. unfold b_init; cbn [clear make_maskable_buffer imode ipx].
    replace (clear_px (maskable m0)) with (masked_px m0) by (destruct m0; reflexivity). reflexivity.
Qed.

(* the buffer handed to the merger, in terms of the display-orientation mosaic *)
Lemma merge_buffer u f k c0 c1 c2 c3 m0 bf :
  0 < k -> dims_ok [c0; c1; c2; c3] ->
  update_all u (b_init m0 k) (combine (slices_for f k) [c0; c1; c2; c3]) = Some bf ->
  ih bf = 2 * k /\ iw bf = 2 * k /\ imode bf = maskable m0 /\
  (forall ch, In (Some ch) [c0; c1; c2; c3] ->
              ih ch = k /\ iw ch = k /\ maskable (imode ch) = maskable m0) /\
  forall R C, 0 <= R < 2 * k -> 0 <= C < 2 * k ->
              ipx bf R C = mosaic_of (mosaic_val_gen u) (bottom_up f) k m0 [c0; c1; c2; c3]
                                     (if bottom_up f then 2 * k - 1 - R else R) C.
Proof.
  intros Hk Hd H.
  pose proof (sl_lo_view k Hk) as Lo. pose proof (sl_hi_view k Hk) as Hi.
  unfold slices_for in H.
  destruct (bottom_up f).
  - (* bottom-up storage: opposite table *)
    unfold slices_opposite in H; cbn [combine] in H.
    destruct (four_entries u k m0 (k, 0) (k, k) (0, 0) (0, k)
                (sl_hi k, sl_lo k) (sl_hi k, sl_hi k) (sl_lo k, sl_lo k) (sl_lo k, sl_hi k) c0 c1 c2 c3 bf Hk Hd
                Hi Lo Hi Hi Lo Lo Lo Hi H) as (X1 & X2 & X3 & Hm & X5).
    split; [exact X1|]. split; [exact X2|]. split; [exact X3|]. split; [exact Hm|].
    intros R C HR HC. rewrite X5.
    assert (Hmk : forall ch, In (Some ch) [c0; c1; c2; c3] -> masked_px m0 = masked_px (imode ch)).
    { intros ch Hin. apply maskable_masked_eq. symmetry. apply (Hm ch Hin). }
    assert (Hih : forall ch, In (Some ch) [c0; c1; c2; c3] -> ih ch = k) by (intros ch Hin; apply (Hm ch Hin)).
    unfold mosaic_of, mosaic_val_gen, disp. cbn [fold_left qpx].
    destruct (Z_lt_ge_dec R k) as [HRk|HRk]; destruct (Z_lt_ge_dec C k) as [HCk|HCk].
    + destruct (half_hi k (2 * k - 1 - R) Hk ltac:(lia)) as [-> ->].
      destruct (half_lo k C ltac:(lia)) as [-> ->].
      change (Z.to_nat (0 + 2 * 1)) with 2%nat. cbn [nth].
      destruct c0 as [x0|], c1 as [x1|], c2 as [x2|], c3 as [x3|];
        rewrite ?(inq_false k 0 k R C) by lia; rewrite ?(inq_false k k k R C) by lia;
        rewrite ?(inq_true 0 0 k R C) by lia; rewrite ?(inq_false 0 k k R C) by lia;
        try reflexivity;
        rewrite (Hih x2) by (cbn; auto); rewrite (Hmk x2) by (cbn; auto);
        f_equal; f_equal; lia.
    + destruct (half_hi k (2 * k - 1 - R) Hk ltac:(lia)) as [-> ->].
      destruct (half_hi k C Hk ltac:(lia)) as [-> ->].
      change (Z.to_nat (1 + 2 * 1)) with 3%nat. cbn [nth].
      destruct c0 as [x0|], c1 as [x1|], c2 as [x2|], c3 as [x3|];
        rewrite ?(inq_false k 0 k R C) by lia; rewrite ?(inq_false k k k R C) by lia;
        rewrite ?(inq_false 0 0 k R C) by lia; rewrite ?(inq_true 0 k k R C) by lia;
        try reflexivity;
        rewrite (Hih x3) by (cbn; auto); rewrite (Hmk x3) by (cbn; auto);
        f_equal; f_equal; lia.
    + destruct (half_lo k (2 * k - 1 - R) ltac:(lia)) as [-> ->].
      destruct (half_lo k C ltac:(lia)) as [-> ->].
      change (Z.to_nat (0 + 2 * 0)) with 0%nat. cbn [nth].
      destruct c0 as [x0|], c1 as [x1|], c2 as [x2|], c3 as [x3|];
        rewrite ?(inq_true k 0 k R C) by lia; rewrite ?(inq_false k k k R C) by lia;
        rewrite ?(inq_false 0 0 k R C) by lia; rewrite ?(inq_false 0 k k R C) by lia;
        try reflexivity;
        rewrite (Hih x0) by (cbn; auto); rewrite (Hmk x0) by (cbn; auto);
        f_equal; f_equal; lia.
    + destruct (half_lo k (2 * k - 1 - R) ltac:(lia)) as [-> ->].
      destruct (half_hi k C Hk ltac:(lia)) as [-> ->].
      change (Z.to_nat (1 + 2 * 0)) with 1%nat. cbn [nth].
      destruct c0 as [x0|], c1 as [x1|], c2 as [x2|], c3 as [x3|];
        rewrite ?(inq_false k 0 k R C) by lia; rewrite ?(inq_true k k k R C) by lia;
        rewrite ?(inq_false 0 0 k R C) by lia; rewrite ?(inq_false 0 k k R C) by lia;
        try reflexivity;
        rewrite (Hih x1) by (cbn; auto); rewrite (Hmk x1) by (cbn; auto);
        f_equal; f_equal; lia.
  - (* top-down storage: matching table *)
    unfold slices_matching in H; cbn [combine] in H.
    destruct (four_entries u k m0 (0, 0) (0, k) (k, 0) (k, k)
                (sl_lo k, sl_lo k) (sl_lo k, sl_hi k) (sl_hi k, sl_lo k) (sl_hi k, sl_hi k) c0 c1 c2 c3 bf Hk Hd
                Lo Lo Lo Hi Hi Lo Hi Hi H) as (X1 & X2 & X3 & Hm & X5).
    split; [exact X1|]. split; [exact X2|]. split; [exact X3|]. split; [exact Hm|].
    intros R C HR HC. rewrite X5.
    assert (Hmk : forall ch, In (Some ch) [c0; c1; c2; c3] -> masked_px m0 = masked_px (imode ch)).
    { intros ch Hin. apply maskable_masked_eq. symmetry. apply (Hm ch Hin). }
    unfold mosaic_of, mosaic_val_gen, disp. cbn [fold_left qpx].
    destruct (Z_lt_ge_dec R k) as [HRk|HRk]; destruct (Z_lt_ge_dec C k) as [HCk|HCk].
    + destruct (half_lo k R ltac:(lia)) as [-> ->]. destruct (half_lo k C ltac:(lia)) as [-> ->].
      change (Z.to_nat (0 + 2 * 0)) with 0%nat. cbn [nth].
      destruct c0 as [x0|], c1 as [x1|], c2 as [x2|], c3 as [x3|];
        rewrite ?(inq_true 0 0 k R C) by lia; rewrite ?(inq_false 0 k k R C) by lia;
        rewrite ?(inq_false k 0 k R C) by lia; rewrite ?(inq_false k k k R C) by lia;
        try reflexivity;
        rewrite (Hmk x0) by (cbn; auto); f_equal; f_equal; lia.
    + destruct (half_lo k R ltac:(lia)) as [-> ->]. destruct (half_hi k C Hk ltac:(lia)) as [-> ->].
      change (Z.to_nat (1 + 2 * 0)) with 1%nat. cbn [nth].
      destruct c0 as [x0|], c1 as [x1|], c2 as [x2|], c3 as [x3|];
        rewrite ?(inq_false 0 0 k R C) by lia; rewrite ?(inq_true 0 k k R C) by lia;
        rewrite ?(inq_false k 0 k R C) by lia; rewrite ?(inq_false k k k R C) by lia;
        try reflexivity;
        rewrite (Hmk x1) by (cbn; auto); f_equal; f_equal; lia.
    + destruct (half_hi k R Hk ltac:(lia)) as [-> ->]. destruct (half_lo k C ltac:(lia)) as [-> ->].
      change (Z.to_nat (0 + 2 * 1)) with 2%nat. cbn [nth].
      destruct c0 as [x0|], c1 as [x1|], c2 as [x2|], c3 as [x3|];
        rewrite ?(inq_false 0 0 k R C) by lia; rewrite ?(inq_false 0 k k R C) by lia;
        rewrite ?(inq_true k 0 k R C) by lia; rewrite ?(inq_false k k k R C) by lia;
        try reflexivity;
        rewrite (Hmk x2) by (cbn; auto); f_equal; f_equal; lia.
    + destruct (half_hi k R Hk ltac:(lia)) as [-> ->]. destruct (half_hi k C Hk ltac:(lia)) as [-> ->].
      change (Z.to_nat (1 + 2 * 1)) with 3%nat. cbn [nth].
      destruct c0 as [x0|], c1 as [x1|], c2 as [x2|], c3 as [x3|];
        rewrite ?(inq_false 0 0 k R C) by lia; rewrite ?(inq_false 0 k k R C) by lia;
        rewrite ?(inq_false k 0 k R C) by lia; rewrite ?(inq_true k k k R C) by lia;
        try reflexivity;
        rewrite (Hmk x3) by (cbn; auto); f_equal; f_equal; lia.
Qed.

(* ------------------------------------------------------------------ *)
(* the merged tile                                                      *)

Lemma merge_pixel_gen u f k c0 c1 c2 c3 out :
  0 < k -> dims_ok [c0; c1; c2; c3] ->
  merge_tiles_gen u f k [c0; c1; c2; c3] = Some (Some out) ->
  exists ch0,
    first_present [c0; c1; c2; c3] = Some ch0 /\
    ih out = k /\ iw out = k /\ imode out = maskable (imode ch0) /\
    (forall ch, In (Some ch) [c0; c1; c2; c3] ->
                ih ch = k /\ iw ch = k /\ maskable (imode ch) = maskable (imode ch0)) /\
    forall i j, 0 <= i < k -> 0 <= j < k ->
                disp (bottom_up f) out i j =
                block_avg (mosaic_of (mosaic_val_gen u) (bottom_up f) k (imode ch0) [c0; c1; c2; c3]) i j.
Proof.
  intros Hk Hd. unfold merge_tiles_gen.
  destruct (first_present [c0; c1; c2; c3]) as [ch0|] eqn:EF; [|discriminate].
  fold (b_init (imode ch0) k).
  destruct (update_all u (b_init (imode ch0) k) (combine (slices_for f k) [c0; c1; c2; c3])) as [bf|] eqn:EU;
    [|discriminate].
  intros H; injection H as <-.
  destruct (merge_buffer u f k c0 c1 c2 c3 (imode ch0) bf Hk Hd EU) as (X1 & X2 & X3 & Hm & X5).
  exists ch0. split; [reflexivity|].
  assert (Eh : ih bf / 2 = k) by (rewrite X1, Z.mul_comm; apply Z.div_mul; lia).
  assert (Ew : iw bf / 2 = k) by (rewrite X2, Z.mul_comm; apply Z.div_mul; lia).
  cbn [averaging_merger ih iw imode].
  split; [exact Eh|]. split; [exact Ew|]. split; [exact X3|]. split; [exact Hm|].
  intros i j Hi Hj. unfold disp, block_avg. cbn [averaging_merger ih ipx]. rewrite Eh.
  destruct (bottom_up f).
  - rewrite !X5 by lia.
    replace (2 * k - 1 - 2 * (k - 1 - i)) with (2 * i + 1) by lia.
    replace (2 * k - 1 - (2 * (k - 1 - i) + 1)) with (2 * i) by lia.
    apply avg4_swap_rows.
  - rewrite !X5 by lia. reflexivity.
Qed.

Lemma nth_some_in {A} (l : list (option A)) n x : nth n l None = Some x -> In (Some x) l.
Proof.
  revert n. induction l as [|a l IH]; intros [|n] H; cbn [nth] in H; try discriminate.
  - left; exact H.
  - right; eapply IH; eauto.
Qed.

Lemma mosaic_of_ext v1 v2 bu k m cs r c :
  (forall ch y x, In (Some ch) cs -> v1 (imode ch) (ipx ch y x) = v2 (imode ch) (ipx ch y x)) ->
  mosaic_of v1 bu k m cs r c = mosaic_of v2 bu k m cs r c.
Proof.
  intros H. unfold mosaic_of.
  destruct (nth (Z.to_nat (c / k + 2 * (r / k))) cs None) as [ch|] eqn:E; [|reflexivity].
  apply nth_some_in in E. unfold disp. destruct bu; apply H; exact E.
Qed.

(* contributions under the code's rule and under the repaired rule *)
Lemma mosaic_val_coded m s :
  px_ok m s = true -> (is_int_mode m = true -> nonneg_px s) ->
  mosaic_val_gen upd_px m s = mosaic_val m s.
Proof.
  intros Hok Hn. unfold mosaic_val_gen, mosaic_val.
  destruct m; cbn [is_int_mode upd_px] in *; try reflexivity;
    destruct s; try discriminate; cbn [masked_px]; specialize (Hn eq_refl); cbn [nonneg_px] in Hn;
    f_equal; lia.
Qed.

Lemma mosaic_val_fixed m s :
  px_ok m s = true -> mosaic_val_gen upd_px_fixed m s = mosaic_val m s.
Proof.
  intros Hok. unfold mosaic_val_gen, mosaic_val.
  destruct m; cbn [is_int_mode upd_px_fixed upd_px] in *; try reflexivity;
    destruct s; try discriminate; reflexivity.
Qed.

Definition children_ok (cs : list (option img)) : Prop :=
  forall ch, In (Some ch) cs -> img_ok ch /\ 0 <= ih ch /\ 0 <= iw ch.

Lemma children_ok_dims cs : children_ok cs -> dims_ok cs.
Proof. intros H ch Hin. destruct (H ch Hin) as (_ & A & B). auto. Qed.

Lemma block_avg_ext M1 M2 i j :
  (forall r c, M1 r c = M2 r c) -> block_avg M1 i j = block_avg M2 i j.
Proof. intros H. unfold block_avg. rewrite !H. reflexivity. Qed.

Definition merge_pixel_statement (merge : fmt -> Z -> list (option img) -> option (option img))
           (extra : list (option img) -> Prop) : Prop :=
  forall f k c0 c1 c2 c3 out,
    0 < k -> children_ok [c0; c1; c2; c3] -> extra [c0; c1; c2; c3] ->
    merge f k [c0; c1; c2; c3] = Some (Some out) ->
    exists ch0,
      first_present [c0; c1; c2; c3] = Some ch0 /\
      ih out = k /\ iw out = k /\ imode out = maskable (imode ch0) /\
      (forall ch, In (Some ch) [c0; c1; c2; c3] ->
                  ih ch = k /\ iw ch = k /\ maskable (imode ch) = maskable (imode ch0)) /\
      forall i j, 0 <= i < k -> 0 <= j < k ->
                  disp (bottom_up f) out i j =
                  block_avg (mosaic_of mosaic_val (bottom_up f) k (imode ch0) [c0; c1; c2; c3]) i j.

Lemma merge_pixel_lemma : merge_pixel_statement merge_tiles nonneg_children.
Proof.
  intros f k c0 c1 c2 c3 out Hk Hok Hnn H.
  destruct (merge_pixel_gen upd_px f k c0 c1 c2 c3 out Hk (children_ok_dims _ Hok) H)
    as (ch0 & A & B & C & D & E & F).
  exists ch0. repeat split; try assumption; try (apply (E ch); assumption).
  intros i j Hi Hj. rewrite (F i j Hi Hj). apply block_avg_ext. intros r c.
  apply mosaic_of_ext. intros ch y x Hin. apply mosaic_val_coded.
  - apply (Hok ch Hin).
  - intros Hint. apply (Hnn ch Hin Hint).
Qed.

Lemma merge_pixel_fixed_lemma : merge_pixel_statement merge_tiles_fixed (fun _ => True).
Proof.
  intros f k c0 c1 c2 c3 out Hk Hok _ H.
  destruct (merge_pixel_gen upd_px_fixed f k c0 c1 c2 c3 out Hk (children_ok_dims _ Hok) H)
    as (ch0 & A & B & C & D & E & F).
  exists ch0. repeat split; try assumption; try (apply (E ch); assumption).
  intros i j Hi Hj. rewrite (F i j Hi Hj). apply block_avg_ext. intros r c.
  apply mosaic_of_ext. intros ch y x Hin. apply mosaic_val_fixed. apply (Hok ch Hin).
Qed.

(* the faithful model refutes the unrestricted statement: negative integer
   children are clamped to zero by np.maximum against the cleared buffer *)
Definition neg_tile : img := mkImg 1 1 I16 (fun _ _ => PxI (-8)).
Definition neg_children : list (option img) := [Some neg_tile; Some neg_tile; Some neg_tile; Some neg_tile].

Lemma merge_tiles_early u f k cs :
  merge_tiles_gen u f k cs = Some None -> forall c, In c cs -> c = None.
Proof.
  unfold merge_tiles_gen. destruct (first_present cs) as [c|] eqn:E.
  - destruct (update_all u _ _); discriminate.
  - intros _. apply first_present_none; exact E.
Qed.

Lemma merge_int_refuted_lemma : ~ merge_pixel_statement merge_tiles (fun _ => True).
Proof.
  intros H.
  assert (Hok : children_ok neg_children).
  { intros ch Hin. assert (ch = neg_tile) as -> by (cbn in Hin; intuition congruence).
    split; [intros r c; reflexivity | cbn; lia]. }
  assert (E' : match merge_tiles Npy 1 neg_children with None => false | _ => true end = true)
    by (vm_compute; reflexivity).
  destruct (merge_tiles Npy 1 neg_children) as [[out|]|] eqn:E; [| |discriminate].
  - destruct (H Npy 1 _ _ _ _ out ltac:(lia) Hok I E) as (ch0 & A & _ & _ & _ & _ & F).
    destruct (merge_pixel_gen upd_px Npy 1 _ _ _ _ out ltac:(lia) (children_ok_dims _ Hok) E)
      as (ch1 & A1 & _ & _ & _ & _ & G).
    cbn in A, A1. injection A as <-. injection A1 as <-.
    specialize (F 0 0 ltac:(lia) ltac:(lia)). specialize (G 0 0 ltac:(lia) ltac:(lia)).
    rewrite G in F. vm_compute in F. discriminate.
  - pose proof (merge_tiles_early upd_px Npy 1 neg_children E (Some neg_tile) (or_introl eq_refl)). discriminate.
Qed.

Lemma merge_tiles_shape u f k cs out :
  merge_tiles_gen u f k cs = Some (Some out) -> exists c, first_present cs = Some c.
Proof. unfold merge_tiles_gen. destruct (first_present cs); [eauto|discriminate]. Qed.

Lemma merge_tiles_all_absent u f k cs :
  (forall c, In c cs -> c = None) -> merge_tiles_gen u f k cs = Some None.
Proof.
  intros H. unfold merge_tiles_gen.
  destruct (first_present cs) as [c|] eqn:E; [|reflexivity].
  apply first_present_in in E. specialize (H _ E). discriminate.
Qed.


(* averaging rules, as statements about avg4 *)
Lemma avg4_float x y z w : avg4 (PxF x) (PxF y) (PxF z) (PxF w) = PxF (favg [x; y; z; w]).
Proof. reflexivity. Qed.

Lemma avg4_float3 x1 x2 x3 y1 y2 y3 z1 z2 z3 w1 w2 w3 :
  avg4 (PxF3 x1 x2 x3) (PxF3 y1 y2 y3) (PxF3 z1 z2 z3) (PxF3 w1 w2 w3) =
  PxF3 (favg [x1; y1; z1; w1]) (favg [x2; y2; z2; w2]) (favg [x3; y3; z3; w3]).
Proof. reflexivity. Qed.

Lemma avg4_int x y z w : avg4 (PxI x) (PxI y) (PxI z) (PxI w) = PxI (Z.quot (x + y + z + w) 4).
Proof. reflexivity. Qed.

Lemma avg4_rgba x1 x2 x3 x4 y1 y2 y3 y4 z1 z2 z3 z4 w1 w2 w3 w4 :
  avg4 (PxC x1 x2 x3 x4) (PxC y1 y2 y3 y4) (PxC z1 z2 z3 z4) (PxC w1 w2 w3 w4) =
  PxC (Z.quot (x1 + y1 + z1 + w1) 4) (Z.quot (x2 + y2 + z2 + w2) 4)
      (Z.quot (x3 + y3 + z3 + w3) 4) (Z.quot (x4 + y4 + z4 + w4) 4).
Proof. reflexivity. Qed.

(* ------------------------------------------------------------------ *)
(* walk_callback on the store                                           *)

Lemma read_none_image orc dflt st c :
  rres_image orc (read_image dflt st c DNone None None) = option_map (decode orc) (st c dflt).
Proof.
  unfold read_image, or_default. destruct (st c dflt) as [[im|h w]|]; reflexivity.
Qed.

Definition child_files (orc : pos -> Z -> Z -> pixel) (dflt : fmt) (st : store) (p : pos) : list (option img) :=
  map (fun c => option_map (decode (orc c)) (st c dflt)) (children p).

Lemma cascade_gen_nil u dflt k orc st : cascade_gen u dflt k orc st [] = Some st.
Proof. reflexivity. Qed.

Lemma cascade_gen_cons u dflt k orc st p rest :
  cascade_gen u dflt k orc st (p :: rest) =
  match walk_callback_gen u dflt k orc st p with
  | None => None
  | Some st' => cascade_gen u dflt k orc st' rest
  end.
Proof. reflexivity. Qed.

Lemma st_set_at st p f v q g :
  st_set st p f v q g = if pos_eqb q p && fmt_eqb g f then v else st q g.
Proof. reflexivity. Qed.

Lemma walk_callback_effect u dflt k orc st p st' :
  walk_callback_gen u dflt k orc st p = Some st' ->
  match merge_tiles_gen u dflt k (child_files orc dflt st p) with
  | None => False
  | Some None =>
      (* nothing to merge: a tile already lying at p is unlinked *)
      forall q f, st' q f = if pos_eqb q p && fmt_eqb f dflt then None else st q f
  | Some (Some m) =>
      forall q f, st' q f = if pos_eqb q p && fmt_eqb f dflt
                            then (if is_completely_masked m then None else encode dflt m)
                            else st q f
  end.
Proof.
  unfold walk_callback_gen, walk_callback_var, child_files.
  assert (E : map (fun c => rres_image (orc c) (read_image dflt st c DNone None None)) (children p)
              = map (fun c => option_map (decode (orc c)) (st c dflt)) (children p)).
  { apply map_ext. intros c. apply read_none_image. }
  rewrite E.
  destruct (merge_tiles_gen u dflt k _) as [[m|]|]; [| |discriminate].
  - intros H q f. rewrite (write_image_at _ _ _ _ _ _ H q f). reflexivity.
  - intros H; injection H as <-. intros q f. apply st_set_at.
Qed.

(* ------------------------------------------------------------------ *)
(* cascade                                                              *)

Lemma children_depth p c : In c (children p) -> pn c = S (pn p).
Proof. unfold children. cbn [In]. intros [<-|[<-|[<-|[<-|[]]]]]; reflexivity. Qed.

Lemma pos_eqb_neq a b : a <> b -> pos_eqb a b = false.
Proof. intros H. destruct (pos_eqb a b) eqn:E; [|reflexivity]. apply pos_eqb_eq in E. contradiction. Qed.

Lemma fmt_eqb_refl f : fmt_eqb f f = true.
Proof. destruct f; reflexivity. Qed.

Section Cascade.
  Variable u : mode -> pixel -> pixel -> pixel.
  Variable dflt : fmt.
  Variable k : Z.
  Variable orc : pos -> Z -> Z -> pixel.
  Variable start : nat.
  Variable st0 : store.

  Let leaves : pos -> option fdata := fun p => st0 p dflt.
  Let pspec : nat -> pos -> option fdata := pyramid_spec u dflt k orc leaves.
  Let spec (p : pos) : option fdata := pspec (start - pn p) p.

  Lemma spec_unfold p :
    (pn p < start)%nat ->
    spec p = match merge_tiles_gen u dflt k (map (fun c => option_map (decode (orc c)) (spec c)) (children p)) with
             | Some (Some m) => if is_completely_masked m then None else encode dflt m
             | _ => None
             end.
  Proof.
    intros Hp. unfold spec, pspec.
    replace (start - pn p)%nat with (S (start - S (pn p))) by lia.
    cbn [pyramid_spec].
    assert (E : map (fun c => option_map (decode (orc c)) (pyramid_spec u dflt k orc leaves (start - S (pn p)) c)) (children p)
                = map (fun c => option_map (decode (orc c)) (pyramid_spec u dflt k orc leaves (start - pn c) c)) (children p)).
    { apply map_ext_in. intros c Hc. rewrite (children_depth p c Hc). reflexivity. }
    rewrite E. reflexivity.
  Qed.

  Lemma spec_leaf p : pn p = start -> spec p = st0 p dflt.
  Proof. intros Hp. unfold spec, pspec. rewrite Hp, Nat.sub_diag. reflexivity. Qed.

  Lemma spec_none_children p :
    (pn p < start)%nat -> (forall c, In c (children p) -> spec c = None) -> spec p = None.
  Proof.
    intros Hp H. rewrite (spec_unfold p Hp).
    rewrite merge_tiles_all_absent; [reflexivity|].
    intros oc Hin. apply in_map_iff in Hin. destruct Hin as (c & <- & Hc). rewrite (H c Hc). reflexivity.
  Qed.

  Variable order : list pos.
  Hypothesis order_depth : forall p, In p order -> (pn p < start)%nat.
  Hypothesis order_nodup : NoDup order.
  Hypothesis order_cf : children_first order.
  Hypothesis order_covers : covers pspec start order.
  (* every tile already lying above the start level is visited *)
  Hypothesis present_covered : covers_present dflt st0 start order.

  Lemma not_in_order_absent p : (pn p < start)%nat -> ~ In p order -> st0 p dflt = None.
  Proof.
    intros Hp Hn. destruct (st0 p dflt) as [d|] eqn:E; [|reflexivity].
    exfalso. apply Hn. apply present_covered; [exact Hp|]. rewrite E. discriminate.
  Qed.

  Lemma not_in_order_none p : (pn p < start)%nat -> ~ In p order -> spec p = None.
  Proof.
    intros Hp Hn. apply spec_none_children; [exact Hp|]. intros c Hc.
    destruct (spec c) as [d|] eqn:E; [|reflexivity].
    exfalso. apply Hn. apply order_covers; [exact Hp|].
    exists c. split; [exact Hc|]. unfold spec in E. rewrite (children_depth p c Hc) in E.
    rewrite E. discriminate.
  Qed.

  Definition inv (done : list pos) (st : store) : Prop :=
    (forall p, (start <= pn p)%nat -> st p dflt = st0 p dflt) /\
    (forall p, In p done -> st p dflt = spec p) /\
    (forall p, ~ In p done -> (pn p < start)%nat -> st p dflt = st0 p dflt) /\
    (forall p f, fmt_eqb f dflt = false -> st p f = st0 p f).

  Lemma cascade_inv : forall rest done st st',
    order = done ++ rest -> inv done st ->
    cascade_gen u dflt k orc st rest = Some st' -> inv order st'.
  Proof.
    induction rest as [|p rest IH]; intros done st st' Eo Hinv H.
    - rewrite cascade_gen_nil in H. injection H as <-. rewrite app_nil_r in Eo. subst done. exact Hinv.
    - rewrite cascade_gen_cons in H.
      destruct (walk_callback_gen u dflt k orc st p) as [st1|] eqn:EW; [|discriminate].
      apply (IH (done ++ [p]) st1 st'); [rewrite <- app_assoc; exact Eo | | exact H].
      destruct Hinv as (I1 & I2 & I3 & I4).
      assert (Hp : (pn p < start)%nat) by (apply order_depth; rewrite Eo; apply in_or_app; right; left; reflexivity).
      assert (Hpn : ~ In p done).
      { rewrite Eo in order_nodup. apply NoDup_remove_2 in order_nodup.
        intros X. apply order_nodup. apply in_or_app; left; exact X. }
      (* children files are the spec *)
      assert (Hch : forall c, In c (children p) -> st c dflt = spec c).
      { intros c Hc. pose proof (children_depth p c Hc) as Dc.
        destruct (Nat.eq_dec (pn c) start) as [Es|Es].
        - rewrite (spec_leaf c Es). apply I1. lia.
        - assert (Hc' : (pn c < start)%nat) by lia.
          destruct (in_dec pos_eq_dec c done) as [Hin|Hnin]; [apply I2; exact Hin|].
          assert (Hco : ~ In c order).
          { intros Hco. apply Hnin. apply (order_cf done p rest c Eo Hc Hco). }
          rewrite (I3 c Hnin Hc'), (not_in_order_absent c Hc' Hco).
          symmetry. apply not_in_order_none; assumption. }
      assert (Ecs : child_files orc dflt st p = map (fun c => option_map (decode (orc c)) (spec c)) (children p)).
      { unfold child_files. apply map_ext_in. intros c Hc. rewrite (Hch c Hc). reflexivity. }
      pose proof (walk_callback_effect u dflt k orc st p st1 EW) as Eff.
      pose proof (spec_unfold p Hp) as Sp.
      rewrite Ecs in Eff.
      destruct (merge_tiles_gen u dflt k (map (fun c => option_map (decode (orc c)) (spec c)) (children p)))
        as [[m|]|]; [| |contradiction].
      + (* written (or removed) *)
        split; [|split; [|split]].
        * intros q Hq. rewrite Eff. rewrite pos_eqb_neq; [apply I1; exact Hq|]. intros ->. lia.
        * intros q Hq. apply in_app_or in Hq. destruct Hq as [Hq|[<-|[]]].
          -- rewrite Eff. rewrite pos_eqb_neq; [apply I2; exact Hq|]. intros ->. contradiction.
          -- rewrite Eff, pos_eqb_refl, fmt_eqb_refl.
             cbn [andb]. symmetry; exact Sp.
        * intros q Hq Hd. rewrite Eff. rewrite pos_eqb_neq.
          -- apply I3; [|exact Hd]. intros X. apply Hq. apply in_or_app; left; exact X.
          -- intros ->. apply Hq. apply in_or_app; right; left; reflexivity.
        * intros q f Hf. rewrite Eff, Hf, andb_false_r. apply I4; exact Hf.
      + (* all children absent: whatever lay at p is unlinked *)
        split; [|split; [|split]].
        * intros q Hq. rewrite Eff. rewrite pos_eqb_neq; [apply I1; exact Hq|]. intros ->. lia.
        * intros q Hq. apply in_app_or in Hq. destruct Hq as [Hq|[<-|[]]].
          -- rewrite Eff. rewrite pos_eqb_neq; [apply I2; exact Hq|]. intros ->. contradiction.
          -- rewrite Eff, pos_eqb_refl, fmt_eqb_refl. cbn [andb]. symmetry; exact Sp.
        * intros q Hq Hd. rewrite Eff. rewrite pos_eqb_neq.
          -- apply I3; [|exact Hd]. intros X. apply Hq. apply in_or_app; left; exact X.
          -- intros ->. apply Hq. apply in_or_app; right; left; reflexivity.
        * intros q f Hf. rewrite Eff, Hf, andb_false_r. apply I4; exact Hf.
  Qed.

  Lemma cascade_spec_lemma st' :
    cascade_gen u dflt k orc st0 order = Some st' ->
    (forall p, (pn p < start)%nat -> st' p dflt = spec p) /\
    (forall p, (start <= pn p)%nat -> st' p dflt = st0 p dflt) /\
    (forall p f, fmt_eqb f dflt = false -> st' p f = st0 p f).
  Proof.
    intros H.
    assert (I0 : inv [] st0).
    { split; [|split; [|split]].
      - reflexivity.
      - intros p [].
      - reflexivity.
      - reflexivity. }
    destruct (cascade_inv order [] st0 st' eq_refl I0 H) as (I1 & I2 & I3 & I4).
    split; [|split]; auto.
    intros p Hp. destruct (in_dec pos_eq_dec p order) as [Hin|Hnin]; [apply I2; exact Hin|].
    rewrite (I3 p Hnin Hp), (not_in_order_absent p Hp Hnin). symmetry. apply not_in_order_none; assumption.
  Qed.
End Cascade.

(* ------------------------------------------------------------------ *)
(* packaged statements for Properties/C02.v                             *)

(* re-cascade: tiles may already lie above the start level, provided the walk visits them *)
Lemma cascade_spec_overwrite u dflt k orc start st0 order st' :
  covers_present dflt st0 start order ->
  valid_order u dflt k orc st0 start order ->
  cascade_gen u dflt k orc st0 order = Some st' ->
  (forall p, (pn p < start)%nat ->
             st' p dflt = pyramid_spec u dflt k orc (fun q => st0 q dflt) (start - pn p) p) /\
  (forall p, (start <= pn p)%nat -> st' p dflt = st0 p dflt) /\
  (forall p f, fmt_eqb f dflt = false -> st' p f = st0 p f).
Proof.
  intros Hc (V1 & V2 & V3 & V4) H.
  exact (cascade_spec_lemma u dflt k orc start st0 order V1 V2 V3 V4 Hc st' H).
Qed.

Lemma upper_empty_covers_present dflt st0 start order :
  upper_levels_empty dflt st0 start -> covers_present dflt st0 start order.
Proof. intros Hu p Hp Hne. exfalso. apply Hne. apply Hu. exact Hp. Qed.

Lemma cascade_spec_full u dflt k orc start st0 order st' :
  upper_levels_empty dflt st0 start ->
  valid_order u dflt k orc st0 start order ->
  cascade_gen u dflt k orc st0 order = Some st' ->
  (forall p, (pn p < start)%nat ->
             st' p dflt = pyramid_spec u dflt k orc (fun q => st0 q dflt) (start - pn p) p) /\
  (forall p, (start <= pn p)%nat -> st' p dflt = st0 p dflt) /\
  (forall p f, fmt_eqb f dflt = false -> st' p f = st0 p f).
Proof.
  intros Hu. apply cascade_spec_overwrite. apply upper_empty_covers_present. exact Hu.
Qed.

Lemma cascade_order_independent_overwrite u dflt k orc start st0 o1 o2 s1 s2 :
  covers_present dflt st0 start o1 -> covers_present dflt st0 start o2 ->
  valid_order u dflt k orc st0 start o1 -> valid_order u dflt k orc st0 start o2 ->
  cascade_gen u dflt k orc st0 o1 = Some s1 -> cascade_gen u dflt k orc st0 o2 = Some s2 ->
  forall p f, s1 p f = s2 p f.
Proof.
  intros P1 P2 V1 V2 H1 H2 p f.
  destruct (cascade_spec_overwrite u dflt k orc start st0 o1 s1 P1 V1 H1) as (A1 & B1 & C1).
  destruct (cascade_spec_overwrite u dflt k orc start st0 o2 s2 P2 V2 H2) as (A2 & B2 & C2).
  destruct (fmt_eqb f dflt) eqn:Ef.
  - apply fmt_eqb_eq in Ef. subst f.
    destruct (Nat.lt_ge_cases (pn p) start) as [Hp|Hp].
    + rewrite A1, A2 by exact Hp. reflexivity.
    + rewrite B1, B2 by exact Hp. reflexivity.
  - rewrite C1, C2 by exact Ef. reflexivity.
Qed.

Lemma cascade_order_independent_lemma u dflt k orc start st0 o1 o2 s1 s2 :
  upper_levels_empty dflt st0 start ->
  valid_order u dflt k orc st0 start o1 -> valid_order u dflt k orc st0 start o2 ->
  cascade_gen u dflt k orc st0 o1 = Some s1 -> cascade_gen u dflt k orc st0 o2 = Some s2 ->
  forall p f, s1 p f = s2 p f.
Proof.
  intros Hu. apply cascade_order_independent_overwrite; apply upper_empty_covers_present; exact Hu.
Qed.

Lemma merge_exists_lemma u dflt k orc st p st' :
  walk_callback_gen u dflt k orc st p = Some st' ->
  ((forall c, In c (children p) -> st c dflt = None) ->
   forall q f, st' q f = if pos_eqb q p && fmt_eqb f dflt then None else st q f) /\
  ((exists c, In c (children p) /\ st c dflt <> None) ->
   exists m, merge_tiles_gen u dflt k (child_files orc dflt st p) = Some (Some m) /\
             (is_completely_masked m = false -> encode dflt m <> None) /\
             forall q f, st' q f = if pos_eqb q p && fmt_eqb f dflt
                                   then (if is_completely_masked m then None else encode dflt m)
                                   else st q f).
Proof.
  intros H. pose proof (walk_callback_effect u dflt k orc st p st' H) as Eff.
  split.
  - intros Hn. rewrite merge_tiles_all_absent in Eff; [exact Eff|].
    intros oc Hin. unfold child_files in Hin. apply in_map_iff in Hin.
    destruct Hin as (c & <- & Hc). rewrite (Hn c Hc). reflexivity.
  - intros (c & Hc & Hne).
    destruct (merge_tiles_gen u dflt k (child_files orc dflt st p)) as [[m|]|] eqn:EM; [| |contradiction].
    + exists m. split; [reflexivity|]. split; [|exact Eff].
      intros Hm. unfold walk_callback_gen, walk_callback_var in H.
      assert (E : map (fun c => rres_image (orc c) (read_image dflt st c DNone None None)) (children p)
                  = child_files orc dflt st p).
      { unfold child_files. apply map_ext. intros c0. apply read_none_image. }
      rewrite E, EM in H. unfold write_image in H. rewrite Hm in H. cbn [or_default] in H.
      destruct (encode dflt m); [discriminate|discriminate].
    + exfalso. pose proof (merge_tiles_early u dflt k _ EM) as Hall.
      assert (Hin : In (option_map (decode (orc c)) (st c dflt)) (child_files orc dflt st p)).
      { unfold child_files. apply in_map_iff. exists c. auto. }
      specialize (Hall _ Hin). destruct (st c dflt); [discriminate|congruence].
Qed.

(* a concrete cascade for non-vacuity: two of the four level-1 tiles present,
   2 x 2 pixel float tiles with a NaN, stored bottom-up (fits) *)
Definition ex_tile (a : Z) : img :=
  mkImg 2 2 F32 (fun r c => if (r =? 0) && (c =? 0) then PxF None else PxF (Some (inject_Z (a + 4 * r + 8 * c)))).
Definition ex_st0 : store :=
  fun p f => if fmt_eqb f Fits
             then (if pos_eqb p (mkPos 1 0 0) then Some (FExact (ex_tile 0))
                   else if pos_eqb p (mkPos 1 1 1) then Some (FExact (ex_tile 100)) else None)
             else None.
Definition no_orc : pos -> Z -> Z -> pixel := fun _ _ _ => PxC3 0 0 0.
Definition ex_root_rows : option (list (list pixel)) :=
  match cascade Fits 2 no_orc ex_st0 [root] with
  | Some st' => match st' root Fits with
                | Some (FExact im) => ex_rows (Some im)
                | _ => None
                end
  | None => None
  end.

Lemma ex_upper_empty : upper_levels_empty Fits ex_st0 1.
Proof.
  intros p Hp. unfold ex_st0. cbn [fmt_eqb].
  destruct p as [n x y]. cbn [pn] in Hp. assert (n = 0%nat) as -> by lia. reflexivity.
Qed.

Lemma ex_valid_order : valid_order upd_px Fits 2 no_orc ex_st0 1 [root].
Proof.
  split; [|split; [|split]].
  - intros p [<-|[]]. cbn. lia.
  - repeat constructor. intros [].
  - intros l1 p l2 c E Hc Hin. destruct l1 as [|a [|b l1]]; cbn in E.
    + injection E as <- <-. destruct Hin as [<-|[]]. apply children_depth in Hc. cbn in Hc. discriminate.
    + injection E as _ E. discriminate.
    + injection E as _ E. discriminate.
  - intros p Hp (c & Hc & Hs). destruct p as [n x y]. cbn [pn] in Hp, Hs.
    assert (n = 0%nat) as -> by lia. cbn [Nat.sub pyramid_spec] in Hs.
    unfold children in Hc; cbn [pn Quadtree.px py In] in Hc.
    left. unfold root. f_equal.
    + destruct Hc as [<-|[<-|[<-|[<-|[]]]]]; unfold ex_st0 in Hs; cbn [fmt_eqb] in Hs;
        unfold pos_eqb in Hs; cbn [pn Quadtree.px py Nat.eqb andb] in Hs;
        destruct x as [|x]; try reflexivity; exfalso; apply Hs;
        destruct x; reflexivity.
    + destruct Hc as [<-|[<-|[<-|[<-|[]]]]]; unfold ex_st0 in Hs; cbn [fmt_eqb] in Hs;
        unfold pos_eqb in Hs; cbn [pn Quadtree.px py Nat.eqb andb] in Hs;
        destruct y as [|y]; try reflexivity; exfalso; apply Hs;
        destruct x as [|x]; try (destruct x); destruct y; reflexivity.
Qed.

(* a directory that already holds a root tile (left by an earlier cascade) and no
   level-1 tile at all: the re-cascade from level 1 must leave no root tile *)
Definition stale_st0 : store :=
  fun p f => if fmt_eqb f Fits && pos_eqb p root then Some (FExact (ex_tile 0)) else None.

Lemma stale_level1_none c : pn c = 1%nat -> stale_st0 c Fits = None.
Proof.
  intros Hc. unfold stale_st0. cbn [fmt_eqb andb]. rewrite pos_eqb_neq; [reflexivity|].
  intros ->. cbn in Hc. discriminate.
Qed.

Lemma stale_covers_present : covers_present Fits stale_st0 1 [root].
Proof.
  intros p Hp Hne. unfold stale_st0 in Hne. cbn [fmt_eqb andb] in Hne.
  destruct (pos_eqb p root) eqn:E; [|contradiction]. apply pos_eqb_eq in E. left. symmetry. exact E.
Qed.

Lemma stale_valid_order : valid_order upd_px Fits 2 no_orc stale_st0 1 [root].
Proof.
  split; [|split; [|split]].
  - intros p [<-|[]]. cbn. lia.
  - repeat constructor. intros [].
  - intros l1 p l2 c E Hc Hin. destruct l1 as [|a [|b l1]]; cbn in E.
    + injection E as <- <-. destruct Hin as [<-|[]]. apply children_depth in Hc. cbn in Hc. discriminate.
    + injection E as _ E. discriminate.
    + injection E as _ E. discriminate.
  - intros p Hp (c & Hc & Hs). exfalso. apply Hs.
    assert (pn p = 0%nat) as E0 by lia. rewrite E0. cbn [Nat.sub pyramid_spec].
    apply stale_level1_none. rewrite (children_depth p c Hc), E0. reflexivity.
Qed.

Lemma stale_root_outcomes :
  (exists st', cascade_var true upd_px Fits 2 no_orc stale_st0 [root] = Some st' /\ st' root Fits <> None) /\
  (exists st', cascade_gen upd_px Fits 2 no_orc stale_st0 [root] = Some st' /\ st' root Fits = None).
Proof.
  split; eexists; (split; [vm_compute; reflexivity|]); vm_compute; [discriminate|reflexivity].
Qed.

(* the compact placement description means: child i occupies rows
   [oy, oy + k) and columns [ox, ox + k) of the buffer with unit steps, where
   (oy, ox) is the i-th entry of [offsets] *)
Lemma placement_spec f k :
  0 < k ->
  placement f k = flat_map (fun o => [fst o; 1; k; snd o; 1; k]) (offsets (bottom_up f) k).
Proof.
  intros Hk. unfold placement, slices_for, offsets.
  pose proof (sl_lo_view k Hk) as Lo. pose proof (sl_hi_view k Hk) as Hi.
  destruct (bottom_up f); unfold slices_opposite, slices_matching; cbn [flat_map fst snd app];
    rewrite ?Lo, ?Hi; reflexivity.
Qed.

(* ------------------------------------------------------------------ *)
(* the cascade never raises on a well-formed pyramid                    *)

Lemma update_quadrant_total u c b k oy ox by_ bx :
  0 < k -> ih b = 2 * k -> iw b = 2 * k ->
  slice_view (2 * k) by_ = Some (mkView oy 1 k) -> slice_view (2 * k) bx = Some (mkView ox 1 k) ->
  ih c = k -> iw c = k -> imode b = maskable (imode c) ->
  exists b', update_into_gen u c b full_slice full_slice by_ bx = Some b' /\
             ih b' = 2 * k /\ iw b' = 2 * k /\ imode b' = imode b.
Proof.
  intros Hk Hh Hw Sy Sx Ch Cw Em. unfold update_into_gen.
  rewrite (rects_defined c b full_slice full_slice by_ bx (mkView 0 1 k) (mkView 0 1 k) (mkView oy 1 k) (mkView ox 1 k)).
  - eexists. split; [reflexivity|]. cbn [ih iw imode]. auto.
  - rewrite Ch. apply slice_view_full; lia.
  - rewrite Cw. apply slice_view_full; lia.
  - rewrite Hh; exact Sy.
  - rewrite Hw; exact Sx.
  - reflexivity.
  - reflexivity.
  - exact Em.
Qed.

Definition entry_good (k : Z) (bm : mode) (e : entry) : Prop :=
  match e with
  | ((oy, ox), ((sy, sx), oc)) =>
      slice_view (2 * k) sy = Some (mkView oy 1 k) /\ slice_view (2 * k) sx = Some (mkView ox 1 k) /\
      match oc with Some c => good_img k bm c | None => True end
  end.

Lemma update_all_total u k bm : forall (l : list entry) b,
  0 < k -> ih b = 2 * k -> iw b = 2 * k -> imode b = bm ->
  Forall (entry_good k bm) l ->
  exists bf, update_all u b (map snd l) = Some bf /\ ih bf = 2 * k /\ iw bf = 2 * k /\ imode bf = bm.
Proof.
  induction l as [|e l IH]; intros b Hk Hh Hw Hm HF.
  - exists b. cbn. auto.
  - inversion HF as [|e' l' He Hl]; subst.
    destruct e as [[oy ox] [[sy sx] [c|]]]; cbn [map snd update_all].
    + cbn [entry_good] in He. destruct He as (Sy & Sx & Gh & Gw & Gm).
      destruct (update_quadrant_total u c b k oy ox sy sx Hk Hh Hw Sy Sx Gh Gw ltac:(congruence))
        as (b' & E & A & B & C).
      rewrite E. apply IH; auto; congruence.
    + apply IH; auto.
Qed.

Lemma merge_tiles_total u f k bm c0 c1 c2 c3 :
  0 < k -> maskable bm = bm ->
  (forall ch, In (Some ch) [c0; c1; c2; c3] -> good_img k bm ch) ->
  merge_tiles_gen u f k [c0; c1; c2; c3] = Some None \/
  exists m, merge_tiles_gen u f k [c0; c1; c2; c3] = Some (Some m) /\ good_img k bm m /\ imode m = bm.
Proof.
  intros Hk Hbm Hg. unfold merge_tiles_gen.
  destruct (first_present [c0; c1; c2; c3]) as [ch0|] eqn:EF; [|left; reflexivity].
  right. fold (b_init (imode ch0) k).
  pose proof (Hg ch0 (first_present_in _ _ EF)) as (_ & _ & G0).
  pose proof (sl_lo_view k Hk) as Lo. pose proof (sl_hi_view k Hk) as Hi.
  assert (D : forall oc, In oc [c0; c1; c2; c3] -> match oc with Some c => good_img k bm c | None => True end).
  { intros [c|] Hin; [apply Hg; exact Hin | exact I]. }
  assert (T : exists bf, update_all u (b_init (imode ch0) k) (combine (slices_for f k) [c0; c1; c2; c3]) = Some bf /\
                         ih bf = 2 * k /\ iw bf = 2 * k /\ imode bf = bm).
  { unfold slices_for. destruct (bottom_up f).
    - unfold slices_opposite; cbn [combine].
      change [(sl_hi k, sl_lo k, c0); (sl_hi k, sl_hi k, c1); (sl_lo k, sl_lo k, c2); (sl_lo k, sl_hi k, c3)]
        with (map snd ([((k, 0), ((sl_hi k, sl_lo k), c0)); ((k, k), ((sl_hi k, sl_hi k), c1));
                        ((0, 0), ((sl_lo k, sl_lo k), c2)); ((0, k), ((sl_lo k, sl_hi k), c3))] : list entry)).
      apply (update_all_total u k bm); try reflexivity; try exact Hk.
      + unfold b_init; cbn [clear make_maskable_buffer imode]. exact G0.
      + repeat constructor; cbn [entry_good]; repeat split; try assumption; apply D; cbn; auto.
    - unfold slices_matching; cbn [combine].
      change [(sl_lo k, sl_lo k, c0); (sl_lo k, sl_hi k, c1); (sl_hi k, sl_lo k, c2); (sl_hi k, sl_hi k, c3)]
        with (map snd ([((0, 0), ((sl_lo k, sl_lo k), c0)); ((0, k), ((sl_lo k, sl_hi k), c1));
                        ((k, 0), ((sl_hi k, sl_lo k), c2)); ((k, k), ((sl_hi k, sl_hi k), c3))] : list entry)).
      apply (update_all_total u k bm); try reflexivity; try exact Hk.
      + unfold b_init; cbn [clear make_maskable_buffer imode]. exact G0.
      + repeat constructor; cbn [entry_good]; repeat split; try assumption; apply D; cbn; auto. }
  destruct T as (bf & E & A & B & C). rewrite E.
  eexists. split; [reflexivity|].
  unfold good_img; cbn [averaging_merger ih iw imode].
  rewrite A, B, C, (Z.mul_comm 2 k), Z.div_mul by lia. auto.
Qed.

Lemma decode_good k bm orc d : good_file k bm d -> maskable bm = bm -> good_img k bm (decode orc d).
Proof.
  destruct d as [im|h w]; cbn [good_file decode]; [auto|].
  intros (-> & -> & ->) _. unfold good_img, lossy_img; cbn. auto.
Qed.

Lemma walk_callback_total u dflt k orc bm st p :
  0 < k -> maskable bm = bm -> storable dflt bm -> good_store dflt k bm st ->
  exists st', walk_callback_gen u dflt k orc st p = Some st' /\ good_store dflt k bm st'.
Proof.
  intros Hk Hbm Hs Hg. unfold walk_callback_gen, walk_callback_var.
  assert (E : map (fun c => rres_image (orc c) (read_image dflt st c DNone None None)) (children p)
              = child_files orc dflt st p).
  { unfold child_files. apply map_ext. intros c0. apply read_none_image. }
  rewrite E. unfold child_files, children. cbn [map].
  match goal with |- context [merge_tiles_gen u dflt k [?a; ?b; ?c; ?d]] =>
    destruct (merge_tiles_total u dflt k bm a b c d Hk Hbm) as [En|(m & Em & Gm & Mm)] end.
  - intros ch Hin. cbn [In] in Hin.
    destruct Hin as [H|[H|[H|[H|[]]]]];
      match type of H with option_map _ (st ?q dflt) = _ =>
        destruct (st q dflt) as [d|] eqn:Ed; [|discriminate]; cbn in H; injection H as <-;
        apply decode_good; [apply (Hg q d Ed) | exact Hbm] end.
  - rewrite En. eexists. split; [reflexivity|]. intros q d. unfold st_set.
    destruct (pos_eqb q p && fmt_eqb dflt dflt); [discriminate|apply Hg].
  - rewrite Em. unfold write_image. cbn [or_default].
    destruct (is_completely_masked m).
    + eexists. split; [reflexivity|]. intros q d. unfold st_set.
      destruct (pos_eqb q p && fmt_eqb dflt dflt); [discriminate|apply Hg].
    + unfold encode. rewrite Mm.
      destruct Hs as [Hh|[-> ->]].
      * rewrite Hh. eexists. split; [reflexivity|]. intros q d. unfold st_set.
        destruct (pos_eqb q p && fmt_eqb dflt dflt); [|apply Hg].
        intros H; injection H as <-. exact Gm.
      * cbn [holds]. eexists. split; [reflexivity|]. intros q d. unfold st_set.
        destruct (pos_eqb q p && fmt_eqb Jpg Jpg); [|apply Hg].
        intros H; injection H as <-. destruct Gm as (A & B & _). cbn [good_file]. auto.
Qed.

Lemma cascade_defined_lemma u dflt k orc bm : forall order st,
  0 < k -> maskable bm = bm -> storable dflt bm -> good_store dflt k bm st ->
  exists st', cascade_gen u dflt k orc st order = Some st' /\ good_store dflt k bm st'.
Proof.
  induction order as [|p rest IH]; intros st Hk Hbm Hs Hg.
  - exists st. rewrite cascade_gen_nil. auto.
  - rewrite cascade_gen_cons.
    destruct (walk_callback_total u dflt k orc bm st p Hk Hbm Hs Hg) as (st1 & E & G1).
    rewrite E. apply IH; auto.
Qed.

(* ------------------------------------------------------------------ *)
(* RGB children: the merged tile is never completely masked (jpg existence) *)

Lemma quot_alpha a1 a2 a3 a4 :
  (a1 = 0 \/ a1 = 255) -> (a2 = 0 \/ a2 = 255) -> (a3 = 0 \/ a3 = 255) -> (a4 = 0 \/ a4 = 255) ->
  (a1 = 255 \/ a2 = 255 \/ a3 = 255 \/ a4 = 255) -> (iavg a1 a2 a3 a4 =? 0) = false.
Proof.
  intros [->| ->] [->| ->] [->| ->] [->| ->] H; try reflexivity.
  exfalso. destruct H as [H|[H|[H|H]]]; discriminate.
Qed.

Definition rgba01 (p : pixel) : Prop := exists x y z a, p = PxC x y z a /\ (a = 0 \/ a = 255).

Lemma block_alpha M i j :
  (forall r c, rgba01 (M r c)) ->
  (exists r c, (r = 2 * i \/ r = 2 * i + 1) /\ (c = 2 * j \/ c = 2 * j + 1) /\
               exists x y z, M r c = PxC x y z 255) ->
  alpha0 (block_avg M i j) = false.
Proof.
  intros HM (r & c & Hr & Hc & x & y & z & E).
  destruct (HM (2 * i) (2 * j)) as (x1 & y1 & z1 & a1 & E1 & A1).
  destruct (HM (2 * i) (2 * j + 1)) as (x2 & y2 & z2 & a2 & E2 & A2).
  destruct (HM (2 * i + 1) (2 * j)) as (x3 & y3 & z3 & a3 & E3 & A3).
  destruct (HM (2 * i + 1) (2 * j + 1)) as (x4 & y4 & z4 & a4 & E4 & A4).
  unfold block_avg. rewrite E1, E2, E3, E4. cbn [avg4 alpha0].
  apply quot_alpha; try assumption.
  destruct Hr as [-> | ->], Hc as [-> | ->]; rewrite E in *.
  - left. congruence.
  - right; left. congruence.
  - right; right; left. congruence.
  - right; right; right. congruence.
Qed.

Definition rgb_children (cs : list (option img)) : Prop :=
  forall ch, In (Some ch) cs -> imode ch = RGB /\ img_ok ch /\ 0 <= ih ch /\ 0 <= iw ch.

Lemma mosaic_rgb u bu k m0 cs r c :
  (forall s o, u RGB s o = fill_px RGB s) -> rgb_children cs -> maskable m0 = RGBA ->
  rgba01 (mosaic_of (mosaic_val_gen u) bu k m0 cs r c) /\
  (nth (Z.to_nat (c / k + 2 * (r / k))) cs None <> None ->
   exists x y z, mosaic_of (mosaic_val_gen u) bu k m0 cs r c = PxC x y z 255).
Proof.
  intros Hu Hc Hm. unfold mosaic_of.
  destruct (nth (Z.to_nat (c / k + 2 * (r / k))) cs None) as [ch|] eqn:E.
  - destruct (Hc ch (nth_some_in _ _ _ E)) as (Em & Hok & _).
    unfold mosaic_val_gen. rewrite Em, Hu.
    assert (Hp : px_ok RGB (disp bu ch (r mod k) (c mod k)) = true).
    { unfold disp. rewrite <- Em. destruct bu; apply Hok. }
    destruct (disp bu ch (r mod k) (c mod k)); try discriminate. cbn [fill_px].
    split; [exists r0, g, b, 255; auto | intros _; eauto].
  - split; [|intros H; contradiction].
    exists 0, 0, 0, 0. split; [|auto]. destruct m0; try discriminate; reflexivity.
Qed.

Lemma rgb_merge_not_masked u f k c0 c1 c2 c3 m :
  0 < k -> (forall s o, u RGB s o = fill_px RGB s) -> rgb_children [c0; c1; c2; c3] ->
  merge_tiles_gen u f k [c0; c1; c2; c3] = Some (Some m) ->
  is_completely_masked m = false.
Proof.
  intros Hk Hu Hc H.
  assert (Hd : dims_ok [c0; c1; c2; c3]).
  { intros ch Hin. destruct (Hc ch Hin) as (_ & _ & A & B). auto. }
  destruct (merge_pixel_gen u f k c0 c1 c2 c3 m Hk Hd H) as (ch0 & EF & Mh & Mw & Mm & _ & F).
  pose proof (first_present_in _ _ EF) as Hin0.
  destruct (Hc ch0 Hin0) as (Em0 & _).
  rewrite Em0 in Mm. cbn [maskable] in Mm.
  destruct (is_completely_masked m) eqn:EM; [|reflexivity]. exfalso.
  unfold is_completely_masked in EM. rewrite Mm in EM.
  rewrite all_px_spec in EM. rewrite Mh, Mw in EM.
  (* index of the present child *)
  destruct (In_nth _ _ None Hin0) as (n & Hn & En). cbn [length] in Hn.
  set (cx := Z.of_nat n mod 2). set (cy := Z.of_nat n / 2).
  assert (Hcx : 0 <= cx < 2) by (unfold cx; lia).
  assert (Hcy : 0 <= cy < 2) by (unfold cy; lia).
  set (r0 := cy * k). set (q0 := cx * k).
  set (i := r0 / 2). set (j := q0 / 2).
  assert (Hi : 0 <= i < k) by (unfold i, r0; nia).
  assert (Hj : 0 <= j < k) by (unfold j, q0; nia).
  set (M := mosaic_of (mosaic_val_gen u) (bottom_up f) k (imode ch0) [c0; c1; c2; c3]).
  assert (HM : forall r c, rgba01 (M r c)).
  { intros r c. apply (mosaic_rgb u (bottom_up f) k (imode ch0) _ r c Hu Hc). rewrite Em0; reflexivity. }
  assert (Hidx : Z.to_nat (q0 / k + 2 * (r0 / k)) = n).
  { unfold q0, r0. rewrite !Z.div_mul by lia. unfold cx, cy. lia. }
  assert (Hpres : exists x y z, M r0 q0 = PxC x y z 255).
  { apply (mosaic_rgb u (bottom_up f) k (imode ch0) _ r0 q0 Hu Hc); [rewrite Em0; reflexivity|].
    rewrite Hidx, En. discriminate. }
  assert (Hblock : alpha0 (block_avg M i j) = false).
  { apply block_alpha; [exact HM|]. exists r0, q0. split; [unfold i; lia|]. split; [unfold j; lia|]. exact Hpres. }
  subst M. rewrite <- (F i j Hi Hj) in Hblock. unfold disp in Hblock. rewrite Mh in Hblock.
  destruct (bottom_up f).
  - rewrite (EM (k - 1 - i) j) in Hblock by lia. discriminate.
  - rewrite (EM i j) in Hblock by lia. discriminate.
Qed.

Lemma lossy_rgb orc h w :
  0 <= h -> 0 <= w ->
  imode (lossy_img orc h w) = RGB /\ img_ok (lossy_img orc h w) /\
  0 <= ih (lossy_img orc h w) /\ 0 <= iw (lossy_img orc h w).
Proof.
  intros Hh Hw. cbn [lossy_img imode ih iw]. repeat split; auto.
  intros r c. cbn [lossy_img imode ipx]. destruct (orc r c); reflexivity.
Qed.

Lemma lossy_children_rgb orc st p :
  (forall c d, In c (children p) -> st c Jpg = Some d -> exists h w, d = FLossy h w /\ 0 <= h /\ 0 <= w) ->
  rgb_children (child_files orc Jpg st p).
Proof.
  intros Hl ch Hin. unfold child_files in Hin. apply in_map_iff in Hin. destruct Hin as (c & E & Hc).
  destruct (st c Jpg) as [d|] eqn:Ed; [|discriminate]. cbn in E. injection E as <-.
  destruct (Hl c d Hc Ed) as (h & w & -> & Hh & Hw). cbn [decode]. apply lossy_rgb; assumption.
Qed.

Lemma jpg_exists_lemma u k orc st p st' :
  0 < k -> (forall s o, u RGB s o = fill_px RGB s) ->
  (forall c d, In c (children p) -> st c Jpg = Some d -> exists h w, d = FLossy h w /\ 0 <= h /\ 0 <= w) ->
  walk_callback_gen u Jpg k orc st p = Some st' ->
  (st' p Jpg <> None <-> exists c, In c (children p) /\ st c Jpg <> None).
Proof.
  intros Hk Hu Hl H.
  destruct (merge_exists_lemma u Jpg k orc st p st' H) as (A & B).
  assert (Dec : {forall c, In c (children p) -> st c Jpg = None} + {exists c, In c (children p) /\ st c Jpg <> None}).
  { unfold children. cbn [In].
    match goal with |- {forall c, ?a = c \/ ?b = c \/ ?cc = c \/ ?d = c \/ False -> _} + {_} =>
      destruct (st a Jpg) eqn:Ea; [right; exists a; split; [auto|congruence]|];
      destruct (st b Jpg) eqn:Eb; [right; exists b; split; [auto|congruence]|];
      destruct (st cc Jpg) eqn:Ec; [right; exists cc; split; [auto|congruence]|];
      destruct (st d Jpg) eqn:Ed; [right; exists d; split; [auto 6|congruence]|] end.
    left. intros c [<-|[<-|[<-|[<-|[]]]]]; assumption. }
  destruct Dec as [Hall|Hex].
  - rewrite (A Hall), pos_eqb_refl. cbn [fmt_eqb andb]. split; [intros X; contradiction|].
    intros (c & Hc & Hn). rewrite (Hall c Hc) in Hn. contradiction.
  - split; [intros _; exact Hex|]. intros _.
    destruct (B Hex) as (m & Em & Enc & Eff).
    rewrite Eff, pos_eqb_refl. cbn [fmt_eqb andb].
    assert (Hm : is_completely_masked m = false).
    { pose proof (lossy_children_rgb orc st p Hl) as Hrgb.
      unfold child_files, children in Em, Hrgb. cbn [map] in Em, Hrgb.
      exact (rgb_merge_not_masked u Jpg k _ _ _ _ m Hk Hu Hrgb Em). }
    rewrite Hm. apply Enc. exact Hm.
Qed.

(* with all four children absent the callback used to return early and leave a stale
   parent in place; the code now unlinks it (fix 2ad55bb) *)
Definition ex_stale_parent_survives : bool :=
  match walk_callback Npy 1 no_orc (fun p f => if pos_eqb p root then Some (FLossy 1 1) else None) root with
  | Some st' => match st' root Npy with Some _ => true | None => false end
  | None => false
  end.
