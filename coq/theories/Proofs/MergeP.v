(* Proofs about Model/Merge.v (property C02). *)
From Coq Require Import List ZArith QArith Qreduction Bool Lia.
Ltac Zify.zify_post_hook ::= Z.to_euclidean_division_equations.
From Toasty Require Import Model.Quadtree Proofs.QuadtreeP Model.Mask Proofs.MaskP Model.Merge.
Import ListNotations.
Local Open Scope Z_scope.

(* ------------------------------------------------------------------ *)
(* averaging                                                            *)

Lemma iavg_swap a b c d : iavg a b c d = iavg c d a b.
Proof. unfold iavg. f_equal. lia. Qed.

Lemma favg_swap x y z w : favg [x; y; z; w] = favg [z; w; x; y].
Proof.
  destruct x as [x|], y as [y|], z as [z|], w as [w|]; unfold favg; cbn [fdefined flat_map app length qsum fold_right];
    try reflexivity; f_equal; apply Qred_complete; unfold Qdiv; ring.
Qed.

Lemma avg4_swap_rows a b c d : avg4 a b c d = avg4 c d a b.
Proof.
  destruct a, b, c, d; cbn [avg4]; try reflexivity.
  - rewrite favg_swap. reflexivity.
  - rewrite (favg_swap r), (favg_swap g), (favg_swap b0). reflexivity.
  - rewrite iavg_swap. reflexivity.
  - rewrite (iavg_swap r), (iavg_swap g), (iavg_swap b0). reflexivity.
  - rewrite (iavg_swap r), (iavg_swap g), (iavg_swap b0), (iavg_swap a). reflexivity.
Qed.

(* np.nanmean: NaN exactly when every entry is NaN, else the mean of the others *)
Lemma fdefined_nil l : fdefined l = [] <-> (forall v, In v l -> v = None).
Proof.
  induction l as [|[q|] l IH]; cbn [fdefined flat_map app].
  - split; [intros _ v []| reflexivity].
  - split; [discriminate|]. intros H. specialize (H (Some q) (or_introl eq_refl)). discriminate.
  - fold (fdefined l). rewrite IH. split.
    + intros H v [<-|Hv]; auto.
    + intros H v Hv. apply H. right; exact Hv.
Qed.

Lemma favg_spec l :
  (favg l = None <-> forall v, In v l -> v = None) /\
  (forall q, favg l = Some q ->
             fdefined l <> [] /\
             (q == qsum (fdefined l) / inject_Z (Z.of_nat (length (fdefined l))))%Q) /\
  (forall q, In (Some q) l -> favg l <> None).
Proof.
  unfold favg. destruct (fdefined l) as [|d ds] eqn:E.
  - split; [|split].
    + split; [intros _; apply fdefined_nil; exact E | reflexivity].
    + intros q H; discriminate.
    + intros q Hq. pose proof (proj1 (fdefined_nil l) E _ Hq) as X. discriminate.
  - split; [|split].
    + split; [discriminate|]. intros H. apply (proj2 (fdefined_nil l)) in H. congruence.
    + intros q H. split; [discriminate|].
      assert (Hq : Qred (qsum (d :: ds) / inject_Z (Z.of_nat (length (d :: ds)))) = q).
      { exact (f_equal (fun o => match o with Some x => x | None => q end) H). }
      rewrite <- Hq. apply Qred_correct.
    + intros q Hq. discriminate.
Qed.

Lemma iavg_spec a b c d :
  4 * iavg a b c d + Z.rem (a + b + c + d) 4 = a + b + c + d /\
  Z.abs (Z.rem (a + b + c + d) 4) < 4 /\
  (0 <= a + b + c + d -> 0 <= Z.rem (a + b + c + d) 4) /\
  (a + b + c + d <= 0 -> Z.rem (a + b + c + d) 4 <= 0).
Proof.
  unfold iavg. pose proof (Z.quot_rem' (a + b + c + d) 4) as H.
  pose proof (Z.rem_bound_abs (a + b + c + d) 4 ltac:(lia)) as Hb.
  split; [lia|]. split; [lia|]. split; intros Hs.
  - apply Z.rem_nonneg; lia.
  - apply Z.rem_nonpos; lia.
Qed.

(* ------------------------------------------------------------------ *)
(* unit-step views and the quadrant slices                              *)

Lemma view_inv_unit o n R :
  view_inv (mkView o 1 n) R = if (o <=? R) && (R <? o + n) then Some (R - o) else None.
Proof.
  unfold view_inv; cbn [v_first v_step v_count].
  rewrite Z.div_1_r, Z.mul_1_r, Z.eqb_refl. cbn [andb].
  destruct (0 <=? R - o) eqn:E1, (R - o <? n) eqn:E2, (o <=? R) eqn:E3, (R <? o + n) eqn:E4;
    cbn [andb]; try reflexivity; lia.
Qed.

Lemma sl_lo_view k : 0 < k -> slice_view (2 * k) (sl_lo k) = Some (mkView 0 1 k).
Proof. intros Hk. unfold sl_lo. apply slice_view_head. lia. Qed.

Lemma sl_hi_view k : 0 < k -> slice_view (2 * k) (sl_hi k) = Some (mkView k 1 k).
Proof.
  intros Hk. unfold sl_hi. rewrite slice_view_tail by lia. do 2 f_equal. lia.
Qed.

Definition inq (oy ox k R C : Z) : bool :=
  (oy <=? R) && (R <? oy + k) && ((ox <=? C) && (C <? ox + k)).

Lemma inq_true oy ox k R C : oy <= R < oy + k -> ox <= C < ox + k -> inq oy ox k R C = true.
Proof.
  intros H1 H2. unfold inq.
  destruct (oy <=? R) eqn:E1; [|lia]. destruct (R <? oy + k) eqn:E2; [|lia].
  destruct (ox <=? C) eqn:E3; [|lia]. destruct (C <? ox + k) eqn:E4; [|lia]. reflexivity.
Qed.

Lemma inq_false oy ox k R C : ~ (oy <= R < oy + k /\ ox <= C < ox + k) -> inq oy ox k R C = false.
Proof.
  intros H. unfold inq.
  destruct (oy <=? R) eqn:E1; [|reflexivity]. destruct (R <? oy + k) eqn:E2; [|reflexivity].
  destruct (ox <=? C) eqn:E3; [|reflexivity]. destruct (C <? ox + k) eqn:E4; [|reflexivity].
  exfalso; apply H; lia.
Qed.

(* one update of a k x k child into a quadrant of the 2k x 2k buffer *)
Lemma update_quadrant u c b k oy ox by_ bx b' :
  0 < k -> ih b = 2 * k -> iw b = 2 * k ->
  slice_view (2 * k) by_ = Some (mkView oy 1 k) -> slice_view (2 * k) bx = Some (mkView ox 1 k) ->
  0 <= ih c -> 0 <= iw c ->
  update_into_gen u c b full_slice full_slice by_ bx = Some b' ->
  ih c = k /\ iw c = k /\ imode b = maskable (imode c) /\
  ih b' = 2 * k /\ iw b' = 2 * k /\ imode b' = imode b /\
  forall R C, ipx b' R C =
              if inq oy ox k R C then u (imode c) (ipx c (R - oy) (C - ox)) (ipx b R C) else ipx b R C.
Proof.
  intros Hk Hh Hw Sy Sx Hch Hcw. unfold update_into_gen.
  destruct (rects c b full_slice full_slice by_ bx) as [[[[vy vx] wy] wx]|] eqn:ER; [|discriminate].
  intros H; injection H as <-. cbn [ih iw imode ipx].
  destruct (rects_some _ _ _ _ _ _ _ _ _ _ ER) as (Ey & Ex & Fy & Fx & Cy & Cx & Em).
  rewrite slice_view_full in Ey by exact Hch. rewrite slice_view_full in Ex by exact Hcw.
  injection Ey as <-. injection Ex as <-.
  rewrite Hh, Sy in Fy. rewrite Hw, Sx in Fx. injection Fy as <-. injection Fx as <-.
  cbn [v_count] in Cy, Cx.
  repeat split; try assumption.
  intros R C. rewrite !view_inv_unit. unfold inq.
  destruct ((oy <=? R) && (R <? oy + k)); cbn [andb]; [|reflexivity].
  destruct ((ox <=? C) && (C <? ox + k)); [|reflexivity].
  unfold view_at; cbn [v_first v_step]. f_equal. f_equal; ring.
Qed.

(* ------------------------------------------------------------------ *)
(* the buffer after the four updates                                    *)

(* entries: offsets of the quadrant, the slices, the optional child *)
Definition entry := ((Z * Z) * ((slice * slice) * option img))%type.

Definition qpx (u : mode -> pixel -> pixel -> pixel) (k R C : Z) (old : pixel) (e : entry) : pixel :=
  match e with
  | ((oy, ox), (_, Some c)) => if inq oy ox k R C then u (imode c) (ipx c (R - oy) (C - ox)) old else old
  | (_, (_, None)) => old
  end.

Definition entry_ok (k : Z) (e : entry) : Prop :=
  match e with
  | ((oy, ox), ((sy, sx), oc)) =>
      slice_view (2 * k) sy = Some (mkView oy 1 k) /\ slice_view (2 * k) sx = Some (mkView ox 1 k) /\
      match oc with Some c => 0 <= ih c /\ 0 <= iw c | None => True end
  end.

Lemma update_all_px u k : forall (l : list entry) b bf,
  0 < k -> ih b = 2 * k -> iw b = 2 * k ->
  Forall (entry_ok k) l ->
  update_all u b (map snd l) = Some bf ->
  ih bf = 2 * k /\ iw bf = 2 * k /\ imode bf = imode b /\
  (forall e c, In e l -> snd (snd e) = Some c -> ih c = k /\ iw c = k /\ imode b = maskable (imode c)) /\
  forall R C, ipx bf R C = fold_left (qpx u k R C) l (ipx b R C).
Proof.
  induction l as [|e l IH]; intros b bf Hk Hh Hw HF H.
  - cbn in H. injection H as <-. split; [exact Hh|]. split; [exact Hw|]. split; [reflexivity|].
    split; [intros e0 c0 []|]. intros; reflexivity.
  - inversion HF as [|e' l' He Hl]; subst.
    destruct e as [[oy ox] [[sy sx] oc]]. cbn [map snd update_all] in H.
    destruct oc as [c|].
    + destruct (update_into_gen u c b full_slice full_slice sy sx) as [b1|] eqn:EU; [|discriminate].
      cbn [entry_ok] in He. destruct He as (Sy & Sx & Hch & Hcw).
      destruct (update_quadrant u c b k oy ox sy sx b1 Hk Hh Hw Sy Sx Hch Hcw EU)
        as (A1 & A2 & A3 & A4 & A5 & A6 & A7).
      destruct (IH b1 bf Hk A4 A5 Hl H) as (B1 & B2 & B3 & B4 & B5).
      split; [exact B1|]. split; [exact B2|]. split; [congruence|]. split.
      * intros e0 c' [<-|Hin] Hc'.
        -- cbn in Hc'. injection Hc' as <-. auto.
        -- rewrite <- A6. apply (B4 e0 c' Hin Hc').
      * intros R C. rewrite B5. cbn [fold_left qpx]. rewrite A7. reflexivity.
    + destruct (IH b bf Hk Hh Hw Hl H) as (B1 & B2 & B3 & B4 & B5).
      split; [exact B1|]. split; [exact B2|]. split; [exact B3|]. split.
      * intros e0 c' [<-|Hin] Hc'; [discriminate|]. apply (B4 e0 c' Hin Hc').
      * intros R C. rewrite B5. reflexivity.
Qed.

Lemma masked_px_maskable m : masked_px (maskable m) = masked_px m.
Proof. destruct m; reflexivity. Qed.

Lemma maskable_masked_eq m m' : maskable m = maskable m' -> masked_px m = masked_px m'.
Proof. intros H. rewrite <- (masked_px_maskable m), <- (masked_px_maskable m'), H. reflexivity. Qed.

Lemma maskable_idem m : maskable (maskable m) = maskable m.
Proof. destruct m; reflexivity. Qed.

Lemma half_lo k R : 0 <= R < k -> R / k = 0 /\ R mod k = R.
Proof. intros H. split; [apply Z.div_small | apply Z.mod_small]; lia. Qed.

Lemma half_hi k R : 0 < k -> k <= R < 2 * k -> R / k = 1 /\ R mod k = R - k.
Proof.
  intros Hk H. split.
  - symmetry. apply (Z.div_unique R k 1 (R - k)); lia.
  - symmetry. apply (Z.mod_unique R k 1 (R - k)); lia.
Qed.

Definition offsets (bu : bool) (k : Z) : list (Z * Z) :=
  if bu then [(k, 0); (k, k); (0, 0); (0, k)] else [(0, 0); (0, k); (k, 0); (k, k)].

Lemma first_present_in cs c : first_present cs = Some c -> In (Some c) cs.
Proof.
  induction cs as [|[x|] cs IH]; cbn [first_present]; intros H; try discriminate.
  - injection H as <-. left; reflexivity.
  - right; auto.
Qed.

Lemma first_present_none cs : first_present cs = None -> forall c, In c cs -> c = None.
Proof.
  induction cs as [|[x|] cs IH]; cbn [first_present]; intros H c Hc; try discriminate.
  - destruct Hc.
  - destruct Hc as [<-|Hc]; auto.
Qed.

Definition dims_ok (cs : list (option img)) : Prop :=
  forall ch, In (Some ch) cs -> 0 <= ih ch /\ 0 <= iw ch.

Definition b_init (m0 : mode) (k : Z) : img :=
  clear (make_maskable_buffer m0 (2 * k) (2 * k) (fun _ _ => masked_px m0)).

Lemma four_entries u k m0 o0 o1 o2 o3 s0 s1 s2 s3 c0 c1 c2 c3 bf :
  0 < k -> dims_ok [c0; c1; c2; c3] ->
  slice_view (2 * k) (fst s0) = Some (mkView (fst o0) 1 k) -> slice_view (2 * k) (snd s0) = Some (mkView (snd o0) 1 k) ->
  slice_view (2 * k) (fst s1) = Some (mkView (fst o1) 1 k) -> slice_view (2 * k) (snd s1) = Some (mkView (snd o1) 1 k) ->
  slice_view (2 * k) (fst s2) = Some (mkView (fst o2) 1 k) -> slice_view (2 * k) (snd s2) = Some (mkView (snd o2) 1 k) ->
  slice_view (2 * k) (fst s3) = Some (mkView (fst o3) 1 k) -> slice_view (2 * k) (snd s3) = Some (mkView (snd o3) 1 k) ->
  update_all u (b_init m0 k) [(s0, c0); (s1, c1); (s2, c2); (s3, c3)] = Some bf ->
  ih bf = 2 * k /\ iw bf = 2 * k /\ imode bf = maskable m0 /\
  (forall ch, In (Some ch) [c0; c1; c2; c3] ->
              ih ch = k /\ iw ch = k /\ maskable (imode ch) = maskable m0) /\
  forall R C, ipx bf R C =
              fold_left (qpx u k R C) [(o0, (s0, c0)); (o1, (s1, c1)); (o2, (s2, c2)); (o3, (s3, c3))]
                        (masked_px m0).
Proof.
  intros Hk Hd A0 B0 A1 B1 A2 B2 A3 B3 H.
  set (l := [(o0, (s0, c0)); (o1, (s1, c1)); (o2, (s2, c2)); (o3, (s3, c3))] : list entry).
  assert (D : forall oc, In oc [c0; c1; c2; c3] ->
                         match oc with Some c => 0 <= ih c /\ 0 <= iw c | None => True end).
  { intros [c|] Hin; [apply Hd; exact Hin | exact I]. }
  assert (HF : Forall (entry_ok k) l).
  { unfold l. destruct o0, o1, o2, o3, s0, s1, s2, s3; cbn [fst snd] in *.
    repeat constructor; cbn [entry_ok]; repeat split; try assumption; apply D; cbn; auto. }
  change [(s0, c0); (s1, c1); (s2, c2); (s3, c3)] with (map snd l) in H.
  destruct (update_all_px u k l (b_init m0 k) bf Hk eq_refl eq_refl HF H) as (X1 & X2 & X3 & X4 & X5).
  split; [exact X1|]. split; [exact X2|]. split; [rewrite X3; reflexivity|]. split.
  - intros ch Hin.
    assert (exists e, In e l /\ snd (snd e) = Some ch) as (e & He & Hs).
    { unfold l. cbn [In] in Hin. destruct Hin as [E|[E|[E|[E|[]]]]]; subst.
      - exists (o0, (s0, Some ch)). split; [cbn [In]; auto|reflexivity].
      - exists (o1, (s1, Some ch)). split; [cbn [In]; auto|reflexivity].
      - exists (o2, (s2, Some ch)). split; [cbn [In]; auto|reflexivity].
      - exists (o3, (s3, Some ch)). split; [cbn [In]; auto 6|reflexivity]. }
    destruct (X4 e ch He Hs) as (Y1 & Y2 & Y3). repeat split; auto.
  - intros R C. rewrite X5. unfold b_init; cbn [clear make_maskable_buffer imode ipx].
    replace (clear_px (maskable m0)) with (masked_px m0) by (destruct m0; reflexivity). reflexivity.
Qed.

(* the buffer handed to the merger, in terms of the display-orientation mosaic *)
Lemma merge_buffer u f k c0 c1 c2 c3 m0 bf :
  0 < k -> dims_ok [c0; c1; c2; c3] ->
  update_all u (b_init m0 k) (combine (slices_for f k) [c0; c1; c2; c3]) = Some bf ->
  ih bf = 2 * k /\ iw bf = 2 * k /\ imode bf = maskable m0 /\
  (forall ch, In (Some ch) [c0; c1; c2; c3] ->
              ih ch = k /\ iw ch = k /\ maskable (imode ch) = maskable m0) /\
  forall R C, 0 <= R < 2 * k -> 0 <= C < 2 * k ->
              ipx bf R C = mosaic_of (mosaic_val_gen u) (bottom_up f) k m0 [c0; c1; c2; c3]
                                     (if bottom_up f then 2 * k - 1 - R else R) C.
Proof.
  intros Hk Hd H.
  pose proof (sl_lo_view k Hk) as Lo. pose proof (sl_hi_view k Hk) as Hi.
  unfold slices_for in H.
  destruct (bottom_up f).
  - (* bottom-up storage: opposite table *)
    unfold slices_opposite in H; cbn [combine] in H.
    destruct (four_entries u k m0 (k, 0) (k, k) (0, 0) (0, k)
                (sl_hi k, sl_lo k) (sl_hi k, sl_hi k) (sl_lo k, sl_lo k) (sl_lo k, sl_hi k) c0 c1 c2 c3 bf Hk Hd
                Hi Lo Hi Hi Lo Lo Lo Hi H) as (X1 & X2 & X3 & Hm & X5).
    split; [exact X1|]. split; [exact X2|]. split; [exact X3|]. split; [exact Hm|].
    intros R C HR HC. rewrite X5.
    assert (Hmk : forall ch, In (Some ch) [c0; c1; c2; c3] -> masked_px m0 = masked_px (imode ch)).
    { intros ch Hin. apply maskable_masked_eq. symmetry. apply (Hm ch Hin). }
    assert (Hih : forall ch, In (Some ch) [c0; c1; c2; c3] -> ih ch = k) by (intros ch Hin; apply (Hm ch Hin)).
    unfold mosaic_of, mosaic_val_gen, disp. cbn [fold_left qpx].
    destruct (Z_lt_ge_dec R k) as [HRk|HRk]; destruct (Z_lt_ge_dec C k) as [HCk|HCk].
    + destruct (half_hi k (2 * k - 1 - R) Hk ltac:(lia)) as [-> ->].
      destruct (half_lo k C ltac:(lia)) as [-> ->].
      change (Z.to_nat (0 + 2 * 1)) with 2%nat. cbn [nth].
      destruct c0 as [x0|], c1 as [x1|], c2 as [x2|], c3 as [x3|];
        rewrite ?(inq_false k 0 k R C) by lia; rewrite ?(inq_false k k k R C) by lia;
        rewrite ?(inq_true 0 0 k R C) by lia; rewrite ?(inq_false 0 k k R C) by lia;
        try reflexivity;
        rewrite (Hih x2) by (cbn; auto); rewrite (Hmk x2) by (cbn; auto);
        f_equal; f_equal; lia.
    + destruct (half_hi k (2 * k - 1 - R) Hk ltac:(lia)) as [-> ->].
      destruct (half_hi k C Hk ltac:(lia)) as [-> ->].
      change (Z.to_nat (1 + 2 * 1)) with 3%nat. cbn [nth].
      destruct c0 as [x0|], c1 as [x1|], c2 as [x2|], c3 as [x3|];
        rewrite ?(inq_false k 0 k R C) by lia; rewrite ?(inq_false k k k R C) by lia;
        rewrite ?(inq_false 0 0 k R C) by lia; rewrite ?(inq_true 0 k k R C) by lia;
        try reflexivity;
        rewrite (Hih x3) by (cbn; auto); rewrite (Hmk x3) by (cbn; auto);
        f_equal; f_equal; lia.
    + destruct (half_lo k (2 * k - 1 - R) ltac:(lia)) as [-> ->].
      destruct (half_lo k C ltac:(lia)) as [-> ->].
      change (Z.to_nat (0 + 2 * 0)) with 0%nat. cbn [nth].
      destruct c0 as [x0|], c1 as [x1|], c2 as [x2|], c3 as [x3|];
        rewrite ?(inq_true k 0 k R C) by lia; rewrite ?(inq_false k k k R C) by lia;
        rewrite ?(inq_false 0 0 k R C) by lia; rewrite ?(inq_false 0 k k R C) by lia;
        try reflexivity;
        rewrite (Hih x0) by (cbn; auto); rewrite (Hmk x0) by (cbn; auto);
        f_equal; f_equal; lia.
    + destruct (half_lo k (2 * k - 1 - R) ltac:(lia)) as [-> ->].
      destruct (half_hi k C Hk ltac:(lia)) as [-> ->].
      change (Z.to_nat (1 + 2 * 0)) with 1%nat. cbn [nth].
      destruct c0 as [x0|], c1 as [x1|], c2 as [x2|], c3 as [x3|];
        rewrite ?(inq_false k 0 k R C) by lia; rewrite ?(inq_true k k k R C) by lia;
        rewrite ?(inq_false 0 0 k R C) by lia; rewrite ?(inq_false 0 k k R C) by lia;
        try reflexivity;
        rewrite (Hih x1) by (cbn; auto); rewrite (Hmk x1) by (cbn; auto);
        f_equal; f_equal; lia.
  - (* top-down storage: matching table *)
    unfold slices_matching in H; cbn [combine] in H.
    destruct (four_entries u k m0 (0, 0) (0, k) (k, 0) (k, k)
                (sl_lo k, sl_lo k) (sl_lo k, sl_hi k) (sl_hi k, sl_lo k) (sl_hi k, sl_hi k) c0 c1 c2 c3 bf Hk Hd
                Lo Lo Lo Hi Hi Lo Hi Hi H) as (X1 & X2 & X3 & Hm & X5).
    split; [exact X1|]. split; [exact X2|]. split; [exact X3|]. split; [exact Hm|].
    intros R C HR HC. rewrite X5.
    assert (Hmk : forall ch, In (Some ch) [c0; c1; c2; c3] -> masked_px m0 = masked_px (imode ch)).
    { intros ch Hin. apply maskable_masked_eq. symmetry. apply (Hm ch Hin). }
    unfold mosaic_of, mosaic_val_gen, disp. cbn [fold_left qpx].
    destruct (Z_lt_ge_dec R k) as [HRk|HRk]; destruct (Z_lt_ge_dec C k) as [HCk|HCk].
    + destruct (half_lo k R ltac:(lia)) as [-> ->]. destruct (half_lo k C ltac:(lia)) as [-> ->].
      change (Z.to_nat (0 + 2 * 0)) with 0%nat. cbn [nth].
      destruct c0 as [x0|], c1 as [x1|], c2 as [x2|], c3 as [x3|];
        rewrite ?(inq_true 0 0 k R C) by lia; rewrite ?(inq_false 0 k k R C) by lia;
        rewrite ?(inq_false k 0 k R C) by lia; rewrite ?(inq_false k k k R C) by lia;
        try reflexivity;
        rewrite (Hmk x0) by (cbn; auto); f_equal; f_equal; lia.
    + destruct (half_lo k R ltac:(lia)) as [-> ->]. destruct (half_hi k C Hk ltac:(lia)) as [-> ->].
      change (Z.to_nat (1 + 2 * 0)) with 1%nat. cbn [nth].
      destruct c0 as [x0|], c1 as [x1|], c2 as [x2|], c3 as [x3|];
        rewrite ?(inq_false 0 0 k R C) by lia; rewrite ?(inq_true 0 k k R C) by lia;
        rewrite ?(inq_false k 0 k R C) by lia; rewrite ?(inq_false k k k R C) by lia;
        try reflexivity;
        rewrite (Hmk x1) by (cbn; auto); f_equal; f_equal; lia.
    + destruct (half_hi k R Hk ltac:(lia)) as [-> ->]. destruct (half_lo k C ltac:(lia)) as [-> ->].
      change (Z.to_nat (0 + 2 * 1)) with 2%nat. cbn [nth].
      destruct c0 as [x0|], c1 as [x1|], c2 as [x2|], c3 as [x3|];
        rewrite ?(inq_false 0 0 k R C) by lia; rewrite ?(inq_false 0 k k R C) by lia;
        rewrite ?(inq_true k 0 k R C) by lia; rewrite ?(inq_false k k k R C) by lia;
        try reflexivity;
        rewrite (Hmk x2) by (cbn; auto); f_equal; f_equal; lia.
    + destruct (half_hi k R Hk ltac:(lia)) as [-> ->]. destruct (half_hi k C Hk ltac:(lia)) as [-> ->].
      change (Z.to_nat (1 + 2 * 1)) with 3%nat. cbn [nth].
      destruct c0 as [x0|], c1 as [x1|], c2 as [x2|], c3 as [x3|];
        rewrite ?(inq_false 0 0 k R C) by lia; rewrite ?(inq_false 0 k k R C) by lia;
        rewrite ?(inq_false k 0 k R C) by lia; rewrite ?(inq_true k k k R C) by lia;
        try reflexivity;
        rewrite (Hmk x3) by (cbn; auto); f_equal; f_equal; lia.
Qed.
