(* Proofs about Model/Range.v (property C14). *)
From Coq Require Import List ZArith QArith Bool Lia.
Ltac Zify.zify_post_hook ::= Z.to_euclidean_division_equations.
From Toasty Require Import Model.Quadtree Proofs.QuadtreeP Model.Mask Proofs.MaskP Model.Merge Proofs.MergeP Model.Range.
Import ListNotations.
Local Open Scope Z_scope.

(* ------------------------------------------------------------------ *)
(* min / max of lists                                                   *)

Lemma qmin_cases a b : (qmin a b = a /\ (a <= b)%Q) \/ (qmin a b = b /\ (b <= a)%Q).
Proof.
  unfold qmin. destruct (Qle_bool a b) eqn:E.
  - left. split; [reflexivity|]. apply Qle_bool_iff; exact E.
  - right. split; [reflexivity|]. apply Qlt_le_weak. apply Qnot_le_lt. intros H.
    apply Qle_bool_iff in H. congruence.
Qed.

Lemma qmax_cases a b : (qmax a b = b /\ (a <= b)%Q) \/ (qmax a b = a /\ (b <= a)%Q).
Proof.
  unfold qmax. destruct (Qle_bool a b) eqn:E.
  - left. split; [reflexivity|]. apply Qle_bool_iff; exact E.
  - right. split; [reflexivity|]. apply Qlt_le_weak. apply Qnot_le_lt. intros H.
    apply Qle_bool_iff in H. congruence.
Qed.

Lemma fold_qmin_spec : forall r x,
  In (fold_left qmin r x) (x :: r) /\ (forall y, In y (x :: r) -> (fold_left qmin r x <= y)%Q).
Proof.
  induction r as [|a r IH]; intros x; cbn [fold_left].
  - split; [left; reflexivity|]. intros y [<-|[]]. apply Qle_refl.
  - destruct (IH (qmin x a)) as (I1 & I2). split.
    + destruct I1 as [E|I1].
      * destruct (qmin_cases x a) as [[Q1 _]|[Q1 _]].
        -- left. transitivity (qmin x a); [symmetry; exact Q1 | exact E].
        -- right; left. transitivity (qmin x a); [symmetry; exact Q1 | exact E].
      * right; right; exact I1.
    + intros y Hy.
      assert (Hq : (fold_left qmin r (qmin x a) <= qmin x a)%Q) by (apply I2; left; reflexivity).
      destruct Hy as [<-|[<-|Hy]].
      * eapply Qle_trans; [exact Hq|]. destruct (qmin_cases x a) as [[-> H]|[-> H]]; [apply Qle_refl|exact H].
      * eapply Qle_trans; [exact Hq|]. destruct (qmin_cases x a) as [[-> H]|[-> H]]; [exact H|apply Qle_refl].
      * apply I2. right; exact Hy.
Qed.

Lemma fold_qmax_spec : forall r x,
  In (fold_left qmax r x) (x :: r) /\ (forall y, In y (x :: r) -> (y <= fold_left qmax r x)%Q).
Proof.
  induction r as [|a r IH]; intros x; cbn [fold_left].
  - split; [left; reflexivity|]. intros y [<-|[]]. apply Qle_refl.
  - destruct (IH (qmax x a)) as (I1 & I2). split.
    + destruct I1 as [E|I1].
      * destruct (qmax_cases x a) as [[Q1 _]|[Q1 _]].
        -- right; left. transitivity (qmax x a); [symmetry; exact Q1 | exact E].
        -- left. transitivity (qmax x a); [symmetry; exact Q1 | exact E].
      * right; right; exact I1.
    + intros y Hy.
      assert (Hq : (qmax x a <= fold_left qmax r (qmax x a))%Q) by (apply I2; left; reflexivity).
      destruct Hy as [<-|[<-|Hy]].
      * eapply Qle_trans; [|exact Hq]. destruct (qmax_cases x a) as [[-> H]|[-> H]]; [exact H|apply Qle_refl].
      * eapply Qle_trans; [|exact Hq]. destruct (qmax_cases x a) as [[-> H]|[-> H]]; [apply Qle_refl|exact H].
      * apply I2. right; exact Hy.
Qed.

Lemma qmin_opt_spec l : l <> [] -> is_min_of (qmin_opt l) l.
Proof. destruct l as [|x r]; [congruence|]. intros _. cbn [qmin_opt is_min_of]. apply fold_qmin_spec. Qed.

Lemma qmax_opt_spec l : l <> [] -> is_max_of (qmax_opt l) l.
Proof. destruct l as [|x r]; [congruence|]. intros _. cbn [qmax_opt is_max_of]. apply fold_qmax_spec. Qed.

(* min of the children's minima = minimum of everything beneath *)
Section Combine.
  Variable A : Type.
  Variable h : A -> option Q.
  Variable L : A -> list Q.

  Lemma opt_vals_in (xs : list A) m :
    In m (opt_vals (map h xs)) <-> exists a, In a xs /\ h a = Some m.
  Proof.
    unfold opt_vals. rewrite in_flat_map. split.
    - intros (o & Ho & Hm). apply in_map_iff in Ho. destruct Ho as (a & <- & Ha).
      destruct (h a) as [q|] eqn:E; [|destruct Hm]. destruct Hm as [<-|[]]. eauto.
    - intros (a & Ha & E). exists (Some m). split; [|left; reflexivity].
      apply in_map_iff. exists a. auto.
  Qed.

  Lemma combine_min (xs : list A) :
    (forall a, In a xs -> match h a with Some m => is_min_of (Some m) (L a) | None => L a = [] end) ->
    (exists a, In a xs /\ h a <> None) ->
    is_min_of (qmin_opt (opt_vals (map h xs))) (flat_map L xs).
  Proof.
    intros Hall (a0 & Ha0 & Hn0).
    assert (Hne : opt_vals (map h xs) <> []).
    { destruct (h a0) as [m0|] eqn:E0; [|congruence].
      intros X. assert (In m0 (opt_vals (map h xs))) by (apply opt_vals_in; eauto). rewrite X in H. destruct H. }
    pose proof (qmin_opt_spec _ Hne) as S. destruct (qmin_opt (opt_vals (map h xs))) as [m|]; [|destruct S].
    destruct S as (Sin & Slb). split.
    - apply opt_vals_in in Sin. destruct Sin as (a & Ha & E).
      pose proof (Hall a Ha) as Q. rewrite E in Q. destruct Q as (Q1 & _).
      apply in_flat_map. eauto.
    - intros x Hx. apply in_flat_map in Hx. destruct Hx as (a & Ha & Hx).
      pose proof (Hall a Ha) as Q. destruct (h a) as [ma|] eqn:E.
      + destruct Q as (_ & Q2). eapply Qle_trans; [|apply Q2; exact Hx].
        apply Slb. apply opt_vals_in. eauto.
      + rewrite Q in Hx. destruct Hx.
  Qed.

  Lemma combine_max (xs : list A) :
    (forall a, In a xs -> match h a with Some m => is_max_of (Some m) (L a) | None => L a = [] end) ->
    (exists a, In a xs /\ h a <> None) ->
    is_max_of (qmax_opt (opt_vals (map h xs))) (flat_map L xs).
  Proof.
    intros Hall (a0 & Ha0 & Hn0).
    assert (Hne : opt_vals (map h xs) <> []).
    { destruct (h a0) as [m0|] eqn:E0; [|congruence].
      intros X. assert (In m0 (opt_vals (map h xs))) by (apply opt_vals_in; eauto). rewrite X in H. destruct H. }
    pose proof (qmax_opt_spec _ Hne) as S. destruct (qmax_opt (opt_vals (map h xs))) as [m|]; [|destruct S].
    destruct S as (Sin & Slb). split.
    - apply opt_vals_in in Sin. destruct Sin as (a & Ha & E).
      pose proof (Hall a Ha) as Q. rewrite E in Q. destruct Q as (Q1 & _).
      apply in_flat_map. eauto.
    - intros x Hx. apply in_flat_map in Hx. destruct Hx as (a & Ha & Hx).
      pose proof (Hall a Ha) as Q. destruct (h a) as [ma|] eqn:E.
      + destruct Q as (_ & Q2). eapply Qle_trans; [apply Q2; exact Hx|].
        apply Slb. apply opt_vals_in. eauto.
      + rewrite Q in Hx. destruct Hx.
  Qed.
End Combine.

(* ------------------------------------------------------------------ *)
(* finite pixels                                                        *)

Lemma finite_vals_in im r c q :
  0 <= r < ih im -> 0 <= c < iw im -> In q (px_vals (ipx im r c)) -> In q (finite_vals im).
Proof.
  intros Hr Hc Hq. unfold finite_vals. apply in_flat_map. exists r. split; [apply in_zrange; exact Hr|].
  apply in_flat_map. exists c. split; [apply in_zrange; exact Hc|exact Hq].
Qed.

Definition is_float_mode (m : mode) : bool := match m with F32 | F64 => true | _ => false end.

Lemma float_px m p : is_float_mode m = true -> px_ok m p = true -> exists v, p = PxF v.
Proof. destruct m; try discriminate; destruct p; try discriminate; eauto. Qed.

Lemma int_px m p : is_int_mode m = true -> px_ok m p = true -> exists v, p = PxI v.
Proof. destruct m; try discriminate; destruct p; try discriminate; eauto. Qed.

Lemma scalar_split m : scalar_mode m = true -> is_float_mode m = true \/ is_int_mode m = true.
Proof. destruct m; cbn; auto; discriminate. Qed.

(* a float tile that is not completely masked has a finite pixel *)
Lemma not_masked_finite_pixel im :
  is_float_mode (imode im) = true -> img_ok im -> is_completely_masked im = false ->
  exists r c q, 0 <= r < ih im /\ 0 <= c < iw im /\ ipx im r c = PxF (Some q).
Proof.
  intros Hf Hok Hm. unfold is_completely_masked in Hm.
  assert (Ha : all_px im nan_all = false) by (destruct (imode im); try discriminate; exact Hm).
  destruct (all_px_false im nan_all Ha) as (r & c & Hr & Hc & Hn).
  destruct (float_px _ _ Hf (Hok r c)) as (v & E). rewrite E in Hn.
  destruct v as [q|]; [|discriminate]. exists r, c, q. auto.
Qed.

Lemma tile_finite_vals k im :
  0 < k -> ih im = k -> iw im = k -> scalar_mode (imode im) = true -> img_ok im ->
  is_completely_masked im = false -> finite_vals im <> [].
Proof.
  intros Hk Hh Hw Hs Hok Hm.
  destruct (scalar_split _ Hs) as [Hf|Hi].
  - destruct (not_masked_finite_pixel im Hf Hok Hm) as (r & c & q & Hr & Hc & E).
    intros X. assert (In q (finite_vals im)) by (apply (finite_vals_in im r c); auto; rewrite E; left; reflexivity).
    rewrite X in H. destruct H.
  - destruct (int_px _ _ Hi (Hok 0 0)) as (v & E).
    intros X. assert (In (inject_Z v) (finite_vals im)).
    { apply (finite_vals_in im 0 0); try lia. rewrite E. left; reflexivity. }
    rewrite X in H. destruct H.
Qed.

(* ------------------------------------------------------------------ *)
(* the merged tile stays well-typed                                     *)

Lemma avg4_ok m a b c d :
  px_ok m a = true -> px_ok m b = true -> px_ok m c = true -> px_ok m d = true ->
  px_ok m (avg4 a b c d) = true.
Proof.
  destruct m; destruct a; try discriminate; destruct b; try discriminate;
    destruct c; try discriminate; destruct d; try discriminate; reflexivity.
Qed.

Lemma upd_px_fixed_ok m s o :
  px_ok m s = true -> px_ok (maskable m) o = true -> px_ok (maskable m) (upd_px_fixed m s o) = true.
Proof.
  intros Hs Ho. destruct m; cbn [upd_px_fixed]; try (apply upd_px_ok; assumption);
    destruct s; try exact Ho; destruct o; try exact Ho;
    match goal with |- context [if ?c then _ else _] => destruct c end; reflexivity.
Qed.

Lemma update_fixed_ok_lemma src buf iy ix by_ bx out :
  img_ok src -> img_ok buf -> update_into_gen upd_px_fixed src buf iy ix by_ bx = Some out -> img_ok out.
Proof.
  intros Hs Hb. unfold update_into_gen.
  destruct (rects src buf iy ix by_ bx) as [[[[vy vx] wy] wx]|] eqn:ER; [|discriminate].
  intros H; injection H as <-. intros r c; cbn [imode ipx].
  destruct (rects_some _ _ _ _ _ _ _ _ _ _ ER) as (_ & _ & _ & _ & _ & _ & Em).
  pose proof (Hb r c) as Hbrc. rewrite Em in Hbrc |- *.
  destruct (view_inv wy r); [destruct (view_inv wx c)|]; try exact Hbrc.
  apply upd_px_fixed_ok; [apply Hs | exact Hbrc].
Qed.

Lemma update_all_ok : forall (l : list ((slice * slice) * option img)) b bf,
  img_ok b -> (forall s c, In (s, Some c) l -> img_ok c) ->
  update_all upd_px_fixed b l = Some bf -> img_ok bf.
Proof.
  induction l as [|[[sy sx] [c|]] l IH]; intros b bf Hb Hc H; cbn [update_all] in H.
  - injection H as <-. exact Hb.
  - destruct (update_into_gen upd_px_fixed c b full_slice full_slice sy sx) as [b1|] eqn:E; [|discriminate].
    apply (IH b1 bf); [|intros s c' Hin; apply (Hc s c'); right; exact Hin|exact H].
    apply (update_fixed_ok_lemma c b full_slice full_slice sy sx b1); [apply (Hc (sy, sx) c); left; reflexivity|exact Hb|exact E].
  - apply (IH b bf Hb); [intros s c' Hin; apply (Hc s c'); right; exact Hin|exact H].
Qed.

Lemma merge_tiles_ok f k cs m :
  (forall ch, In (Some ch) cs -> img_ok ch) ->
  merge_tiles_fixed f k cs = Some (Some m) -> img_ok m.
Proof.
  intros Hok. unfold merge_tiles_fixed, merge_tiles_gen.
  destruct (first_present cs) as [c0|]; [|discriminate].
  destruct (update_all upd_px_fixed _ (combine (slices_for f k) cs)) as [bf|] eqn:E; [|discriminate].
  intros H; injection H as <-.
  assert (Hbf : img_ok bf).
  { eapply update_all_ok; [| |exact E].
    - apply clear_spec_lemma.
    - intros s c Hin. apply Hok. apply in_combine_r in Hin. exact Hin. }
  intros i j. cbn [averaging_merger imode ipx]. apply avg4_ok; apply Hbf.
Qed.

(* ------------------------------------------------------------------ *)
(* a finite child pixel keeps the merged float tile from being masked   *)

Lemma mosaic_at (val : mode -> pixel -> pixel) (bu : bool) k m0 cs n ch y x :
  0 < k -> (n < 4)%nat -> nth n cs None = Some ch -> ih ch = k ->
  0 <= y < k -> 0 <= x < k ->
  let r0 := (Z.of_nat n / 2) * k + (if bu then k - 1 - y else y) in
  let c0 := (Z.of_nat n mod 2) * k + x in
  mosaic_of val bu k m0 cs r0 c0 = val (imode ch) (ipx ch y x) /\
  0 <= r0 < 2 * k /\ 0 <= c0 < 2 * k.
Proof.
  intros Hk Hn En Hh Hy Hx r0 c0.
  set (yd := if bu then k - 1 - y else y) in *.
  assert (Hyd : 0 <= yd < k) by (unfold yd; destruct bu; lia).
  assert (Hcy : 0 <= Z.of_nat n / 2 < 2) by lia.
  assert (Hcx : 0 <= Z.of_nat n mod 2 < 2) by lia.
  assert (R1 : r0 / k = Z.of_nat n / 2).
  { unfold r0. rewrite Z.div_add_l by lia. rewrite (Z.div_small yd k) by lia. lia. }
  assert (R2 : r0 mod k = yd).
  { unfold r0. rewrite Z.add_comm, Z.mod_add by lia. apply Z.mod_small; lia. }
  assert (C1 : c0 / k = Z.of_nat n mod 2).
  { unfold c0. rewrite Z.div_add_l by lia. rewrite (Z.div_small x k) by lia. lia. }
  assert (C2 : c0 mod k = x).
  { unfold c0. rewrite Z.add_comm, Z.mod_add by lia. apply Z.mod_small; lia. }
  split; [|split].
  - unfold mosaic_of. rewrite R1, R2, C1, C2.
    replace (Z.to_nat (Z.of_nat n mod 2 + 2 * (Z.of_nat n / 2))) with n by lia.
    rewrite En. f_equal. unfold disp, yd. destruct bu; [|reflexivity]. f_equal. lia.
  - unfold r0. nia.
  - unfold c0. nia.
Qed.

Lemma float_merge_not_masked f k c0 c1 c2 c3 m n ch y x q :
  0 < k ->
  (forall c, In (Some c) [c0; c1; c2; c3] -> is_float_mode (imode c) = true /\ img_ok c /\ 0 <= ih c /\ 0 <= iw c) ->
  (n < 4)%nat -> nth n [c0; c1; c2; c3] None = Some ch ->
  0 <= y < k -> 0 <= x < k -> ipx ch y x = PxF (Some q) ->
  merge_tiles_fixed f k [c0; c1; c2; c3] = Some (Some m) ->
  is_completely_masked m = false.
Proof.
  intros Hk Hc Hn En Hy Hx Epx H.
  assert (Hd : dims_ok [c0; c1; c2; c3]).
  { intros c Hin. destruct (Hc c Hin) as (_ & _ & A & B). auto. }
  destruct (merge_pixel_gen upd_px_fixed f k c0 c1 c2 c3 m Hk Hd H) as (ch0 & EF & Mh & Mw & Mm & Hsz & F).
  pose proof (first_present_in _ _ EF) as Hin0.
  destruct (Hc ch0 Hin0) as (Hf0 & _).
  assert (Em : is_float_mode (imode m) = true).
  { rewrite Mm. destruct (imode ch0); try discriminate; reflexivity. }
  destruct (is_completely_masked m) eqn:EM; [|reflexivity]. exfalso.
  unfold is_completely_masked in EM.
  assert (EA : all_px m nan_all = true) by (destruct (imode m); try discriminate; exact EM).
  rewrite all_px_spec in EA. rewrite Mh, Mw in EA.
  pose proof (nth_some_in _ _ _ En) as Hinc.
  destruct (Hsz ch Hinc) as (Chh & _ & Cm).
  set (M := mosaic_of (mosaic_val_gen upd_px_fixed) (bottom_up f) k (imode ch0) [c0; c1; c2; c3]).
  (* every mosaic pixel is a float pixel *)
  assert (HM : forall r c, exists v, M r c = PxF v).
  { intros r c. unfold M, mosaic_of.
    destruct (nth (Z.to_nat (c / k + 2 * (r / k))) [c0; c1; c2; c3] None) as [cc|] eqn:E.
    - destruct (Hc cc (nth_some_in _ _ _ E)) as (Hfc & Hokc & _).
      unfold mosaic_val_gen, disp.
      set (pp := if bottom_up f then ipx cc (ih cc - 1 - r mod k) (c mod k) else ipx cc (r mod k) (c mod k)).
      assert (Hpp : px_ok (imode cc) pp = true) by (unfold pp; destruct (bottom_up f); apply Hokc).
      destruct (float_px _ _ Hfc Hpp) as (v & ->).
      destruct (imode cc); try discriminate; cbn [upd_px_fixed upd_px src_valid fill_px masked_px];
        destruct v; eauto.
    - destruct (imode ch0); try discriminate; cbn [masked_px]; eauto. }
  destruct (mosaic_at (mosaic_val_gen upd_px_fixed) (bottom_up f) k (imode ch0) [c0; c1; c2; c3] n ch y x
                      Hk Hn En Chh Hy Hx) as (Eat & Hr0 & Hc0).
  set (r0 := Z.of_nat n / 2 * k + (if bottom_up f then k - 1 - y else y)) in *.
  set (q0 := Z.of_nat n mod 2 * k + x) in *.
  fold M in Eat.
  assert (Eval : M r0 q0 = PxF (Some q)).
  { rewrite Eat, Epx. unfold mosaic_val_gen.
    destruct (Hc ch Hinc) as (Hfc & _). destruct (imode ch); try discriminate; reflexivity. }
  set (i := r0 / 2). set (j := q0 / 2).
  assert (Hi : 0 <= i < k) by (unfold i; lia).
  assert (Hj : 0 <= j < k) by (unfold j; lia).
  assert (Hblock : nan_all (block_avg M i j) = false).
  { destruct (HM (2 * i) (2 * j)) as (v1 & E1). destruct (HM (2 * i) (2 * j + 1)) as (v2 & E2).
    destruct (HM (2 * i + 1) (2 * j)) as (v3 & E3). destruct (HM (2 * i + 1) (2 * j + 1)) as (v4 & E4).
    unfold block_avg. rewrite E1, E2, E3, E4. cbn [avg4 nan_all].
    assert (Hin : In (Some q) [v1; v2; v3; v4]).
    { assert (Hr : r0 = 2 * i \/ r0 = 2 * i + 1) by (unfold i; lia).
      assert (Hq : q0 = 2 * j \/ q0 = 2 * j + 1) by (unfold j; lia).
      destruct Hr as [Hr|Hr], Hq as [Hq|Hq]; rewrite Hr, Hq in Eval; cbn [In].
      - left. congruence.
      - right; left. congruence.
      - right; right; left. congruence.
      - right; right; right; left. congruence. }
    destruct (favg_spec [v1; v2; v3; v4]) as (_ & _ & Hne).
    specialize (Hne q Hin). destruct (favg [v1; v2; v3; v4]); [reflexivity|congruence]. }
  subst M. rewrite <- (F i j Hi Hj) in Hblock. unfold disp in Hblock. rewrite Mh in Hblock.
  destruct (bottom_up f).
  - rewrite (EA (k - 1 - i) j) in Hblock by lia. discriminate.
  - rewrite (EA i j) in Hblock by lia. discriminate.
Qed.

(* ------------------------------------------------------------------ *)
(* the recorded range is the leaves' range                              *)

Lemma children4 p : exists a b c d, children p = [a; b; c; d].
Proof. unfold children. eauto. Qed.

Lemma scalar_maskable m : scalar_mode m = true -> maskable m = m.
Proof. destruct m; cbn; intros; try discriminate; reflexivity. Qed.

Section RangeSpec.
  Variable k : Z.
  Variable bm : mode.
  Variable leaves : pos -> option ftile.
  Hypothesis Hk : 0 < k.
  Hypothesis Hbm : scalar_mode bm = true.
  Hypothesis Hleaves : forall p t, leaves p = Some t -> leaf_ok k bm t.

  Definition tile_inv (t : ftile) : Prop :=
    good_img k bm (ft_img t) /\ imode (ft_img t) = bm /\ img_ok (ft_img t) /\
    is_completely_masked (ft_img t) = false.

  Definition hmin (f : nat) (c : pos) : option Q :=
    match range_spec k leaves f c with Some t => ft_min t | None => None end.
  Definition hmax (f : nat) (c : pos) : option Q :=
    match range_spec k leaves f c with Some t => ft_max t | None => None end.

  Lemma range_inv : forall fuel p,
    match range_spec k leaves fuel p with
    | Some t => tile_inv t /\ is_min_of (ft_min t) (leaf_vals leaves fuel p) /\
                is_max_of (ft_max t) (leaf_vals leaves fuel p)
    | None => leaf_vals leaves fuel p = []
    end.
  Proof.
    induction fuel as [|f IH]; intros p.
    - cbn [range_spec leaf_vals]. destruct (leaves p) as [t|] eqn:El; [|reflexivity].
      destruct (Hleaves p t El) as (G & Em & Hok & Hm & Es).
      split; [exact (conj G (conj Em (conj Hok Hm)))|].
      destruct G as (Gh & Gw & _).
      assert (Hne : finite_vals (ft_img t) <> []).
      { apply (tile_finite_vals k); auto. rewrite Em; exact Hbm. }
      pose proof (f_equal ft_min Es) as E1. pose proof (f_equal ft_max Es) as E2.
      cbn [save_fits ft_min ft_max] in E1, E2. rewrite E1, E2.
      split; [apply qmin_opt_spec | apply qmax_opt_spec]; exact Hne.
    - cbn [range_spec leaf_vals].
      destruct (children4 p) as (pa & pb & pc & pd & Ech). rewrite Ech.
      pose proof (IH pa) as Ia. pose proof (IH pb) as Ib. pose proof (IH pc) as Ic. pose proof (IH pd) as Id.
      set (xs := [pa; pb; pc; pd]) in *.
      (* facts about the present children *)
      assert (Hall : forall c, In (Some c) (map (option_map ft_img) (map (range_spec k leaves f) xs)) ->
                               good_img k bm c /\ imode c = bm /\ img_ok c /\ is_completely_masked c = false).
      { intros c Hin. rewrite map_map in Hin. apply in_map_iff in Hin. destruct Hin as (q & Eq & Hq).
        pose proof (IH q) as Iq. destruct (range_spec k leaves f q) as [t|]; [|discriminate].
        cbn in Eq. injection Eq as <-. apply Iq. }
      unfold range_callback.
      assert (Hgood : forall ch, In (Some ch) (map (option_map ft_img) (map (range_spec k leaves f) xs)) -> good_img k bm ch)
        by (intros ch Hin; apply (Hall ch Hin)).
      unfold xs in Hgood. cbn [map] in Hgood.
      destruct (merge_tiles_total upd_px_fixed Fits k bm _ _ _ _ Hk (scalar_maskable bm Hbm) Hgood)
        as [En|(m & Em & Gm & Mm)].
      + (* no child: nothing written, nothing beneath *)
        unfold xs; cbn [map]. unfold merge_tiles_fixed. rewrite En.
        pose proof (merge_tiles_early upd_px_fixed Fits k _ En) as Hnone.
        assert (Hz : forall q, In q xs -> leaf_vals leaves f q = []).
        { intros q Hq. pose proof (IH q) as Iq.
          destruct (range_spec k leaves f q) as [t|] eqn:Er; [|exact Iq].
          exfalso. assert (X : Some (ft_img t) = None); [|discriminate].
          apply Hnone. unfold xs in Hq. cbn [In] in Hq.
          destruct Hq as [<-|[<-|[<-|[<-|[]]]]]; rewrite Er; cbn [option_map In]; auto 6. }
        cbn [flat_map]. rewrite (Hz pa), (Hz pb), (Hz pc), (Hz pd); unfold xs; cbn [In]; auto 6.
      + unfold xs; cbn [map]. unfold merge_tiles_fixed. rewrite Em.
        (* a present child *)
        destruct (merge_tiles_shape upd_px_fixed Fits k _ m Em) as (c0 & Ef0).
        pose proof (first_present_in _ _ Ef0) as Hin0.
        assert (Hin0' : In (Some c0) (map (option_map ft_img) (map (range_spec k leaves f) xs))) by exact Hin0.
        destruct (Hall c0 Hin0') as (G0 & M0 & Ok0 & Nm0).
        assert (Hnm : is_completely_masked m = false).
        { destruct (scalar_split bm Hbm) as [Hf|Hi].
          - assert (Hf0 : is_float_mode (imode c0) = true) by (rewrite M0; exact Hf).
            destruct (not_masked_finite_pixel c0 Hf0 Ok0 Nm0) as (y & x & q & Hy & Hx & Epx).
            destruct G0 as (G0h & G0w & _). rewrite G0h in Hy. rewrite G0w in Hx.
            destruct (In_nth _ _ None Hin0) as (n & Hn & En). cbn [length] in Hn.
            eapply (float_merge_not_masked Fits k _ _ _ _ m n c0 y x q Hk); try eassumption.
            intros c Hc. assert (Hc' : In (Some c) (map (option_map ft_img) (map (range_spec k leaves f) xs))) by exact Hc.
            destruct (Hall c Hc') as ((Gh & Gw & _) & Mc & Okc & _).
            rewrite Mc. repeat split; auto; lia.
          - apply never_masked_lemma. right. rewrite Mm. exact Hi. }
        rewrite Hnm.
        split.
        * repeat split; cbn [save_fits ft_img]; try apply Gm; try assumption.
          refine (merge_tiles_ok Fits k _ m _ Em).
          intros ch Hc. assert (Hc' : In (Some ch) (map (option_map ft_img) (map (range_spec k leaves f) xs))) by exact Hc.
          apply (Hall ch Hc').
        * (* the headers *)
          assert (Hpres : exists q, In q xs /\ range_spec k leaves f q <> None).
          { change (In (Some c0) (map (option_map ft_img) (map (range_spec k leaves f) xs))) in Hin0'.
            rewrite map_map in Hin0'. apply in_map_iff in Hin0'. destruct Hin0' as (q & Eq & Hq).
            exists q. split; [exact Hq|]. destruct (range_spec k leaves f q); [discriminate|discriminate]. }
          destruct Hpres as (q0 & Hq0 & Hne0).
          assert (Pmin : forall a, In a xs -> match hmin f a with Some mm => is_min_of (Some mm) (leaf_vals leaves f a)
                                                              | None => leaf_vals leaves f a = [] end).
          { intros a _. unfold hmin. pose proof (IH a) as Ia'.
            destruct (range_spec k leaves f a) as [t|]; [|exact Ia'].
            destruct Ia' as (_ & X & _). destruct (ft_min t); [exact X|destruct X]. }
          assert (Pmax : forall a, In a xs -> match hmax f a with Some mm => is_max_of (Some mm) (leaf_vals leaves f a)
                                                              | None => leaf_vals leaves f a = [] end).
          { intros a _. unfold hmax. pose proof (IH a) as Ia'.
            destruct (range_spec k leaves f a) as [t|]; [|exact Ia'].
            destruct Ia' as (_ & _ & X). destruct (ft_max t); [exact X|destruct X]. }
          assert (Emin : exists a, In a xs /\ hmin f a <> None).
          { exists q0. split; [exact Hq0|]. unfold hmin. pose proof (IH q0) as I0.
            destruct (range_spec k leaves f q0) as [t|]; [|congruence].
            destruct I0 as (_ & X & _). destruct (ft_min t); [discriminate|destruct X]. }
          assert (Emax : exists a, In a xs /\ hmax f a <> None).
          { exists q0. split; [exact Hq0|]. unfold hmax. pose proof (IH q0) as I0.
            destruct (range_spec k leaves f q0) as [t|]; [|congruence].
            destruct I0 as (_ & _ & X). destruct (ft_max t); [discriminate|destruct X]. }
          pose proof (combine_min pos (hmin f) (leaf_vals leaves f) xs Pmin Emin) as Cmin.
          pose proof (combine_max pos (hmax f) (leaf_vals leaves f) xs Pmax Emax) as Cmax.
          cbn [save_fits ft_min ft_max children_minmax fst snd].
          change [range_spec k leaves f pa; range_spec k leaves f pb; range_spec k leaves f pc; range_spec k leaves f pd]
            with (map (range_spec k leaves f) xs).
          rewrite !map_map.
          change (map (fun x => match range_spec k leaves f x with Some t => ft_min t | None => None end) xs)
            with (map (hmin f) xs).
          change (map (fun x => match range_spec k leaves f x with Some t => ft_max t | None => None end) xs)
            with (map (hmax f) xs).
          destruct (qmin_opt (opt_vals (map (hmin f) xs))) as [vmin|]; [|destruct Cmin].
          destruct (qmax_opt (opt_vals (map (hmax f) xs))) as [vmax|]; [|destruct Cmax].
          split; assumption.
  Qed.
End RangeSpec.

(* ------------------------------------------------------------------ *)
(* packaged statements for Properties/C14.v                             *)

Definition leaves_ok (k : Z) (bm : mode) (leaves : pos -> option ftile) : Prop :=
  forall p t, leaves p = Some t -> leaf_ok k bm t.

Lemma range_is_leaf_range_lemma k bm leaves :
  0 < k -> scalar_mode bm = true -> leaves_ok k bm leaves ->
  forall fuel p,
    (forall t, range_spec k leaves fuel p = Some t ->
               is_min_of (ft_min t) (leaf_vals leaves fuel p) /\
               is_max_of (ft_max t) (leaf_vals leaves fuel p)) /\
    (range_spec k leaves fuel p = None <-> leaf_vals leaves fuel p = []).
Proof.
  intros Hk Hbm Hl fuel p. pose proof (range_inv k bm leaves Hk Hbm Hl fuel p) as I.
  destruct (range_spec k leaves fuel p) as [t|].
  - destruct I as (_ & A & B). split.
    + intros t' E. injection E as <-. auto.
    + split; [discriminate|]. intros E. rewrite E in A.
      destruct (ft_min t); [destruct A as ([] & _)|destruct A].
  - split; [discriminate|]. split; auto.
Qed.

Lemma root_range_lemma k bm leaves start :
  0 < k -> scalar_mode bm = true -> leaves_ok k bm leaves ->
  leaf_vals leaves start root <> [] ->
  exists a b, builder_range (range_spec k leaves start root) = Some (a, b) /\
              is_min_of (Some a) (leaf_vals leaves start root) /\
              is_max_of (Some b) (leaf_vals leaves start root).
Proof.
  intros Hk Hbm Hl Hne. pose proof (range_inv k bm leaves Hk Hbm Hl start root) as I.
  destruct (range_spec k leaves start root) as [t|]; [|contradiction].
  destruct I as (_ & A & B). cbn [builder_range].
  destruct (ft_min t) as [a|]; [|destruct A]. destruct (ft_max t) as [b|]; [|destruct B].
  exists a, b. auto.
Qed.

(* the mechanism: what one callback writes into the parent's cards *)
Lemma range_callback_spec_lemma k cs t :
  range_callback k cs = Some (Some t) ->
  exists m, merge_tiles_fixed Fits k (map (option_map ft_img) cs) = Some (Some m) /\
            is_completely_masked m = false /\ ft_img t = m /\
            ft_min t = match qmin_opt (opt_vals (map (fun c => match c with Some x => ft_min x | None => None end) cs)) with
                       | Some v => Some v | None => qmin_opt (finite_vals m) end /\
            ft_max t = match qmax_opt (opt_vals (map (fun c => match c with Some x => ft_max x | None => None end) cs)) with
                       | Some v => Some v | None => qmax_opt (finite_vals m) end.
Proof.
  unfold range_callback.
  destruct (merge_tiles_fixed Fits k (map (option_map ft_img) cs)) as [[m|]|]; try discriminate.
  destruct (is_completely_masked m) eqn:Em; [discriminate|].
  intros H; injection H as <-. exists m. cbn. auto.
Qed.

(* the pixel part of the range pyramid is the cascade's pyramid (Merge.pyramid_spec) *)
Lemma range_pixels_lemma k bm leaves orc :
  0 < k -> scalar_mode bm = true -> leaves_ok k bm leaves ->
  forall fuel p,
    option_map ft_img (range_spec k leaves fuel p) =
    option_map (decode (orc p))
               (pyramid_spec upd_px_fixed Fits k orc
                             (fun q => option_map (fun t => FExact (ft_img t)) (leaves q)) fuel p).
Proof.
  intros Hk Hbm Hl. induction fuel as [|f IH]; intros p.
  - cbn [range_spec pyramid_spec]. destruct (leaves p); reflexivity.
  - pose proof (range_inv k bm leaves Hk Hbm Hl (S f) p) as Inv.
    cbn [range_spec pyramid_spec] in *. unfold range_callback in *.
    assert (E : map (option_map ft_img) (map (range_spec k leaves f) (children p)) =
                map (fun c => option_map (decode (orc c))
                                (pyramid_spec upd_px_fixed Fits k orc
                                   (fun q => option_map (fun t => FExact (ft_img t)) (leaves q)) f c)) (children p)).
    { rewrite map_map. apply map_ext. intros c. apply IH. }
    rewrite <- E. unfold merge_tiles_fixed in *.
    destruct (merge_tiles_gen upd_px_fixed Fits k (map (option_map ft_img) (map (range_spec k leaves f) (children p))))
      as [[m|]|]; try reflexivity.
    destruct (is_completely_masked m); [reflexivity|].
    destruct Inv as ((_ & Em & _) & _). cbn [save_fits ft_img] in Em.
    unfold encode. rewrite Em.
    replace (holds Fits bm) with true by (destruct bm; try discriminate; reflexivity).
    reflexivity.
Qed.

(* concrete pyramids for the examples: 1 x 1 float tiles at level 1 *)
Definition ex_leaf (v : Z) : ftile := save_fits (mkImg 1 1 F32 (fun _ _ => PxF (Some (inject_Z v)))) None None.
Definition ex_leaves : pos -> option ftile :=
  fun p => if pos_eqb p (mkPos 1 0 0) then Some (ex_leaf 0)
           else if pos_eqb p (mkPos 1 1 0) then Some (ex_leaf 4)
           else if pos_eqb p (mkPos 1 0 1) then Some (ex_leaf 8)
           else if pos_eqb p (mkPos 1 1 1) then Some (ex_leaf 12) else None.
Definition ex_root_summary : option (list Q * option Q * option Q) :=
  match range_spec 1 ex_leaves 1 root with
  | Some t => Some (finite_vals (ft_img t), ft_min t, ft_max t)
  | None => None
  end.

Lemma ex_leaf_ok v : leaf_ok 1 F32 (ex_leaf v).
Proof.
  unfold leaf_ok, ex_leaf; cbn [save_fits ft_img].
  split; [unfold good_img; cbn; auto|]. split; [reflexivity|]. split; [intros r c; reflexivity|].
  split; [vm_compute; reflexivity|reflexivity].
Qed.

Lemma ex_leaves_ok : leaves_ok 1 F32 ex_leaves.
Proof.
  intros p t. unfold ex_leaves.
  destruct (pos_eqb p (mkPos 1 0 0)); [intros H; injection H as <-; apply ex_leaf_ok|].
  destruct (pos_eqb p (mkPos 1 1 0)); [intros H; injection H as <-; apply ex_leaf_ok|].
  destruct (pos_eqb p (mkPos 1 0 1)); [intros H; injection H as <-; apply ex_leaf_ok|].
  destruct (pos_eqb p (mkPos 1 1 1)); [intros H; injection H as <-; apply ex_leaf_ok|discriminate].
Qed.
