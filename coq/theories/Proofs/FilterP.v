(* Proofs about Model/Filter.v (property C07). *)
From Coq Require Import List ZArith QArith Qround Qabs Qminmax Bool Lia Lqa Permutation.
Ltac Zify.zify_post_hook ::= Z.to_euclidean_division_equations.
From Toasty Require Import Model.Quadtree Model.Filter.
Import ListNotations.
Local Open Scope Q_scope.

(* ------------------------------------------------------------------ basics *)

Lemma Qltb_lt a b : Qltb a b = true <-> a < b.
Proof.
  unfold Qltb. rewrite negb_true_iff. split.
  - intros H. apply Qnot_le_lt. intros Hle. apply Qle_bool_iff in Hle. congruence.
  - intros H. destruct (Qle_bool b a) eqn:E; auto. apply Qle_bool_iff in E. lra.
Qed.

Lemma Qltb_ge a b : Qltb a b = false <-> b <= a.
Proof. unfold Qltb. rewrite negb_false_iff. apply Qle_bool_iff. Qed.

Ltac qcase a b :=
  let E := fresh "E" in
  destruct (Qltb a b) eqn:E; [apply Qltb_lt in E | apply Qltb_ge in E].
Ltac step :=
  match goal with |- context [if Qltb ?x ?y then _ else _] => qcase x y end.

Definition sorted4 (l : Q4) : Prop := let '(a, b, c, d) := l in a <= b /\ b <= c /\ c <= d.
Definition list4 (l : Q4) : list Q := let '(a, b, c, d) := l in [a; b; c; d].

Ltac perm :=
  match goal with
  | |- Permutation [] [] => constructor
  | |- Permutation (?x :: ?l) (?x :: ?r) => apply perm_skip; perm
  | |- Permutation (?x :: ?l) (?y :: ?x :: ?r) =>
      apply (@Permutation_cons_app _ l (y :: nil) r x); cbn [app]; perm
  | |- Permutation (?x :: ?l) (?y :: ?z :: ?x :: ?r) =>
      apply (@Permutation_cons_app _ l (y :: z :: nil) r x); cbn [app]; perm
  | |- Permutation (?x :: ?l) (?y :: ?z :: ?w :: ?x :: ?r) =>
      apply (@Permutation_cons_app _ l (y :: z :: w :: nil) r x); cbn [app]; perm
  end.

(* ------------------------------------------------ the sorting network sorts *)

Lemma sort4_sorted l : sorted4 (sort4 l).
Proof.
  destruct l as [[[a b] c] d]. unfold sort4.
  cbv beta iota delta [order02]; step; cbv beta iota delta [order13]; step;
  cbv beta iota delta [order01]; step; cbv beta iota delta [order23]; step;
  cbv beta iota delta [order12]; step; cbv beta iota delta [sorted4]; lra.
Qed.

Lemma sort4_perm l : Permutation (list4 (sort4 l)) (list4 l).
Proof.
  destruct l as [[[a b] c] d]. unfold sort4.
  cbv beta iota delta [order02]; step; cbv beta iota delta [order13]; step;
  cbv beta iota delta [order01]; step; cbv beta iota delta [order23]; step;
  cbv beta iota delta [order12]; step; cbv beta iota delta [list4].
  all: clear; perm.
Qed.

(* the network leaves a sorted tuple alone: a second call changes nothing *)
Lemma sort4_idem l : sorted4 l -> sort4 l = l.
Proof.
  destruct l as [[[a b] c] d]. unfold sort4, sorted4. intros (H1 & H2 & H3).
  cbv beta iota delta [order02]; step; try lra.
  all: cbv beta iota delta [order13]; step; try lra.
  all: cbv beta iota delta [order01]; step; try lra.
  all: cbv beta iota delta [order23]; step; try lra.
  all: cbv beta iota delta [order12]; step; try lra.
  all: reflexivity.
Qed.

Lemma min4_spec l :
  let '(a, b, c, d) := l in
  min4 l <= a /\ min4 l <= b /\ min4 l <= c /\ min4 l <= d /\
  (min4 l = a \/ min4 l = b \/ min4 l = c \/ min4 l = d).
Proof.
  destruct l as [[[a b] c] d]. unfold min4.
  qcase b a; [qcase c b; [qcase d c | qcase d b] | qcase c a; [qcase d c | qcase d a]];
    repeat split; try lra; auto.
Qed.

Lemma max4_spec l :
  let '(a, b, c, d) := l in
  a <= max4 l /\ b <= max4 l /\ c <= max4 l /\ d <= max4 l /\
  (max4 l = a \/ max4 l = b \/ max4 l = c \/ max4 l = d).
Proof.
  destruct l as [[[a b] c] d]. unfold max4.
  qcase a b; [qcase b c; [qcase c d | qcase b d] | qcase a c; [qcase c d | qcase a d]];
    repeat split; try lra; auto.
Qed.

(* a value x lies in the closed range of a 4-tuple *)
Definition in_range4 (l : Q4) (x : Q) : Prop := min4 l <= x /\ x <= max4 l.

(* ------------------------------------------------------------ unwrapping *)

Section Loops.
  Variables tau pi thr : Q.
  Hypothesis tau_pos : 0 < tau.

  (* y is x moved up by a whole number (>= 0) of turns *)
  Definition lifted (x y : Q) : Prop := exists k : Z, (0 <= k)%Z /\ y == x + inject_Z k * tau.

  (* l' is a rearrangement of l with every element moved up by whole turns *)
  Definition lifts4 (l l' : Q4) : Prop :=
    exists l'', Permutation (list4 l') l'' /\ Forall2 lifted (list4 l) l''.

  Lemma lifted_refl x : lifted x x.
  Proof. exists 0%Z. split; [lia|]. change (inject_Z 0) with 0. lra. Qed.

  Lemma lifted_trans x y z : lifted x y -> lifted y z -> lifted x z.
  Proof.
    intros (k & Hk & E1) (j & Hj & E2). exists (k + j)%Z. split; [lia|].
    rewrite inject_Z_plus. rewrite E2, E1. ring.
  Qed.

  Lemma lifts4_refl l : lifts4 l l.
  Proof.
    exists (list4 l). split; [apply Permutation_refl|].
    destruct l as [[[a b] c] d]. cbn. repeat constructor; apply lifted_refl.
  Qed.

  Lemma Forall2_lifted_trans l1 l2 l3 :
    Forall2 lifted l1 l2 -> Forall2 lifted l2 l3 -> Forall2 lifted l1 l3.
  Proof.
    intros H; revert l3; induction H; intros l3 H3; inversion H3; subst; constructor.
    - eapply lifted_trans; eauto.
    - auto.
  Qed.

  Lemma lifts4_trans l1 l2 l3 : lifts4 l1 l2 -> lifts4 l2 l3 -> lifts4 l1 l3.
  Proof.
    intros (m2 & P2 & F2) (m3 & P3 & F3).
    (* F3 : Forall2 (list4 l2) m3 ; permute it along P2 *)
    destruct (Permutation_Forall2 P2 F3) as (m3' & P3' & F3').
    exists m3'. split.
    - eapply Permutation_trans; eauto.
    - eapply Forall2_lifted_trans; eauto.
  Qed.

  Lemma reinsert_sorted l : sorted4 l -> sorted4 (reinsert tau l).
  Proof.
    destruct l as [[[a b] c] d]. unfold reinsert, sorted4. intros (H1 & H2 & H3).
    repeat step; lra.
  Qed.

  Lemma lifted_one a : lifted a (a + tau).
  Proof. exists 1%Z. split; [lia|]. change (inject_Z 1) with 1. ring. Qed.

  Lemma reinsert_lifts l : lifts4 l (reinsert tau l).
  Proof.
    destruct l as [[[a b] c] d]. unfold reinsert.
    exists [a + tau; b; c; d]. split.
    - repeat step; cbn [list4]; perm.
    - repeat constructor; try apply lifted_refl. apply lifted_one.
  Qed.

  (* the margin argument has no influence on the tuple returned *)
  Lemma span_loop_margin fuel : forall l m l' m',
    span_loop tau pi fuel l m = Some (l', m') ->
    forall m2, exists m2', span_loop tau pi fuel l m2 = Some (l', m2').
  Proof.
    induction fuel as [|f IH]; intros l m l' m' H m2; [discriminate|].
    destruct l as [[[a b] c] d]. cbn [span_loop] in *.
    qcase pi (d - a).
    - eapply IH; eauto.
    - injection H as <- <-. eexists; reflexivity.
  Qed.

  Lemma span_loop_inv fuel : forall l m l' m',
    sorted4 l ->
    span_loop tau pi fuel l m = Some (l', m') ->
    sorted4 l' /\ lifts4 l l' /\ (let '(a', _, _, d') := l' in d' - a' <= pi).
  Proof.
    induction fuel as [|f IH]; intros l m l' m' Hs H; [discriminate|].
    destruct l as [[[a b] c] d]. cbn [span_loop] in H.
    qcase pi (d - a).
    - apply IH in H; [|apply reinsert_sorted; assumption].
      destruct H as (S' & L' & R'). split; [exact S'|split; [|exact R']].
      eapply lifts4_trans; [apply reinsert_lifts|exact L'].
    - injection H as <- <-. split; [exact Hs|split; [apply lifts4_refl|exact E]].
  Qed.

  Lemma span_loop_fuel_mono fuel : forall l m r,
    span_loop tau pi fuel l m = Some r ->
    forall fuel', (fuel <= fuel')%nat -> span_loop tau pi fuel' l m = Some r.
  Proof.
    induction fuel as [|f IH]; intros l m r H fuel' Hle; [discriminate|].
    destruct fuel' as [|f']; [lia|].
    destruct l as [[[a b] c] d]. cbn [span_loop] in *.
    qcase pi (d - a); auto. apply IH; auto. lia.
  Qed.

  (* ---- termination of the span loop when the corners fit in [A, A + pi] after
     unwrapping; needs pi < tau only.  Ghost state: every element carries the
     number of turns still missing to reach the common sheet. *)

  Definition G4 := ((Q * Z) * (Q * Z) * (Q * Z) * (Q * Z))%type.
  Definition vals (g : G4) : Q4 :=
    let '((a, _), (b, _), (c, _), (d, _)) := g in (a, b, c, d).
  Definition deficit (g : G4) : Z :=
    let '((_, ka), (_, kb), (_, kc), (_, kd)) := g in (ka + kb + kc + kd)%Z.
  (* every element, lifted by its remaining k >= 0 turns, lies in [A, A + pi] *)
  Definition fits (A : Q) (g : G4) : Prop :=
    let '((a, ka), (b, kb), (c, kc), (d, kd)) := g in
    (0 <= ka)%Z /\ (0 <= kb)%Z /\ (0 <= kc)%Z /\ (0 <= kd)%Z /\
    A <= a + inject_Z ka * tau <= A + pi /\ A <= b + inject_Z kb * tau <= A + pi /\
    A <= c + inject_Z kc * tau <= A + pi /\ A <= d + inject_Z kd * tau <= A + pi.

  Definition reinsert_g (g : G4) : G4 :=
    let '((a, ka), (b, kb), (c, kc), (d, kd)) := g in
    let u := a + tau in
    let e := (u, (ka - 1)%Z) in
    if Qltb u b then (e, (b, kb), (c, kc), (d, kd))
    else if Qltb u c then ((b, kb), e, (c, kc), (d, kd))
    else if Qltb u d then ((b, kb), (c, kc), e, (d, kd))
    else ((b, kb), (c, kc), (d, kd), e).

  Lemma reinsert_g_vals g : vals (reinsert_g g) = reinsert tau (vals g).
  Proof.
    destruct g as [[[[a ka] [b kb]] [c kc]] [d kd]]. unfold reinsert_g, reinsert, vals.
    repeat step; reflexivity.
  Qed.

  Lemma reinsert_g_deficit g : deficit (reinsert_g g) = (deficit g - 1)%Z.
  Proof.
    destruct g as [[[[a ka] [b kb]] [c kc]] [d kd]]. unfold reinsert_g, deficit.
    repeat step; lia.
  Qed.

  Lemma inject_Z_ge1 k : (1 <= k)%Z -> 1 <= inject_Z k.
  Proof. intros H. change 1 with (inject_Z 1). rewrite <- Zle_Qle. exact H. Qed.
  Lemma inject_Z_ge0 k : (0 <= k)%Z -> 0 <= inject_Z k.
  Proof. intros H. change 0 with (inject_Z 0). rewrite <- Zle_Qle. exact H. Qed.
  Lemma inject_Z_le0 k : (k <= 0)%Z -> inject_Z k <= 0.
  Proof. intros H. change 0 with (inject_Z 0). rewrite <- Zle_Qle. exact H. Qed.

  (* if the span exceeds pi, the smallest element still misses a turn *)
  Lemma fits_min_deficit A g :
    pi < tau -> sorted4 (vals g) -> fits A g ->
    (let '(a, _, _, d) := vals g in pi < d - a) ->
    let '((_, ka), _, _, _) := g in (1 <= ka)%Z.
  Proof.
    destruct g as [[[[a ka] [b kb]] [c kc]] [d kd]]. unfold vals, fits, sorted4.
    intros Hpt (S1 & S2 & S3) (Ka & Kb & Kc & Kd & Fa & Fb & Fc & Fd) Hspan.
    destruct (Z_le_gt_dec 1 ka) as [|Hk]; [assumption|exfalso].
    assert (ka = 0%Z) by lia. subst ka.
    change (inject_Z 0) with 0 in Fa.
    pose proof (inject_Z_ge0 kd Kd) as Hd.
    assert (0 <= inject_Z kd * tau) by nra.
    lra.
  Qed.

  Lemma reinsert_g_fits A g :
    fits A g -> (let '((_, ka), _, _, _) := g in (1 <= ka)%Z) -> fits A (reinsert_g g).
  Proof.
    destruct g as [[[[a ka] [b kb]] [c kc]] [d kd]]. unfold reinsert_g, fits.
    intros (Ka & Kb & Kc & Kd & Fa & Fb & Fc & Fd) H1.
    assert (E : a + tau + inject_Z (ka - 1) * tau == a + inject_Z ka * tau).
    { unfold Z.sub. rewrite inject_Z_plus, inject_Z_opp. change (inject_Z 1) with 1. ring. }
    repeat step; repeat split; try lia; try lra.
  Qed.

  Lemma span_loop_terminates_g A : pi < tau -> forall n g m,
    sorted4 (vals g) -> fits A g -> (deficit g <= Z.of_nat n)%Z ->
    exists r, span_loop tau pi (S n) (vals g) m = Some r.
  Proof.
    intros Hpt. induction n as [|n IH]; intros g m Hs Hf Hd.
    - (* deficit 0: all on the common sheet, span <= pi *)
      destruct g as [[[[a ka] [b kb]] [c kc]] [d kd]]. unfold vals, fits, deficit in *.
      destruct Hf as (Ka & Kb & Kc & Kd & Fa & Fb & Fc & Fd).
      assert (ka = 0 /\ kd = 0)%Z as [-> ->] by lia.
      change (inject_Z 0) with 0 in *. cbn [span_loop].
      qcase pi (d - a); [lra|]. eexists; reflexivity.
    - pose proof (fits_min_deficit A g Hpt Hs Hf) as Hmin.
      pose proof (reinsert_g_fits A g Hf) as Hfit.
      pose proof (reinsert_g_vals g) as Hv. pose proof (reinsert_g_deficit g) as Hdf.
      destruct g as [[[[a ka] [b kb]] [c kc]] [d kd]].
      cbn [vals] in Hmin, Hs, Hv |- *.
      change (span_loop tau pi (S (S n)) (a, b, c, d) m) with
        (let m' := Qmin m (Qabs (d - a - pi)) in
         if Qltb pi (d - a) then span_loop tau pi (S n) (reinsert tau (a, b, c, d)) m'
         else Some ((a, b, c, d), m')).
      cbv zeta. qcase pi (d - a); [|eexists; reflexivity].
      specialize (Hmin E). specialize (Hfit Hmin).
      rewrite <- Hv. apply IH.
      + rewrite Hv. apply reinsert_sorted. exact Hs.
      + exact Hfit.
      + rewrite Hdf. lia.
  Qed.

  (* ---- the two shifting loops *)

  Lemma shift_up_spec fuel : forall bmin lo hi m lo' hi' m',
    shift_up tau fuel bmin (lo, hi) m = Some (lo', hi', m') ->
    exists k : Z, (0 <= k)%Z /\ lo' == lo + inject_Z k * tau /\ hi' == hi + inject_Z k * tau /\
                  bmin <= lo' /\ (k = 0%Z \/ lo' < bmin + tau).
  Proof.
    induction fuel as [|f IH]; intros bmin lo hi m lo' hi' m' H; [discriminate|].
    cbn [shift_up] in H. qcase lo bmin.
    - apply IH in H. destruct H as (k & Hk & E1 & E2 & Hge & Hlt).
      exists (k + 1)%Z. rewrite inject_Z_plus. change (inject_Z 1) with 1.
      repeat split; try lia; try lra.
      right. destruct Hlt as [-> | Hlt]; [|assumption].
      change (inject_Z 0) with 0 in E1. lra.
    - injection H as <- <- <-. exists 0%Z. change (inject_Z 0) with 0.
      repeat split; try lia; try lra.
  Qed.

  Lemma shift_down_spec fuel : forall bmin lo hi m lo' hi' m',
    shift_down tau fuel bmin (lo, hi) m = Some (lo', hi', m') ->
    exists j : Z, (0 <= j)%Z /\ lo' == lo - inject_Z j * tau /\ hi' == hi - inject_Z j * tau /\
                  lo' - bmin <= tau /\ (j = 0%Z \/ bmin < lo').
  Proof.
    induction fuel as [|f IH]; intros bmin lo hi m lo' hi' m' H; [discriminate|].
    cbn [shift_down] in H. qcase tau (lo - bmin).
    - apply IH in H. destruct H as (j & Hj & E1 & E2 & Hle & Hgt).
      exists (j + 1)%Z. rewrite inject_Z_plus. change (inject_Z 1) with 1.
      repeat split; try lia; try lra.
      right. destruct Hgt as [-> | Hgt]; [|assumption].
      change (inject_Z 0) with 0 in E1. lra.
    - injection H as <- <- <-. exists 0%Z. change (inject_Z 0) with 0.
      repeat split; try lia; try lra.
  Qed.

  Lemma shift_up_fuel_mono fuel : forall bmin r m res,
    shift_up tau fuel bmin r m = Some res ->
    forall fuel', (fuel <= fuel')%nat -> shift_up tau fuel' bmin r m = Some res.
  Proof.
    induction fuel as [|f IH]; intros bmin [lo hi] m res H fuel' Hle; [discriminate|].
    destruct fuel' as [|f']; [lia|]. cbn [shift_up] in *.
    qcase lo bmin; auto. apply IH; auto. lia.
  Qed.

  Lemma shift_down_fuel_mono fuel : forall bmin r m res,
    shift_down tau fuel bmin r m = Some res ->
    forall fuel', (fuel <= fuel')%nat -> shift_down tau fuel' bmin r m = Some res.
  Proof.
    induction fuel as [|f IH]; intros bmin [lo hi] m res H fuel' Hle; [discriminate|].
    destruct fuel' as [|f']; [lia|]. cbn [shift_down] in *.
    qcase tau (lo - bmin); auto. apply IH; auto. lia.
  Qed.

  (* both shifting loops terminate: the distance to cover shrinks by tau each time *)
  Lemma shift_up_terminates : forall n bmin lo hi m,
    bmin - lo <= inject_Z (Z.of_nat n) * tau ->
    exists res, shift_up tau (S n) bmin (lo, hi) m = Some res.
  Proof.
    induction n as [|n IH]; intros bmin lo hi m H.
    - cbn [shift_up]. change (inject_Z (Z.of_nat 0)) with 0 in H.
      qcase lo bmin; [lra|]. eexists; reflexivity.
    - change (shift_up tau (S (S n)) bmin (lo, hi) m) with
        (let m' := Qmin m (Qabs (lo - bmin)) in
         if Qltb lo bmin then shift_up tau (S n) bmin (lo + tau, hi + tau) m'
         else Some (lo, hi, m')).
      cbv zeta. qcase lo bmin; [|eexists; reflexivity].
      apply IH. rewrite Nat2Z.inj_succ in H. unfold Z.succ in H.
      rewrite inject_Z_plus in H. change (inject_Z 1) with 1 in H. lra.
  Qed.

  Lemma shift_down_terminates : forall n bmin lo hi m,
    lo - bmin - tau <= inject_Z (Z.of_nat n) * tau ->
    exists res, shift_down tau (S n) bmin (lo, hi) m = Some res.
  Proof.
    induction n as [|n IH]; intros bmin lo hi m H.
    - cbn [shift_down]. change (inject_Z (Z.of_nat 0)) with 0 in H.
      qcase tau (lo - bmin); [lra|]. eexists; reflexivity.
    - change (shift_down tau (S (S n)) bmin (lo, hi) m) with
        (let m' := Qmin m (Qabs (lo - bmin - tau)) in
         if Qltb tau (lo - bmin) then shift_down tau (S n) bmin (lo - tau, hi - tau) m'
         else Some (lo, hi, m')).
      cbv zeta. qcase tau (lo - bmin); [|eexists; reflexivity].
      apply IH. rewrite Nat2Z.inj_succ in H. unfold Z.succ in H.
      rewrite inject_Z_plus in H. change (inject_Z 1) with 1 in H. lra.
  Qed.

  (* every rational is below some natural multiple of tau *)
  Lemma archimed_tau x : exists n : nat, x <= inject_Z (Z.of_nat n) * tau.
  Proof.
    exists (Z.to_nat (Qceiling (x / tau))).
    pose proof (Qle_ceiling (x / tau)) as Hc.
    assert (Hx : x == tau * (x / tau)) by (rewrite Qmult_div_r; [reflexivity | lra]).
    destruct (Z_le_gt_dec 0 (Qceiling (x / tau))) as [Hpos|Hneg].
    - rewrite Z2Nat.id by assumption. nra.
    - replace (Z.to_nat (Qceiling (x / tau))) with 0%nat by lia. change (inject_Z (Z.of_nat 0)) with 0.
      assert (inject_Z (Qceiling (x / tau)) <= 0) by (apply inject_Z_le0; lia). nra.
  Qed.

End Loops.

(* ------------------------------------------------------------ the bbox test *)

Section Bbox.
  Variables tau pi thr : Q.
  Hypothesis tau_pos : 0 < tau.

  Lemma inject_Z_01 j : 0 <= inject_Z j * tau -> inject_Z j * tau <= tau -> (j = 0 \/ j = 1)%Z.
  Proof.
    intros H0 H1.
    assert (A0 : 0 <= inject_Z j) by nra. assert (A1 : inject_Z j <= 1) by nra.
    change 0 with (inject_Z 0) in A0. change 1 with (inject_Z 1) in A1.
    rewrite <- Zle_Qle in A0, A1. lia.
  Qed.

  (* Soundness: no false negative.  If some point (lon, lat) has its latitude in
     both latitude ranges and its longitude congruent (mod tau) to a point of the
     tile's unwrapped longitude range and to a point of the box's range -- not
     merely touching end to end -- the function answers True.  Any box width,
     any origin. *)
  Lemma bbox_sound_l fuel c bx r :
    bbox tau pi thr fuel c bx = Some r ->
    forall lon lat,
      in_range4 (lats c) lat -> b_lat_min bx <= lat <= b_lat_max bx ->
      (polar thr c = true \/
       exists tmin tmax k1 k2,
         tile_lon_range tau pi fuel c = Some (tmin, tmax) /\
         tmin <= lon + inject_Z k1 * tau <= tmax /\
         b_lon_min bx <= lon + inject_Z k2 * tau <= b_lon_max bx /\
         (tmin < lon + inject_Z k1 * tau \/ lon + inject_Z k2 * tau < b_lon_max bx) /\
         (lon + inject_Z k1 * tau < tmax \/ b_lon_min bx < lon + inject_Z k2 * tau)) ->
      r_dec r = true.
  Proof.
    intros H lon lat [Hlat1 Hlat2] [Hb1 Hb2] Hlon.
    unfold bbox in H.
    qcase (max4 (lats c)) (b_lat_min bx); [lra|].
    qcase (b_lat_max bx) (min4 (lats c)); [lra|].
    destruct (Qltb thr (max4 (lats c)) || Qltb (min4 (lats c)) (- thr)) eqn:Epol.
    { injection H as <-. reflexivity. }
    destruct Hlon as [Hp | (tmin & tmax & k1 & k2 & Hr & Ht & Hbx & Hs1 & Hs2)].
    { unfold polar in Hp. congruence. }
    unfold tile_lon_range in Hr.
    destruct (span_loop tau pi fuel (sort4 (lons c)) 0) as [[l m0]|] eqn:Esp0; [|discriminate].
    destruct (span_loop_margin tau pi fuel _ _ _ _ Esp0
               (Qmin (Qmin (Qabs (b_lat_min bx - max4 (lats c))) (Qabs (b_lat_max bx - min4 (lats c))))
                     (Qmin (Qabs (max4 (lats c) - thr)) (Qabs (min4 (lats c) + thr))))) as (m4 & Esp).
    rewrite Esp in H. destruct l as [[[l0 l1] l2] l3]. injection Hr as -> ->.
    destruct (shift_up tau fuel (b_lon_min bx) (tmin, tmax) m4) as [[[u0 u3] m5]|] eqn:Eup; [|discriminate].
    destruct (shift_down tau fuel (b_lon_min bx) (u0, u3) m5) as [[[v0 v3] m6]|] eqn:Edn; [|discriminate].
    apply shift_up_spec in Eup. destruct Eup as (k & Hk & Eu0 & Eu3 & Hge & Hkk).
    apply shift_down_spec in Edn. destruct Edn as (j & Hj & Ev0 & Ev3 & Hle & Hjj).
    qcase v0 (b_lon_max bx); [injection H as <-; reflexivity|].
    qcase (b_lon_min bx + tau) v3; [injection H as <-; reflexivity|].
    exfalso.
    (* p in the box, q in the shifted tile range, q - p a whole number of turns *)
    set (p := lon + inject_Z k2 * tau) in *.
    set (q0 := lon + inject_Z k1 * tau) in *.
    assert (Hlow : b_lon_min bx <= v0).
    { destruct Hjj as [-> | Hgt]; [|lra]. change (inject_Z 0) with 0 in Ev0. lra. }
    set (n := (k1 + k - j - k2)%Z).
    assert (En : inject_Z n == inject_Z k1 + inject_Z k - inject_Z j - inject_Z k2).
    { unfold n, Z.sub. rewrite !inject_Z_plus, !inject_Z_opp. ring. }
    (* q = q0 + (k - j) tau = p + n tau, v0 <= q <= v3 *)
    assert (Hq1 : v0 <= p + inject_Z n * tau) by (unfold p, q0 in *; rewrite En; nra).
    assert (Hq2 : p + inject_Z n * tau <= v3) by (unfold p, q0 in *; rewrite En; nra).
    assert (Hn : (n = 0 \/ n = 1)%Z).
    { apply inject_Z_01; nra. }
    destruct Hn as [Hn | Hn]; rewrite Hn in Hq1, Hq2, En.
    - change (inject_Z 0) with 0 in Hq1, Hq2, En.
      (* p = v0 = bmax: excluded by the first strictness clause *)
      destruct Hs1 as [Hs1 | Hs1]; [|lra].
      unfold p, q0 in *. nra.
    - change (inject_Z 1) with 1 in Hq1, Hq2, En.
      destruct Hs2 as [Hs2 | Hs2]; [|lra].
      unfold p, q0 in *. nra.
  Qed.

  (* closed-interval contact alone is not enough: a tile range ending exactly
     where the box begins is rejected (the tests at pyx 257/264 are strict) *)
  Lemma bbox_touching_rejected :
    exists c bx r, bbox 6 3 (3 # 2) 8 c bx = Some r /\ r_dec r = false /\
                   tile_lon_range 6 3 8 c = Some (0, 1) /\ b_lon_min bx == 1.
  Proof.
    exists (mkC (0, 0, 1, 1) (0, 0, 1, 1)), (mkBox 1 2 0 1).
    eexists. split; [vm_compute; reflexivity|]. split; [reflexivity|]. split; reflexivity.
  Qed.

  (* more fuel never changes an answer *)
  Lemma bbox_fuel_mono fuel c bx r :
    bbox tau pi thr fuel c bx = Some r ->
    forall fuel', (fuel <= fuel')%nat -> bbox tau pi thr fuel' c bx = Some r.
  Proof.
    intros H fuel' Hle. unfold bbox in *.
    qcase (max4 (lats c)) (b_lat_min bx); [assumption|].
    qcase (b_lat_max bx) (min4 (lats c)); [assumption|].
    destruct (Qltb thr (max4 (lats c)) || Qltb (min4 (lats c)) (- thr)); [assumption|].
    destruct (span_loop tau pi fuel (sort4 (lons c)) _) as [[l m4]|] eqn:Esp; [|discriminate].
    rewrite (span_loop_fuel_mono tau pi fuel _ _ _ Esp fuel' Hle).
    destruct l as [[[l0 l1] l2] l3].
    destruct (shift_up tau fuel (b_lon_min bx) (l0, l3) m4) as [[[u0 u3] m5]|] eqn:Eup; [|discriminate].
    rewrite (shift_up_fuel_mono tau fuel _ _ _ _ Eup fuel' Hle).
    destruct (shift_down tau fuel (b_lon_min bx) (u0, u3) m5) as [[[v0 v3] m6]|] eqn:Edn; [|discriminate].
    rewrite (shift_down_fuel_mono tau fuel _ _ _ _ Edn fuel' Hle).
    exact H.
  Qed.

  (* the part of the function before line 204 never needs fuel and leaves the
     longitude column alone *)
  Lemma bbox_early fuel c bx :
    reaches_sort thr c bx = false ->
    exists r, bbox tau pi thr fuel c bx = Some r /\ r_lons r = lons c /\ r_sorted r = false.
  Proof.
    unfold reaches_sort, lat_reject, polar, bbox. intros H.
    qcase (max4 (lats c)) (b_lat_min bx); [eexists; repeat split|].
    qcase (b_lat_max bx) (min4 (lats c)); [eexists; repeat split|].
    cbn [orb negb andb] in H. apply negb_false_iff in H. rewrite H.
    eexists; repeat split.
  Qed.

  Lemma bbox_late fuel c bx r :
    reaches_sort thr c bx = true -> bbox tau pi thr fuel c bx = Some r ->
    r_sorted r = true /\ sorted4 (r_lons r) /\ lifts4 tau (sort4 (lons c)) (r_lons r) /\
    (let '(a, _, _, d) := r_lons r in d - a <= pi).
  Proof.
    unfold reaches_sort, lat_reject, polar, bbox. intros Hr H.
    apply andb_true_iff in Hr. destruct Hr as [Hr1 Hr2].
    apply negb_true_iff in Hr1, Hr2. apply orb_false_iff in Hr1. destruct Hr1 as [Hr1 Hr1'].
    rewrite Hr1, Hr1', Hr2 in H.
    destruct (span_loop tau pi fuel (sort4 (lons c)) _) as [[l m4]|] eqn:Esp; [|discriminate].
    apply span_loop_inv in Esp; [|apply sort4_sorted].
    destruct l as [[[l0 l1] l2] l3].
    destruct (shift_up tau fuel (b_lon_min bx) (l0, l3) m4) as [[[u0 u3] m5]|]; [|discriminate].
    destruct (shift_down tau fuel (b_lon_min bx) (u0, u3) m5) as [[[v0 v3] m6]|]; [|discriminate].
    destruct Esp as (S & L & R).
    destruct (Qltb v0 (b_lon_max bx)); [injection H as <-; cbn; auto|].
    destruct (Qltb (b_lon_min bx + tau) v3); injection H as <-; cbn; auto.
  Qed.

  (* ---- termination under the half-turn hypothesis ---- *)

  Definition og (i j : nat) (g : G4) : G4 :=
    let '(x0, x1, x2, x3) := g in
    match i, j with
    | 0%nat, 2%nat => if Qltb (fst x2) (fst x0) then (x2, x1, x0, x3) else g
    | 1%nat, 3%nat => if Qltb (fst x3) (fst x1) then (x0, x3, x2, x1) else g
    | 0%nat, 1%nat => if Qltb (fst x1) (fst x0) then (x1, x0, x2, x3) else g
    | 2%nat, 3%nat => if Qltb (fst x3) (fst x2) then (x0, x1, x3, x2) else g
    | _, _ => if Qltb (fst x2) (fst x1) then (x0, x2, x1, x3) else g
    end.
  Definition sort4_g (g : G4) : G4 := og 1 2 (og 2 3 (og 0 1 (og 1 3 (og 0 2 g)))).

  Lemma sort4_g_vals g : vals (sort4_g g) = sort4 (vals g).
  Proof.
    destruct g as [[[[a ka] [b kb]] [c kc]] [d kd]]. unfold sort4_g, sort4, vals.
    cbv beta iota delta [og order02 fst]; step; cbv beta iota delta [og order13 fst]; step;
    cbv beta iota delta [og order01 fst]; step; cbv beta iota delta [og order23 fst]; step;
    cbv beta iota delta [og order12 fst]; step; reflexivity.
  Qed.

  Lemma sort4_g_fits A g : fits tau pi A g -> fits tau pi A (sort4_g g).
  Proof.
    destruct g as [[[[a ka] [b kb]] [c kc]] [d kd]]. unfold sort4_g, fits.
    intros (Ka & Kb & Kc & Kd & Fa & Fb & Fc & Fd).
    cbv beta iota delta [og fst]; step; cbv beta iota delta [og fst]; step;
    cbv beta iota delta [og fst]; step; cbv beta iota delta [og fst]; step;
    cbv beta iota delta [og fst]; step; tauto.
  Qed.

  Lemma bbox_terminates_g A g c bx :
    pi < tau -> vals g = lons c -> fits tau pi A g ->
    exists fuel r, bbox tau pi thr fuel c bx = Some r.
  Proof.
    intros Hpt Hv Hf.
    destruct (reaches_sort thr c bx) eqn:Er.
    2:{ destruct (bbox_early 0 c bx Er) as (r & H & _). exists 0%nat, r. exact H. }
    pose (g' := sort4_g g).
    assert (Hv' : vals g' = sort4 (lons c)) by (unfold g'; rewrite sort4_g_vals, Hv; reflexivity).
    assert (Hf' : fits tau pi A g') by (apply sort4_g_fits; exact Hf).
    assert (Hd : (0 <= deficit g')%Z).
    { destruct g' as [[[[a ka] [b kb]] [c0 kc]] [d kd]]. unfold fits in Hf'. unfold deficit. lia. }
    set (m3 := Qmin (Qmin (Qabs (b_lat_min bx - max4 (lats c))) (Qabs (b_lat_max bx - min4 (lats c))))
                    (Qmin (Qabs (max4 (lats c) - thr)) (Qabs (min4 (lats c) + thr)))).
    destruct (span_loop_terminates_g tau pi A Hpt (Z.to_nat (deficit g')) g' m3) as ([l m4] & Esp).
    { rewrite Hv'. apply sort4_sorted. } { exact Hf'. } { rewrite Z2Nat.id; lia. }
    rewrite Hv' in Esp. destruct l as [[[l0 l1] l2] l3].
    destruct (archimed_tau tau tau_pos (b_lon_min bx - l0)) as (n1 & Hn1).
    destruct (shift_up_terminates tau n1 (b_lon_min bx) l0 l3 m4 Hn1) as ([[u0 u3] m5] & Eup).
    destruct (archimed_tau tau tau_pos (u0 - b_lon_min bx - tau)) as (n2 & Hn2).
    destruct (shift_down_terminates tau n2 (b_lon_min bx) u0 u3 m5 Hn2) as ([[v0 v3] m6] & Edn).
    set (F := (S (Z.to_nat (deficit g')) + S n1 + S n2)%nat).
    exists F.
    unfold reaches_sort, lat_reject, polar in Er.
    apply andb_true_iff in Er. destruct Er as [Hr1 Hr2].
    apply negb_true_iff in Hr1, Hr2. apply orb_false_iff in Hr1. destruct Hr1 as [Hr1 Hr1'].
    unfold bbox. rewrite Hr1, Hr1', Hr2. fold m3.
    rewrite (span_loop_fuel_mono tau pi _ _ _ _ Esp F) by (unfold F; lia).
    rewrite (shift_up_fuel_mono tau _ _ _ _ _ Eup F) by (unfold F; lia).
    rewrite (shift_down_fuel_mono tau _ _ _ _ _ Edn F) by (unfold F; lia).
    destruct (Qltb v0 (b_lon_max bx)); [eexists; reflexivity|].
    destruct (Qltb (b_lon_min bx + tau) v3); eexists; reflexivity.
  Qed.

  (* user-facing form: arbitrary integer unwrapping (k of any sign) *)
  Lemma bbox_terminates c bx :
    pi < tau ->
    (exists A ka kb kc kd,
        let '(a, b, c0, d) := lons c in
        A <= a + inject_Z ka * tau <= A + pi /\ A <= b + inject_Z kb * tau <= A + pi /\
        A <= c0 + inject_Z kc * tau <= A + pi /\ A <= d + inject_Z kd * tau <= A + pi) ->
    exists fuel r, bbox tau pi thr fuel c bx = Some r.
  Proof.
    intros Hpt (A & ka & kb & kc & kd & H).
    destruct (lons c) as [[[a b] c0] d] eqn:El.
    destruct H as (Ha & Hb & Hc & Hd).
    set (K := Z.min (Z.min ka kb) (Z.min kc kd)).
    apply (bbox_terminates_g (A - inject_Z K * tau)
             ((a, (ka - K)%Z), (b, (kb - K)%Z), (c0, (kc - K)%Z), (d, (kd - K)%Z)) c bx Hpt).
    - cbn [vals]. symmetry. exact El.
    - unfold fits.
      assert (E : forall k, inject_Z (k - K) == inject_Z k - inject_Z K).
      { intros k. unfold Z.sub. rewrite inject_Z_plus, inject_Z_opp. ring. }
      rewrite !E. repeat split; try (unfold K; lia); try nra.
  Qed.

End Bbox.
