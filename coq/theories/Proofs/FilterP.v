(* Proofs about Model/Filter.v (property C07). *)
From Coq Require Import List ZArith QArith Qround Qabs Qminmax Bool Lia Lqa Permutation.
Ltac Zify.zify_post_hook ::= Z.to_euclidean_division_equations.
From Toasty Require Import Model.Quadtree Model.Filter.
Import ListNotations.
Local Open Scope Q_scope.

(* ------------------------------------------------------------------ basics *)

Lemma Qltb_lt a b : Qltb a b = true <-> a < b.
Proof.
  unfold Qltb. rewrite negb_true_iff. split.
  - intros H. apply Qnot_le_lt. intros Hle. apply Qle_bool_iff in Hle. congruence.
  - intros H. destruct (Qle_bool b a) eqn:E; auto. apply Qle_bool_iff in E. lra.
Qed.

Lemma Qltb_ge a b : Qltb a b = false <-> b <= a.
Proof. unfold Qltb. rewrite negb_false_iff. apply Qle_bool_iff. Qed.

Ltac qcase a b :=
  let E := fresh "E" in
  destruct (Qltb a b) eqn:E; [apply Qltb_lt in E | apply Qltb_ge in E].
Ltac step :=
  match goal with |- context [if Qltb ?x ?y then _ else _] => qcase x y end.

Definition sorted4 (l : Q4) : Prop := let '(a, b, c, d) := l in a <= b /\ b <= c /\ c <= d.
Definition list4 (l : Q4) : list Q := let '(a, b, c, d) := l in [a; b; c; d].

Ltac perm :=
  match goal with
  | |- Permutation [] [] => constructor
  | |- Permutation (?x :: ?l) (?x :: ?r) => apply perm_skip; perm
  | |- Permutation (?x :: ?l) (?y :: ?x :: ?r) =>
      apply (@Permutation_cons_app _ l (y :: nil) r x); cbn [app]; perm
  | |- Permutation (?x :: ?l) (?y :: ?z :: ?x :: ?r) =>
      apply (@Permutation_cons_app _ l (y :: z :: nil) r x); cbn [app]; perm
  | |- Permutation (?x :: ?l) (?y :: ?z :: ?w :: ?x :: ?r) =>
      apply (@Permutation_cons_app _ l (y :: z :: w :: nil) r x); cbn [app]; perm
  end.

(* ------------------------------------------------ the sorting network sorts *)

Lemma sort4_sorted l : sorted4 (sort4 l).
Proof.
  destruct l as [[[a b] c] d]. unfold sort4.
  cbv beta iota delta [order02]; step; cbv beta iota delta [order13]; step;
  cbv beta iota delta [order01]; step; cbv beta iota delta [order23]; step;
  cbv beta iota delta [order12]; step; cbv beta iota delta [sorted4]; lra.
Qed.

Lemma sort4_perm l : Permutation (list4 (sort4 l)) (list4 l).
Proof.
  destruct l as [[[a b] c] d]. unfold sort4.
  cbv beta iota delta [order02]; step; cbv beta iota delta [order13]; step;
  cbv beta iota delta [order01]; step; cbv beta iota delta [order23]; step;
  cbv beta iota delta [order12]; step; cbv beta iota delta [list4].
  all: clear; perm.
Qed.

(* the network leaves a sorted tuple alone: a second call changes nothing *)
Lemma sort4_idem l : sorted4 l -> sort4 l = l.
Proof.
  destruct l as [[[a b] c] d]. unfold sort4, sorted4. intros (H1 & H2 & H3).
  cbv beta iota delta [order02]; step; try lra.
  all: cbv beta iota delta [order13]; step; try lra.
  all: cbv beta iota delta [order01]; step; try lra.
  all: cbv beta iota delta [order23]; step; try lra.
  all: cbv beta iota delta [order12]; step; try lra.
  all: reflexivity.
Qed.

Lemma min4_spec l :
  let '(a, b, c, d) := l in
  min4 l <= a /\ min4 l <= b /\ min4 l <= c /\ min4 l <= d /\
  (min4 l = a \/ min4 l = b \/ min4 l = c \/ min4 l = d).
Proof.
  destruct l as [[[a b] c] d]. unfold min4.
  qcase b a; [qcase c b; [qcase d c | qcase d b] | qcase c a; [qcase d c | qcase d a]];
    repeat split; try lra; auto.
Qed.

Lemma max4_spec l :
  let '(a, b, c, d) := l in
  a <= max4 l /\ b <= max4 l /\ c <= max4 l /\ d <= max4 l /\
  (max4 l = a \/ max4 l = b \/ max4 l = c \/ max4 l = d).
Proof.
  destruct l as [[[a b] c] d]. unfold max4.
  qcase a b; [qcase b c; [qcase c d | qcase b d] | qcase a c; [qcase c d | qcase a d]];
    repeat split; try lra; auto.
Qed.

(* a value x lies in the closed range of a 4-tuple *)
Definition in_range4 (l : Q4) (x : Q) : Prop := min4 l <= x /\ x <= max4 l.

(* ------------------------------------------------------------ unwrapping *)

Section Loops.
  Variables tau pi thr : Q.
  Hypothesis tau_pos : 0 < tau.

  (* y is x moved up by a whole number (>= 0) of turns *)
  Definition lifted (x y : Q) : Prop := exists k : Z, (0 <= k)%Z /\ y == x + inject_Z k * tau.

  (* l' is a rearrangement of l with every element moved up by whole turns *)
  Definition lifts4 (l l' : Q4) : Prop :=
    exists l'', Permutation (list4 l') l'' /\ Forall2 lifted (list4 l) l''.

  Lemma lifted_refl x : lifted x x.
  Proof. exists 0%Z. split; [lia|]. change (inject_Z 0) with 0. lra. Qed.

  Lemma lifted_trans x y z : lifted x y -> lifted y z -> lifted x z.
  Proof.
    intros (k & Hk & E1) (j & Hj & E2). exists (k + j)%Z. split; [lia|].
    rewrite inject_Z_plus. rewrite E2, E1. ring.
  Qed.

  Lemma lifts4_refl l : lifts4 l l.
  Proof.
    exists (list4 l). split; [apply Permutation_refl|].
    destruct l as [[[a b] c] d]. cbn. repeat constructor; apply lifted_refl.
  Qed.

  Lemma Forall2_lifted_trans l1 l2 l3 :
    Forall2 lifted l1 l2 -> Forall2 lifted l2 l3 -> Forall2 lifted l1 l3.
  Proof.
    intros H; revert l3; induction H; intros l3 H3; inversion H3; subst; constructor.
    - eapply lifted_trans; eauto.
    - auto.
  Qed.

  Lemma lifts4_trans l1 l2 l3 : lifts4 l1 l2 -> lifts4 l2 l3 -> lifts4 l1 l3.
  Proof.
    intros (m2 & P2 & F2) (m3 & P3 & F3).
    (* F3 : Forall2 (list4 l2) m3 ; permute it along P2 *)
    destruct (Permutation_Forall2 P2 F3) as (m3' & P3' & F3').
    exists m3'. split.
    - eapply Permutation_trans; eauto.
    - eapply Forall2_lifted_trans; eauto.
  Qed.

  Lemma reinsert_sorted l : sorted4 l -> sorted4 (reinsert tau l).
  Proof.
    destruct l as [[[a b] c] d]. unfold reinsert, sorted4. intros (H1 & H2 & H3).
    repeat step; lra.
  Qed.

  Lemma lifted_one a : lifted a (a + tau).
  Proof. exists 1%Z. split; [lia|]. change (inject_Z 1) with 1. ring. Qed.

  Lemma reinsert_lifts l : lifts4 l (reinsert tau l).
  Proof.
    destruct l as [[[a b] c] d]. unfold reinsert.
    exists [a + tau; b; c; d]. split.
    - repeat step; cbn [list4]; perm.
    - repeat constructor; try apply lifted_refl. apply lifted_one.
  Qed.

  (* the margin argument has no influence on the tuple returned *)
  Lemma span_loop_margin fuel : forall l m l' m',
    span_loop tau pi fuel l m = Some (l', m') ->
    forall m2, exists m2', span_loop tau pi fuel l m2 = Some (l', m2').
  Proof.
    induction fuel as [|f IH]; intros l m l' m' H m2; [discriminate|].
    destruct l as [[[a b] c] d]. cbn [span_loop] in *.
    qcase pi (d - a).
    - eapply IH; eauto.
    - injection H as <- <-. eexists; reflexivity.
  Qed.

  Lemma span_loop_inv fuel : forall l m l' m',
    sorted4 l ->
    span_loop tau pi fuel l m = Some (l', m') ->
    sorted4 l' /\ lifts4 l l' /\ (let '(a', _, _, d') := l' in d' - a' <= pi).
  Proof.
    induction fuel as [|f IH]; intros l m l' m' Hs H; [discriminate|].
    destruct l as [[[a b] c] d]. cbn [span_loop] in H.
    qcase pi (d - a).
    - apply IH in H; [|apply reinsert_sorted; assumption].
      destruct H as (S' & L' & R'). split; [exact S'|split; [|exact R']].
      eapply lifts4_trans; [apply reinsert_lifts|exact L'].
    - injection H as <- <-. split; [exact Hs|split; [apply lifts4_refl|exact E]].
  Qed.

  Lemma span_loop_fuel_mono fuel : forall l m r,
    span_loop tau pi fuel l m = Some r ->
    forall fuel', (fuel <= fuel')%nat -> span_loop tau pi fuel' l m = Some r.
  Proof.
    induction fuel as [|f IH]; intros l m r H fuel' Hle; [discriminate|].
    destruct fuel' as [|f']; [lia|].
    destruct l as [[[a b] c] d]. cbn [span_loop] in *.
    qcase pi (d - a); auto. apply IH; auto. lia.
  Qed.

  (* ---- termination of the span loop when the corners fit in [A, A + pi] after
     unwrapping; needs pi < tau only.  Ghost state: every element carries the
     number of turns still missing to reach the common sheet. *)

  Definition G4 := ((Q * Z) * (Q * Z) * (Q * Z) * (Q * Z))%type.
  Definition vals (g : G4) : Q4 :=
    let '((a, _), (b, _), (c, _), (d, _)) := g in (a, b, c, d).
  Definition deficit (g : G4) : Z :=
    let '((_, ka), (_, kb), (_, kc), (_, kd)) := g in (ka + kb + kc + kd)%Z.
  (* every element, lifted by its remaining k >= 0 turns, lies in [A, A + pi] *)
  Definition fits (A : Q) (g : G4) : Prop :=
    let '((a, ka), (b, kb), (c, kc), (d, kd)) := g in
    (0 <= ka)%Z /\ (0 <= kb)%Z /\ (0 <= kc)%Z /\ (0 <= kd)%Z /\
    A <= a + inject_Z ka * tau <= A + pi /\ A <= b + inject_Z kb * tau <= A + pi /\
    A <= c + inject_Z kc * tau <= A + pi /\ A <= d + inject_Z kd * tau <= A + pi.

  Definition reinsert_g (g : G4) : G4 :=
    let '((a, ka), (b, kb), (c, kc), (d, kd)) := g in
    let u := a + tau in
    let e := (u, (ka - 1)%Z) in
    if Qltb u b then (e, (b, kb), (c, kc), (d, kd))
    else if Qltb u c then ((b, kb), e, (c, kc), (d, kd))
    else if Qltb u d then ((b, kb), (c, kc), e, (d, kd))
    else ((b, kb), (c, kc), (d, kd), e).

  Lemma reinsert_g_vals g : vals (reinsert_g g) = reinsert tau (vals g).
  Proof.
    destruct g as [[[[a ka] [b kb]] [c kc]] [d kd]]. unfold reinsert_g, reinsert, vals.
    repeat step; reflexivity.
  Qed.

  Lemma reinsert_g_deficit g : deficit (reinsert_g g) = (deficit g - 1)%Z.
  Proof.
    destruct g as [[[[a ka] [b kb]] [c kc]] [d kd]]. unfold reinsert_g, deficit.
    repeat step; lia.
  Qed.

  Lemma inject_Z_ge1 k : (1 <= k)%Z -> 1 <= inject_Z k.
  Proof. intros H. change 1 with (inject_Z 1). rewrite <- Zle_Qle. exact H. Qed.
  Lemma inject_Z_ge0 k : (0 <= k)%Z -> 0 <= inject_Z k.
  Proof. intros H. change 0 with (inject_Z 0). rewrite <- Zle_Qle. exact H. Qed.
  Lemma inject_Z_le0 k : (k <= 0)%Z -> inject_Z k <= 0.
  Proof. intros H. change 0 with (inject_Z 0). rewrite <- Zle_Qle. exact H. Qed.

  (* if the span exceeds pi, the smallest element still misses a turn *)
  Lemma fits_min_deficit A g :
    pi < tau -> sorted4 (vals g) -> fits A g ->
    (let '(a, _, _, d) := vals g in pi < d - a) ->
    let '((_, ka), _, _, _) := g in (1 <= ka)%Z.
  Proof.
    destruct g as [[[[a ka] [b kb]] [c kc]] [d kd]]. unfold vals, fits, sorted4.
    intros Hpt (S1 & S2 & S3) (Ka & Kb & Kc & Kd & Fa & Fb & Fc & Fd) Hspan.
    destruct (Z_le_gt_dec 1 ka) as [|Hk]; [assumption|exfalso].
    assert (ka = 0%Z) by lia. subst ka.
    change (inject_Z 0) with 0 in Fa.
    pose proof (inject_Z_ge0 kd Kd) as Hd.
    assert (0 <= inject_Z kd * tau) by nra.
    lra.
  Qed.

  Lemma reinsert_g_fits A g :
    fits A g -> (let '((_, ka), _, _, _) := g in (1 <= ka)%Z) -> fits A (reinsert_g g).
  Proof.
    destruct g as [[[[a ka] [b kb]] [c kc]] [d kd]]. unfold reinsert_g, fits.
    intros (Ka & Kb & Kc & Kd & Fa & Fb & Fc & Fd) H1.
    assert (E : a + tau + inject_Z (ka - 1) * tau == a + inject_Z ka * tau).
    { unfold Z.sub. rewrite inject_Z_plus, inject_Z_opp. change (inject_Z 1) with 1. ring. }
    repeat step; repeat split; try lia; try lra.
  Qed.

  Lemma span_loop_terminates_g A : pi < tau -> forall n g m,
    sorted4 (vals g) -> fits A g -> (deficit g <= Z.of_nat n)%Z ->
    exists r, span_loop tau pi (S n) (vals g) m = Some r.
  Proof.
    intros Hpt. induction n as [|n IH]; intros g m Hs Hf Hd.
    - (* deficit 0: all on the common sheet, span <= pi *)
      destruct g as [[[[a ka] [b kb]] [c kc]] [d kd]]. unfold vals, fits, deficit in *.
      destruct Hf as (Ka & Kb & Kc & Kd & Fa & Fb & Fc & Fd).
      assert (ka = 0 /\ kd = 0)%Z as [-> ->] by lia.
      change (inject_Z 0) with 0 in *. cbn [span_loop].
      qcase pi (d - a); [lra|]. eexists; reflexivity.
    - pose proof (fits_min_deficit A g Hpt Hs Hf) as Hmin.
      pose proof (reinsert_g_fits A g Hf) as Hfit.
      pose proof (reinsert_g_vals g) as Hv. pose proof (reinsert_g_deficit g) as Hdf.
      destruct g as [[[[a ka] [b kb]] [c kc]] [d kd]].
      cbn [vals] in Hmin, Hs, Hv |- *.
      change (span_loop tau pi (S (S n)) (a, b, c, d) m) with
        (let m' := Qmin m (Qabs (d - a - pi)) in
         if Qltb pi (d - a) then span_loop tau pi (S n) (reinsert tau (a, b, c, d)) m'
         else Some ((a, b, c, d), m')).
      cbv zeta. qcase pi (d - a); [|eexists; reflexivity].
      specialize (Hmin E). specialize (Hfit Hmin).
      rewrite <- Hv. apply IH.
      + rewrite Hv. apply reinsert_sorted. exact Hs.
      + exact Hfit.
      + rewrite Hdf. lia.
  Qed.

  (* ---- the two shifting loops *)

  Lemma shift_up_spec fuel : forall bmin lo hi m lo' hi' m',
    shift_up tau fuel bmin (lo, hi) m = Some (lo', hi', m') ->
    exists k : Z, (0 <= k)%Z /\ lo' == lo + inject_Z k * tau /\ hi' == hi + inject_Z k * tau /\
                  bmin <= lo' /\ (k = 0%Z \/ lo' < bmin + tau).
  Proof.
    induction fuel as [|f IH]; intros bmin lo hi m lo' hi' m' H; [discriminate|].
    cbn [shift_up] in H. qcase lo bmin.
    - apply IH in H. destruct H as (k & Hk & E1 & E2 & Hge & Hlt).
      exists (k + 1)%Z. rewrite inject_Z_plus. change (inject_Z 1) with 1.
      repeat split; try lia; try lra.
      right. destruct Hlt as [-> | Hlt]; [|assumption].
      change (inject_Z 0) with 0 in E1. lra.
    - injection H as <- <- <-. exists 0%Z. change (inject_Z 0) with 0.
      repeat split; try lia; try lra.
  Qed.

  Lemma shift_down_spec fuel : forall bmin lo hi m lo' hi' m',
    shift_down tau fuel bmin (lo, hi) m = Some (lo', hi', m') ->
    exists j : Z, (0 <= j)%Z /\ lo' == lo - inject_Z j * tau /\ hi' == hi - inject_Z j * tau /\
                  lo' - bmin <= tau /\ (j = 0%Z \/ bmin < lo').
  Proof.
    induction fuel as [|f IH]; intros bmin lo hi m lo' hi' m' H; [discriminate|].
    cbn [shift_down] in H. qcase tau (lo - bmin).
    - apply IH in H. destruct H as (j & Hj & E1 & E2 & Hle & Hgt).
      exists (j + 1)%Z. rewrite inject_Z_plus. change (inject_Z 1) with 1.
      repeat split; try lia; try lra.
      right. destruct Hgt as [-> | Hgt]; [|assumption].
      change (inject_Z 0) with 0 in E1. lra.
    - injection H as <- <- <-. exists 0%Z. change (inject_Z 0) with 0.
      repeat split; try lia; try lra.
  Qed.

  Lemma shift_up_fuel_mono fuel : forall bmin r m res,
    shift_up tau fuel bmin r m = Some res ->
    forall fuel', (fuel <= fuel')%nat -> shift_up tau fuel' bmin r m = Some res.
  Proof.
    induction fuel as [|f IH]; intros bmin [lo hi] m res H fuel' Hle; [discriminate|].
    destruct fuel' as [|f']; [lia|]. cbn [shift_up] in *.
    qcase lo bmin; auto. apply IH; auto. lia.
  Qed.

  Lemma shift_down_fuel_mono fuel : forall bmin r m res,
    shift_down tau fuel bmin r m = Some res ->
    forall fuel', (fuel <= fuel')%nat -> shift_down tau fuel' bmin r m = Some res.
  Proof.
    induction fuel as [|f IH]; intros bmin [lo hi] m res H fuel' Hle; [discriminate|].
    destruct fuel' as [|f']; [lia|]. cbn [shift_down] in *.
    qcase tau (lo - bmin); auto. apply IH; auto. lia.
  Qed.

  (* both shifting loops terminate: the distance to cover shrinks by tau each time *)
  Lemma shift_up_terminates : forall n bmin lo hi m,
    bmin - lo <= inject_Z (Z.of_nat n) * tau ->
    exists res, shift_up tau (S n) bmin (lo, hi) m = Some res.
  Proof.
    induction n as [|n IH]; intros bmin lo hi m H.
    - cbn [shift_up]. change (inject_Z (Z.of_nat 0)) with 0 in H.
      qcase lo bmin; [lra|]. eexists; reflexivity.
    - change (shift_up tau (S (S n)) bmin (lo, hi) m) with
        (let m' := Qmin m (Qabs (lo - bmin)) in
         if Qltb lo bmin then shift_up tau (S n) bmin (lo + tau, hi + tau) m'
         else Some (lo, hi, m')).
      cbv zeta. qcase lo bmin; [|eexists; reflexivity].
      apply IH. rewrite Nat2Z.inj_succ in H. unfold Z.succ in H.
      rewrite inject_Z_plus in H. change (inject_Z 1) with 1 in H. lra.
  Qed.

  Lemma shift_down_terminates : forall n bmin lo hi m,
    lo - bmin - tau <= inject_Z (Z.of_nat n) * tau ->
    exists res, shift_down tau (S n) bmin (lo, hi) m = Some res.
  Proof.
    induction n as [|n IH]; intros bmin lo hi m H.
    - cbn [shift_down]. change (inject_Z (Z.of_nat 0)) with 0 in H.
      qcase tau (lo - bmin); [lra|]. eexists; reflexivity.
    - change (shift_down tau (S (S n)) bmin (lo, hi) m) with
        (let m' := Qmin m (Qabs (lo - bmin - tau)) in
         if Qltb tau (lo - bmin) then shift_down tau (S n) bmin (lo - tau, hi - tau) m'
         else Some (lo, hi, m')).
      cbv zeta. qcase tau (lo - bmin); [|eexists; reflexivity].
      apply IH. rewrite Nat2Z.inj_succ in H. unfold Z.succ in H.
      rewrite inject_Z_plus in H. change (inject_Z 1) with 1 in H. lra.
  Qed.

  (* every rational is below some natural multiple of tau *)
  Lemma archimed_tau x : exists n : nat, x <= inject_Z (Z.of_nat n) * tau.
  Proof.
    exists (Z.to_nat (Qceiling (x / tau))).
    pose proof (Qle_ceiling (x / tau)) as Hc.
    assert (Hx : x == tau * (x / tau)) by (rewrite Qmult_div_r; [reflexivity | lra]).
    destruct (Z_le_gt_dec 0 (Qceiling (x / tau))) as [Hpos|Hneg].
    - rewrite Z2Nat.id by assumption. nra.
    - replace (Z.to_nat (Qceiling (x / tau))) with 0%nat by lia. change (inject_Z (Z.of_nat 0)) with 0.
      assert (inject_Z (Qceiling (x / tau)) <= 0) by (apply inject_Z_le0; lia). nra.
  Qed.

End Loops.

(* ------------------------------------------------------------ the bbox test *)

Section Bbox.
  Variables tau pi thr : Q.
  Hypothesis tau_pos : 0 < tau.

  Lemma inject_Z_01 j : 0 <= inject_Z j * tau -> inject_Z j * tau <= tau -> (j = 0 \/ j = 1)%Z.
  Proof.
    intros H0 H1.
    assert (A0 : 0 <= inject_Z j) by nra. assert (A1 : inject_Z j <= 1) by nra.
    change 0 with (inject_Z 0) in A0. change 1 with (inject_Z 1) in A1.
    rewrite <- Zle_Qle in A0, A1. lia.
  Qed.

  (* Soundness: no false negative.  If some point (lon, lat) has its latitude in
     both latitude ranges and its longitude congruent (mod tau) to a point of the
     tile's unwrapped longitude range and to a point of the box's range -- not
     merely touching end to end -- the function answers True.  Any box width,
     any origin. *)
  Lemma bbox_sound_l fuel c bx r :
    bbox tau pi thr fuel c bx = Some r ->
    forall lon lat,
      in_range4 (lats c) lat -> b_lat_min bx <= lat <= b_lat_max bx ->
      (polar thr c = true \/
       exists tmin tmax k1 k2,
         tile_lon_range tau pi fuel c = Some (tmin, tmax) /\
         tmin <= lon + inject_Z k1 * tau <= tmax /\
         b_lon_min bx <= lon + inject_Z k2 * tau <= b_lon_max bx /\
         (tmin < lon + inject_Z k1 * tau \/ lon + inject_Z k2 * tau < b_lon_max bx) /\
         (lon + inject_Z k1 * tau < tmax \/ b_lon_min bx < lon + inject_Z k2 * tau)) ->
      r_dec r = true.
  Proof.
    intros H lon lat [Hlat1 Hlat2] [Hb1 Hb2] Hlon.
    unfold bbox in H.
    qcase (max4 (lats c)) (b_lat_min bx); [lra|].
    qcase (b_lat_max bx) (min4 (lats c)); [lra|].
    destruct (Qltb thr (max4 (lats c)) || Qltb (min4 (lats c)) (- thr)) eqn:Epol.
    { injection H as <-. reflexivity. }
    destruct Hlon as [Hp | (tmin & tmax & k1 & k2 & Hr & Ht & Hbx & Hs1 & Hs2)].
    { unfold polar in Hp. congruence. }
    unfold tile_lon_range in Hr.
    destruct (span_loop tau pi fuel (sort4 (lons c)) 0) as [[l m0]|] eqn:Esp0; [|discriminate].
    destruct (span_loop_margin tau pi fuel _ _ _ _ Esp0
               (Qmin (Qmin (Qabs (b_lat_min bx - max4 (lats c))) (Qabs (b_lat_max bx - min4 (lats c))))
                     (Qmin (Qabs (max4 (lats c) - thr)) (Qabs (min4 (lats c) + thr))))) as (m4 & Esp).
    rewrite Esp in H. destruct l as [[[l0 l1] l2] l3]. injection Hr as -> ->.
    destruct (shift_up tau fuel (b_lon_min bx) (tmin, tmax) m4) as [[[u0 u3] m5]|] eqn:Eup; [|discriminate].
    destruct (shift_down tau fuel (b_lon_min bx) (u0, u3) m5) as [[[v0 v3] m6]|] eqn:Edn; [|discriminate].
    apply shift_up_spec in Eup. destruct Eup as (k & Hk & Eu0 & Eu3 & Hge & Hkk).
    apply shift_down_spec in Edn. destruct Edn as (j & Hj & Ev0 & Ev3 & Hle & Hjj).
    qcase v0 (b_lon_max bx); [injection H as <-; reflexivity|].
    qcase (b_lon_min bx + tau) v3; [injection H as <-; reflexivity|].
    exfalso.
    (* p in the box, q in the shifted tile range, q - p a whole number of turns *)
    set (p := lon + inject_Z k2 * tau) in *.
    set (q0 := lon + inject_Z k1 * tau) in *.
    assert (Hlow : b_lon_min bx <= v0).
    { destruct Hjj as [-> | Hgt]; [|lra]. change (inject_Z 0) with 0 in Ev0. lra. }
    set (n := (k1 + k - j - k2)%Z).
    assert (En : inject_Z n == inject_Z k1 + inject_Z k - inject_Z j - inject_Z k2).
    { unfold n, Z.sub. rewrite !inject_Z_plus, !inject_Z_opp. ring. }
    (* q = q0 + (k - j) tau = p + n tau, v0 <= q <= v3 *)
    assert (Hq1 : v0 <= p + inject_Z n * tau) by (unfold p, q0 in *; rewrite En; nra).
    assert (Hq2 : p + inject_Z n * tau <= v3) by (unfold p, q0 in *; rewrite En; nra).
    assert (Hn : (n = 0 \/ n = 1)%Z).
    { apply inject_Z_01; nra. }
    destruct Hn as [Hn | Hn]; rewrite Hn in Hq1, Hq2, En.
    - change (inject_Z 0) with 0 in Hq1, Hq2, En.
      (* p = v0 = bmax: excluded by the first strictness clause *)
      destruct Hs1 as [Hs1 | Hs1]; [|lra].
      unfold p, q0 in *. nra.
    - change (inject_Z 1) with 1 in Hq1, Hq2, En.
      destruct Hs2 as [Hs2 | Hs2]; [|lra].
      unfold p, q0 in *. nra.
  Qed.

  (* closed-interval contact alone is not enough: a tile range ending exactly
     where the box begins is rejected (the tests at pyx 257/264 are strict) *)
  Lemma bbox_touching_rejected :
    exists c bx r, bbox 6 3 (3 # 2) 8 c bx = Some r /\ r_dec r = false /\
                   tile_lon_range 6 3 8 c = Some (0, 1) /\ b_lon_min bx == 1.
  Proof.
    exists (mkC (0, 0, 1, 1) (0, 0, 1, 1)), (mkBox 1 2 0 1).
    eexists. split; [vm_compute; reflexivity|]. split; [reflexivity|]. split; reflexivity.
  Qed.

  (* more fuel never changes an answer *)
  Lemma bbox_fuel_mono fuel c bx r :
    bbox tau pi thr fuel c bx = Some r ->
    forall fuel', (fuel <= fuel')%nat -> bbox tau pi thr fuel' c bx = Some r.
  Proof.
    intros H fuel' Hle. unfold bbox in *.
    qcase (max4 (lats c)) (b_lat_min bx); [assumption|].
    qcase (b_lat_max bx) (min4 (lats c)); [assumption|].
    destruct (Qltb thr (max4 (lats c)) || Qltb (min4 (lats c)) (- thr)); [assumption|].
    destruct (span_loop tau pi fuel (sort4 (lons c)) _) as [[l m4]|] eqn:Esp; [|discriminate].
    rewrite (span_loop_fuel_mono tau pi fuel _ _ _ Esp fuel' Hle).
    destruct l as [[[l0 l1] l2] l3].
    destruct (shift_up tau fuel (b_lon_min bx) (l0, l3) m4) as [[[u0 u3] m5]|] eqn:Eup; [|discriminate].
    rewrite (shift_up_fuel_mono tau fuel _ _ _ _ Eup fuel' Hle).
    destruct (shift_down tau fuel (b_lon_min bx) (u0, u3) m5) as [[[v0 v3] m6]|] eqn:Edn; [|discriminate].
    rewrite (shift_down_fuel_mono tau fuel _ _ _ _ Edn fuel' Hle).
    exact H.
  Qed.

  (* the part of the function before line 204 never needs fuel and leaves the
     longitude column alone *)
  Lemma bbox_early fuel c bx :
    reaches_sort thr c bx = false ->
    exists r, bbox tau pi thr fuel c bx = Some r /\ r_lons r = lons c /\ r_sorted r = false.
  Proof.
    unfold reaches_sort, lat_reject, polar, bbox. intros H.
    qcase (max4 (lats c)) (b_lat_min bx); [eexists; repeat split|].
    qcase (b_lat_max bx) (min4 (lats c)); [eexists; repeat split|].
    cbn [orb negb andb] in H. apply negb_false_iff in H. rewrite H.
    eexists; repeat split.
  Qed.

  Lemma bbox_late fuel c bx r :
    reaches_sort thr c bx = true -> bbox tau pi thr fuel c bx = Some r ->
    r_sorted r = true /\ sorted4 (r_lons r) /\ lifts4 tau (sort4 (lons c)) (r_lons r) /\
    (let '(a, _, _, d) := r_lons r in d - a <= pi).
  Proof.
    unfold reaches_sort, lat_reject, polar, bbox. intros Hr H.
    apply andb_true_iff in Hr. destruct Hr as [Hr1 Hr2].
    apply negb_true_iff in Hr1, Hr2. apply orb_false_iff in Hr1. destruct Hr1 as [Hr1 Hr1'].
    rewrite Hr1, Hr1', Hr2 in H.
    destruct (span_loop tau pi fuel (sort4 (lons c)) _) as [[l m4]|] eqn:Esp; [|discriminate].
    apply span_loop_inv in Esp; [|apply sort4_sorted].
    destruct l as [[[l0 l1] l2] l3].
    destruct (shift_up tau fuel (b_lon_min bx) (l0, l3) m4) as [[[u0 u3] m5]|]; [|discriminate].
    destruct (shift_down tau fuel (b_lon_min bx) (u0, u3) m5) as [[[v0 v3] m6]|]; [|discriminate].
    destruct Esp as (S & L & R).
    destruct (Qltb v0 (b_lon_max bx)); [injection H as <-; cbn; auto|].
    destruct (Qltb (b_lon_min bx + tau) v3); injection H as <-; cbn; auto.
  Qed.

  (* ---- termination under the half-turn hypothesis ---- *)

  Definition og (i j : nat) (g : G4) : G4 :=
    let '(x0, x1, x2, x3) := g in
    match i, j with
    | 0%nat, 2%nat => if Qltb (fst x2) (fst x0) then (x2, x1, x0, x3) else g
    | 1%nat, 3%nat => if Qltb (fst x3) (fst x1) then (x0, x3, x2, x1) else g
    | 0%nat, 1%nat => if Qltb (fst x1) (fst x0) then (x1, x0, x2, x3) else g
    | 2%nat, 3%nat => if Qltb (fst x3) (fst x2) then (x0, x1, x3, x2) else g
    | _, _ => if Qltb (fst x2) (fst x1) then (x0, x2, x1, x3) else g
    end.
  Definition sort4_g (g : G4) : G4 := og 1 2 (og 2 3 (og 0 1 (og 1 3 (og 0 2 g)))).

  Lemma sort4_g_vals g : vals (sort4_g g) = sort4 (vals g).
  Proof.
    destruct g as [[[[a ka] [b kb]] [c kc]] [d kd]]. unfold sort4_g, sort4, vals.
    cbv beta iota delta [og order02 fst]; step; cbv beta iota delta [og order13 fst]; step;
    cbv beta iota delta [og order01 fst]; step; cbv beta iota delta [og order23 fst]; step;
    cbv beta iota delta [og order12 fst]; step; reflexivity.
  Qed.

  Lemma sort4_g_fits A g : fits tau pi A g -> fits tau pi A (sort4_g g).
  Proof.
    destruct g as [[[[a ka] [b kb]] [c kc]] [d kd]]. unfold sort4_g, fits.
    intros (Ka & Kb & Kc & Kd & Fa & Fb & Fc & Fd).
    cbv beta iota delta [og fst]; step; cbv beta iota delta [og fst]; step;
    cbv beta iota delta [og fst]; step; cbv beta iota delta [og fst]; step;
    cbv beta iota delta [og fst]; step; tauto.
  Qed.

  Lemma bbox_terminates_g A g c bx :
    pi < tau -> vals g = lons c -> fits tau pi A g ->
    exists fuel r, bbox tau pi thr fuel c bx = Some r.
  Proof.
    intros Hpt Hv Hf.
    destruct (reaches_sort thr c bx) eqn:Er.
    2:{ destruct (bbox_early 0 c bx Er) as (r & H & _). exists 0%nat, r. exact H. }
    pose (g' := sort4_g g).
    assert (Hv' : vals g' = sort4 (lons c)) by (unfold g'; rewrite sort4_g_vals, Hv; reflexivity).
    assert (Hf' : fits tau pi A g') by (apply sort4_g_fits; exact Hf).
    assert (Hd : (0 <= deficit g')%Z).
    { destruct g' as [[[[a ka] [b kb]] [c0 kc]] [d kd]]. unfold fits in Hf'. unfold deficit. lia. }
    set (m3 := Qmin (Qmin (Qabs (b_lat_min bx - max4 (lats c))) (Qabs (b_lat_max bx - min4 (lats c))))
                    (Qmin (Qabs (max4 (lats c) - thr)) (Qabs (min4 (lats c) + thr)))).
    destruct (span_loop_terminates_g tau pi A Hpt (Z.to_nat (deficit g')) g' m3) as ([l m4] & Esp).
    { rewrite Hv'. apply sort4_sorted. } { exact Hf'. } { rewrite Z2Nat.id; lia. }
    rewrite Hv' in Esp. destruct l as [[[l0 l1] l2] l3].
    destruct (archimed_tau tau tau_pos (b_lon_min bx - l0)) as (n1 & Hn1).
    destruct (shift_up_terminates tau n1 (b_lon_min bx) l0 l3 m4 Hn1) as ([[u0 u3] m5] & Eup).
    destruct (archimed_tau tau tau_pos (u0 - b_lon_min bx - tau)) as (n2 & Hn2).
    destruct (shift_down_terminates tau n2 (b_lon_min bx) u0 u3 m5 Hn2) as ([[v0 v3] m6] & Edn).
    set (F := (S (Z.to_nat (deficit g')) + S n1 + S n2)%nat).
    exists F.
    unfold reaches_sort, lat_reject, polar in Er.
    apply andb_true_iff in Er. destruct Er as [Hr1 Hr2].
    apply negb_true_iff in Hr1, Hr2. apply orb_false_iff in Hr1. destruct Hr1 as [Hr1 Hr1'].
    unfold bbox. rewrite Hr1, Hr1', Hr2. fold m3.
    rewrite (span_loop_fuel_mono tau pi _ _ _ _ Esp F) by (unfold F; lia).
    rewrite (shift_up_fuel_mono tau _ _ _ _ _ Eup F) by (unfold F; lia).
    rewrite (shift_down_fuel_mono tau _ _ _ _ _ Edn F) by (unfold F; lia).
    destruct (Qltb v0 (b_lon_max bx)); [eexists; reflexivity|].
    destruct (Qltb (b_lon_min bx + tau) v3); eexists; reflexivity.
  Qed.

  (* user-facing form: arbitrary integer unwrapping (k of any sign) *)
  Lemma bbox_terminates c bx :
    pi < tau ->
    (exists A ka kb kc kd,
        let '(a, b, c0, d) := lons c in
        A <= a + inject_Z ka * tau <= A + pi /\ A <= b + inject_Z kb * tau <= A + pi /\
        A <= c0 + inject_Z kc * tau <= A + pi /\ A <= d + inject_Z kd * tau <= A + pi) ->
    exists fuel r, bbox tau pi thr fuel c bx = Some r.
  Proof.
    intros Hpt (A & ka & kb & kc & kd & H).
    destruct (lons c) as [[[a b] c0] d] eqn:El.
    destruct H as (Ha & Hb & Hc & Hd).
    set (K := Z.min (Z.min ka kb) (Z.min kc kd)).
    apply (bbox_terminates_g (A - inject_Z K * tau)
             ((a, (ka - K)%Z), (b, (kb - K)%Z), (c0, (kc - K)%Z), (d, (kd - K)%Z)) c bx Hpt).
    - cbn [vals]. symmetry. exact El.
    - unfold fits.
      assert (E : forall k, inject_Z (k - K) == inject_Z k - inject_Z K).
      { intros k. unfold Z.sub. rewrite inject_Z_plus, inject_Z_opp. ring. }
      rewrite !E. repeat split; try (unfold K; lia); try nra.
  Qed.

End Bbox.

(* ------------------------------------------- _latlon_tile_filter: purity *)

Section FilterFn.
  Variables tau pi thr : Q.
  Hypothesis tau_pos : 0 < tau.

  Local Notation flt := (latlon_tile_filter tau pi thr).

  (* a Tile whose corners are a tuple (every tile below level 1) is never
     modified, whatever the function does to its private copy *)
  Lemma filter_pure_tuple fuel bx c : snd (flt fuel bx (mkTile CTuple c)) = mkTile CTuple c.
  Proof. unfold latlon_tile_filter; cbn. destruct (bbox tau pi thr fuel c bx); reflexivity. Qed.

  Lemma filter_tuple_result fuel bx c :
    fst (flt fuel bx (mkTile CTuple c)) =
    match bbox tau pi thr fuel c bx with Some r => FRet (r_dec r) (r_margin r) | None => FFuel end.
  Proof. unfold latlon_tile_filter; cbn. destruct (bbox tau pi thr fuel c bx); reflexivity. Qed.

  (* a Tile whose corners are an ndarray is left alone, and nothing is raised,
     whenever the function returns before line 204: latitude reject or pole *)
  Lemma filter_pure_early fuel bx rep c :
    reaches_sort thr c bx = false ->
    snd (flt fuel bx (mkTile rep c)) = mkTile rep c /\
    exists b m, fst (flt fuel bx (mkTile rep c)) = FRet b m.
  Proof.
    intros H. destruct (bbox_early tau pi thr fuel c bx H) as (r & Hb & Hl & _).
    unfold latlon_tile_filter; cbn [t_repr t_c]. rewrite Hb, H.
    destruct rep; cbn [fst snd]; (split; [|eauto]); try reflexivity.
    rewrite Hl. destruct c; reflexivity.
  Qed.

  (* level-1 tiles reach a pole, so they always return early *)
  Lemma polar_returns_early c bx : polar thr c = true -> reaches_sort thr c bx = false.
  Proof. unfold reaches_sort. intros ->. apply andb_false_r. Qed.

  (* the tiles the generators make: ndarray rows at level 1 (read-only for the
     astronomical system), tuples below *)
  Lemma filter_generated_pure fuel bx planetary n c :
    (n = 1%nat -> polar thr c = true) ->
    let t := mkTile (repr_at_level planetary n) c in
    snd (flt fuel bx t) = t /\ fst (flt fuel bx t) <> FRaise.
  Proof.
    intros Hp t. unfold t, repr_at_level.
    destruct n as [|[|n]].
    - split; [apply filter_pure_tuple|]. rewrite filter_tuple_result. destruct (bbox _ _ _ _ _ _); discriminate.
    - destruct (filter_pure_early fuel bx (if planetary then CArrayRW else CArrayRO) c
                  (polar_returns_early c bx (Hp eq_refl))) as (H1 & b & m & H2).
      split; [exact H1|]. rewrite H2. discriminate.
    - split; [apply filter_pure_tuple|]. rewrite filter_tuple_result. destruct (bbox _ _ _ _ _ _); discriminate.
  Qed.

End FilterFn.

(* what the in-place code does to an ndarray that is NOT polar (no generator
   makes such a Tile): a writable one is sorted/unwrapped in place, a read-only
   one makes the call raise *)
Lemma filter_array_rw_mutated :
  exists c bx, snd (latlon_tile_filter 6 3 (3 # 2) 8 bx (mkTile CArrayRW c)) <> mkTile CArrayRW c.
Proof.
  exists (mkC (3, 1, 2, 0) (0, 0, 1, 1)), (mkBox 1 2 0 1). vm_compute. discriminate.
Qed.

Lemma filter_array_ro_raises :
  exists c bx, fst (latlon_tile_filter 6 3 (3 # 2) 8 bx (mkTile CArrayRO c)) = FRaise.
Proof.
  exists (mkC (3, 1, 2, 0) (0, 0, 1, 1)), (mkBox 1 2 0 1). vm_compute. reflexivity.
Qed.

(* ----------------------------------------------------------------- chunks *)

Definition tie (x : Q) : Prop := x - inject_Z (Qfloor x) == 1 # 2.

Lemma Qfloor_unique x f : inject_Z f <= x -> x < inject_Z (f + 1) -> Qfloor x = f.
Proof.
  intros H1 H2. pose proof (Qfloor_le x) as H3. pose proof (Qlt_floor x) as H4.
  assert (A : inject_Z f < inject_Z (Qfloor x + 1)) by lra.
  assert (B : inject_Z (Qfloor x) < inject_Z (f + 1)) by lra.
  rewrite <- Zlt_Qlt in A, B. lia.
Qed.

Lemma inject_Z_succ f : inject_Z (f + 1) == inject_Z f + 1.
Proof. rewrite inject_Z_plus. reflexivity. Qed.

Lemma inject_Z_sub a b : inject_Z (a - b) == inject_Z a - inject_Z b.
Proof. unfold Z.sub. rewrite inject_Z_plus, inject_Z_opp. ring. Qed.

Lemma Qfloor_shift x c : Qfloor (x - inject_Z c) = (Qfloor x - c)%Z.
Proof.
  apply Qfloor_unique.
  - rewrite inject_Z_sub. pose proof (Qfloor_le x). lra.
  - replace (Qfloor x - c + 1)%Z with (Qfloor x + 1 - c)%Z by lia.
    rewrite inject_Z_sub. pose proof (Qlt_floor x). lra.
Qed.

Lemma rhe_bounds x : inject_Z (rhe x) - (1 # 2) <= x <= inject_Z (rhe x) + (1 # 2).
Proof.
  unfold rhe. pose proof (Qfloor_le x) as H1. pose proof (Qlt_floor x) as H2.
  rewrite inject_Z_succ in H2.
  destruct (Qcompare_spec (x - inject_Z (Qfloor x)) (1 # 2)) as [E|E|E].
  - destruct (Z.even (Qfloor x)); [|rewrite inject_Z_succ]; lra.
  - lra.
  - rewrite inject_Z_succ. lra.
Qed.

Lemma rhe_comp x y : x == y -> rhe x = rhe y.
Proof.
  intros E. unfold rhe. rewrite (Qfloor_comp _ _ E).
  assert (E2 : x - inject_Z (Qfloor y) == y - inject_Z (Qfloor y)) by (rewrite E; reflexivity).
  rewrite (Qcompare_comp _ _ E2 _ _ (Qeq_refl (1 # 2))). reflexivity.
Qed.

(* rounding commutes with an integer shift away from ties (half-to-even does not
   at a tie when the shift is odd) *)
Lemma rhe_shift x c : ~ tie x -> rhe (x - inject_Z c) = (rhe x - c)%Z.
Proof.
  unfold tie, rhe. intros Hn. rewrite Qfloor_shift.
  assert (E : x - inject_Z c - inject_Z (Qfloor x - c) == x - inject_Z (Qfloor x)).
  { rewrite inject_Z_sub. ring. }
  rewrite (Qcompare_comp _ _ E _ _ (Qeq_refl (1 # 2))).
  destruct (Qcompare_spec (x - inject_Z (Qfloor x)) (1 # 2)) as [E'|E'|E']; [contradiction| |]; lia.
Qed.

Section Chunks.
  Variables tau pi halfpi : Q.
  Hypothesis tau_pos : 0 < tau.
  Hypothesis pi_pos : 0 < pi.

  Lemma inject_Z_pos k : (0 < k)%Z -> 0 < inject_Z k.
  Proof. intros H. change 0 with (inject_Z 0). rewrite <- Zlt_Qlt. exact H. Qed.

  (* neighbouring chunks share their edge exactly; the outer edges are the map's *)
  Lemma chunk_bounds_adjacent_lon W H cx cy cw ch cw2 :
    b_lon_max (chunk_bounds tau pi halfpi W H cx cy cw ch) =
    b_lon_min (chunk_bounds tau pi halfpi W H (cx + cw) cy cw2 ch).
  Proof. reflexivity. Qed.

  Lemma chunk_bounds_adjacent_lat W H cx cy cw ch ch2 :
    b_lat_min (chunk_bounds tau pi halfpi W H cx cy cw ch) =
    b_lat_max (chunk_bounds tau pi halfpi W H cx (cy + ch) cw ch2).
  Proof. reflexivity. Qed.

  Lemma chunk_bounds_outer W H cw ch :
    (0 < W)%Z -> (0 < H)%Z ->
    b_lon_min (chunk_bounds tau pi halfpi W H 0 0 cw ch) == - pi /\
    b_lat_max (chunk_bounds tau pi halfpi W H 0 0 cw ch) == halfpi /\
    b_lon_max (chunk_bounds tau pi halfpi W H (W - cw) (H - ch) cw ch) == tau - pi /\
    b_lat_min (chunk_bounds tau pi halfpi W H (W - cw) (H - ch) cw ch) == halfpi - pi.
  Proof.
    intros HW HH. pose proof (inject_Z_pos W HW). pose proof (inject_Z_pos H HH).
    unfold chunk_bounds; cbn [b_lon_min b_lon_max b_lat_min b_lat_max].
    replace (W - cw + cw)%Z with W by lia. replace (H - ch + ch)%Z with H by lia.
    change (inject_Z 0) with 0.
    repeat split; field; lra.
  Qed.

  Lemma chunk_bounds_ordered W H cx cy cw ch :
    (0 < W)%Z -> (0 < H)%Z -> (0 < cw)%Z -> (0 < ch)%Z ->
    box_ok (chunk_bounds tau pi halfpi W H cx cy cw ch) = true.
  Proof.
    intros HW HH Hw Hh. pose proof (inject_Z_pos W HW) as PW. pose proof (inject_Z_pos H HH) as PH.
    pose proof (inject_Z_pos cw Hw) as Pw. pose proof (inject_Z_pos ch Hh) as Ph.
    unfold box_ok, chunk_bounds; cbn [b_lon_min b_lon_max b_lat_min b_lat_max].
    rewrite !inject_Z_plus.
    assert (0 < tau / inject_Z W) by (apply Qlt_shift_div_l; lra).
    assert (0 < pi / inject_Z H) by (apply Qlt_shift_div_l; lra).
    apply andb_true_iff; split; apply Qltb_lt; nra.
  Qed.

  (* the longitude normalisation puts every longitude into [-pi, tau - pi) and
     moves it by whole turns *)
  Lemma Qmodp_range x : 0 <= Qmodp x tau < tau.
  Proof.
    unfold Qmodp. pose proof (Qfloor_le (x / tau)) as H1. pose proof (Qlt_floor (x / tau)) as H2.
    rewrite inject_Z_succ in H2.
    assert (Hx : x == tau * (x / tau)) by (rewrite Qmult_div_r; [reflexivity | lra]).
    split; nra.
  Qed.

  Lemma norm_lon_range lon : - pi <= norm_lon tau pi lon < tau - pi.
  Proof. unfold norm_lon. pose proof (Qmodp_range (lon + pi)). lra. Qed.

  Lemma norm_lon_cong lon : exists k : Z, norm_lon tau pi lon == lon + inject_Z k * tau.
  Proof.
    exists (- Qfloor ((lon + pi) / tau))%Z. unfold norm_lon, Qmodp. rewrite inject_Z_opp. ring.
  Qed.

  (* a chunk's real-valued source index is the whole map's, measured from the
     chunk's origin *)
  Lemma chunk_gx_global W H cx cy cw ch lon :
    (0 < W)%Z -> (0 < cw)%Z ->
    chunk_gx tau pi (chunk_bounds tau pi halfpi W H cx cy cw ch) cw lon ==
    whole_gx tau pi W lon - inject_Z cx.
  Proof.
    intros HW Hw. pose proof (inject_Z_pos W HW). pose proof (inject_Z_pos cw Hw).
    unfold chunk_gx, whole_gx, chunk_bounds; cbn [b_lon_min b_lon_max].
    rewrite inject_Z_plus. field. repeat split; try lra.
    intros E. assert (E2 : tau * inject_Z cw == 0) by lra. nra.
  Qed.

  Lemma chunk_gy_global W H cx cy cw ch lat :
    (0 < H)%Z -> (0 < ch)%Z ->
    chunk_gy (chunk_bounds tau pi halfpi W H cx cy cw ch) ch lat ==
    whole_gy pi halfpi H lat - inject_Z cy.
  Proof.
    intros HH Hh. pose proof (inject_Z_pos H HH). pose proof (inject_Z_pos ch Hh).
    unfold chunk_gy, whole_gy, chunk_bounds; cbn [b_lat_min b_lat_max].
    rewrite inject_Z_plus. field. repeat split; try lra.
    intros E. assert (E2 : pi * inject_Z ch == 0) by lra. nra.
  Qed.

  Definition in_span (g : Z) (sp : Z * Z) : bool := ((fst sp <=? g) && (g <? fst sp + snd sp))%Z.

  (* the chunk sampler keeps exactly the pixels whose rounded global source
     index lies in the chunk, and reads the chunk-local element *)
  Lemma chunk_sample_global W H cx cy cw ch lon lat :
    (0 < W)%Z -> (0 < H)%Z -> (0 < cw)%Z -> (0 < ch)%Z ->
    ~ tie (whole_gx tau pi W lon) -> ~ tie (whole_gy pi halfpi H lat) ->
    chunk_sample tau pi (chunk_bounds tau pi halfpi W H cx cy cw ch) cw ch lon lat =
    let X := rhe (whole_gx tau pi W lon) in
    let Y := rhe (whole_gy pi halfpi H lat) in
    if in_span X (cx, cw) && in_span Y (cy, ch) then Some ((Y - cy)%Z, (X - cx)%Z) else None.
  Proof.
    intros HW HH Hw Hh Tx Ty. unfold chunk_sample.
    rewrite (rhe_comp _ _ (chunk_gx_global W H cx cy cw ch lon HW Hw)).
    rewrite (rhe_comp _ _ (chunk_gy_global W H cx cy cw ch lat HH Hh)).
    rewrite (rhe_shift _ cx Tx), (rhe_shift _ cy Ty). cbv zeta.
    unfold in_span; cbn [fst snd].
    set (X := rhe (whole_gx tau pi W lon)). set (Y := rhe (whole_gy pi halfpi H lat)).
    destruct (0 <=? X - cx)%Z eqn:E1, (X - cx <? cw)%Z eqn:E2, (0 <=? Y - cy)%Z eqn:E3, (Y - cy <? ch)%Z eqn:E4,
             (cx <=? X)%Z eqn:F1, (X <? cx + cw)%Z eqn:F2, (cy <=? Y)%Z eqn:F3, (Y <? cy + ch)%Z eqn:F4;
      cbn [andb]; try reflexivity; lia.
  Qed.

  (* in exact arithmetic the whole-map sampler's clip never acts on a
     non-tie point with latitude in (halfpi - pi, halfpi] *)
  Lemma whole_index_range W H lon lat :
    (0 < W)%Z -> (0 < H)%Z -> halfpi - pi < lat <= halfpi ->
    ~ tie (whole_gx tau pi W lon) -> ~ tie (whole_gy pi halfpi H lat) ->
    (0 <= rhe (whole_gx tau pi W lon) < W)%Z /\ (0 <= rhe (whole_gy pi halfpi H lat) < H)%Z.
  Proof.
    intros HW HH Hlat Tx Ty.
    pose proof (inject_Z_pos W HW) as PW. pose proof (inject_Z_pos H HH) as PH.
    pose proof (norm_lon_range lon) as Hn.
    pose proof (rhe_bounds (whole_gx tau pi W lon)) as Bx.
    pose proof (rhe_bounds (whole_gy pi halfpi H lat)) as By.
    assert (Ex : whole_gx tau pi W lon == (norm_lon tau pi lon + pi) * inject_Z W / tau - (1 # 2)).
    { unfold whole_gx. field. lra. }
    assert (Ey : whole_gy pi halfpi H lat == (halfpi - lat) * inject_Z H / pi - (1 # 2)).
    { unfold whole_gy. field. lra. }
    (* 0 <= (nl + pi) W / tau < W *)
    assert (Rx : 0 <= (norm_lon tau pi lon + pi) * inject_Z W / tau < inject_Z W).
    { split.
      - apply Qle_shift_div_l; [lra|]. nra.
      - apply Qlt_shift_div_r; [lra|]. nra. }
    assert (Ry : 0 <= (halfpi - lat) * inject_Z H / pi < inject_Z H).
    { split.
      - apply Qle_shift_div_l; [lra|]. nra.
      - apply Qlt_shift_div_r; [lra|]. nra. }
    (* exclude the tie at -1/2 *)
    assert (Nx : ~ whole_gx tau pi W lon == - (1 # 2)).
    { intros E. apply Tx. unfold tie.
      assert (Qfloor (whole_gx tau pi W lon) = (-1)%Z) as ->.
      { apply Qfloor_unique; rewrite E; [change (inject_Z (-1)) with (-1 # 1)|change (inject_Z (-1 + 1)) with 0]; lra. }
      rewrite E. reflexivity. }
    assert (Ny : ~ whole_gy pi halfpi H lat == - (1 # 2)).
    { intros E. apply Ty. unfold tie.
      assert (Qfloor (whole_gy pi halfpi H lat) = (-1)%Z) as ->.
      { apply Qfloor_unique; rewrite E; [change (inject_Z (-1)) with (-1 # 1)|change (inject_Z (-1 + 1)) with 0]; lra. }
      rewrite E. reflexivity. }
    set (X := rhe (whole_gx tau pi W lon)) in *. set (Y := rhe (whole_gy pi halfpi H lat)) in *.
    assert (AX : inject_Z (-1) < inject_Z X) by (change (inject_Z (-1)) with (-1 # 1); lra).
    assert (BX : inject_Z X < inject_Z W) by lra.
    assert (AY : inject_Z (-1) < inject_Z Y) by (change (inject_Z (-1)) with (-1 # 1); lra).
    assert (BY : inject_Z Y < inject_Z H) by lra.
    rewrite <- Zlt_Qlt in AX, BX, AY, BY. lia.
  Qed.

  (* spans *)
  Fixpoint zsum (l : list Z) : Z := match l with [] => 0%Z | w :: l' => (w + zsum l')%Z end.

  Lemma spans_miss {B} (f : Z * Z -> list B) (v : B) (g : Z) : forall ws s,
    Forall (fun w => (0 < w)%Z) ws -> (g < s)%Z ->
    (forall sp, In sp (spans_from s ws) -> f sp = if in_span g sp then [v] else []) ->
    flat_map f (spans_from s ws) = [].
  Proof.
    induction ws as [|w ws IH]; intros s Hpos Hg Hf; [reflexivity|].
    inversion Hpos; subst. cbn [spans_from flat_map].
    rewrite (Hf (s, w)) by (left; reflexivity).
    unfold in_span at 1; cbn [fst snd].
    replace (s <=? g)%Z with false by (symmetry; apply Z.leb_gt; lia). cbn [andb app].
    apply IH; auto; [lia|]. intros sp Hin. apply Hf. right. exact Hin.
  Qed.

  Lemma spans_hit {B} (f : Z * Z -> list B) (v : B) (g : Z) : forall ws s,
    Forall (fun w => (0 < w)%Z) ws -> (s <= g < s + zsum ws)%Z ->
    (forall sp, In sp (spans_from s ws) -> f sp = if in_span g sp then [v] else []) ->
    flat_map f (spans_from s ws) = [v].
  Proof.
    induction ws as [|w ws IH]; intros s Hpos Hg Hf; [cbn in Hg; lia|].
    inversion Hpos; subst. cbn [spans_from flat_map zsum] in *.
    rewrite (Hf (s, w)) by (left; reflexivity).
    unfold in_span at 1; cbn [fst snd].
    replace (s <=? g)%Z with true by (symmetry; apply Z.leb_le; lia). cbn [andb].
    destruct (g <? s + w)%Z eqn:E.
    - apply Z.ltb_lt in E. rewrite (spans_miss f v g ws (s + w)%Z); auto.
      intros sp Hin. apply Hf. right. exact Hin.
    - apply Z.ltb_ge in E. cbn [app]. apply IH; auto; [lia|].
      intros sp Hin. apply Hf. right. exact Hin.
  Qed.

  Lemma spans_positive : forall ws s sp,
    Forall (fun w => (0 < w)%Z) ws -> In sp (spans_from s ws) -> (0 < snd sp)%Z.
  Proof.
    induction ws as [|w ws IH]; intros s sp Hpos Hin; [contradiction|].
    inversion Hpos; subst. destruct Hin as [<- | Hin]; [assumption|]. eapply IH; eauto.
  Qed.

  (* chunks_cover: away from rounding ties, exactly one chunk of the grid leaves
     the point unmasked, and it reads the very source pixel the whole-map
     sampler reads *)
  Lemma grid_samples_whole W H cols rows lon lat :
    (0 < W)%Z -> (0 < H)%Z ->
    Forall (fun w => (0 < w)%Z) cols -> Forall (fun w => (0 < w)%Z) rows ->
    zsum cols = W -> zsum rows = H ->
    halfpi - pi < lat <= halfpi ->
    ~ tie (whole_gx tau pi W lon) -> ~ tie (whole_gy pi halfpi H lat) ->
    grid_samples tau pi halfpi W H cols rows lon lat = [whole_sample tau pi halfpi W H lon lat].
  Proof.
    intros HW HH Pc Pr Sc Sr Hlat Tx Ty.
    destruct (whole_index_range W H lon lat HW HH Hlat Tx Ty) as [RX RY].
    unfold grid_samples, whole_sample.
    set (X := rhe (whole_gx tau pi W lon)) in *. set (Y := rhe (whole_gy pi halfpi H lat)) in *.
    unfold clip. replace (Z.min (Z.max Y 0) (H - 1)) with Y by lia.
    replace (Z.min (Z.max X 0) (W - 1)) with X by lia.
    apply (spans_hit _ (Y, X) Y); auto; [lia|].
    intros ry Hry. pose proof (spans_positive rows 0%Z ry Pr Hry) as Hh.
    destruct (in_span Y ry) eqn:EY.
    - apply (spans_hit _ (Y, X) X); auto; [lia|].
      intros cx Hcx. pose proof (spans_positive cols 0%Z cx Pc Hcx) as Hw.
      rewrite (chunk_sample_global W H (fst cx) (fst ry) (snd cx) (snd ry) lon lat HW HH Hw Hh Tx Ty).
      cbv zeta. fold X Y. destruct cx as [x0 w], ry as [y0 h]; cbn [fst snd] in *.
      rewrite EY. destruct (in_span X (x0, w)); cbn [andb]; [|reflexivity].
      repeat f_equal; lia.
    - (* no column of this row can hit *)
      assert (Hnil : forall l, flat_map
                (fun cx : Z * Z =>
                 match chunk_sample tau pi (chunk_bounds tau pi halfpi W H (fst cx) (fst ry) (snd cx) (snd ry))
                         (snd cx) (snd ry) lon lat with
                 | Some (iy, ix) => [((fst ry + iy)%Z, (fst cx + ix)%Z)]
                 | None => []
                 end) l = [] \/ ~ Forall (fun sp => (0 < snd sp)%Z) l).
      { induction l as [|cx l IHl]; [left; reflexivity|].
        destruct (Z_lt_dec 0 (snd cx)) as [Hw|Hw].
        - destruct IHl as [IHl|IHl].
          + left. cbn [flat_map]. rewrite IHl.
            rewrite (chunk_sample_global W H (fst cx) (fst ry) (snd cx) (snd ry) lon lat HW HH Hw Hh Tx Ty).
            cbv zeta. fold X Y. destruct ry as [y0 h]; cbn [fst snd] in *. rewrite EY.
            rewrite andb_false_r. reflexivity.
          + right. intros F. inversion F; auto.
        - right. intros F. inversion F; auto. }
      destruct (Hnil (spans_from 0 cols)) as [E|E]; [exact E|exfalso].
      apply E. apply Forall_forall. intros sp Hin. exact (spans_positive cols 0%Z sp Pc Hin).
  Qed.

  (* an unmasked pixel of a chunk lies in the chunk's box *)
  Lemma chunk_sample_in_box bx nx ny lon lat r :
    b_lon_min bx < b_lon_max bx -> b_lat_min bx < b_lat_max bx -> (0 < nx)%Z -> (0 < ny)%Z ->
    chunk_sample tau pi bx nx ny lon lat = Some r ->
    b_lon_min bx <= norm_lon tau pi lon <= b_lon_max bx /\ b_lat_min bx <= lat <= b_lat_max bx.
  Proof.
    intros Hlon Hlat Hnx Hny. unfold chunk_sample.
    pose proof (inject_Z_pos nx Hnx) as Pnx. pose proof (inject_Z_pos ny Hny) as Pny.
    pose proof (rhe_bounds (chunk_gx tau pi bx nx lon)) as Bx.
    pose proof (rhe_bounds (chunk_gy bx ny lat)) as By.
    set (ix := rhe (chunk_gx tau pi bx nx lon)) in *. set (iy := rhe (chunk_gy bx ny lat)) in *.
    destruct ((0 <=? ix) && (ix <? nx) && (0 <=? iy) && (iy <? ny))%Z eqn:E; [|discriminate].
    intros _. apply andb_true_iff in E. destruct E as [E E4]. apply andb_true_iff in E. destruct E as [E E3].
    apply andb_true_iff in E. destruct E as [E1 E2].
    apply Z.leb_le in E1, E3. apply Z.ltb_lt in E2, E4.
    assert (I1 : 0 <= inject_Z ix) by (apply inject_Z_ge0; lia).
    assert (I2 : inject_Z ix <= inject_Z nx - 1).
    { rewrite <- (inject_Z_sub nx 1). rewrite <- Zle_Qle. lia. }
    assert (I3 : 0 <= inject_Z iy) by (apply inject_Z_ge0; lia).
    assert (I4 : inject_Z iy <= inject_Z ny - 1).
    { rewrite <- (inject_Z_sub ny 1). rewrite <- Zle_Qle. lia. }
    set (dl := b_lon_max bx - b_lon_min bx) in *. set (da := b_lat_max bx - b_lat_min bx) in *.
    assert (Pdl : 0 < dl) by (unfold dl; lra). assert (Pda : 0 < da) by (unfold da; lra).
    assert (Ex : (chunk_gx tau pi bx nx lon + (1 # 2)) * dl == (norm_lon tau pi lon - b_lon_min bx) * inject_Z nx).
    { unfold chunk_gx. fold dl. field. lra. }
    assert (Ey : (chunk_gy bx ny lat + (1 # 2)) * da == (b_lat_max bx - lat) * inject_Z ny).
    { unfold chunk_gy. fold da. field. lra. }
    set (a := chunk_gx tau pi bx nx lon + (1 # 2)) in *.
    set (b := chunk_gy bx ny lat + (1 # 2)) in *.
    assert (A0 : 0 <= a * dl) by (apply Qmult_le_0_compat; unfold a; lra).
    assert (A1 : a * dl <= inject_Z nx * dl) by (apply Qmult_le_compat_r; unfold a; lra).
    assert (B0 : 0 <= b * da) by (apply Qmult_le_0_compat; unfold b; lra).
    assert (B1 : b * da <= inject_Z ny * da) by (apply Qmult_le_compat_r; unfold b; lra).
    assert (Edl : dl == b_lon_max bx - b_lon_min bx) by reflexivity.
    assert (Eda : da == b_lat_max bx - b_lat_min bx) by reflexivity.
    clearbody a b dl da.
    generalize dependent (norm_lon tau pi lon). intros nl Ex.
    generalize dependent (inject_Z nx). generalize dependent (inject_Z ny). intros qy Pny I4 B1 Ey qx Pnx I2 Ex A1.
    split; split; nra.
  Qed.

End Chunks.

(* ------------------------------------- _image_bounds: which pixels are sampled *)

Definition InQ (x : Q) (l : list Q) : Prop := exists y, In y l /\ y == x.

Lemma zrange_In k : forall n s, In k (zrange s n) <-> (s <= k < s + Z.of_nat n)%Z.
Proof.
  induction n as [|n IH]; intros s; cbn [zrange In].
  - lia.
  - rewrite IH. lia.
Qed.

Lemma cidx_diff naxis k1 k2 :
  cidx naxis k2 - cidx naxis k1 == inject_Z (k2 - k1) * inject_Z naxis / 31.
Proof. unfold cidx, NM. rewrite inject_Z_sub. change (inject_Z 31) with 31. field. Qed.

Lemma linspace_first a b n : (1 <= n)%Z -> InQ a (linspace a b n).
Proof.
  intros Hn. unfold linspace. destruct (n =? 1)%Z eqn:E.
  - exists a. split; [left; reflexivity|reflexivity].
  - apply Z.eqb_neq in E. exists (a + inject_Z 0 * (b - a) / inject_Z (n - 1)). split.
    + apply in_map_iff. exists 0%Z. split; [reflexivity|]. apply zrange_In. lia.
    + change (inject_Z 0) with 0. assert (0 < inject_Z (n - 1)) by (apply inject_Z_pos; lia). field. lra.
Qed.

Lemma linspace_last a b n : (2 <= n)%Z -> InQ b (linspace a b n).
Proof.
  intros Hn. unfold linspace. destruct (n =? 1)%Z eqn:E; [apply Z.eqb_eq in E; lia|].
  exists (a + inject_Z (n - 1) * (b - a) / inject_Z (n - 1)). split.
  - apply in_map_iff. exists (n - 1)%Z. split; [reflexivity|]. apply zrange_In. lia.
  - assert (0 < inject_Z (n - 1)) by (apply inject_Z_pos; lia). field. lra.
Qed.

(* the defect (F7): with a single sample linspace returns the START of the
   window only, so neither the coarse extreme nor the far end is looked at *)
Lemma refine_axis_coded_n1 naxis e :
  (1 <= naxis)%Z -> ((clamp_hi e - clamp_lo e) * naxis <= 31)%Z ->
  refine_axis 0 naxis e = [cidx naxis (clamp_lo e)].
Proof.
  intros Hn Hw. unfold refine_axis, refine_n.
  assert (Hc : (Qceiling (cidx naxis (clamp_hi e) - cidx naxis (clamp_lo e)) <= 1)%Z).
  { rewrite <- (Qceiling_Z 1). apply Qceiling_resp_le. rewrite cidx_diff.
    rewrite <- inject_Z_mult. apply Qle_shift_div_r; [reflexivity|].
    change (inject_Z 1 * 31) with (inject_Z 31). rewrite <- Zle_Qle. exact Hw. }
  replace (Z.max _ 1 + 0)%Z with 1%Z by lia. reflexivity.
Qed.

Lemma refine_includes_coarse_refuted_l :
  exists naxis e, (1 <= naxis)%Z /\ (0 <= e <= NM)%Z /\
    existsb (Qeq_bool (cidx naxis e)) (refine_axis 0 naxis e) = false.
Proof. exists 31%Z, 31%Z. repeat split; try (unfold NM; lia). Qed.

Lemma refine_lon_includes_coarse_refuted_l :
  exists naxis1 naxis2 e, (1 <= naxis1)%Z /\ (1 <= naxis2)%Z /\ (0 <= e <= 4 * NM)%Z /\
    mem_pt (cidx naxis1 (fst (edge_walk e)), cidx naxis2 (snd (edge_walk e)))
           (refine_lon_pts 0 naxis1 naxis2 e) = false.
Proof. exists 10%Z, 200%Z, 5%Z. repeat split; try (unfold NM; lia). Qed.

(* the repaired sampling: the coarse extreme takes part in the final
   argmin/argmax, both ends of every window are sampled, and neighbouring
   samples are at most one pixel apart *)
Lemma refine_lat_fixed_includes_coarse n1 n2 e1 e2 :
  mem_pt (cidx n1 e1, cidx n2 e2) (refine_lat_fixed n1 n2 e1 e2) = true.
Proof.
  unfold refine_lat_fixed, mem_pt. cbn [existsb]. unfold Qeqb2 at 1. cbn [fst snd].
  rewrite !(proj2 (Qeq_bool_iff _ _) (Qeq_refl _)). reflexivity.
Qed.

Lemma refine_lon_fixed_includes_coarse n1 n2 e :
  mem_pt (cidx n1 (fst (edge_walk e)), cidx n2 (snd (edge_walk e))) (refine_lon_fixed n1 n2 e) = true.
Proof.
  unfold refine_lon_fixed, mem_pt. cbn [existsb]. unfold Qeqb2 at 1. cbn [fst snd].
  rewrite !(proj2 (Qeq_bool_iff _ _) (Qeq_refl _)). reflexivity.
Qed.

Lemma refine_n_fixed_ge2 naxis lo hi : (2 <= refine_n 1 naxis lo hi)%Z.
Proof. unfold refine_n. lia. Qed.

Lemma refine_axis_fixed_ends naxis e :
  InQ (cidx naxis (clamp_lo e)) (refine_axis 1 naxis e) /\
  InQ (cidx naxis (clamp_hi e)) (refine_axis 1 naxis e).
Proof.
  unfold refine_axis. pose proof (refine_n_fixed_ge2 naxis (clamp_lo e) (clamp_hi e)).
  split; [apply linspace_first; lia | apply linspace_last; lia].
Qed.

(* spacing of the repaired refined samples: (b - a) / (n - 1) <= 1 pixel *)
Lemma refine_axis_fixed_spacing naxis e :
  let a := cidx naxis (clamp_lo e) in let b := cidx naxis (clamp_hi e) in
  (b - a) / inject_Z (refine_n 1 naxis (clamp_lo e) (clamp_hi e) - 1) <= 1.
Proof.
  cbv zeta. unfold refine_n.
  set (w := cidx naxis (clamp_hi e) - cidx naxis (clamp_lo e)).
  replace (Z.max (Qceiling w) 1 + 1 - 1)%Z with (Z.max (Qceiling w) 1) by lia.
  assert (P : 0 < inject_Z (Z.max (Qceiling w) 1)) by (apply inject_Z_pos; lia).
  apply Qle_shift_div_r; [exact P|]. rewrite Qmult_1_l.
  eapply Qle_trans; [apply Qle_ceiling|]. rewrite <- Zle_Qle. lia.
Qed.

(* the unwrapping of the edge longitudes moves values by whole turns and
   leaves neighbours within half a turn of each other *)
Lemma unwrap_dn_spec fuel : forall v0 v1 d v d',
  unwrap_dn fuel v0 v1 d = Some (v, d') ->
  v - v0 <= 180 /\ v == v1 + inject_Z (d' - d) * 360 /\ (d' <= d)%Z /\ (d' = d \/ -180 < v - v0).
Proof.
  induction fuel as [|f IH]; intros v0 v1 d v d' H; [discriminate|].
  cbn [unwrap_dn] in H. qcase 180 (v1 - v0).
  - apply IH in H. destruct H as (H1 & H2 & H3 & H4). repeat split; try lia; try lra.
    + rewrite H2. rewrite !inject_Z_sub, ?inject_Z_plus. change (inject_Z 1) with 1. ring.
    + right. destruct H4 as [-> | H4]; [|exact H4].
      replace (d - 1 - (d - 1))%Z with 0%Z in H2 by lia. change (inject_Z 0) with 0 in H2. lra.
  - injection H as <- <-. replace (d - d)%Z with 0%Z by lia. change (inject_Z 0) with 0.
    repeat split; try lia; try lra.
Qed.

Lemma unwrap_up_spec fuel : forall v0 v1 d v d',
  unwrap_up fuel v0 v1 d = Some (v, d') ->
  v0 - v <= 180 /\ v == v1 + inject_Z (d' - d) * 360 /\ (d <= d')%Z /\ (d' = d \/ v - v0 < 180).
Proof.
  induction fuel as [|f IH]; intros v0 v1 d v d' H; [discriminate|].
  cbn [unwrap_up] in H. qcase 180 (v0 - v1).
  - apply IH in H. destruct H as (H1 & H2 & H3 & H4). repeat split; try lia; try lra.
    + rewrite H2. rewrite !inject_Z_sub, ?inject_Z_plus. change (inject_Z 1) with 1. ring.
    + right. destruct H4 as [-> | H4]; [|exact H4].
      replace (d + 1 - (d + 1))%Z with 0%Z in H2 by lia. change (inject_Z 0) with 0 in H2. lra.
  - injection H as <- <-. replace (d - d)%Z with 0%Z by lia. change (inject_Z 0) with 0.
    repeat split; try lia; try lra.
Qed.

(* ------------------------------------------------ the property's predicate *)

Section Complete.
  Variables tau pi thr : Q.
  Hypothesis tau_pos : 0 < tau.

  (* The geometry of the tiles is a parameter here (C04/C05 own it):
     corners_of is the generator's corner table, centre the pixel-centre grid. *)
  Variable corners_of : pos -> corners.
  Variable centre : pos -> Z -> Z -> Q * Q.      (* (lon, lat) of pixel (i, j) *)

  (* what the geometry layer has to deliver for a point of a tile: its latitude
     is within the corners' latitude range and, unless the tile reaches a pole,
     its longitude is congruent to a point strictly inside the corners'
     unwrapped longitude range *)
  Definition tile_holds (fuel : nat) (q : pos) (lon lat : Q) : Prop :=
    in_range4 (lats (corners_of q)) lat /\
    (polar thr (corners_of q) = true \/
     exists tmin tmax k, tile_lon_range tau pi fuel (corners_of q) = Some (tmin, tmax) /\
                         tmin < lon + inject_Z k * tau < tmax).

  (* lat/lon box membership, longitudes modulo tau *)
  Definition in_box (bx : box) (lon lat : Q) : Prop :=
    (exists k, b_lon_min bx <= lon + inject_Z k * tau <= b_lon_max bx) /\
    b_lat_min bx <= lat <= b_lat_max bx.

  Definition box_filter (fuel : nat) (bx : box) (q : pos) : bool :=
    match bbox tau pi thr fuel (corners_of q) bx with Some r => r_dec r | None => false end.

  (* C07, box case: a tile with a pixel centre in the box is accepted, and so is
     every ancestor, provided the geometry puts the centre inside each of them
     and the span loop terminates on their corners. *)
  Lemma box_filter_complete_l fuel bx p lon lat :
    in_box bx lon lat ->
    (forall k, (k < pn p)%nat ->
       tile_holds fuel (ancestor k p) lon lat /\
       bbox tau pi thr fuel (corners_of (ancestor k p)) bx <> None) ->
    accepted_chain (box_filter fuel bx) p.
  Proof.
    intros [(k2 & Hk2) Hlat] Hall k Hk. destruct (Hall k Hk) as [[Hr Hl] Hterm].
    unfold box_filter.
    destruct (bbox tau pi thr fuel (corners_of (ancestor k p)) bx) as [r|] eqn:Eb; [|congruence].
    eapply (bbox_sound_l tau pi thr tau_pos fuel _ _ r Eb lon lat Hr Hlat).
    destruct Hl as [Hp | (tmin & tmax & k1 & Hrange & Hin)]; [left; exact Hp|right].
    exists tmin, tmax, k1, k2. repeat split; try lra; try exact Hrange; left; lra.
  Qed.

  (* consequence for sampling: let a sampler be masked (None) outside the box.
     A leaf tile gets a file iff it holds data; filtering removes no such leaf. *)
  Variable V : Type.
  Variable samp : Q -> Q -> option V.

  Definition has_data (p : pos) : Prop :=
    exists i j, (0 <= i < 256)%Z /\ (0 <= j < 256)%Z /\
                samp (fst (centre p i j)) (snd (centre p i j)) <> None.

  Lemma filtered_eq_unfiltered_l fuel bx p :
    (forall lon lat, samp lon lat <> None -> in_box bx lon lat) ->
    (forall i j k, (k < pn p)%nat ->
       tile_holds fuel (ancestor k p) (fst (centre p i j)) (snd (centre p i j)) /\
       bbox tau pi thr fuel (corners_of (ancestor k p)) bx <> None) ->
    (has_data p <-> accepted_chain (box_filter fuel bx) p /\ has_data p).
  Proof.
    intros Hmask Hgeo. split; [|tauto].
    intros Hd. split; [|exact Hd].
    destruct Hd as (i & j & _ & _ & Hs).
    eapply box_filter_complete_l; [apply Hmask; exact Hs|].
    intros k Hk. apply Hgeo. exact Hk.
  Qed.

End Complete.

(* a chunk's unmasked pixel is in the chunk's box (mod tau), so the chunk's
   filter accepts its tile: instance of box_filter_complete_l *)
Lemma chunk_sample_in_box_mod tau pi bx nx ny lon lat r :
  0 < tau ->
  b_lon_min bx < b_lon_max bx -> b_lat_min bx < b_lat_max bx -> (0 < nx)%Z -> (0 < ny)%Z ->
  chunk_sample tau pi bx nx ny lon lat = Some r -> in_box tau bx lon lat.
Proof.
  intros Ht H1 H2 H3 H4 H5.
  destruct (chunk_sample_in_box tau pi bx nx ny lon lat r H1 H2 H3 H4 H5) as [Hl Ha].
  destruct (norm_lon_cong tau pi lon) as (k & Ek).
  split; [|exact Ha]. exists k. rewrite <- Ek. exact Hl.
Qed.

(* sequential sampling of all chunks with `update` (masked pixels do not
   overwrite, C15): after the last chunk every pixel holds the whole-map value *)
Definition merge_px {V} (old new : option V) : option V :=
  match new with Some v => Some v | None => old end.

Lemma merge_singleton {V} (vals : list (option V)) (v : V) :
  (exists l1 l2, vals = l1 ++ Some v :: l2 /\ Forall (fun x => x = None) l1 /\ Forall (fun x => x = None) l2) ->
  forall init, fold_left merge_px vals init = Some v.
Proof.
  intros (l1 & l2 & -> & F1 & F2) init. rewrite fold_left_app. cbn [fold_left].
  assert (G : forall l a, Forall (fun x : option V => x = None) l -> fold_left merge_px l a = a).
  { induction l as [|x l IH]; intros a F; [reflexivity|]. inversion F; subst. cbn. apply IH. assumption. }
  rewrite (G l1 init F1). cbn [merge_px]. apply G. exact F2.
Qed.

(* ---------------------------------------------- combined forms for Properties *)

Lemma sort4_correct l : sorted4 (sort4 l) /\ Permutation (list4 (sort4 l)) (list4 l).
Proof. split; [apply sort4_sorted | apply sort4_perm]. Qed.

Lemma refine_axis_fixed_l naxis e :
  InQ (cidx naxis (clamp_lo e)) (refine_axis 1 naxis e) /\
  InQ (cidx naxis (clamp_hi e)) (refine_axis 1 naxis e) /\
  (cidx naxis (clamp_hi e) - cidx naxis (clamp_lo e)) /
    inject_Z (refine_n 1 naxis (clamp_lo e) (clamp_hi e) - 1) <= 1.
Proof.
  destruct (refine_axis_fixed_ends naxis e) as [A B]. split; [exact A|split; [exact B|]].
  apply refine_axis_fixed_spacing.
Qed.

Lemma refine_fixed_includes_coarse_l n1 n2 :
  (forall e1 e2, mem_pt (cidx n1 e1, cidx n2 e2) (refine_lat_fixed n1 n2 e1 e2) = true) /\
  (forall e, mem_pt (cidx n1 (fst (edge_walk e)), cidx n2 (snd (edge_walk e))) (refine_lon_fixed n1 n2 e) = true).
Proof. split; intros; [apply refine_lat_fixed_includes_coarse | apply refine_lon_fixed_includes_coarse]. Qed.

Lemma chunks_tile_l tau pi halfpi W H :
  0 < tau -> 0 < pi -> (0 < W)%Z -> (0 < H)%Z ->
  (forall cx cy cw ch cw2,
     b_lon_max (chunk_bounds tau pi halfpi W H cx cy cw ch) =
     b_lon_min (chunk_bounds tau pi halfpi W H (cx + cw) cy cw2 ch)) /\
  (forall cx cy cw ch ch2,
     b_lat_min (chunk_bounds tau pi halfpi W H cx cy cw ch) =
     b_lat_max (chunk_bounds tau pi halfpi W H cx (cy + ch) cw ch2)) /\
  (forall cw ch,
     b_lon_min (chunk_bounds tau pi halfpi W H 0 0 cw ch) == - pi /\
     b_lat_max (chunk_bounds tau pi halfpi W H 0 0 cw ch) == halfpi /\
     b_lon_max (chunk_bounds tau pi halfpi W H (W - cw) (H - ch) cw ch) == tau - pi /\
     b_lat_min (chunk_bounds tau pi halfpi W H (W - cw) (H - ch) cw ch) == halfpi - pi) /\
  (forall cx cy cw ch, (0 < cw)%Z -> (0 < ch)%Z ->
     box_ok (chunk_bounds tau pi halfpi W H cx cy cw ch) = true).
Proof.
  intros Ht Hp HW HH. repeat split; intros.
  - apply (chunk_bounds_outer tau pi halfpi W H cw ch HW HH).
  - apply (chunk_bounds_outer tau pi halfpi W H cw ch HW HH).
  - apply (chunk_bounds_outer tau pi halfpi W H cw ch HW HH).
  - apply (chunk_bounds_outer tau pi halfpi W H cw ch HW HH).
  - apply chunk_bounds_ordered; assumption.
Qed.

Lemma filter_pure_l tau pi thr fuel bx :
  (forall c, snd (latlon_tile_filter tau pi thr fuel bx (mkTile CTuple c)) = mkTile CTuple c /\
             fst (latlon_tile_filter tau pi thr fuel bx (mkTile CTuple c)) =
             match bbox tau pi thr fuel c bx with Some r => FRet (r_dec r) (r_margin r) | None => FFuel end) /\
  (forall planetary n c, (n = 1%nat -> polar thr c = true) ->
     let t := mkTile (repr_at_level planetary n) c in
     snd (latlon_tile_filter tau pi thr fuel bx t) = t /\
     fst (latlon_tile_filter tau pi thr fuel bx t) <> FRaise).
Proof.
  split.
  - intros c. split; [apply filter_pure_tuple | apply filter_tuple_result].
  - intros. apply filter_generated_pure. assumption.
Qed.

(* ------------------------------ the shifting loops equal their closed form *)

Lemma Qceiling_unique x k : inject_Z (k - 1) < x -> x <= inject_Z k -> Qceiling x = k.
Proof.
  intros H1 H2. pose proof (Qle_ceiling x) as H3. pose proof (Qceiling_lt x) as H4.
  assert (A : inject_Z (k - 1) < inject_Z (Qceiling x)) by lra.
  assert (B : inject_Z (Qceiling x - 1) < inject_Z k) by lra.
  rewrite <- Zlt_Qlt in A, B. lia.
Qed.

Section Closed.
  Variable tau : Q.
  Hypothesis tau_pos : 0 < tau.

  Lemma shift_up_count fuel bmin lo hi m lo' hi' m' :
    shift_up tau fuel bmin (lo, hi) m = Some (lo', hi', m') ->
    lo' == lo + inject_Z (up_count tau bmin lo) * tau /\ hi' == hi + inject_Z (up_count tau bmin lo) * tau.
  Proof.
    intros H. apply shift_up_spec in H. destruct H as (k & Hk & E1 & E2 & Hge & Hkk).
    assert (Ek : up_count tau bmin lo = k).
    { unfold up_count. set (r := (bmin - lo) / tau).
      assert (Er : r * tau == bmin - lo) by (unfold r; field; lra).
      destruct Hkk as [-> | Hlt].
      - change (inject_Z 0) with 0 in E1.
        assert (r <= 0) by nra.
        assert (Qceiling r <= 0)%Z by (rewrite <- (Qceiling_Z 0); apply Qceiling_resp_le; assumption). lia.
      - assert (Hc : Qceiling r = k).
        { apply Qceiling_unique; [rewrite inject_Z_sub; change (inject_Z 1) with 1|]; nra. }
        lia. }
    rewrite Ek. split; assumption.
  Qed.

  Lemma shift_down_count fuel bmin lo hi m lo' hi' m' :
    shift_down tau fuel bmin (lo, hi) m = Some (lo', hi', m') ->
    lo' == lo - inject_Z (down_count tau bmin lo) * tau /\ hi' == hi - inject_Z (down_count tau bmin lo) * tau.
  Proof.
    intros H. apply shift_down_spec in H. destruct H as (j & Hj & E1 & E2 & Hle & Hjj).
    assert (Ej : down_count tau bmin lo = j).
    { unfold down_count. set (s := (lo - bmin) / tau).
      assert (Es : s * tau == lo - bmin) by (unfold s; field; lra).
      destruct Hjj as [-> | Hgt].
      - change (inject_Z 0) with 0 in E1.
        assert (s <= 1) by nra.
        assert (Qceiling s <= 1)%Z by (rewrite <- (Qceiling_Z 1); apply Qceiling_resp_le; assumption). lia.
      - assert (Hc : Qceiling s = (j + 1)%Z).
        { apply Qceiling_unique.
          - replace (j + 1 - 1)%Z with j by lia. nra.
          - rewrite inject_Z_plus. change (inject_Z 1) with 1. nra. }
        lia. }
    rewrite Ej. split; assumption.
  Qed.

  (* the two loops of pyx 245-251 compute the closed form *)
  Lemma shift_loops_closed fuel bmin lo hi m lo1 hi1 m1 lo2 hi2 m2 :
    shift_up tau fuel bmin (lo, hi) m = Some (lo1, hi1, m1) ->
    shift_down tau fuel bmin (lo1, hi1) m1 = Some (lo2, hi2, m2) ->
    lo2 == fst (shift_closed tau bmin (lo, hi)) /\ hi2 == snd (shift_closed tau bmin (lo, hi)).
  Proof.
    intros Hu Hd. apply shift_up_count in Hu. apply shift_down_count in Hd.
    destruct Hu as [U1 U2], Hd as [D1 D2]. unfold shift_closed; cbn [fst snd].
    assert (Ec : down_count tau bmin lo1 = down_count tau bmin (lo + inject_Z (up_count tau bmin lo) * tau)).
    { unfold down_count. f_equal. f_equal. apply Qceiling_comp. unfold Qdiv. apply Qmult_comp; [lra | reflexivity]. }
    rewrite <- Ec. set (j := down_count tau bmin lo1) in *. clearbody j.
    set (k := up_count tau bmin lo) in *. clearbody k. split; lra.
  Qed.
End Closed.
