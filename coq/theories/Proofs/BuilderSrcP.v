(* The straight-line methods of class Builder as TRANSLATED from toasty/builder.py on every build
   (Generated/BuilderSrc.v; harness/py2coq.py, MethodTranslator) are the hand-written scripts of
   Model/BuilderScript.v, and in those scripts the description is wired as C17 / C08 need it. *)
From Coq Require Import ZArith String List Bool.
From Toasty Require Import Model.SrcPrelude Model.BuilderScript.
From Toasty Require Import Generated.BuilderSrc.
Import ListNotations.
Local Open Scope string_scope.
Local Open Scope list_scope.

Lemma src_builder_methods_eq :
  src_Builder_init = TDone builder_init_model /\
  src_Builder_set_name = TDone builder_set_name_model /\
  src_Builder_prepare_study_tiling = TDone builder_prepare_study_tiling_model /\
  src_Builder_execute_study_tiling = TDone builder_execute_study_tiling_model /\
  src_Builder_tile_base_as_study = TDone builder_tile_base_as_study_model.
Proof. repeat split; reflexivity. Qed.

(* after Builder(pio): the place's foreground image set is the builder's image set; the URL is the
   pyramid's path scheme followed by "." + its default format; both names agree *)
Lemma init_wires_description :
  final_store is_place "foreground_image_set" builder_init_model None = Some self_imgset /\
  final_store is_imgset "file_type" builder_init_model None
    = Some (add_ (SStr ".") (SCallA "get_default_format" (SName "pio") [] [])) /\
  final_store is_imgset "url" builder_init_model None
    = Some (add_ (SCallA "get_path_scheme" (SName "pio") [] []) (SAttr "file_type" self_imgset)) /\
  final_store is_imgset "name" builder_init_model None = final_store is_place "name" builder_init_model None.
Proof. repeat split; reflexivity. Qed.

(* the file type is stored BEFORE the URL reads it, and the image set BEFORE the place points at it *)
Lemma init_order :
  exists pre mid post, builder_init_model =
    pre ++ [setattr self_imgset "file_type" (add_ (SStr ".") (SCallA "get_default_format" (SName "pio") [] []))] ++
    mid ++ [setattr self_imgset "url" (add_ (SCallA "get_path_scheme" (SName "pio") [] []) (SAttr "file_type" self_imgset))] ++ post /\
    In (setattr self_ "imgset" (SNewP "ImageSet" [] [])) pre /\
    In (setattr self_place "foreground_image_set" self_imgset) post.
Proof.
  exists [setattr self_ "pio" (SName "pio"); setattr self_ "imgset" (SNewP "ImageSet" [] []); setattr self_imgset "name" (SStr "Toasty")].
  exists []. eexists. split; [reflexivity|]. split; [right; left; reflexivity|]. right; left; reflexivity.
Qed.

(* set_name(n): image set and place both carry n afterwards, whatever was there before *)
Lemma set_name_sets_both (before : list (sevent unit)) (a1 a2 : option (sval unit)) :
  final_store is_imgset "name" (before ++ builder_set_name_model) a1 = Some (SName "name") /\
  final_store is_place "name" (before ++ builder_set_name_model) a2 = Some (SName "name").
Proof.
  split.
  - revert a1. induction before as [|e r IH]; intros a1; [reflexivity|]. cbn [app final_store]. apply IH.
  - revert a2. induction before as [|e r IH]; intros a2; [reflexivity|]. cbn [app final_store]. apply IH.
Qed.

(* prepare_study_tiling: StudyTiling(image.width, image.height) -- width first -- applied to the
   builder's own image set, and that same tiling is returned *)
Lemma prepare_study_tiling_plumbing :
  builder_prepare_study_tiling_model =
    [ SMethod (SNewP "StudyTiling" [SAttr "width" (SName "image"); SAttr "height" (SName "image")] [])
              "apply_to_imageset" [SAttr "imgset" (SName "self")] [];
      SCall "return" [SNewP "StudyTiling" [SAttr "width" (SName "image"); SAttr "height" (SName "image")] []] [] ].
Proof. reflexivity. Qed.

(* tile_base_as_study: the WCS guard comes first, the image is tiled into the builder's own pyramid
   with the caller's keyword arguments, and the resulting tiling describes the builder's image set *)
Lemma tile_base_as_study_plumbing :
  builder_tile_base_as_study_model =
    [ SMethod (SName "self") "_check_no_wcs_yet" [] [];
      SCall "tile_study_image" [SName "image"; SAttr "pio" (SName "self")] [("**", SName "kwargs")];
      SMethod (SNewP "tile_study_image" [SName "image"; SAttr "pio" (SName "self")] [("**", SName "kwargs")])
              "apply_to_imageset" [SAttr "imgset" (SName "self")] [];
      SCall "return" [SName "self"] [] ].
Proof. reflexivity. Qed.
