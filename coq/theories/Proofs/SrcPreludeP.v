(* Lemmas about the translator's prelude (Model/SrcPrelude.v). *)
From Coq Require Import ZArith List.
From Toasty Require Import Model.SrcPrelude.
Import ListNotations.

Lemma src_concat_map_some {A B : Type} (f : A -> option (list B)) (g : A -> list B) (l : list A) :
  (forall a, In a l -> f a = Some (g a)) -> src_concat_map f l = Some (flat_map g l).
Proof.
  induction l as [|a l IH]; intros H; cbn [src_concat_map flat_map]; [reflexivity|].
  rewrite (H a (or_introl eq_refl)). rewrite IH by (intros b Hb; apply H; right; exact Hb). reflexivity.
Qed.

Lemma src_concat_map_map_some {A A' B : Type} (h : A -> A') (f : A' -> option (list B)) (g : A -> list B)
      (l : list A) :
  (forall a, In a l -> f (h a) = Some (g a)) -> src_concat_map f (map h l) = Some (flat_map g l).
Proof.
  induction l as [|a l IH]; intros H; cbn [src_concat_map flat_map map]; [reflexivity|].
  rewrite (H a (or_introl eq_refl)). rewrite IH by (intros b Hb; apply H; right; exact Hb). reflexivity.
Qed.

(* `for item in g: yield item` passes the items on unchanged *)
Lemma src_concat_map_id {B : Type} (l : list B) :
  src_concat_map (fun x => src_cons_opt x (Some [])) l = Some l.
Proof.
  rewrite (src_concat_map_some _ (fun x => [x])) by reflexivity.
  f_equal. induction l as [|a l IH]; cbn [flat_map app]; [reflexivity|]. rewrite IH. reflexivity.
Qed.

Lemma flat_map_singleton {A B : Type} (f : A -> B) (l : list A) : flat_map (fun a => [f a]) l = map f l.
Proof. induction l as [|a l IH]; cbn [flat_map map app]; [reflexivity|]. rewrite IH. reflexivity. Qed.

Lemma map_flat_map {A B C : Type} (f : B -> C) (g : A -> list B) (l : list A) :
  map f (flat_map g l) = flat_map (fun a => map f (g a)) l.
Proof. induction l as [|a l IH]; cbn [flat_map map]; [reflexivity|]. rewrite map_app, IH. reflexivity. Qed.
