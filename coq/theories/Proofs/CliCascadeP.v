(* cli.cascade_impl as TRANSLATED from toasty/cli.py on every build (Generated/CliCascadeSrc.v;
   harness/py2coq.py) behaves like the hand-written model (Model/CliScript.v) under every valuation
   of its settings, and in the model every setting reaches the argument it is meant for. *)
From Coq Require Import ZArith String List Bool.
From Toasty Require Import Model.SrcPrelude Model.CliScript.
From Toasty Require Import Generated.CliCascadeSrc.
Import ListNotations.
Local Open Scope string_scope.

Lemma src_cascade_impl_eq (is_none : sval unit -> bool) (eq_lit : sval unit -> string -> bool) (is_true : sval unit -> bool) :
  run_tree is_none eq_lit is_true src_cli_cascade_impl = cascade_impl_model is_none.
Proof. reflexivity. Qed.

(* --format, --start and --parallelism reach cascade_images: whenever the command does not die it
   makes exactly one call, on the pyramid opened with default_format = settings.format, starting at
   settings.start, with settings.parallelism workers *)
Lemma cascade_plumbing (is_none : sval unit -> bool) :
  is_none (setting "start") = false ->
  exists e, cascade_impl_model is_none = (true, [e]) /\
            call_pos e = [pyramid_at (setting "pyramid_dir") [("default_format", setting "format")];
                          setting "start"; SName "averaging_merger"] /\
            call_kw "parallel" e = Some (setting "parallelism").
Proof.
  intros H. unfold cascade_impl_model. rewrite H. eexists. repeat split.
Qed.

Lemma cascade_dies_without_start (is_none : sval unit -> bool) :
  is_none (setting "start") = true -> cascade_impl_model is_none = (false, []).
Proof. intros H. unfold cascade_impl_model. rewrite H. reflexivity. Qed.
