(* Proofs about Model/Lock.v: mutual exclusion, no partial read under the lock,
   linearizability, release, progress. *)
From Coq Require Import List Arith Bool Lia Permutation.
From Toasty Require Import Model.Lock.
Import ListNotations.

Section LockP.
  Context {T : Type}.
  Variable dflt : T.
  Variable masked : T -> bool.
  Variable fs : list (T -> T).
  Hypothesis masked_is_dflt : forall t, masked t = true -> t = dflt.
  Variable t0 : T.
  Variable file0 : @fstate T.
  Hypothesis file0_content : content dflt file0 = Some t0.

  Notation lstate := (@lstate T).
  Notation lstep := (lstep dflt masked fs).
  Notation lrun := (lrun dflt masked fs).
  Notation apply_order := (apply_order fs t0).
  Notation content := (content dflt).
  Notation fn := (fn fs).

  Lemma setu_length (l : list (@upc T)) u x : u < length l -> length (setu l u x) = length l.
  Proof.
    intros H. unfold setu. rewrite app_length, firstn_length. cbn [length]. rewrite skipn_length. lia.
  Qed.

  Lemma nth_setu_eq (l : list (@upc T)) u x : u < length l -> nth_error (setu l u x) u = Some x.
  Proof.
    intros H. unfold setu. rewrite nth_error_app2; rewrite firstn_length; [|lia].
    replace (u - Nat.min u (length l)) with 0 by lia. reflexivity.
  Qed.

  Lemma nth_firstn' {A} (l : list A) : forall n i, i < n -> nth_error (firstn n l) i = nth_error l i.
  Proof.
    induction l as [|y l IH]; intros n i H.
    - rewrite firstn_nil. reflexivity.
    - destruct n; [lia|]. destruct i; [reflexivity|]. cbn [firstn nth_error]. apply IH. lia.
  Qed.

  Lemma nth_skipn' {A} (l : list A) : forall n i, nth_error (skipn n l) i = nth_error l (n + i).
  Proof.
    induction l as [|y l IH]; intros n i.
    - rewrite skipn_nil. destruct i, n; reflexivity.
    - destruct n; [reflexivity|]. cbn [skipn plus nth_error]. apply IH.
  Qed.

  Lemma nth_setu_neq (l : list (@upc T)) u x u' :
    u < length l -> u' <> u -> nth_error (setu l u x) u' = nth_error l u'.
  Proof.
    intros H Hne. unfold setu.
    destruct (Nat.lt_ge_cases u' u) as [Hlt|Hge].
    - rewrite nth_error_app1 by (rewrite firstn_length; lia). apply nth_firstn'; lia.
    - rewrite nth_error_app2 by (rewrite firstn_length; lia). rewrite firstn_length.
      replace (Nat.min u (length l)) with u by lia.
      destruct (u' - u) as [|m] eqn:E; [lia|]. cbn [nth_error].
      rewrite nth_skipn'. f_equal. lia.
  Qed.

  Lemma nth_lt {A} (l : list A) u x : nth_error l u = Some x -> u < length l.
  Proof. intros H. apply nth_error_Some. congruence. Qed.

  Definition critical (x : @upc T) : bool :=
    match x with UHolding | URead _ | UWriting _ | UWritten => true | _ => false end.

  Definition holder_ok (s : lstate) (h : nat) (rest : list nat) : Prop :=
    match nth_error (us s) h with
    | Some UHolding => content (file s) = Some (apply_order rest)
    | Some (URead seen) => seen = Some (apply_order rest) /\ content (file s) = Some (apply_order rest)
    | Some (UWriting t) => t = apply_order (h :: rest) /\ file s = FPartial
    | Some UWritten => content (file s) = Some (apply_order (h :: rest))
    | _ => False
    end.

  Record LInv (s : lstate) : Prop := {
    li_len : length (us s) = length fs;
    li_free : lock s = None ->
              (forall u x, nth_error (us s) u = Some x -> critical x = false) /\
              content (file s) = Some (apply_order (order s));
    li_held : forall h, lock s = Some h ->
              exists rest, order s = h :: rest /\
              (forall u x, u <> h -> nth_error (us s) u = Some x -> critical x = false) /\
              holder_ok s h rest;
    li_nodup : NoDup (order s);
    li_mem : forall u, In u (order s) <-> (exists x, nth_error (us s) u = Some x /\ x <> UIdle)
  }.

  Lemma linv_init : LInv (linit fs file0).
  Proof.
    unfold linit. constructor; cbn [lock file us order].
    - apply repeat_length.
    - intros _. split; [|exact file0_content].
      intros u x H. apply nth_error_In, repeat_spec in H. subst. reflexivity.
    - discriminate.
    - constructor.
    - intros u. split; [intros []|]. intros (x & H & Hx).
      apply nth_error_In, repeat_spec in H. congruence.
  Qed.

  (* who can be in a critical state *)
  Lemma critical_is_holder s u x :
    LInv s -> nth_error (us s) u = Some x -> critical x = true -> lock s = Some u.
  Proof.
    intros H Hu Hc. destruct (lock s) as [h|] eqn:El.
    - destruct (li_held _ H h El) as (rest & _ & Hoth & _).
      destruct (Nat.eq_dec u h) as [->|Hne]; [reflexivity|].
      rewrite (Hoth u x Hne Hu) in Hc. discriminate.
    - destruct (li_free _ H El) as [Hall _]. rewrite (Hall u x Hu) in Hc. discriminate.
  Qed.

  Lemma linv_step s a : LInv s -> LInv (lstep s a).
  Proof.
    intros H. unfold Lock.lstep. destruct (lenabled s a) eqn:En; cbn [negb]; [|exact H].
    destruct a as [u|u|u|u|u]; unfold lenabled in En.
    - (* TryAcq *)
      destruct (nth_error (us s) u) as [[| | | | |]|] eqn:Eu; try discriminate.
      pose proof (nth_lt _ _ _ Eu) as Hlt.
      destruct (lock s) as [h|] eqn:El; [exact H|].
      destruct (li_free _ H El) as [Hall Hcont].
      constructor; cbn [lock file us order].
      + rewrite setu_length by assumption. apply (li_len _ H).
      + discriminate.
      + intros h Hh. injection Hh as <-. exists (order s). split; [reflexivity|]. split.
        * intros u' x Hne Hx. rewrite nth_setu_neq in Hx by assumption. eauto.
        * unfold holder_ok. cbn [us file]. rewrite nth_setu_eq by assumption. exact Hcont.
      + constructor; [|apply (li_nodup _ H)].
        intros Hin. apply (li_mem _ H) in Hin. destruct Hin as (x & Hx & Hne). congruence.
      + intros u'. cbn [In]. split.
        * intros [<-|Hin].
          -- exists UHolding. rewrite nth_setu_eq by assumption. split; [reflexivity|discriminate].
          -- apply (li_mem _ H) in Hin. destruct Hin as (x & Hx & Hne).
             destruct (Nat.eq_dec u' u) as [->|Hd]; [congruence|].
             exists x. rewrite nth_setu_neq by assumption. auto.
        * intros (x & Hx & Hne). destruct (Nat.eq_dec u' u) as [->|Hd]; [left; reflexivity|].
          right. rewrite nth_setu_neq in Hx by assumption. apply (li_mem _ H). eauto.
    - (* Read *)
      destruct (nth_error (us s) u) as [[| | | | |]|] eqn:Eu; try discriminate.
      pose proof (nth_lt _ _ _ Eu) as Hlt.
      pose proof (critical_is_holder s u _ H Eu eq_refl) as El.
      destruct (li_held _ H u El) as (rest & Hord & Hoth & Hok).
      unfold holder_ok in Hok. rewrite Eu in Hok.
      constructor; cbn [lock file us order].
      + rewrite setu_length by assumption. apply (li_len _ H).
      + rewrite El. discriminate.
      + intros h Hh. rewrite El in Hh. injection Hh as <-. exists rest. split; [assumption|]. split.
        * intros u' x Hne Hx. rewrite nth_setu_neq in Hx by assumption. eauto.
        * unfold holder_ok. cbn [us file]. rewrite nth_setu_eq by assumption. auto.
      + apply (li_nodup _ H).
      + intros u'. rewrite (li_mem _ H). split; intros (x & Hx & Hne).
        * destruct (Nat.eq_dec u' u) as [->|Hd].
          -- eexists. rewrite nth_setu_eq by assumption. split; [reflexivity|discriminate].
          -- exists x. rewrite nth_setu_neq by assumption. auto.
        * destruct (Nat.eq_dec u' u) as [->|Hd].
          -- exists UHolding. split; [assumption|discriminate].
          -- rewrite nth_setu_neq in Hx by assumption. eauto.
    - (* WBegin *)
      destruct (nth_error (us s) u) as [[| |seen| | |]|] eqn:Eu; try discriminate.
      pose proof (nth_lt _ _ _ Eu) as Hlt.
      pose proof (critical_is_holder s u _ H Eu eq_refl) as El.
      destruct (li_held _ H u El) as (rest & Hord & Hoth & Hok).
      unfold holder_ok in Hok. rewrite Eu in Hok. destruct Hok as [Hseen Hcont]. subst seen.
      constructor; cbn [lock file us order].
      + rewrite setu_length by assumption. apply (li_len _ H).
      + rewrite El. discriminate.
      + intros h Hh. rewrite El in Hh. injection Hh as <-. exists rest. split; [assumption|]. split.
        * intros u' x Hne Hx. rewrite nth_setu_neq in Hx by assumption. eauto.
        * unfold holder_ok. cbn [us file]. rewrite nth_setu_eq by assumption. split; reflexivity.
      + apply (li_nodup _ H).
      + intros u'. rewrite (li_mem _ H). split; intros (x & Hx & Hne).
        * destruct (Nat.eq_dec u' u) as [->|Hd].
          -- eexists. rewrite nth_setu_eq by assumption. split; [reflexivity|discriminate].
          -- exists x. rewrite nth_setu_neq by assumption. auto.
        * destruct (Nat.eq_dec u' u) as [->|Hd].
          -- eexists. split; [eassumption|discriminate].
          -- rewrite nth_setu_neq in Hx by assumption. eauto.
    - (* WEnd *)
      destruct (nth_error (us s) u) as [[| | |t| |]|] eqn:Eu; try discriminate.
      pose proof (nth_lt _ _ _ Eu) as Hlt.
      pose proof (critical_is_holder s u _ H Eu eq_refl) as El.
      destruct (li_held _ H u El) as (rest & Hord & Hoth & Hok).
      unfold holder_ok in Hok. rewrite Eu in Hok. destruct Hok as [Ht Hfile].
      constructor; cbn [lock file us order].
      + rewrite setu_length by assumption. apply (li_len _ H).
      + rewrite El. discriminate.
      + intros h Hh. rewrite El in Hh. injection Hh as <-. exists rest. split; [assumption|]. split.
        * intros u' x Hne Hx. rewrite nth_setu_neq in Hx by assumption. eauto.
        * unfold holder_ok. cbn [us file]. rewrite nth_setu_eq by assumption.
          destruct (masked t) eqn:Em; cbn [Lock.content].
          -- rewrite <- Ht. f_equal. symmetry. apply masked_is_dflt. assumption.
          -- rewrite Ht. reflexivity.
      + apply (li_nodup _ H).
      + intros u'. rewrite (li_mem _ H). split; intros (x & Hx & Hne).
        * destruct (Nat.eq_dec u' u) as [->|Hd].
          -- eexists. rewrite nth_setu_eq by assumption. split; [reflexivity|discriminate].
          -- exists x. rewrite nth_setu_neq by assumption. auto.
        * destruct (Nat.eq_dec u' u) as [->|Hd].
          -- eexists. split; [eassumption|discriminate].
          -- rewrite nth_setu_neq in Hx by assumption. eauto.
    - (* Release *)
      destruct (nth_error (us s) u) as [[| | | | |]|] eqn:Eu; try discriminate.
      pose proof (nth_lt _ _ _ Eu) as Hlt.
      pose proof (critical_is_holder s u _ H Eu eq_refl) as El.
      destruct (li_held _ H u El) as (rest & Hord & Hoth & Hok).
      unfold holder_ok in Hok. rewrite Eu in Hok.
      constructor; cbn [lock file us order].
      + rewrite setu_length by assumption. apply (li_len _ H).
      + intros _. split.
        * intros u' x Hx. destruct (Nat.eq_dec u' u) as [->|Hd].
          -- rewrite nth_setu_eq in Hx by assumption. injection Hx as <-. reflexivity.
          -- rewrite nth_setu_neq in Hx by assumption. eauto.
        * rewrite Hord. exact Hok.
      + discriminate.
      + apply (li_nodup _ H).
      + intros u'. rewrite (li_mem _ H). split; intros (x & Hx & Hne).
        * destruct (Nat.eq_dec u' u) as [->|Hd].
          -- eexists. rewrite nth_setu_eq by assumption. split; [reflexivity|discriminate].
          -- exists x. rewrite nth_setu_neq by assumption. auto.
        * destruct (Nat.eq_dec u' u) as [->|Hd].
          -- eexists. split; [eassumption|discriminate].
          -- rewrite nth_setu_neq in Hx by assumption. eauto.
  Qed.

  Lemma linv_run l : forall s, LInv s -> LInv (lrun s l).
  Proof.
    induction l as [|a l IH]; intros s H; [exact H|]. cbn [Lock.lrun fold_left].
    apply IH. apply linv_step. exact H.
  Qed.

  Lemma linv_reachable l : LInv (lrun (linit fs file0) l).
  Proof. apply linv_run, linv_init. Qed.

  (* ---- consequences ------------------------------------------------------------ *)

  Theorem mutex l u v x y :
    let s := lrun (linit fs file0) l in
    nth_error (us s) u = Some x -> nth_error (us s) v = Some y ->
    critical x = true -> critical y = true -> u = v.
  Proof.
    intros s Hu Hv Hx Hy. pose proof (linv_reachable l) as H. fold s in H.
    pose proof (critical_is_holder s u x H Hu Hx) as E1.
    pose proof (critical_is_holder s v y H Hv Hy) as E2. congruence.
  Qed.

  Theorem no_partial_read l u :
    let s := lrun (linit fs file0) l in
    nth_error (us s) u = Some (URead None) -> False.
  Proof.
    intros s Hu. pose proof (linv_reachable l) as H. fold s in H.
    pose proof (critical_is_holder s u _ H Hu eq_refl) as El.
    destruct (li_held _ H u El) as (rest & _ & _ & Hok).
    unfold holder_ok in Hok. rewrite Hu in Hok. destruct Hok as [E _]. discriminate.
  Qed.

  Theorem read_sees_whole l u :
    let s := lrun (linit fs file0) l in
    lenabled s (Read u) = true -> file s <> FPartial.
  Proof.
    intros s En. pose proof (linv_reachable l) as H. fold s in H.
    unfold lenabled in En. destruct (nth_error (us s) u) as [[| | | | |]|] eqn:Eu; try discriminate.
    pose proof (critical_is_holder s u _ H Eu eq_refl) as El.
    destruct (li_held _ H u El) as (rest & _ & _ & Hok).
    unfold holder_ok in Hok. rewrite Eu in Hok. intros Hp. rewrite Hp in Hok. discriminate.
  Qed.

  Lemma all_done_spec (s : lstate) :
    all_done s = true <-> forall u x, nth_error (us s) u = Some x -> x = UDone.
  Proof.
    unfold all_done. rewrite forallb_forall. split.
    - intros H u x Hx. specialize (H x (nth_error_In _ _ Hx)). destruct x; try discriminate. reflexivity.
    - intros H x Hin. apply In_nth_error in Hin. destruct Hin as (u & Hu). rewrite (H u x Hu). reflexivity.
  Qed.

  Theorem linearizable l :
    let s := lrun (linit fs file0) l in
    all_done s = true ->
    lock s = None /\
    content (file s) = Some (apply_order (order s)) /\
    Permutation (order s) (seq 0 (length fs)).
  Proof.
    intros s Hd. pose proof (linv_reachable l) as H. fold s in H.
    rewrite all_done_spec in Hd.
    assert (El : lock s = None).
    { destruct (lock s) as [h|] eqn:El; [|reflexivity]. exfalso.
      destruct (li_held _ H h El) as (rest & _ & _ & Hok). unfold holder_ok in Hok.
      destruct (nth_error (us s) h) as [x|] eqn:Eh; [|exact Hok].
      rewrite (Hd h x Eh) in Hok. exact Hok. }
    split; [exact El|]. split; [apply (li_free _ H El)|].
    apply NoDup_Permutation; [apply (li_nodup _ H)|apply seq_NoDup|].
    intros u. rewrite (li_mem _ H), in_seq. split.
    - intros (x & Hx & _). apply nth_lt in Hx. rewrite (li_len _ H) in Hx. lia.
    - intros [_ Hu]. rewrite <- (li_len _ H) in Hu.
      destruct (nth_error (us s) u) as [x|] eqn:Ex.
      + exists x. split; [reflexivity|]. rewrite (Hd u x Ex). discriminate.
      + apply nth_error_None in Ex. lia.
  Qed.

  (* progress: while someone is not done, a non-polling action is enabled *)
  Theorem lock_no_deadlock l :
    let s := lrun (linit fs file0) l in
    all_done s = false -> exists a, lenabled s a = true /\ lpolling s a = false.
  Proof.
    intros s Hd. pose proof (linv_reachable l) as H. fold s in H.
    destruct (lock s) as [h|] eqn:El.
    - destruct (li_held _ H h El) as (rest & _ & _ & Hok). unfold holder_ok in Hok.
      destruct (nth_error (us s) h) as [[| |seen|t| |]|] eqn:Eh; try contradiction.
      + exists (Read h). unfold lenabled, lpolling. rewrite Eh. auto.
      + exists (WBegin h). unfold lenabled, lpolling. rewrite Eh. auto.
      + exists (WEnd h). unfold lenabled, lpolling. rewrite Eh. auto.
      + exists (Release h). unfold lenabled, lpolling. rewrite Eh. auto.
    - destruct (li_free _ H El) as [Hall _].
      unfold all_done in Hd.
      assert (Hex : exists x, In x (us s) /\ (match x with UDone => true | _ => false end) = false).
      { clear -Hd. induction (us s) as [|y ll IH]; [discriminate|]. cbn [forallb] in Hd.
        apply andb_false_iff in Hd. destruct Hd as [Hy|Hl].
        - exists y. split; [left; reflexivity|assumption].
        - destruct (IH Hl) as (x & Hin & Hx). exists x. split; [right; assumption|assumption]. }
      destruct Hex as (x & Hin & Hx). apply In_nth_error in Hin. destruct Hin as (u & Hu).
      pose proof (Hall u x Hu) as Hc.
      destruct x; try discriminate.
      exists (TryAcq u). unfold lenabled, lpolling. rewrite Hu, El. auto.
  Qed.

  Definition urank (x : @upc T) : nat :=
    match x with UIdle => 5 | UHolding => 4 | URead _ => 3 | UWriting _ => 2 | UWritten => 1 | UDone => 0 end.

  Fixpoint lmeasure (l : list (@upc T)) : nat :=
    match l with [] => 0 | x :: l' => urank x + lmeasure l' end.

  Lemma lmeasure_setu l u x y :
    nth_error l u = Some x -> lmeasure (setu l u y) + urank x = lmeasure l + urank y.
  Proof.
    revert u. induction l as [|z l IH]; intros u H; [destruct u; discriminate|].
    destruct u as [|u].
    - injection H as ->. unfold setu. cbn [firstn skipn app lmeasure]. lia.
    - cbn [nth_error] in H. specialize (IH u H). unfold setu in *.
      change (firstn (S u) (z :: l)) with (z :: firstn u l).
      change (skipn (S (S u)) (z :: l)) with (skipn (S u) l).
      cbn [app lmeasure]. lia.
  Qed.

  Theorem lock_measure (s : lstate) a :
    lenabled s a = true -> lpolling s a = false ->
    lmeasure (us (lstep s a)) < lmeasure (us s).
  Proof.
    intros En Hp. unfold Lock.lstep. rewrite En. cbn [negb].
    destruct a as [u|u|u|u|u]; unfold lenabled in En.
    - destruct (nth_error (us s) u) as [[| | | | |]|] eqn:Eu; try discriminate.
      unfold lpolling in Hp. destruct (lock s); [discriminate|]. cbn [us].
      pose proof (lmeasure_setu _ _ _ UHolding Eu). cbn [urank] in *. lia.
    - destruct (nth_error (us s) u) as [[| | | | |]|] eqn:Eu; try discriminate. cbn [us].
      pose proof (lmeasure_setu _ _ _ (URead (content (file s))) Eu). cbn [urank] in *. lia.
    - destruct (nth_error (us s) u) as [[| |seen| | |]|] eqn:Eu; try discriminate. cbn [us].
      pose proof (lmeasure_setu _ _ _ (UWriting (fn u match seen with Some t => t | None => dflt end)) Eu).
      cbn [urank] in *. lia.
    - destruct (nth_error (us s) u) as [[| | |t| |]|] eqn:Eu; try discriminate. cbn [us].
      pose proof (lmeasure_setu _ _ _ UWritten Eu). cbn [urank] in *. lia.
    - destruct (nth_error (us s) u) as [[| | | | |]|] eqn:Eu; try discriminate. cbn [us].
      pose proof (lmeasure_setu _ _ _ UDone Eu). cbn [urank] in *. lia.
  Qed.
End LockP.
