(* The position arithmetic of toasty/pyramid.py as TRANSLATED from the source on every build
   (Generated/PyramidSrc.v, harness/py2coq.py) agrees with the hand-written model
   (Model/Quadtree.v, Model/Study.v) on every input.  A change of the source that alters one
   of these functions alters the generated definitions, and the corresponding lemma below no
   longer checks. *)
From Coq Require Import ZArith NArith List Bool Lia.
From Toasty Require Import Model.SrcPrelude Model.Quadtree Model.Study Proofs.QuadtreeP Proofs.SrcPreludeP.
From Toasty Require Import Generated.PyramidSrc.
Import ListNotations.
Local Open Scope Z_scope.

Definition to_spos (p : pos) : spos := mkSP (Z.of_nat (pn p)) (Z.of_N (px p)) (Z.of_N (py p)).

(* ---- depth2tiles, tiles_at_depth ------------------------------------------------------ *)

Lemma src_tiles_at_depth_eq (d : nat) :
  src_tiles_at_depth (Z.of_nat d) = Some (Z.of_N (tiles_at_depth d)).
Proof.
  unfold src_tiles_at_depth, tiles_at_depth. f_equal.
  rewrite N2Z.inj_pow, nat_N_Z. reflexivity.
Qed.

Lemma src_depth2tiles_eq (d : nat) :
  src_depth2tiles (Z.of_nat d) = Some (Z.of_N (depth2tiles d)).
Proof.
  unfold src_depth2tiles, depth2tiles. f_equal.
  rewrite N2Z.inj_div, N2Z.inj_sub, N2Z.inj_pow, N2Z.inj_add, nat_N_Z.
  - reflexivity.
  - change 1%N with (4 ^ 0)%N. apply N.pow_le_mono_r; lia.
Qed.

(* ---- pos_parent, pos_children ------------------------------------------------------------ *)

Lemma src_pos_parent_eq (p : pos) :
  src_pos_parent (to_spos p) =
  option_map (fun r => (to_spos (fst (fst r)), Z.of_N (snd (fst r)), Z.of_N (snd r))) (parent p).
Proof.
  unfold src_pos_parent, parent, to_spos. destruct p as [n x y]. cbn [pn px py sn sx sy].
  destruct n as [|n].
  - reflexivity.
  - replace (Z.of_nat (S n) <? 1) with false by (symmetry; apply Z.ltb_ge; lia).
    cbn [option_map fst snd pn px py].
    rewrite !N2Z.inj_div, !N2Z.inj_mod. repeat f_equal. lia.
Qed.

Lemma src_pos_children_eq (p : pos) :
  src_pos_children (to_spos p) = Some (map to_spos (children p)).
Proof.
  unfold src_pos_children, children, to_spos. destruct p as [n x y]. cbn [pn px py sn sx sy map].
  repeat f_equal; rewrite ?N2Z.inj_add, ?N2Z.inj_mul; try lia.
Qed.

(* ---- is_subtile ---------------------------------------------------------------------------- *)

Lemma sn_to p : sn (to_spos p) = Z.of_nat (pn p). Proof. reflexivity. Qed.
Lemma sx_to p : sx (to_spos p) = Z.of_N (px p). Proof. reflexivity. Qed.
Lemma sy_to p : sy (to_spos p) = Z.of_N (py p). Proof. reflexivity. Qed.

Lemma of_N_eqb (a b : N) : (Z.of_N a =? Z.of_N b) = N.eqb a b.
Proof.
  destruct (N.eqb_spec a b) as [->|Hne].
  - apply Z.eqb_refl.
  - apply Z.eqb_neq. intros H. apply Hne. apply N2Z.inj. exact H.
Qed.

Lemma to_spos_parent_pos (p : pos) :
  (1 <= pn p)%nat ->
  src_pos_parent (to_spos p) = Some (to_spos (parent_pos p), Z.of_N (px p mod 2), Z.of_N (py p mod 2)).
Proof.
  intros H. rewrite src_pos_parent_eq. unfold parent_pos, parent. destruct (pn p) as [|n] eqn:E; [lia|].
  reflexivity.
Qed.

Lemma parent_pos_pn (p : pos) : (1 <= pn p)%nat -> pn (parent_pos p) = (pn p - 1)%nat.
Proof.
  intros H. unfold parent_pos, parent. destruct (pn p) as [|n] eqn:E; [lia|]. cbn [pn]. lia.
Qed.

(* with enough fuel the translated recursion computes the model's answer; the ValueError
   branch (deeper tile shallower than the other) is None on both sides *)
Lemma src_is_subtile_rec_eq : forall (k fuel : nat) (a b : pos),
  (pn a = pn b + k)%nat -> (k < fuel)%nat ->
  src_is_subtile fuel (to_spos a) (to_spos b) = Some (is_subtile_rec k a b).
Proof.
  induction k as [|k IH]; intros fuel a b Hk Hf; (destruct fuel as [|fuel]; [lia|]);
    cbn [src_is_subtile]; rewrite !sn_to, ?sx_to, ?sy_to.
  - replace (Z.of_nat (pn a) <? Z.of_nat (pn b)) with false by (symmetry; apply Z.ltb_ge; lia).
    replace (Z.of_nat (pn a) =? Z.of_nat (pn b)) with true by (symmetry; apply Z.eqb_eq; lia).
    cbn [is_subtile_rec]. f_equal.
    rewrite !of_N_eqb. reflexivity.
  - replace (Z.of_nat (pn a) <? Z.of_nat (pn b)) with false by (symmetry; apply Z.ltb_ge; lia).
    replace (Z.of_nat (pn a) =? Z.of_nat (pn b)) with false by (symmetry; apply Z.eqb_neq; lia).
    rewrite to_spos_parent_pos by lia. cbn [fst].
    cbn [is_subtile_rec]. apply IH; [|lia].
    rewrite parent_pos_pn by lia. lia.
Qed.

Lemma src_is_subtile_eq (a b : pos) (fuel : nat) :
  (pn a - pn b < fuel)%nat ->
  src_is_subtile fuel (to_spos a) (to_spos b) = is_subtile a b.
Proof.
  intros Hf. unfold is_subtile. destruct (Nat.ltb (pn a) (pn b)) eqn:E.
  - apply Nat.ltb_lt in E. destruct fuel as [|fuel]; [lia|]. cbn [src_is_subtile].
    rewrite !sn_to.
    replace (Z.of_nat (pn a) <? Z.of_nat (pn b)) with true by (symmetry; apply Z.ltb_lt; lia).
    reflexivity.
  - apply Nat.ltb_ge in E. apply src_is_subtile_rec_eq; lia.
Qed.

(* ---- next_highest_power_of_2 ----------------------------------------------------------------- *)

Lemma src_np2_loop_eq : forall (fuel : nat) (p n r : Z),
  np2_loop fuel p n = Some r -> src_next_highest_power_of_2_loop (S fuel) p n = Some r.
Proof.
  induction fuel as [|fuel IH]; intros p n r H; cbn [np2_loop] in H; cbn [src_next_highest_power_of_2_loop].
  - destruct (p <? n); [discriminate|exact H].
  - destruct (p <? n) eqn:E; [|exact H].
    rewrite Z.mul_comm. apply IH. exact H.
Qed.

Lemma src_next_highest_power_of_2_eq (n r : Z) :
  next_pow2 n = Some r ->
  src_next_highest_power_of_2 (S (Z.to_nat (Z.log2_up n))) n = Some r.
Proof.
  unfold next_pow2, src_next_highest_power_of_2. intros H.
  rewrite (src_np2_loop_eq _ _ _ _ H). reflexivity.
Qed.

(* more fuel never changes an answer that was reached *)
Lemma src_np2_loop_mono : forall (fuel : nat) (p n r : Z),
  src_next_highest_power_of_2_loop fuel p n = Some r ->
  src_next_highest_power_of_2_loop (S fuel) p n = Some r.
Proof.
  induction fuel as [|fuel IH]; intros p n r H; [discriminate|].
  cbn [src_next_highest_power_of_2_loop] in H |- *.
  destruct (p <? n); [|exact H]. apply IH. exact H.
Qed.

(* ---- _postfix_pos, generate_pos (generators: the list of items yielded, in order) ---------- *)

Lemma src_postfix_pos_eq : forall (k fuel : nat) (p : pos) (d : nat),
  k = (S d - pn p)%nat -> (k < fuel)%nat ->
  src__postfix_pos fuel (to_spos p) (Z.of_nat d) = Some (map to_spos (postfix k p)).
Proof.
  induction k as [|k IH]; intros fuel p d Hk Hf; (destruct fuel as [|fuel]; [lia|]);
    cbn [src__postfix_pos postfix]; rewrite sn_to.
  - replace (Z.of_nat (pn p) >? Z.of_nat d) with true by (symmetry; apply Z.gtb_lt; lia).
    reflexivity.
  - replace (Z.of_nat (pn p) >? Z.of_nat d) with false
      by (symmetry; rewrite Z.gtb_ltb; apply Z.ltb_ge; lia).
    rewrite src_pos_children_eq.
    rewrite (src_concat_map_map_some to_spos _ (fun c => map to_spos (postfix k c))).
    + cbn [src_app_opt src_cons_opt]. f_equal.
      rewrite map_app, map_flat_map. reflexivity.
    + intros c Hc. rewrite (IH fuel c d).
      * apply src_concat_map_id.
      * rewrite (children_level p c Hc). lia.
      * lia.
Qed.

Lemma src_generate_pos_eq (d fuel : nat) :
  (S d < fuel)%nat -> src_generate_pos fuel (Z.of_nat d) = Some (map to_spos (generate_pos d)).
Proof.
  intros Hf. unfold src_generate_pos, generate_pos.
  change (mkSP 0 0 0) with (to_spos root).
  rewrite (src_postfix_pos_eq (S d) fuel root d) by (cbn [pn root]; lia).
  apply src_concat_map_id.
Qed.
