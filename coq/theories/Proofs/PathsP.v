(* Lemmas about Model/Paths.v (C17): decimal rendering, path injectivity,
   template expansion. *)
From Coq Require Import NArith String Ascii DecimalString DecimalN DecimalPos Bool Lia.
From Toasty Require Import Model.Paths.
Local Open Scope string_scope.

(* ------------------------------------------------------------------ strings *)

Lemma app_assoc_s (a b c : string) : (a ++ b) ++ c = a ++ (b ++ c).
Proof. induction a as [| ch a IH]; cbn; [reflexivity | rewrite IH; reflexivity]. Qed.

Lemma app_cons_s (a : string) (ch : ascii) (b : string) : (a ++ String ch EmptyString) ++ b = a ++ String ch b.
Proof. rewrite app_assoc_s. reflexivity. Qed.

(* ------------------------------------------------------------------ decimal rendering *)

Lemma all_digits_uint d : all_digits (NilEmpty.string_of_uint d) = true.
Proof. induction d; cbn [NilEmpty.string_of_uint all_digits]; try rewrite IHd; reflexivity. Qed.

Lemma to_uint_nonnil n : N.to_uint n <> Decimal.Nil.
Proof.
  destruct n as [| p]; cbn.
  - discriminate.
  - apply DecimalPos.Unsigned.to_uint_nonnil.
Qed.

Lemma dec_unfold n : dec n = NilEmpty.string_of_uint (N.to_uint n).
Proof.
  unfold dec, NilZero.string_of_uint.
  pose proof (to_uint_nonnil n) as H. destruct (N.to_uint n); try reflexivity. contradiction H; reflexivity.
Qed.

Lemma dec_all_digits n : all_digits (dec n) = true.
Proof. rewrite dec_unfold. apply all_digits_uint. Qed.

Lemma dec_nonempty n : dec n <> EmptyString.
Proof.
  rewrite dec_unfold. pose proof (to_uint_nonnil n) as H.
  destruct (N.to_uint n); cbn; try discriminate. contradiction H; reflexivity.
Qed.

(* str() of distinct numbers differs *)
Lemma dec_inj n m : dec n = dec m -> n = m.
Proof.
  intros E. apply DecimalN.Unsigned.to_uint_inj.
  pose proof (NilZero.usu (N.to_uint n) (to_uint_nonnil n)) as A.
  pose proof (NilZero.usu (N.to_uint m) (to_uint_nonnil m)) as B.
  unfold dec in E. rewrite E in A. rewrite A in B. injection B. auto.
Qed.

(* no leading zero except for "0" itself (what str() prints) *)
Lemma dec_zero : dec 0 = "0".
Proof. reflexivity. Qed.

(* ------------------------------------------------------------------ unique parsing *)

(* a digit string followed by a non-digit: the split point is determined *)
Lemma digits_split (a b : string) (c : ascii) (r r' : string) :
  all_digits a = true -> all_digits b = true -> is_digit c = false ->
  a ++ String c r = b ++ String c r' -> a = b /\ r = r'.
Proof.
  revert b. induction a as [| d a IH]; intros b Ha Hb Hc E.
  - destruct b as [| d' b'].
    + cbn in E. injection E. auto.
    + cbn in E. injection E as E1 E2. subst d'. cbn in Hb. rewrite Hc in Hb. discriminate.
  - destruct b as [| d' b'].
    + cbn in E. injection E as E1 E2. subst d. cbn in Ha. rewrite Hc in Ha. discriminate.
    + cbn in E. injection E as E1 E2. subst d'.
      cbn in Ha, Hb. apply andb_true_iff in Ha. apply andb_true_iff in Hb.
      destruct (IH b' (proj2 Ha) (proj2 Hb) Hc E2) as [A B]. subst. auto.
Qed.

Lemma dec_split n m (c : ascii) r r' :
  is_digit c = false -> dec n ++ String c r = dec m ++ String c r' -> n = m /\ r = r'.
Proof.
  intros Hc E.
  destruct (digits_split _ _ c r r' (dec_all_digits n) (dec_all_digits m) Hc E) as [A B].
  split; [apply dec_inj; exact A | exact B].
Qed.

(* ------------------------------------------------------------------ paths *)

(* right-nested normal forms of the two layouts *)
Lemma rel_path_LsYsYX level x y e :
  rel_path LsYsYX level x y e
  = dec level ++ String "/" (dec y ++ String "/" (dec y ++ String "_" (dec x ++ String "." e))).
Proof. unfold rel_path, join. rewrite app_assoc_s. reflexivity. Qed.

Lemma rel_path_LXY level x y e :
  rel_path LXY level x y e
  = String "L" (dec level ++ String "X" (dec x ++ String "Y" (dec y ++ String "." e))).
Proof. reflexivity. Qed.

(* distinct positions have distinct relative paths, under either scheme (same extension) *)
Lemma rel_path_inj s level x y level' x' y' e :
  rel_path s level x y e = rel_path s level' x' y' e ->
  level = level' /\ x = x' /\ y = y'.
Proof.
  destruct s.
  - rewrite !rel_path_LsYsYX. intros E.
    apply dec_split in E; [| reflexivity]. destruct E as [E1 E].
    apply dec_split in E; [| reflexivity]. destruct E as [E2 E].
    apply dec_split in E; [| reflexivity]. destruct E as [_ E].
    apply dec_split in E; [| reflexivity]. destruct E as [E3 _].
    auto.
  - rewrite !rel_path_LXY. intros E. injection E as E.
    apply dec_split in E; [| reflexivity]. destruct E as [E1 E].
    apply dec_split in E; [| reflexivity]. destruct E as [E2 E].
    apply dec_split in E; [| reflexivity]. destruct E as [E3 _].
    auto.
Qed.

Lemma join_inj_r a b b' : join a b = join a b' -> b = b'.
Proof.
  unfold join. induction a as [| c a IH]; cbn; intros E; injection E; auto.
Qed.

Lemma tile_path_inj p level x y level' x' y' f :
  tile_path p level x y f = tile_path p level' x' y' f ->
  level = level' /\ x = x' /\ y = y'.
Proof.
  unfold tile_path. intros E. apply join_inj_r in E. eapply rel_path_inj. exact E.
Qed.

(* ------------------------------------------------------------------ template expansion *)

(* substituting (level, x, y) in the URL the Builder records gives the relative
   path at which tile_path puts the tile written in the pyramid's default format *)
Lemma expand_builder_url p level x y :
  expand_pos (builder_url p) level x y
  = rel_path (pio_scheme p) level x y (ext_of (pio_default p)).
Proof.
  destruct p as [b s f]. unfold expand_pos, builder_url, builder_file_type. cbn [pio_scheme pio_default].
  destruct s.
  - rewrite rel_path_LsYsYX. destruct f; reflexivity.
  - rewrite rel_path_LXY. destruct f; reflexivity.
Qed.

Lemma expand_is_tile_path p level x y :
  join (pio_base p) (expand_pos (builder_url p) level x y) = tile_path p level x y None.
Proof. rewrite expand_builder_url. reflexivity. Qed.

Lemma expand_is_tile_path_explicit p level x y f :
  f = pio_default p ->
  join (pio_base p) (expand_pos (builder_url p) level x y) = tile_path p level x y (Some f).
Proof. intros ->. rewrite expand_builder_url. reflexivity. Qed.

(* an explicit format different from the default is *not* what the template gives *)
Lemma ext_of_inj f g : ext_of f = ext_of g -> f = g.
Proof. destruct f, g; cbn; intros E; try reflexivity; discriminate. Qed.

Lemma app_inj_l (a b c : string) : a ++ b = a ++ c -> b = c.
Proof. induction a as [| ch a IH]; cbn; intros E; [exact E | injection E; auto]. Qed.

Lemma rel_path_ext_inj s level x y e e' :
  rel_path s level x y e = rel_path s level x y e' -> e = e'.
Proof.
  destruct s.
  - rewrite !rel_path_LsYsYX. intros E.
    repeat (apply app_inj_l in E; injection E as E). exact E.
  - rewrite !rel_path_LXY. intros E. injection E as E.
    repeat (apply app_inj_l in E; injection E as E). exact E.
Qed.

Lemma expand_matches_only_default p level x y f :
  join (pio_base p) (expand_pos (builder_url p) level x y) = tile_path p level x y (Some f) ->
  f = pio_default p.
Proof.
  rewrite expand_builder_url. unfold tile_path. intros E. apply join_inj_r in E.
  apply rel_path_ext_inj in E. apply ext_of_inj in E. auto.
Qed.

Lemma expand_explicit_iff p level x y f :
  join (pio_base p) (expand_pos (builder_url p) level x y) = tile_path p level x y (Some f)
  <-> f = pio_default p.
Proof. split. apply expand_matches_only_default. apply expand_is_tile_path_explicit. Qed.

(* expanded URLs of distinct positions differ (what the client fetches is unambiguous) *)
Lemma expand_inj p level x y level' x' y' :
  expand_pos (builder_url p) level x y = expand_pos (builder_url p) level' x' y' ->
  level = level' /\ x = x' /\ y = y'.
Proof. rewrite !expand_builder_url. apply rel_path_inj. Qed.

(* ------------------------------------------------------------------ file type *)

Lemma file_type_is_dot_ext p : builder_file_type p = String "." (ext_of (pio_default p)).
Proof. reflexivity. Qed.

(* every tile path written in the default format is <stem> ++ FileType, and the
   URL is the template followed by FileType *)
Lemma tile_path_ends_with_file_type p level x y :
  exists stem, tile_path p level x y None = stem ++ builder_file_type p
               /\ builder_url p = scheme_template (pio_scheme p) ++ builder_file_type p.
Proof.
  destruct p as [b s f]. unfold tile_path, builder_file_type, builder_url. cbn [pio_base pio_scheme pio_default].
  destruct s.
  - exists (b ++ String "/" (dec level ++ String "/" (dec y ++ String "/" (dec y ++ String "_" (dec x))))).
    split; [| reflexivity].
    rewrite rel_path_LsYsYX. unfold join. rewrite !app_assoc_s. cbn [append].
    rewrite !app_assoc_s. cbn [append]. rewrite !app_assoc_s. cbn [append]. rewrite !app_assoc_s. reflexivity.
  - exists (b ++ String "/" (String "L" (dec level ++ String "X" (dec x ++ String "Y" (dec y))))).
    split; [| reflexivity].
    rewrite rel_path_LXY. unfold join. rewrite !app_assoc_s. cbn [append].
    rewrite !app_assoc_s. cbn [append]. rewrite !app_assoc_s. reflexivity.
Qed.

(* the extension contains no "." and no "/" : FileType is exactly the suffix from the last dot *)
Lemma ext_plain f : forall c, c = "."%char \/ c = "/"%char -> String.index 0 (String c EmptyString) (ext_of f) = None.
Proof. intros c [-> | ->]; destruct f; reflexivity. Qed.
