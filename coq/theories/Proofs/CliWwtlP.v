(* cli.tile_wwtl_impl as TRANSLATED from toasty/cli.py on every build (Generated/CliWwtlSrc.v;
   harness/py2coq.py; assigned method calls are recorded as events) behaves like the hand-written
   model (Model/CliScript.v) under every valuation of its settings; in the model the layer file is
   loaded on every path and first, the name the user gave is set, and the WTML is written last,
   after the name, by the builder that did the tiling. *)
From Coq Require Import ZArith String List Bool.
From Toasty Require Import Model.SrcPrelude Model.CliScript.
From Toasty Require Import Generated.CliWwtlSrc.
Import ListNotations.
Local Open Scope string_scope.

Lemma src_tile_wwtl_impl_eq (is_none : sval unit -> bool) (eq_lit : sval unit -> string -> bool) (is_true : sval unit -> bool) :
  run_tree is_none eq_lit is_true src_cli_tile_wwtl_impl = tile_wwtl_impl_model is_true.
Proof.
  unfold tile_wwtl_impl_model. cbn.
  destruct (is_true (setting "placeholder_thumbnail")) eqn:E; unfold setting in E; rewrite E; reflexivity.
Qed.

Lemma wwtl_order (is_true : sval unit -> bool) :
  exists e1 e2 e3 e4, tile_wwtl_impl_model is_true = (true, [e1; e2; e3; e4]) /\
    e1 = SMethod ww_builder "load_from_wwtl" [SName "settings"; setting "wwtl_path"] [("cli_progress", SB true)] /\
    (call_name e2 = "make_placeholder_thumbnail" \/ call_name e2 = "make_thumbnail_from_other") /\
    e3 = SMethod ww_builder "set_name" [setting "name"] [] /\
    e4 = SMethod ww_builder "write_index_rel_wtml" [] [] /\
    call_recv e2 = Some ww_builder.
Proof.
  unfold tile_wwtl_impl_model. do 4 eexists. split; [reflexivity|].
  destruct (is_true (setting "placeholder_thumbnail")); repeat split; auto.
Qed.

(* the thumbnail is a placeholder exactly when asked; otherwise it is made from the image the load returned *)
Lemma wwtl_thumbnail (is_true : sval unit -> bool) :
  nth_error (snd (tile_wwtl_impl_model is_true)) 1 =
  Some (if is_true (setting "placeholder_thumbnail")
        then SMethod ww_builder "make_placeholder_thumbnail" [] []
        else SMethod ww_builder "make_thumbnail_from_other"
               [SCallA "load_from_wwtl" ww_builder [SName "settings"; setting "wwtl_path"] [("cli_progress", SB true)]] []).
Proof. reflexivity. Qed.
